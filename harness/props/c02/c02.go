// Package c02 checks property C02 of watermill's message.Router:
//
//	For every message a Router takes from a subscriber it invokes the handler chain and afterwards
//	settles the message exactly once: Ack if and only if the chain returned no error and every
//	message it returned was accepted by the handler's publisher; Nack if it returned an error,
//	panicked, or publishing failed or panicked. The Ack is never sent before the publish call has
//	returned successfully, messages returned together with an error are not published, and a
//	settlement the handler made itself is never overridden.
//
// Technique: runtime monitoring. A real Router runs between a scripted subscriber (vlib.Sub) and a
// scripted publisher (vlib.Pub); every boundary crossing (emission, handler entry/exit, Publish
// entry/exit, settlement) is recorded and each execution is judged against a reference function
// (expect) derived from the statement.
package c02

import (
	"context"
	"errors"
	"fmt"
	"runtime"
	"sort"
	"strconv"
	"strings"
	"sync"
	"time"

	"github.com/ThreeDotsLabs/watermill"
	"github.com/ThreeDotsLabs/watermill/message"

	"verifharness/vlib"
)

// ---------------------------------------------------------------------------------------------
// The input space

// hbeh is one handler behaviour.
type hbeh struct {
	Name string
	Pre  string // settlement the handler makes itself: "", "ack", "nack", "acknack" (Ack then Nack: first wins)
	Outs int    // number of messages returned; -1 = nil slice, 0 = empty non-nil slice
	End  string // "ok", "err", "err-canceled" (context.Canceled, which the Router logs differently), "err-wrapped-canceled", "panic-str", "panic-err", "panic-nil"
}

var hbehs = []hbeh{
	{"ret-nil", "", -1, "ok"},
	{"ret-empty", "", 0, "ok"},
	{"ret-1", "", 1, "ok"},
	{"ret-3", "", 3, "ok"},
	{"err", "", -1, "err"},
	{"err+1", "", 1, "err"},
	{"err+3", "", 3, "err"},
	{"err-canceled", "", -1, "err-canceled"},
	{"err-wrapped-canceled+1", "", 1, "err-wrapped-canceled"},
	{"panic-str", "", -1, "panic-str"},
	{"panic-err", "", -1, "panic-err"},
	{"panic-nil", "", -1, "panic-nil"},
	{"ack-ok0", "ack", -1, "ok"},
	{"ack-ok1", "ack", 1, "ok"},
	{"ack-err", "ack", -1, "err"},
	{"ack-err+1", "ack", 1, "err"},
	{"ack-panic", "ack", -1, "panic-str"},
	{"nack-ok0", "nack", -1, "ok"},
	{"nack-ok1", "nack", 1, "ok"},
	{"nack-ok3", "nack", 3, "ok"},
	{"nack-err", "nack", -1, "err"},
	{"nack-err+1", "nack", 1, "err"},
	{"nack-panic", "nack", -1, "panic-err"},
	{"acknack-ok1", "acknack", 1, "ok"},
}

// hbehsNoOut: behaviours expressible by a NoPublishHandlerFunc (it can only return an error).
var hbehsNoOut = func() []int {
	var o []int
	for i, h := range hbehs {
		if h.Outs == -1 {
			o = append(o, i)
		}
	}
	return o
}()

// publisher behaviours
// "error-once": only the first Publish call made for a message is rejected; further calls for the same message (there are none
// when the outputs are published in one call) would be accepted
var pbehs = []string{"accept", "error", "panic-str", "panic-nil", "error-once"}

// handler kinds
const (
	kindPub    = "pub"    // AddHandler with the scripted publisher
	kindNoPub  = "nopub"  // AddNoPublisherHandler (NoPublishHandlerFunc; outputs can only come from a middleware)
	kindNilPub = "nilpub" // AddHandler with a nil publisher (router.go: "if h.publisher == nil { return ErrOutputInNoPublisherHandler }")
)

// middleware prefixes. "pass" forwards unchanged, "add" appends one message to whatever the inner
// handler returned (keeping its error), "swallow" turns an error into success keeping the messages,
// "fail" turns success into an error keeping the messages, "recover" turns a panic into an error.
// "-r" = router level (Router.AddMiddleware), "-h" = handler level (Handler.AddMiddleware).
var mwMatrix = [][]string{
	nil,
	{"pass-r"},
	{"pass-h"},
	{"add-r"},
	{"add-h"},
	{"pass-r", "swallow-h", "pass-h"},
	{"fail-r"},
	{"recover-h"},
}

type cell struct {
	Kind string
	H    int
	P    int
	MW   []string
}

var cells = func() []cell {
	var cs []cell
	for _, mw := range mwMatrix {
		for h := range hbehs {
			for p := range pbehs {
				cs = append(cs, cell{kindPub, h, p, mw})
			}
			cs = append(cs, cell{kindNilPub, h, 0, mw})
		}
		for _, h := range hbehsNoOut {
			cs = append(cs, cell{kindNoPub, h, 0, mw})
		}
	}
	return cs
}()

func matrixCases() int { return 2 * len(cells) }

func init() {
	vlib.Register(&vlib.Prop{
		ID:    "C02",
		Level: "fault_enumeration",
		Cases: func(tier string) int { return matrixCases() + vlib.TierN(tier, 2000, 500000) },
		Rule: fmt.Sprintf("matrix part: %d cells = {%d handler behaviours: returns nil/empty/1/3 messages, error, error+1/3 messages, panic(string|error|nil), "+
			"context.Canceled (bare/wrapped), Ack-then-{ok,ok+msg,err,err+msg,panic}, Nack-then-{ok,ok+1/3 msgs,err,err+msg,panic}, Ack-then-Nack} x {publisher: accept,error,panic(string),panic(nil),error on the first call for a message only} x "+
			"{AddHandler+publisher, AddNoPublisherHandler, AddHandler+nil publisher} x {%d middleware prefixes: none, pass-through (router/handler level), output-adding "+
			"(router/handler level), error-swallowing, failing, panic-recovering}; every cell is run once with 1 message and once with 2..16 messages held in the handler "+
			"at the same time by a barrier. Random part: one Router/handler per case, 1..16 messages with independently drawn handler and publisher behaviours, random kind, "+
			"0..3 middlewares, barrier or free-running, random yields at watermill's verifhook points and inside the handler. A case is non-trivial when every emitted message "+
			"was taken, handled and judged (and, for multi-message barrier cases, >=2 handlers were observed in flight together); distinct = distinct "+
			"(cell, multiplicity) for the matrix, distinct (kind, middleware, per-message behaviours, settlement order) for random batches.", len(cells), len(hbehs), len(mwMatrix)),
		Assumptions: []string{
			"panic(nil) follows the Go >= 1.21 semantics of the harness module (recover() returns *runtime.PanicNilError)",
			"a message counts as taken by the Router when the scripted subscriber's channel send completed (it was received by the Router's subscriber decorator)",
			"published messages are matched with the returned ones by their (unique) UUID and compared by value; pointer identity is recorded as a counter only, because the statement does not promise it",
			"splitting the outputs over several Publish calls is tolerated (the statement only says every returned message was accepted); an empty Publish call is not",
			"'never settles' is decided by process quiescence (all goroutines blocked, no timer pending), never by a time-out; RouterConfig.CloseTimeout is one hour",
		},
		Run: run,
	})
}

// ---------------------------------------------------------------------------------------------
// Case construction

type mspec struct {
	H  int `json:"h"`
	P  int `json:"p"`
	Y1 int `json:"-"`
	Y2 int `json:"-"`
}

type config struct {
	Class   string
	Kind    string
	MW      []string
	Barrier bool
	YieldP  float64
	Specs   []mspec
}

func run(e *vlib.Env) vlib.Result {
	if e.Idx < matrixCases() {
		c := cells[e.Idx/2]
		multi := e.Idx%2 == 1
		n := 1
		class := "matrix/1"
		if multi {
			n = e.R.Range(2, 16)
			class = "matrix/n"
		}
		cfg := config{Class: class, Kind: c.Kind, MW: c.MW, Barrier: multi}
		if multi {
			cfg.YieldP = 0.3 // perturb the concurrent handleMessage goroutines at watermill's hook points
		}
		for i := 0; i < n; i++ {
			cfg.Specs = append(cfg.Specs, mspec{H: c.H, P: c.P, Y1: e.R.Intn(3), Y2: e.R.Intn(3)})
		}
		res := runBatch(e, cfg)
		res.Sig = vlib.Sig("matrix", e.Idx/2, multi)
		return res
	}
	// random batch
	cfg := config{Class: "random"}
	switch k := e.R.Intn(10); {
	case k < 6:
		cfg.Kind = kindPub
	case k < 8:
		cfg.Kind = kindNilPub
	default:
		cfg.Kind = kindNoPub
	}
	cfg.Class = "random/" + cfg.Kind
	cfg.MW = randomMW(e.R)
	n := 1 + e.R.Intn(16)
	cfg.Barrier = n > 1 && e.R.Chance(0.7)
	cfg.YieldP = []float64{0, 0.1, 0.3, 0.6}[e.R.Intn(4)]
	for i := 0; i < n; i++ {
		s := mspec{H: e.R.Intn(len(hbehs)), P: e.R.Intn(len(pbehs)), Y1: e.R.Intn(4), Y2: e.R.Intn(4)}
		if cfg.Kind == kindNoPub {
			s.H = hbehsNoOut[e.R.Intn(len(hbehsNoOut))]
		}
		if e.R.Chance(0.4) {
			s.P = 0 // keep enough accepting publishers for the Ack-after-Publish path
		}
		cfg.Specs = append(cfg.Specs, s)
	}
	return runBatch(e, cfg)
}

// randomMW: any number of pass-through middlewares around at most one transforming middleware, so
// that the expected chain result does not depend on the nesting order (which is another property).
func randomMW(r *vlib.Rand) []string {
	lvl := func() string {
		if r.Bool() {
			return "-r"
		}
		return "-h"
	}
	var mw []string
	for i := r.Intn(2); i > 0; i-- {
		mw = append(mw, "pass"+lvl())
	}
	switch r.Intn(8) {
	case 0, 1:
		mw = append(mw, "add"+lvl())
	case 2:
		mw = append(mw, "swallow"+lvl())
	case 3:
		mw = append(mw, "fail"+lvl())
	case 4:
		mw = append(mw, "recover"+lvl())
	}
	for i := r.Intn(2); i > 0; i-- {
		mw = append(mw, "pass"+lvl())
	}
	return mw
}

// ---------------------------------------------------------------------------------------------
// Reference function

type expectation struct {
	Self     string // settlement made by the handler itself ("" if none)
	ChainErr bool   // the chain returned an error or panicked
	NOuts    int    // number of messages the chain returned (only meaningful for the publish decision when !ChainErr)
	Publish  bool   // the publisher must be called
	Final    string // "ack" | "nack"
}

func transformer(mw []string) string {
	for _, m := range mw {
		if !strings.HasPrefix(m, "pass") {
			return m[:strings.IndexByte(m, '-')]
		}
	}
	return ""
}

// expect is the oracle's model of the statement.
func expect(kind string, mw []string, h hbeh, pb string) expectation {
	var x expectation
	switch h.Pre {
	case "ack", "acknack":
		x.Self = "ack"
	case "nack":
		x.Self = "nack"
	}
	outs := 0
	if h.Outs > 0 && kind != kindNoPub {
		outs = h.Outs
	}
	panicked := strings.HasPrefix(h.End, "panic")
	failed := strings.HasPrefix(h.End, "err")
	if panicked {
		outs = 0
	}
	switch transformer(mw) {
	case "add":
		if !panicked {
			outs++
		}
	case "swallow":
		if !panicked {
			failed = false
		}
	case "fail":
		if !panicked {
			failed = true
		}
	case "recover":
		if panicked {
			panicked, failed = false, true
		}
	}
	x.ChainErr = panicked || failed
	x.NOuts = outs
	x.Publish = !x.ChainErr && outs > 0 && kind == kindPub
	success := !x.ChainErr && (outs == 0 || (kind == kindPub && pb == "accept"))
	switch {
	case x.Self != "":
		x.Final = x.Self // "a settlement the handler made itself is never overridden"
	case success:
		x.Final = "ack"
	default:
		x.Final = "nack"
	}
	return x
}

// ---------------------------------------------------------------------------------------------
// Monitor state

type outRec struct {
	uuid string
	ptr  *message.Message
	snap vlib.MsgSnap
}

type msgRec struct {
	in         *message.Message
	uuid       string
	sent       bool // Send returned
	taken      bool // Send returned true
	entries    int
	entryState string
	exitState  string
	exited     int
	samePtr    bool
	selfRet    []bool
	outs       []outRec // messages the chain returned for this message, in return order (handler outputs, then middleware extras)
	goid       int64
	seen       string // settlement observed by the watcher
	seenStamp  uint64
}

type pubRec struct {
	no       int
	topic    string
	uuids    []string
	ptrs     []*message.Message
	owner    int
	byGoid   bool
	valueOK  bool
	stateIn  string
	stateOut string
	endStamp uint64
	outcome  string
}

type state struct {
	pubCallsOf map[int]int // message index -> Publish calls made for it so far (behaviour "error-once")
	id  string
	cfg config

	mu          sync.Mutex
	recs        []*msgRec
	byUUID      map[string]int
	ownerPtr    map[*message.Message]int
	ownerUUID   map[string]int
	byGoid      map[int64]int
	pubs        map[int]*pubRec
	unknown     []string
	entered     int
	inflight    int
	maxInflight int
	settled     int

	barrier     chan struct{}
	barrierOnce sync.Once
}

func (st *state) releaseBarrier() { st.barrierOnce.Do(func() { close(st.barrier) }) }

func goid() int64 {
	var buf [64]byte
	n := runtime.Stack(buf[:], false)
	f := strings.Fields(string(buf[:n]))
	if len(f) < 2 {
		return -1
	}
	id, err := strconv.ParseInt(f[1], 10, 64)
	if err != nil {
		return -1
	}
	return id
}

func yield(n int) {
	for i := 0; i < n; i++ {
		runtime.Gosched()
	}
}

var errScriptedHandler = errors.New("c02: scripted handler error")
var errScriptedPublish = errors.New("c02: scripted publish error")
var errScriptedMW = errors.New("c02: scripted middleware error")

// handle is the innermost handler function.
func (st *state) handle(m *message.Message) ([]*message.Message, error) {
	st.mu.Lock()
	i, ok := st.byUUID[m.UUID]
	if !ok {
		st.unknown = append(st.unknown, m.UUID)
		st.mu.Unlock()
		return nil, nil
	}
	r := st.recs[i]
	sp := st.cfg.Specs[i]
	h := hbehs[sp.H]
	r.entries++
	entry := r.entries
	if entry == 1 {
		r.entryState = vlib.Settled(m)
		r.samePtr = m == r.in
		r.goid = goid()
		st.byGoid[r.goid] = i
	}
	st.inflight++
	if st.inflight > st.maxInflight {
		st.maxInflight = st.inflight
	}
	st.entered++
	if st.entered >= len(st.recs) {
		st.releaseBarrier()
	}
	st.mu.Unlock()

	if st.cfg.Barrier {
		<-st.barrier
	}
	yield(sp.Y1)
	var selfRet []bool
	switch h.Pre {
	case "ack":
		selfRet = append(selfRet, m.Ack())
	case "nack":
		selfRet = append(selfRet, m.Nack())
	case "acknack":
		selfRet = append(selfRet, m.Ack(), m.Nack())
	}
	yield(sp.Y2)

	var outs []*message.Message
	if h.Outs == 0 {
		outs = []*message.Message{}
	}
	panics := strings.HasPrefix(h.End, "panic")
	if h.Outs > 0 && st.cfg.Kind != kindNoPub && !panics {
		for k := 0; k < h.Outs; k++ {
			o := message.NewMessage(fmt.Sprintf("%s-o%d-e%d", m.UUID, k, entry), []byte(fmt.Sprintf("out %d of %s", k, m.UUID)))
			o.Metadata.Set("from", m.UUID)
			outs = append(outs, o)
		}
	}
	st.mu.Lock()
	if entry == 1 {
		r.selfRet = selfRet
		r.exitState = vlib.Settled(m)
	}
	r.exited++
	for _, o := range outs {
		st.registerOut(i, o)
	}
	st.inflight--
	st.mu.Unlock()

	switch h.End {
	case "ok":
		return outs, nil
	case "err":
		return outs, errScriptedHandler
	case "err-canceled":
		return outs, context.Canceled
	case "err-wrapped-canceled":
		return outs, fmt.Errorf("c02: scripted handler error: %w", context.Canceled)
	case "panic-str":
		panic("c02: scripted handler panic")
	case "panic-err":
		panic(errors.New("c02: scripted handler panic (error value)"))
	default:
		var v any
		panic(v) // panic(nil)
	}
}

// registerOut records (under st.mu) that o is returned by the chain for message i.
func (st *state) registerOut(i int, o *message.Message) {
	st.recs[i].outs = append(st.recs[i].outs, outRec{uuid: o.UUID, ptr: o, snap: vlib.Snap(o)})
	st.ownerPtr[o] = i
	st.ownerUUID[o.UUID] = i
}

// middleware builds one scripted middleware (see mwMatrix).
func (st *state) middleware(name string) message.HandlerMiddleware {
	kind := name[:strings.IndexByte(name, '-')]
	return func(next message.HandlerFunc) message.HandlerFunc {
		switch kind {
		case "add":
			return func(m *message.Message) ([]*message.Message, error) {
				outs, err := next(m)
				x := message.NewMessage(m.UUID+"-x", []byte("added by middleware"))
				st.mu.Lock()
				if i, ok := st.byUUID[m.UUID]; ok {
					x.UUID = fmt.Sprintf("%s-x%d", m.UUID, len(st.recs[i].outs))
					st.registerOut(i, x)
				}
				st.mu.Unlock()
				res := make([]*message.Message, 0, len(outs)+1)
				res = append(res, outs...)
				return append(res, x), err
			}
		case "swallow":
			return func(m *message.Message) ([]*message.Message, error) {
				outs, _ := next(m)
				return outs, nil
			}
		case "fail":
			return func(m *message.Message) ([]*message.Message, error) {
				outs, err := next(m)
				if err == nil {
					err = errScriptedMW
				}
				return outs, err
			}
		case "recover":
			return func(m *message.Message) (outs []*message.Message, err error) {
				defer func() {
					if r := recover(); r != nil {
						outs, err = nil, fmt.Errorf("c02: recovered: %v", r)
					}
				}()
				return next(m)
			}
		default: // pass
			return func(m *message.Message) ([]*message.Message, error) { return next(m) }
		}
	}
}

func (st *state) onPublish(c *vlib.PubCall) {
	g := goid()
	st.mu.Lock()
	defer st.mu.Unlock()
	pr := &pubRec{no: c.No, topic: c.Topic, ptrs: c.Msgs, owner: -1, valueOK: true}
	owners := map[int]bool{}
	for _, m := range c.Msgs {
		pr.uuids = append(pr.uuids, m.UUID)
		if o, ok := st.ownerPtr[m]; ok {
			owners[o] = true
		} else if o, ok := st.ownerUUID[m.UUID]; ok {
			owners[o] = true
		} else {
			owners[-1] = true
		}
	}
	if len(owners) == 1 {
		for o := range owners {
			pr.owner = o
		}
	} else if len(c.Msgs) == 0 {
		if o, ok := st.byGoid[g]; ok {
			pr.owner, pr.byGoid = o, true
		}
	}
	if pr.owner >= 0 {
		r := st.recs[pr.owner]
		pr.stateIn = vlib.Settled(r.in)
		for _, m := range c.Msgs {
			for _, o := range r.outs {
				if o.uuid == m.UUID && !o.snap.SameValue(m) {
					pr.valueOK = false
				}
			}
		}
	}
	st.pubs[c.No] = pr
}

func (st *state) script(no int, topic string, msgs []*message.Message) error {
	st.mu.Lock()
	pr := st.pubs[no]
	beh := "accept"
	if pr != nil && pr.owner >= 0 {
		beh = pbehs[st.cfg.Specs[pr.owner].P]
		pr.stateOut = vlib.Settled(st.recs[pr.owner].in)
	}
	if beh == "error-once" {
		if st.pubCallsOf == nil {
			st.pubCallsOf = map[int]int{}
		}
		st.pubCallsOf[pr.owner]++
		if st.pubCallsOf[pr.owner] > 1 {
			beh = "accept"
		}
	}
	if pr != nil {
		pr.outcome = beh
		pr.endStamp = vlib.Now()
	}
	st.mu.Unlock()
	switch beh {
	case "error-once":
		return errScriptedPublish
	case "error":
		// the error value must not matter: plain, context.Canceled and a wrapper of it (the Router treats
		// context.Canceled specially when it logs handler errors)
		switch no % 3 {
		case 1:
			return context.Canceled
		case 2:
			return fmt.Errorf("c02: scripted publish failure: %w", context.Canceled)
		}
		return errScriptedPublish
	case "panic-str":
		panic("c02: scripted publisher panic")
	case "panic-nil":
		var v any
		panic(v)
	}
	return nil
}

// ---------------------------------------------------------------------------------------------
// One execution

var waitClose = vlib.WaitOpts{Watchdog: 60 * time.Second, NoTimerCheck: []string{"pubsub/sync.WaitGroupTimeout"}}

func runBatch(e *vlib.Env, cfg config) (res vlib.Result) {
	res.Class = cfg.Class
	id := e.ID()
	n := len(cfg.Specs)
	st := &state{
		id: id, cfg: cfg,
		byUUID: map[string]int{}, ownerPtr: map[*message.Message]int{}, ownerUUID: map[string]int{},
		byGoid: map[int64]int{}, pubs: map[int]*pubRec{}, barrier: make(chan struct{}),
	}
	for i := 0; i < n; i++ {
		u := fmt.Sprintf("%s-m%d", id, i)
		m := message.NewMessage(u, []byte("in "+u))
		m.Metadata.Set("n", strconv.Itoa(i))
		st.recs = append(st.recs, &msgRec{in: m, uuid: u})
		st.byUUID[u] = i
	}
	topicIn, topicOut, hname := id+".in", id+".out", id+".h"

	ctl := vlib.NewCtl(e.R.Uint64(), cfg.YieldP, 30)
	ctl.Filter(func(point, a, b string) bool { return a == "" || strings.HasPrefix(a, id) })
	defer ctl.Uninstall()

	sub := &vlib.Sub{Name: id}
	pub := &vlib.Pub{Name: id, OnPublish: st.onPublish, Script: st.script}
	router, err := message.NewRouter(message.RouterConfig{CloseTimeout: time.Hour}, watermill.NopLogger{})
	if err != nil {
		res.Inconclusive("NewRouter: %v", err)
		return res
	}
	var hd *message.Handler
	switch cfg.Kind {
	case kindPub:
		hd = router.AddHandler(hname, topicIn, sub, topicOut, pub, st.handle)
	case kindNilPub:
		hd = router.AddHandler(hname, topicIn, sub, topicOut, nil, st.handle)
	default:
		hd = router.AddNoPublisherHandler(hname, topicIn, sub, func(m *message.Message) error {
			_, err := st.handle(m)
			return err
		})
	}
	for _, name := range cfg.MW {
		if strings.HasSuffix(name, "-r") {
			router.AddMiddleware(st.middleware(name))
		} else {
			hd.AddMiddleware(st.middleware(name))
		}
	}

	runDone := make(chan struct{})
	var runErr error
	go func() { runErr = router.Run(context.Background()); close(runDone) }()

	stop := make(chan struct{})
	var aux sync.WaitGroup
	closeStarted := false
	closeDone := make(chan struct{})
	cleanup := func() (clean bool) {
		st.releaseBarrier()
		if !closeStarted {
			closeStarted = true
			go func() { router.Close(); close(closeDone) }()
		}
		clean = true
		if oc, _ := vlib.WaitClosed(closeDone, waitClose); oc != vlib.Done {
			clean = false
		}
		if oc, _ := vlib.WaitClosed(runDone, waitClose); oc != vlib.Done {
			clean = false
		}
		close(stop)
		auxDone := make(chan struct{})
		go func() { aux.Wait(); close(auxDone) }()
		if oc, _ := vlib.WaitClosed(auxDone, waitClose); oc != vlib.Done {
			clean = false
		}
		return clean
	}

	if oc, d := vlib.WaitClosed(router.Running(), vlib.WD); oc != vlib.Done {
		res.Inconclusive("router did not reach Running: %v", oc)
		res.Witness = d
		cleanup()
		return res
	}
	sp := sub.SubFor(topicIn)
	if sp == nil {
		res.Inconclusive("router is running but did not subscribe to %s", topicIn)
		cleanup()
		return res
	}

	// watchers: stamp the settlement of every emitted message when it becomes visible
	for i := range st.recs {
		aux.Add(1)
		go func(i int) {
			defer aux.Done()
			m := st.recs[i].in
			var what string
			select {
			case <-m.Acked():
				what = "ack"
			case <-m.Nacked():
				what = "nack"
			case <-stop:
				return
			}
			s := vlib.Now()
			st.mu.Lock()
			st.recs[i].seen, st.recs[i].seenStamp = what, s
			st.settled++
			st.mu.Unlock()
		}(i)
	}
	// sender: emits the messages one after another (the Router takes the next one without waiting for a settlement)
	aux.Add(1)
	go func() {
		defer aux.Done()
		for i := range st.recs {
			ok := sp.Send(st.recs[i].in)
			st.mu.Lock()
			st.recs[i].sent, st.recs[i].taken = true, ok
			st.mu.Unlock()
			if !ok {
				return
			}
		}
	}()

	allSettled := func() bool {
		st.mu.Lock()
		defer st.mu.Unlock()
		if st.settled < n {
			return false
		}
		for _, r := range st.recs {
			if !r.sent {
				return false
			}
		}
		return true
	}
	barrierAborted := false
	var stuckDump string
	oc, d := vlib.WaitUntil(allSettled, vlib.WD)
	if oc == vlib.Stuck && cfg.Barrier {
		st.mu.Lock()
		waiting := st.entered < n
		st.mu.Unlock()
		if waiting {
			// fewer than n handlers could be brought in flight together: concurrency is not part of what the
			// statement promises, so let the ones that are waiting go on and judge the rest as a free-running case.
			barrierAborted = true
			st.releaseBarrier()
			oc, d = vlib.WaitUntil(allSettled, vlib.WD)
		}
	}
	switch oc {
	case vlib.Stuck:
		stuckDump = d
	case vlib.Inconclusive:
		res.Inconclusive("messages were not all settled before the watchdog and the process was never quiescent")
		res.Witness = d
		cleanup()
		return res
	}
	clean := cleanup()

	// ---------------------------------------------------------------- judge
	st.mu.Lock()
	defer st.mu.Unlock()
	res.Hooks = ctl.Counts()
	calls := pub.Calls()
	type msgOut struct {
		H      string   `json:"handler"`
		P      string   `json:"publisher"`
		Want   string   `json:"want"`
		Got    string   `json:"got"`
		AtExit string   `json:"state_at_handler_exit"`
		Pubs   []string `json:"publish_calls,omitempty"`
	}
	var sample []msgOut
	pubsOf := map[int][]*pubRec{}
	var nos []int
	for no := range st.pubs {
		nos = append(nos, no)
	}
	sort.Ints(nos)
	for _, no := range nos {
		pr := st.pubs[no]
		pubsOf[pr.owner] = append(pubsOf[pr.owner], pr)
		res.Count("publish_calls", 1)
		res.Count("publish_"+pr.outcome, 1)
		res.Events += 2
		same := true
		if pr.owner >= 0 {
			for _, p := range pr.ptrs {
				if o, ok := st.ownerPtr[p]; !ok || o != pr.owner {
					same = false
				}
			}
		}
		if same {
			res.Count("publish_calls_same_pointers", 1)
		}
	}
	if len(calls) != len(st.pubs) {
		res.Inconclusive("harness: %d Publish calls recorded by the publisher, %d by the monitor", len(calls), len(st.pubs))
	}
	if len(st.unknown) > 0 {
		res.Fail("handler-unknown-message", "the handler was invoked with messages the subscriber never emitted: %v", st.unknown)
	}
	if prs := pubsOf[-1]; len(prs) > 0 {
		pr := prs[0]
		if len(pr.uuids) == 0 {
			res.Fail("publish-empty", "Publish(%q) was called with no messages (call #%d)", pr.topic, pr.no)
		} else {
			res.Fail("publish-unattributed", "Publish call #%d carries messages that are not the outputs of exactly one handled message: %v", pr.no, pr.uuids)
		}
	}
	judged := 0
	var order []string
	type so struct {
		i int
		s uint64
	}
	var sos []so
	for i, r := range st.recs {
		spc := cfg.Specs[i]
		h := hbehs[spc.H]
		x := expect(cfg.Kind, cfg.MW, h, pbehs[spc.P])
		got := vlib.Settled(r.in)
		prs := pubsOf[i]
		if i < 4 {
			mo := msgOut{H: h.Name, P: pbehs[spc.P], Want: x.Final, Got: got, AtExit: r.exitState}
			for _, pr := range prs {
				mo.Pubs = append(mo.Pubs, fmt.Sprintf("#%d %s %d msgs -> %s (consumed message: %q at entry, %q before return)", pr.no, pr.topic, len(pr.uuids), pr.outcome, pr.stateIn, pr.stateOut))
			}
			sample = append(sample, mo)
		}
		res.Events++ // emission
		if !r.taken {
			res.Count("not_taken", 1)
			continue
		}
		judged++
		res.Count("messages", 1)
		res.Events += 2*r.entries + 1
		desc := fmt.Sprintf("message %d/%d (handler=%s publisher=%s kind=%s middleware=%v)", i, n, h.Name, pbehs[spc.P], cfg.Kind, cfg.MW)

		// --- the handler chain is invoked (once) before the settlement
		if r.entries != 1 {
			if r.entries == 0 && got == "" && stuckDump != "" {
				res.Fail("settles", "%s: taken from the subscriber but never handled nor settled (process quiescent)", desc)
				res.Witness = stuckDump
			} else {
				res.Fail("handler-calls", "%s: handler chain invoked %d times (settled %q)", desc, r.entries, got)
			}
			continue
		}
		if r.entryState != "" {
			res.Fail("settled-before-handler", "%s: message already %sed when the handler was entered", desc, r.entryState)
		}
		if r.exited > 0 && r.exitState != x.Self {
			res.Fail("settled-before-handler-exit", "%s: at handler exit the message is %q, the handler itself made it %q", desc, r.exitState, x.Self)
		}
		for k, ok := range r.selfRet {
			if ok != (k == 0) {
				res.Fail("self-settlement", "%s: settlement call %d inside the handler returned %v", desc, k, ok)
			}
		}
		if x.Self != "" {
			res.Count("self_settled", 1)
		}
		if x.ChainErr {
			res.Count("chain_failures", 1)
		}

		// --- publishing
		var exp []string
		for _, o := range r.outs {
			exp = append(exp, o.uuid)
		}
		if !x.ChainErr && len(exp) != x.NOuts {
			res.Inconclusive("harness: %s: chain returned %d messages, model says %d", desc, len(exp), x.NOuts)
		}
		for _, pr := range prs {
			if x.Self != "ack" {
				ackSeenEarly := r.seen == "ack" && pr.endStamp != 0 && r.seenStamp < pr.endStamp
				if pr.stateIn == "ack" || pr.stateOut == "ack" || ackSeenEarly {
					res.Fail("ack-before-publish", "%s: the consumed message was already acked while Publish call #%d had not returned (state at entry %q, before return %q, ack observed at %d, publish returned at %d)",
						desc, pr.no, pr.stateIn, pr.stateOut, r.seenStamp, pr.endStamp)
				}
			}
			if len(pr.uuids) == 0 {
				res.Fail("publish-empty", "%s: Publish(%q) was called with no messages", desc, pr.topic)
			}
		}
		if len(prs) > 0 && x.ChainErr {
			res.Fail("publish-after-error", "%s: the chain failed but %d Publish call(s) were made with %v", desc, len(prs), prs[0].uuids)
		} else if len(prs) > 0 && !x.Publish {
			res.Fail("publish-unexpected", "%s: no publish expected but %d call(s) were made", desc, len(prs))
		}
		if x.Publish {
			res.Count("publish_expected", 1)
			var concat []string
			for _, pr := range prs {
				concat = append(concat, pr.uuids...)
				if pr.topic != topicOut {
					res.Fail("publish-topic", "%s: published to %q, handler's publish topic is %q", desc, pr.topic, topicOut)
				}
				if !pr.valueOK {
					res.Fail("publish-args", "%s: a published message differs in value from the one the chain returned", desc)
				}
			}
			switch {
			case len(prs) == 0:
				res.Fail("publish-missing", "%s: the chain returned %d messages without error but Publish was never called (message %q)", desc, len(exp), got)
			case pbehs[spc.P] == "accept":
				if strings.Join(concat, ",") != strings.Join(exp, ",") {
					res.Fail("publish-args", "%s: published %v, the chain returned %v", desc, concat, exp)
				}
			default:
				// the publisher rejects every call for this message: which of the outputs were offered, and in how many
				// calls, is not constrained by the statement (docs: "It may end up producing only some messages and sending
				// msg.Nack()"); attribution already guarantees that only this message's outputs were offered.
			}
		}

		// --- settlement
		acked, nacked := vlib.IsClosed(r.in.Acked()), vlib.IsClosed(r.in.Nacked())
		switch {
		case acked && nacked:
			res.Fail("both-settled", "%s: both Acked() and Nacked() are closed", desc)
		case got == "":
			if stuckDump != "" {
				res.Fail("settles", "%s: handled but neither acked nor nacked and the process is quiescent (want %s)", desc, x.Final)
				res.Witness = stuckDump
			} else {
				res.Inconclusive("harness: %s unsettled without a quiescence verdict", desc)
			}
		case got != x.Final && x.Self != "":
			res.Fail("self-settlement-overridden", "%s: the handler %sed the message itself, final state is %s", desc, x.Self, got)
		case got != x.Final && got == "ack":
			res.Fail("ack-on-failure", "%s: message was acked, want nack (chain failed: %v, outputs: %d, publish expected: %v)", desc, x.ChainErr, x.NOuts, x.Publish)
		case got != x.Final:
			res.Fail("nack-on-success", "%s: message was nacked, want ack (chain failed: %v, outputs: %d, publish expected: %v)", desc, x.ChainErr, x.NOuts, x.Publish)
		}
		if got == "ack" {
			res.Count("acked", 1)
		} else if got == "nack" {
			res.Count("nacked", 1)
		}
		if r.samePtr {
			res.Count("handler_got_emitted_pointer", 1)
		}
		sos = append(sos, so{i, r.seenStamp})
	}
	sort.Slice(sos, func(a, b int) bool { return sos[a].s < sos[b].s })
	for _, s := range sos {
		order = append(order, strconv.Itoa(s.i))
	}
	res.Count("handlers_in_flight_max_sum", st.maxInflight)
	if barrierAborted {
		res.Count("barrier_aborted", 1)
	}
	if st.maxInflight >= 2 {
		res.Count("cases_with_overlap", 1)
	}
	if st.maxInflight >= 8 {
		res.Count("cases_with_8_in_flight", 1)
	}
	if !clean && res.Verdict == "" {
		res.Inconclusive("router Close/Run did not return after every message was settled (not judged by C02)")
		res.Witness = stuckDump
	}
	if clean && runErr != nil {
		res.Count("run_errors", 1)
	}
	res.NonTrivial = judged == n && (!cfg.Barrier || st.maxInflight >= 2)
	if cfg.Class != "matrix/1" && cfg.Class != "matrix/n" {
		var shape []string
		for _, s := range cfg.Specs {
			shape = append(shape, fmt.Sprintf("%d/%d", s.H, s.P))
		}
		res.Sig = vlib.Sig("random", cfg.Kind, cfg.MW, cfg.Barrier, shape, order)
	}
	res.Sample = map[string]any{
		"kind": cfg.Kind, "middleware": cfg.MW, "messages": n, "barrier": cfg.Barrier, "max_in_flight": st.maxInflight,
		"settlement_order": order, "first_messages": sample,
	}
	return res
}
