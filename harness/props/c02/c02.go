// Package c02 checks property C02 of watermill's message.Router:
//
//	For every message a Router takes from a subscriber it invokes the handler chain and afterwards
//	settles the message exactly once: Ack if and only if the chain returned no error and every
//	message it returned was accepted by the handler's publisher; Nack if it returned an error,
//	panicked, or publishing failed or panicked. The Ack is never sent before the publish call has
//	returned successfully, messages returned together with an error are not published, and a
//	settlement the handler made itself is never overridden.
//
// Technique: runtime monitoring. A real Router runs between a scripted subscriber (vlib.Sub) and a
// scripted publisher (vlib.Pub); every boundary crossing (emission, handler entry/exit, Publish
// entry/exit, settlement) is recorded and each execution is judged against a reference function
// (expect) derived from the statement.
//
// Workload classes: matrix/1, matrix/n, random/<kind> (one handler, messages finish while the Router is running);
// end-matrix/<mode>, random-end/<kind> (the handler's subscription ends - Handler.Stop, Router.Close, Run context
// cancelled, subscriber closes its channel - while messages are held inside the handler or inside Publish; they are
// let go only after the end has gone through the Router); multi-matrix/<pubmode>, random-multi/<pubmode> (several
// handlers with their own publisher instances, publisher/subscriber decorators on the Router: a message's settlement
// must follow the publisher of its own handler); names-matrix/<scheme>, random-names/<scheme> (several handlers whose
// names are unusual but legal - empty, blank, prefixes of each other, equal to topics, differing in case only, hostile
// strings - and whose chains differ: some handlers carry handler-level middlewares that change the outcome, others carry
// none, some are added to the running Router and started by RunHandlers; a message's settlement must follow the chain of
// its own handler = router-level middlewares + the middlewares added to THAT handler + its function);
// topics-matrix/<scheme>, topics-end/<scheme>, random-topics/<scheme> (1..4 handlers whose subscribe / publish topics are
// unusual but legal wiring values: "" as publish topic of a handler with a real publisher - what gochannel.FanOut
// builds -, "" as subscribe topic, topics equal across handlers, publish topic equal to the subscribe topic, blank,
// nearly equal, very long and hostile strings, topics equal to handler names; the same wiring values are also drawn
// for a fifth of the cases of the random classes above). The scripted publisher records the topic argument of every
// call: a Publish call made for a message is judged including the exact topic string (clause publish-topic).
// panic-matrix/<site>, random-panic/<kind> (panicvals.go: the handler function, a middleware of the chain or the publisher
// panics with values of every kind - numbers, bools, structs, pointers, slices, maps, funcs, channels, named types, Stringers,
// error values, nil, run-time errors, a second panic raised while the first one unwinds; every one of them is "panicked");
// async-matrix/<timing>, random-async/<kind> (async.go: the handler settles the message from a goroutine it started, before /
// exactly around / after the moment the chain returns and the Router sends its own settlement; many messages per case).
// errval-matrix/<site>, random-errval/<kind> (errvals.go: the handler function, a middleware of the chain or the publisher returns error
// values of every shape - plain, wrapped by %w / pkg/errors / Join / multierror, application types whose Cause() or Unwrap() is nil,
// typed nil pointers, non-comparable types, empty texts, Is/As methods that answer unusually; every one of them is "an error");
// buffered-matrix/<end>, random-buffered/<end> (buffered.go: the subscriber hands out a buffered channel that is filled ahead of the
// consumer and the subscription ends while messages sit in channel buffers between subscriber and handler; every message that is no
// longer in the subscriber's own channel must end up settled).
// The oracle is the same for all classes.
package c02

import (
	"context"
	"errors"
	"fmt"
	"runtime"
	"sort"
	"strconv"
	"strings"
	"sync"
	"sync/atomic"
	"time"

	"github.com/ThreeDotsLabs/watermill"
	"github.com/ThreeDotsLabs/watermill/message"

	"verifharness/vlib"
)

// ---------------------------------------------------------------------------------------------
// The input space

// hbeh is one handler behaviour.
type hbeh struct {
	Name string
	Pre  string // settlement the handler makes itself: "", "ack", "nack", "acknack" (Ack then Nack: first wins)
	Outs int    // number of messages returned; -1 = nil slice, 0 = empty non-nil slice
	End  string // "ok", "err", "err-canceled" (context.Canceled, which the Router logs differently), "err-wrapped-canceled", "panic-str", "panic-err", "panic-nil"
}

var hbehs = []hbeh{
	{"ret-nil", "", -1, "ok"},
	{"ret-empty", "", 0, "ok"},
	{"ret-1", "", 1, "ok"},
	{"ret-3", "", 3, "ok"},
	{"err", "", -1, "err"},
	{"err+1", "", 1, "err"},
	{"err+3", "", 3, "err"},
	{"err-canceled", "", -1, "err-canceled"},
	{"err-wrapped-canceled+1", "", 1, "err-wrapped-canceled"},
	{"panic-str", "", -1, "panic-str"},
	{"panic-err", "", -1, "panic-err"},
	{"panic-nil", "", -1, "panic-nil"},
	{"ack-ok0", "ack", -1, "ok"},
	{"ack-ok1", "ack", 1, "ok"},
	{"ack-err", "ack", -1, "err"},
	{"ack-err+1", "ack", 1, "err"},
	{"ack-panic", "ack", -1, "panic-str"},
	{"nack-ok0", "nack", -1, "ok"},
	{"nack-ok1", "nack", 1, "ok"},
	{"nack-ok3", "nack", 3, "ok"},
	{"nack-err", "nack", -1, "err"},
	{"nack-err+1", "nack", 1, "err"},
	{"nack-panic", "nack", -1, "panic-err"},
	{"acknack-ok1", "acknack", 1, "ok"},
	// a large result: more messages than any plausible internal batch size (a Publish path that splits its argument must
	// still fail the message when any part is rejected)
	{"ret-300", "", 300, "ok"},
	{"err+300", "", 300, "err"},
}

// hbehsNoOut: behaviours expressible by a NoPublishHandlerFunc (it can only return an error).
var hbehsNoOut = func() []int {
	var o []int
	for i, h := range hbehs {
		if h.Outs == -1 {
			o = append(o, i)
		}
	}
	return o
}()

// publisher behaviours
// "error-once": only the first Publish call made for a message is rejected; further calls for the same message (there are none
// when the outputs are published in one call) would be accepted
var pbehs = []string{"accept", "error", "panic-str", "panic-nil", "error-once"}

// handler kinds
const (
	kindPub    = "pub"    // AddHandler with the scripted publisher
	kindNoPub  = "nopub"  // AddNoPublisherHandler (NoPublishHandlerFunc; outputs can only come from a middleware)
	kindNilPub = "nilpub" // AddHandler with a nil publisher (router.go: "if h.publisher == nil { return ErrOutputInNoPublisherHandler }")
)

// middleware prefixes. "pass" forwards unchanged, "add" appends one message to whatever the inner
// handler returned (keeping its error), "swallow" turns an error into success keeping the messages,
// "fail" turns success into an error keeping the messages, "recover" turns a panic into an error.
// "drop" returns no messages (keeping the error), "iack" / "inack" settle the message themselves before they call the
// inner handler (what middleware.InstantAck does), "lack" acks it after the inner handler finished in whatever way
// (deferred), before the Router gets the result. The last four are only used by the class names.
// "-r" = router level (Router.AddMiddleware), "-h" = handler level (Handler.AddMiddleware).
var mwMatrix = [][]string{
	nil,
	{"pass-r"},
	{"pass-h"},
	{"add-r"},
	{"add-h"},
	{"pass-r", "swallow-h", "pass-h"},
	{"fail-r"},
	{"recover-h"},
}

type cell struct {
	Kind string
	H    int
	P    int
	MW   []string
}

var cells = func() []cell {
	var cs []cell
	for _, mw := range mwMatrix {
		for h := range hbehs {
			for p := range pbehs {
				cs = append(cs, cell{kindPub, h, p, mw})
			}
			cs = append(cs, cell{kindNilPub, h, 0, mw})
		}
		for _, h := range hbehsNoOut {
			cs = append(cs, cell{kindNoPub, h, 0, mw})
		}
	}
	return cs
}()

func matrixCases() int { return 2 * len(cells) }

// ---- class "end": the subscription ends while messages are in flight

// ways in which the (inner) subscription of the handler ends while messages are still being handled
var endModes = []string{
	"handler-stop", // Handler.Stop()
	"router-close", // Router.Close() (it waits for the handlers that are still running)
	"ctx-cancel",   // the context given to Router.Run is cancelled
	"sub-close",    // the subscriber closes its output channel by itself (Close called on it from outside the Router)
}

// where a message is held when the subscription ends
const (
	holdNone    = ""        // not held: it is settled before the subscription ends
	holdPre     = "h-pre"   // inside the handler, before the handler's own settlement (if any)
	holdPost    = "h-post"  // inside the handler, after the handler's own settlement (if any), before it returns
	holdPublish = "publish" // inside the Publish call made for the message's outputs
)

type endCell struct {
	End  string
	Keep bool // a second handler keeps the Router running when the first one stops
	Hold string
	Kind string
	H, P int
}

var endCells = func() []endCell {
	var cs []endCell
	for _, end := range endModes {
		for _, keep := range []bool{false, true} {
			for _, hold := range []string{holdPre, holdPost, holdPublish} {
				for h := range hbehs {
					for p := 0; p < 2; p++ { // accept, error
						x := expect(kindPub, nil, hbehs[h], pbehs[p])
						if !x.Publish && (hold == holdPublish || p != 0) {
							continue // no Publish call: nothing to hold there / the publisher does not matter
						}
						cs = append(cs, endCell{end, keep, hold, kindPub, h, p})
					}
				}
			}
			for k, h := range hbehsNoOut {
				cs = append(cs, endCell{end, keep, []string{holdPre, holdPost}[k%2], kindNoPub, h, 0})
			}
			for k, h := range []int{0, 2, 4} { // ret-nil, ret-1, err
				cs = append(cs, endCell{end, keep, []string{holdPost, holdPre}[k%2], kindNilPub, h, 0})
			}
		}
	}
	return cs
}()

// ---- class "multi": several handlers on one Router, each with its own publisher

// how the publishers of the handlers relate to each other
var pubModes = []string{
	"same-type",   // distinct instances of one Go type (no String method): same name for the Router (internal.StructName)
	"same-string", // distinct instances whose String() is equal
	"diff-string", // distinct instances whose String() differs
	"diff-type",   // instances of different Go types
	"shared",      // one instance shared by all handlers
}

var decoSets = [][]string{nil, {"transform"}, {"wrap"}, {"transform", "wrap"}}

type multiCell struct {
	PubMode string
	Decos   []string
	Behs    [2]string // behaviour of the publisher instance of handler 0 / 1 ("" = decided per message)
	H       int
}

var multiCells = func() []multiCell {
	var cs []multiCell
	for _, pm := range pubModes {
		for _, d := range decoSets {
			for _, b := range [][2]string{{"accept", "error"}, {"error", "accept"}, {"accept", "panic-str"}, {"", ""}} {
				for _, h := range []int{2, 3} { // ret-1, ret-3
					cs = append(cs, multiCell{pm, d, b, h})
				}
			}
		}
	}
	return cs
}()

// ---- class "names": several handlers with unusual names whose chains differ

// how the handlers are named (every name is legal: AddHandler only demands that it is unique within the Router)
var nameSchemes = []string{
	"empty",   // one handler is registered under "", the others under ordinary names
	"blank",   // names made of white space only (" ", "  ", "\t", ...), possibly next to ""
	"prefix",  // names that are prefixes / extensions of each other
	"topic",   // names equal to subscribe / publish topics of the same or of another handler
	"case",    // names that differ in letter case or in a trailing blank / NUL only
	"hostile", // printf verbs, control characters, multi-byte and random UTF-8
	"mixed",   // each name drawn from any of the above
}

// result-changing and self-settling middlewares one handler gets while the other handlers do not
var nameTransformers = []string{"swallow", "fail", "add", "drop", "recover", "iack", "inack", "lack"}

type nameCell struct {
	Scheme string
	T      string // the handler-level middleware that changes the outcome
	On     int    // 0: it is added to the handler with the odd name (handler 0); 1: to the other one (handler 1)
}

var nameCells = func() []nameCell {
	var cs []nameCell
	for _, sch := range nameSchemes {
		for _, t := range nameTransformers {
			for on := 0; on < 2; on++ {
				cs = append(cs, nameCell{sch, t, on})
			}
		}
	}
	return cs
}()

// handler behaviours whose outcome at least one of nameTransformers changes: ret-1, err+1, panic-str, ret-nil, err
var nameProbes = []int{2, 5, 9, 0, 4}

// genNames draws the names of the handlers of a names case. Handler 0 always gets the oddest one.
func genNames(r *vlib.Rand, scheme, id string, cfg *config) []string {
	nh := len(cfg.Handlers)
	base := id + ".h"
	pool := func(sch string, k int) string {
		switch sch {
		case "empty":
			if k == 0 {
				return ""
			}
			return base + strconv.Itoa(k)
		case "blank":
			if k == 0 {
				return []string{" ", "", "\t"}[r.Intn(3)]
			}
			return []string{" ", "  ", "\t", "\n", "\u00a0", " \t ", "", base + strconv.Itoa(k)}[r.Intn(8)]
		case "prefix":
			if k == 0 {
				return []string{id, base, ""}[r.Intn(3)]
			}
			return []string{base, base + "1", base + "10", base + "1.", id + ".", id, id[:len(id)-1], base + strconv.Itoa(k)}[r.Intn(8)]
		case "topic":
			o := (k + 1) % nh
			return []string{cfg.topicIn(id, k), cfg.topicIn(id, o), cfg.topicOut(id, k), cfg.topicOut(id, o)}[r.Intn(4)]
		case "case":
			b := id + ".Handler"
			if k == 0 {
				return b
			}
			return []string{strings.ToLower(b), strings.ToUpper(b), b + " ", " " + b, b + "\x00", b + "\n"}[r.Intn(6)]
		default: // hostile
			return []string{"%s", "%!v(MISSING)%d%n", "\x00", "a\x00b", "*", ".", "handler_name", "\xe2\x80\x8b", `"`, r.UTF8(8), r.UTF8(3)}[r.Intn(11)]
		}
	}
	names := make([]string, nh)
	seen := map[string]bool{}
	for k := range names {
		sch := scheme
		if sch == "mixed" {
			sch = nameSchemes[r.Intn(len(nameSchemes)-1)]
			if k == 0 && r.Bool() {
				sch = "empty"
			}
		}
		nm := pool(sch, k)
		for try := 0; seen[nm] && try < 4; try++ {
			nm = pool(sch, k)
		}
		if seen[nm] {
			nm = base + strconv.Itoa(k)
		}
		seen[nm] = true
		names[k] = nm
	}
	return names
}

// namesCase builds a case of the class names. cell == nil: random configuration.
func namesCase(e *vlib.Env, cell *nameCell) config {
	r := e.R
	id := e.ID()
	scheme := nameSchemes[r.Intn(len(nameSchemes))]
	nh := r.Range(2, 4)
	if cell != nil {
		scheme = cell.Scheme
		nh = r.Range(2, 3)
	}
	// re-used name: one more handler (the last one) is started by Run, handles its messages and is stopped; then a
	// late handler is registered under the name it had
	reuse := r.Chance(0.15) && cell == nil && nameReuseEnabled
	if reuse {
		nh++
	}
	kinds := make([]string, nh)
	for k := range kinds {
		switch x := r.Intn(10); {
		case x < 8 || k < 2 && cell != nil:
			kinds[k] = kindPub
		case x < 9:
			kinds[k] = kindNilPub
		default:
			kinds[k] = kindNoPub
		}
	}
	pm := pubModes[r.Intn(len(pubModes))]
	cfg := config{PubMode: pm, NameScheme: scheme, YieldP: []float64{0, 0.1, 0.3}[r.Intn(3)], SameTopics: r.Chance(0.2), SubDecos: r.Intn(2)}
	if cell != nil {
		cfg.Class = "names-matrix/" + scheme
	} else {
		cfg.Class = "random-names/" + scheme
	}
	buildMulti(&cfg, id, kinds, pm, r.Intn(3), func(int) string { return []string{"", "", "accept", "accept", "error"}[r.Intn(5)] })
	for k, nm := range genNames(r, scheme, id, &cfg) {
		cfg.Handlers[k].Named, cfg.Handlers[k].Name = true, nm
	}
	pred := -1
	if reuse {
		nh--
		pred = nh
		cfg.Class = "names-reuse/" + scheme
	}

	// middlewares: at most one result-changing and at most one self-settling middleware in the chain of a handler, so
	// that the expected result does not depend on the nesting order (which is another property)
	passes := func(lvl string) []string {
		var mw []string
		for i := r.Intn(3); i > 0; i-- {
			mw = append(mw, "pass"+lvl)
		}
		return mw
	}
	cfg.MW = passes("-r")
	routerT, routerS := false, false
	if cell == nil {
		switch x := r.Intn(10); {
		case x == 0:
			cfg.MW = append(cfg.MW, []string{"swallow", "fail", "add", "drop", "recover"}[r.Intn(5)]+"-r")
			routerT = true
		case x == 1:
			cfg.MW = append(cfg.MW, []string{"iack", "inack", "lack"}[r.Intn(3)]+"-r")
			routerS = true
		}
	}
	own := func(t string) []string {
		mw := passes("-h")
		mw = append(mw, t+"-h")
		return append(mw, passes("-h")...)
	}
	if cell != nil {
		cfg.Handlers[cell.On].MW = own(cell.T)
		if nh > 2 {
			cfg.Handlers[2].MW = passes("-h")
		}
	} else {
		// some handlers get a middleware that changes the outcome, at least one gets it, at least one has none at all
		plain := r.Intn(nh)
		changed := (plain + 1 + r.Intn(nh-1)) % nh
		for k := range cfg.Handlers {
			if k == plain {
				continue
			}
			var mw []string
			if (k == changed || r.Chance(0.5)) && !routerT {
				mw = append(mw, []string{"swallow", "fail", "add", "drop", "recover"}[r.Intn(5)]+"-h")
			}
			if (k == changed && len(mw) == 0 || r.Chance(0.3)) && !routerS {
				mw = append(mw, []string{"iack", "inack", "lack"}[r.Intn(3)]+"-h")
			}
			if len(mw) == 2 && r.Bool() {
				mw[0], mw[1] = mw[1], mw[0]
			}
			if r.Chance(0.3) {
				mw = append(passes("-h"), mw...)
			}
			if len(mw) == 0 && r.Bool() {
				mw = []string{"pass-h"}
			}
			cfg.Handlers[k].MW = mw
		}
	}

	// registration order; sometimes one handler is added to the running Router
	cfg.HOrder = r.Perm(len(cfg.Handlers))
	cfg.RMWAt = r.Intn(len(cfg.Handlers) + 1)
	cfg.MWGrouped = r.Bool()
	if r.Chance(0.3) {
		cfg.Handlers[r.Intn(nh)].Late = true
	}
	if reuse {
		succ := r.Intn(nh)
		for k := range cfg.Handlers {
			cfg.Handlers[k].Late = k == succ
		}
		p := &cfg.Handlers[pred]
		p.StopEarly, p.Name = true, cfg.Handlers[succ].Name
		var ts []string
		if !routerT {
			ts = append(ts, "swallow", "fail", "add", "drop", "recover")
		}
		if !routerS {
			ts = append(ts, "iack", "inack", "lack")
		}
		p.MW = own(ts[r.Intn(len(ts))])
	}

	// messages
	for hd := 0; hd < len(cfg.Handlers); hd++ {
		var hs []int
		if hd == pred {
			for i := r.Range(1, 2); i > 0; i-- {
				hs = append(hs, r.Intn(len(hbehs)))
			}
		} else if cell != nil {
			hs = append(hs, nameProbes[:4]...)
			hs = append(hs, r.Intn(len(hbehs)))
		} else {
			for i := r.Range(1, 4); i > 0; i-- {
				if r.Chance(0.6) {
					hs = append(hs, nameProbes[r.Intn(len(nameProbes))])
				} else {
					hs = append(hs, r.Intn(len(hbehs)))
				}
			}
		}
		for _, h := range hs {
			s := mspec{H: h, P: r.Intn(len(pbehs)), Hd: hd, Y1: r.Intn(3), Y2: r.Intn(3)}
			if r.Chance(0.6) {
				s.P = 0
			}
			if kinds[hd] == kindNoPub && hbehs[s.H].Outs != -1 {
				s.H = hbehsNoOut[r.Intn(len(hbehsNoOut))]
			}
			cfg.Specs = append(cfg.Specs, s)
		}
	}
	cfg.Barrier = r.Chance(0.3) && !reuse
	return cfg
}

// nameReuseEnabled switches on the part of class random-names (about 15% of its cases) in which a late handler is
// registered under the name of a handler that has handled its messages and has been stopped (classes
// names-reuse/<scheme>; every violation in them that goes with an inherited middleware is reported under the clause
// name-reuse-inherits-middleware). The pinned Router failed it - the new handler's chain contained the handler-level
// middlewares of the stopped one, e.g. its failing message was acked; fixed in /repo 2434b2b, on since then.
// The switch does not change the case list otherwise (the draw is made in either case).
const nameReuseEnabled = true

// ---- class "topics": unusual but legal wiring values (subscribe / publish topics)

// how the topics of the handlers are chosen. AddHandler takes any two strings: the Router hands the subscribe topic to
// Subscriber.Subscribe and the publish topic to Publisher.Publish and does not interpret them ("" included: publishers
// that route by metadata ignore the argument, and gochannel.FanOut builds handlers with publish topic "" inside the library).
var topicSchemes = []string{
	"pub-empty",  // publish topic "" with a real publisher (handler 0; the others with probability 1/2)
	"sub-empty",  // subscribe topic ""
	"both-empty", // both "" (handler 0; the others with probability 1/2)
	"all-empty",  // every handler subscribes to "" and publishes to ""
	"pub-eq-sub", // a handler publishes to the topic it subscribes to
	"cross",      // handler k publishes to the topic handler k+1 subscribes to (the last one to the topic of the first)
	"all-equal",  // one topic name for every subscribe and every publish topic of the Router
	"blank",      // topics made of white space only
	"near",       // topics that differ in letter case, a leading / trailing blank, NUL, newline or slash only
	"long",       // 255 B .. 1 MiB topics that differ in their last bytes only
	"hostile",    // printf verbs, NUL, control characters, wildcards, paths, invalid UTF-8, random UTF-8
	"name",       // topics equal to the name of the handler itself or of another handler
	"mixed",      // each handler draws its own scheme
}

func short(s string) string {
	if len(s) <= 96 {
		return s
	}
	return fmt.Sprintf("%s...(%d bytes)...%s", s[:48], len(s), s[len(s)-24:])
}

// applyWiring replaces the topics of the handlers of cfg by topics drawn by scheme. Handlers that share a subscriber
// instance and would subscribe to one topic name get subscriber instances of their own (the harness finds the
// subscription of a handler by subscriber instance + topic).
func applyWiring(cfg *config, r *vlib.Rand, id, scheme string) {
	cfg.normalize(id)
	nh := len(cfg.Handlers)
	in, out, names := make([]string, nh), make([]string, nh), make([]string, nh)
	for k := range cfg.Handlers {
		in[k], out[k], names[k] = cfg.topicIn(id, k), cfg.topicOut(id, k), cfg.hname(id, k)
	}
	T := id + ".t"
	longLen := []int{255, 256, 1024, 4096, 65535, 65536, 65537, 1 << 18, 1 << 20, 300}[r.Intn(10)]
	longBase := id + "." + strings.Repeat([]string{"x", "é", "/", "%s"}[r.Intn(4)], longLen)
	var one func(sch string, k int, odd bool) (string, string)
	one = func(sch string, k int, odd bool) (string, string) {
		if !odd {
			return in[k], out[k]
		}
		switch sch {
		case "pub-empty":
			return in[k], ""
		case "sub-empty":
			return "", out[k]
		case "both-empty", "all-empty":
			return "", ""
		case "pub-eq-sub":
			return in[k], in[k]
		case "cross":
			return T + strconv.Itoa(k), T + strconv.Itoa((k+1)%nh)
		case "all-equal":
			return T, T
		case "blank":
			b := []string{" ", "  ", "\t", "\n", "\u00a0", " \t ", "\r\n"}
			return b[r.Intn(len(b))], b[r.Intn(len(b))]
		case "near":
			t := id + ".Topic"
			v := []string{t, strings.ToLower(t), strings.ToUpper(t), t + " ", " " + t, t + "\x00", t + "\n", t + "/", t + ".", t + "\x00x"}
			return v[r.Intn(len(v))], v[r.Intn(len(v))]
		case "long":
			if r.Chance(0.3) {
				return longBase + ".in" + strconv.Itoa(k), longBase + ".in" + strconv.Itoa(k)
			}
			return longBase + ".in" + strconv.Itoa(k), longBase + ".out" + strconv.Itoa(k)
		case "hostile":
			h := []string{"%s", "%d%n%!v(MISSING)", "%!s(MISSING)", "\x00", "a\x00b", "*", "#", ">", ".", "..", "../../etc/passwd", "/", "//", "topic with spaces",
				"\xff\xfe", "\xe2\x80\x8b", `"`, "'; DROP TABLE messages;--", "{{.}}", "$1", "\r\n", "-", "nil", "<nil>", "0", r.UTF8(8), r.UTF8(64), id + "%", id + "\x00"}
			return h[r.Intn(len(h))], h[r.Intn(len(h))]
		case "name":
			return names[[]int{k, (k + 1) % nh}[r.Intn(2)]], names[[]int{k, (k + 1) % nh}[r.Intn(2)]]
		default: // mixed
			return one(topicSchemes[r.Intn(len(topicSchemes)-1)], k, true)
		}
	}
	cfg.Wiring = scheme
	for k := range cfg.Handlers {
		h := &cfg.Handlers[k]
		odd := k == 0 || r.Bool()
		switch scheme {
		case "all-empty", "all-equal", "cross", "long":
			odd = true
		}
		h.In, h.Out = one(scheme, k, odd)
		h.Wired = true
		h.Desc = fmt.Sprintf("%q -> %q", short(h.In), short(h.Out))
	}
	seen := map[string]bool{}
	conflict := false
	for _, h := range cfg.Handlers {
		key := strconv.Itoa(h.Sub) + "\x00" + h.In
		conflict = conflict || seen[key]
		seen[key] = true
	}
	if conflict {
		cfg.Subs = nil
		for k := range cfg.Handlers {
			cfg.Handlers[k].Sub = k
			cfg.Subs = append(cfg.Subs, id)
		}
	}
}

// sprinkle gives a fifth of the cases of the earlier random classes unusual topics (drawn after everything else of the
// configuration, so the rest of the case list is what it was).
func sprinkle(e *vlib.Env, cfg config) config {
	if e.R.Chance(0.2) {
		applyWiring(&cfg, e.R, e.ID(), topicSchemes[e.R.Intn(len(topicSchemes))])
	}
	return cfg
}

type topicCell struct {
	Scheme string
	Kind   string // kind of handler 0
	P      int    // behaviour of its publisher instance
	End    string // "": two handlers, the messages finish while the Router is running; otherwise one handler whose subscription ends
	Hold   string
	H      int
}

var topicCells = func() []topicCell {
	var cs []topicCell
	for _, sch := range topicSchemes {
		for p := 0; p < 3; p++ { // accept, error, panic-str
			cs = append(cs, topicCell{Scheme: sch, Kind: kindPub, P: p})
		}
		cs = append(cs, topicCell{Scheme: sch, Kind: kindNilPub}, topicCell{Scheme: sch, Kind: kindNoPub})
		for _, end := range endModes {
			for j, hold := range []string{holdPost, holdPublish} {
				for p := 0; p < 2; p++ {
					cs = append(cs, topicCell{sch, kindPub, p, end, hold, 2 + (j+p)%2}) // ret-1 / ret-3
				}
			}
		}
	}
	return cs
}()

// handler behaviours every handler of a topics-matrix case gets: ret-1, ret-3, err+1, ret-nil, panic-str, nack-ok1, ack-ok1
var topicProbes = []int{2, 3, 5, 0, 9, 18, 13}

func topicsCase(e *vlib.Env, cell *topicCell) config {
	r := e.R
	id := e.ID()
	if cell != nil && cell.End != "" {
		cfg := config{Class: "topics-end/" + cell.Scheme, Kind: cell.Kind, End: cell.End, Keep: r.Bool(), SubDecos: r.Intn(2)}
		for i := r.Intn(3); i > 0; i-- {
			cfg.Specs = append(cfg.Specs, mspec{H: r.Intn(len(hbehs)), P: r.Intn(len(pbehs)), Y1: r.Intn(3), Y2: r.Intn(3)})
		}
		cfg.Specs = append(cfg.Specs, mspec{H: cell.H, P: cell.P, Hold: cell.Hold, Y1: r.Intn(3), Y2: r.Intn(3)})
		applyWiring(&cfg, r, id, cell.Scheme)
		return cfg
	}
	if cell == nil && r.Chance(0.25) {
		// one handler whose subscription ends while messages are in flight
		cfg := randomSingle(r)
		scheme := topicSchemes[r.Intn(len(topicSchemes))]
		cfg.Class = "random-topics/" + scheme
		cfg.Barrier = false
		cfg.End = endModes[r.Intn(len(endModes))]
		cfg.Keep = r.Bool()
		cfg.SubDecos = r.Intn(3)
		if len(cfg.Specs) > 6 {
			cfg.Specs = cfg.Specs[:6]
		}
		for i := range cfg.Specs {
			cfg.Specs[i].Hold = []string{holdNone, holdPre, holdPost, holdPublish, holdPublish}[r.Intn(5)]
		}
		if last := &cfg.Specs[len(cfg.Specs)-1]; last.Hold == holdNone {
			last.Hold = []string{holdPre, holdPost}[r.Intn(2)]
		}
		applyWiring(&cfg, r, id, scheme)
		return cfg
	}
	var cfg config
	if cell != nil {
		kinds := []string{cell.Kind, kindPub}
		switch x := r.Intn(10); {
		case x == 8:
			kinds[1] = kindNilPub
		case x == 9:
			kinds[1] = kindNoPub
		}
		pm := pubModes[r.Intn(len(pubModes))]
		cfg = config{Class: "topics-matrix/" + cell.Scheme, PubMode: pm, SubDecos: r.Intn(2), YieldP: []float64{0, 0.1, 0.3}[r.Intn(3)], Barrier: r.Chance(0.3)}
		if r.Bool() {
			cfg.MW = randomMW(r)
		}
		if kinds[0] != kindNilPub && kinds[1] != kindNilPub && r.Chance(0.3) {
			cfg.PubDecos = []string{[]string{"transform", "wrap"}[r.Intn(2)]}
		}
		buildMulti(&cfg, id, kinds, pm, r.Intn(3), func(j int) string {
			if j == 0 && cell.Kind == kindPub {
				return pbehs[cell.P]
			}
			return ""
		})
		for hd := range kinds {
			hs := append(append([]int{}, topicProbes...), r.Intn(len(hbehs)))
			for _, h := range hs {
				s := mspec{H: h, P: r.Intn(len(pbehs)), Hd: hd, Y1: r.Intn(3), Y2: r.Intn(3)}
				if r.Chance(0.6) {
					s.P = 0
				}
				if kinds[hd] == kindNoPub && hbehs[s.H].Outs != -1 {
					s.H = hbehsNoOut[r.Intn(len(hbehsNoOut))]
				}
				cfg.Specs = append(cfg.Specs, s)
			}
		}
		applyWiring(&cfg, r, id, cell.Scheme)
		return cfg
	}
	scheme := topicSchemes[r.Intn(len(topicSchemes))]
	cfg = randomMulti(r, id, 1)
	cfg.Class = "random-topics/" + scheme
	applyWiring(&cfg, r, id, scheme)
	return cfg
}

func topicsRandomCases(tier string) int { return vlib.TierN(tier, 800, 30000) }

func namesRandomCases(tier string) int { return vlib.TierN(tier, 800, 30000) }

func oldRandomCases(tier string) int   { return vlib.TierN(tier, 2000, 500000) }
func endRandomCases(tier string) int   { return vlib.TierN(tier, 600, 30000) }
func multiRandomCases(tier string) int { return vlib.TierN(tier, 400, 20000) }

func init() {
	vlib.Register(&vlib.Prop{
		ID:    "C02",
		Level: "fault_enumeration",
		Cases: func(tier string) int {
			return matrixCases() + oldRandomCases(tier) + len(endCells) + len(multiCells) + endRandomCases(tier) + multiRandomCases(tier) +
				len(nameCells) + namesRandomCases(tier) + len(topicCells) + topicsRandomCases(tier) + extraCases(tier)
		},
		Rule: fmt.Sprintf("matrix part: %d cells = {%d handler behaviours: returns nil/empty/1/3 messages, error, error+1/3 messages, panic(string|error|nil), "+
			"context.Canceled (bare/wrapped), Ack-then-{ok,ok+msg,err,err+msg,panic}, Nack-then-{ok,ok+1/3 msgs,err,err+msg,panic}, Ack-then-Nack} x {publisher: accept,error,panic(string),panic(nil),error on the first call for a message only} x "+
			"{AddHandler+publisher, AddNoPublisherHandler, AddHandler+nil publisher} x {%d middleware prefixes: none, pass-through (router/handler level), output-adding "+
			"(router/handler level), error-swallowing, failing, panic-recovering}; every cell is run once with 1 message and once with 2..16 messages held in the handler "+
			"at the same time by a barrier. Random part: one Router/handler per case, 1..16 messages with independently drawn handler and publisher behaviours, random kind, "+
			"0..3 middlewares, barrier or free-running, random yields at watermill's verifhook points and inside the handler. "+
			"Class end (%d enumerated cells + random part): the handler's subscription ends while messages are in flight = {Handler.Stop, Router.Close, Run context cancelled, subscriber closes "+
			"its channel itself} x {message held inside the handler before / after its own settlement, inside the Publish call} x {with / without a second handler that keeps the Router running} x "+
			"handler/publisher behaviours; 0..2 messages that finished earlier precede the held one (random part: 1..8 messages, each held at a random point or not at all, 0..2 "+
			"subscriber decorators, random middleware); the harness waits until the end of the subscription has propagated through the Router (handler stopped, publisher closed or "+
			"process quiescent), only then lets the held messages go on, and judges them with the same rules. "+
			"Class multi (%d enumerated cells + random part): 2..4 handlers on one Router, each with its own subscription; publishers = {distinct instances of one Go type, distinct instances with equal / "+
			"different String(), different Go types, one shared instance} x {0..2 publisher decorators: message transform, wrapping type} x publisher instances that behave differently "+
			"(accept / error / panic) x handler kinds; a Publish call counts for a message only if it reached the publisher instance given to the message's own handler. "+
			"Class names (%d enumerated cells + random part): 2..4 handlers on one Router whose names are unusual but legal = {one handler named \"\", names of white space only, names that are prefixes / "+
			"extensions of each other or of the case id, names equal to the subscribe / publish topic of the same or another handler, names differing in letter case or a trailing blank / NUL only, "+
			"printf verbs / control characters / random UTF-8, a mix} x chains that differ per handler: one handler (the oddly named one or its neighbour) carries a handler-level middleware "+
			"{error-swallowing, failing, output-adding, output-dropping, panic-recovering, Ack before the inner handler (InstantAck style), Nack before it, Ack after it} between 0..2 pass-through "+
			"ones while at least one other handler has no handler-level middleware (random part: every handler but one draws 0..1 result-changing + 0..1 self-settling handler-level middleware, "+
			"or the Router has one at router level) x registration order {random handler order, router-level middlewares added before / between / after the handlers, handler-level middlewares right "+
			"after their handler / after all handlers} x {all handlers started by Run, one handler added to the running Router and started by RunHandlers} x handler kinds x publisher modes; every handler "+
			"gets messages whose outcome the middlewares of the OTHER handlers would change (returns 1 message, error+1 message, panic, nothing, error); a message is judged against the chain of its own "+
			"handler = router-level middlewares + the middlewares added to that handler + its function, and each scripted middleware records the messages it is invoked with. "+
			"Class topics (%d enumerated cells + random part; the same draw is also applied to 1/5 of the cases of the random parts of the classes above): the subscribe / publish topics given to AddHandler are "+
			"unusual but legal wiring values = {publish topic \"\" with a real publisher (what gochannel.FanOut builds), subscribe topic \"\", both \"\", every topic of the Router \"\", publish topic = own subscribe topic, "+
			"publish topic = subscribe topic of the next handler (ring), one name for every topic of the Router, white space only, names differing in letter case / a leading or trailing blank / NUL / newline / slash only, "+
			"255 B..1 MiB names differing in their last bytes only, hostile strings (printf verbs, NUL, control characters, wildcards, paths, invalid UTF-8, random UTF-8), topics equal to the name of the handler itself or "+
			"of another handler, a mix}; enumerated cells: scheme x {2 handlers on one Router, handler 0 = AddHandler with an accepting / rejecting / panicking publisher, AddHandler with a nil publisher, "+
			"AddNoPublisherHandler; every handler gets messages that return 1 / 3 messages, error+1 message, nothing, panic, Nack-then-1 message, Ack-then-1 message and a random one} + scheme x {one handler whose subscription "+
			"ends by Handler.Stop / Router.Close / Run context cancelled / subscriber closing its channel} x {message held after its own settlement, inside Publish} x {publisher accepts, rejects}; random part: 1..4 handlers "+
			"of random kinds, publisher modes, decorators, middlewares and behaviours (3/4) or one handler whose subscription ends while 1..6 messages are held at random points (1/4). The scripted publisher records the topic "+
			"argument of every call; a Publish call made for a message must carry exactly the string its handler was registered with (clause publish-topic, counters publish_calls_topic_compared / publish_calls_to_empty_topic). "+
			"Class panic (%d enumerated cells + random part): the panic is raised with a value of every kind = {%d values: int, 0, float, NaN, bool, rune, uint8, complex, struct{}{}, struct, pointer to struct, nil pointer, "+
			"[]byte, nil []byte, []int, array, map, nil map, func, nil func, chan, nil chan, named int / string types without methods, fmt.Stringer by value / by pointer (and the non-Stringer value of the latter), a Stringer whose "+
			"String panics, string, \"\", string of printf verbs, 64 KiB string, errors.New, error struct / pointer / typed nil pointer / with empty text / whose Error panics, wrapped and joined errors, context.Canceled (bare, wrapped), "+
			"context.DeadlineExceeded, io.EOF, panic(nil), nil interface values, run-time errors (nil map write, index / slice bounds out of range, nil dereference, integer division by zero, failed type assertion, close of a nil / closed "+
			"channel, negative make length), a second panic raised by a deferred call while the first one unwinds, a recovered value panicked again} x raised in {the handler function (with / without its own Ack or Nack before), a router-level / "+
			"handler-level middleware after the inner handler returned (whatever it returned), the Publish call made for the outputs} x {AddHandler+publisher, AddNoPublisherHandler, AddHandler+nil publisher}; 0..2 further messages follow the "+
			"probe through the same handler; random part: the random one-handler batch (1..16 messages, barrier or free-running) in which 60%% of the messages panic with a random value at a random site. Judged by the rules of all classes: "+
			"the message is nacked (unless the handler had settled it itself), nothing is published after a panic of the chain. "+
			"Class async (%d enumerated cells + random part): the handler starts a goroutine that settles the message (Ack or Nack) while the chain goes on and returns = {chain returns nil, 1 message (publisher accepts / rejects / nil publisher), "+
			"error, error+1 message, panics} x {own call Ack, Nack} x {own call made before the handler returns; spin barrier opened by the handler's last statement, by the last statement of the Publish call, at hook point "+
			"router.handle.before_settle right before the Router's Ack; busy-polling Acked()/Nacked() and calling as soon as the Router's settlement is visible; blocking until then} x {0, 2 pass-through middlewares} x handler kinds; "+
			"32..200 (thorough ..800) messages per case, sent one after another by 1..4 concurrent lanes; for the spin-barrier timings both sides first make sure by a ping that the other one is on a processor, then burn a number of "+
			"loop iterations that is steered by the outcome of the earlier contests (own call won -> it waits longer; plus random sweeps 0..8191 iterations and Gosched jitter), so that the handler's call and the Router's call coincide as "+
			"closely as the machine allows (counters async_contests, async_contests_won_by_handler / _by_router, async_contests_with_both_goroutines_running). Judged after Router.Close returned (every settlement call of the Router has "+
			"been made): exactly one of Acked()/Nacked() is closed (both-settled, settles); if the handler's own call returned true the final state is its kind (self-settlement-overridden); if it returned false the final state is the "+
			"settlement the Router owes by the Ack-iff rule; a call made after a settlement was visible returns true iff it is of the same kind (self-settlement); nothing settles the message before the handler function returned unless "+
			"its own goroutine did; no Ack is visible inside Publish before the handler's goroutine started its call. "+
			"Class errval (%d enumerated cells + random part): the chain or the publisher fails with an error VALUE of every shape = {%d values: errors.New (also with empty text, printf verbs, 64 KiB text), fmt.Errorf, pkg/errors New / Errorf, "+
			"context.Canceled, context.DeadlineExceeded, io.EOF, message.ErrOutputInNoPublisherHandler, wrapped by %%w (once, twice, two operands, nil operand, around context.Canceled), by pkg/errors Wrap / WithStack / WithMessage (also mixed with %%w), errors.Join (one / several / "+
			"nested / with context.Canceled), hashicorp multierror (filled, empty, typed nil pointer), 500-deep %%w and 200-deep pkg/errors chains, application error types with a Cause() method = {cause nil (pointer / value receiver), cause set, cause context.Canceled, a chain of "+
			"them that ends in nil, a typed nil pointer as cause, Cause() that panics} and pkg/errors Wrap / WithStack / WithMessage, %%w and errors.Join around such a value, types with Unwrap() error = {nil, set, context.Canceled, typed nil pointer}, Unwrap() []error = {nil, empty, nil elements, "+
			"with context.Canceled}, types with both accessors, typed nil pointers in a non-nil interface (bare, wrapped), non-comparable dynamic types (struct with a slice, map / slice / func types, also nil ones, also wrapped), zero values of int / bool / string / struct{} types, "+
			"Error() returning \"\" / \"<nil>\" / panicking, Is() answering true for every target (bare, wrapped) / panicking, As() answering true for every target} x returned by {the handler function together with 0 / 1 / 3 messages (with / without its own Ack or Nack before), "+
			"a router-level / handler-level middleware after the inner handler returned (whatever it returned; the messages of the inner handler are returned together with the error), the Publish call made for the outputs (every call / the first call for the message)} x "+
			"{AddHandler+publisher, AddNoPublisherHandler, AddHandler+nil publisher}; 0..2 further messages follow the probe; random part: the random one-handler batch in which 60%% of the messages fail with a random value at a random site. Judged by the rules of all classes: every one "+
			"of them is 'an error' - the message is nacked (unless the chain had settled it itself) and nothing that was returned together with the error is published; a rejected Publish call means Nack (counters messages_with_drawn_error_value, error_value_drawn_for_*). "+
			"Error types whose Unwrap() or Cause() chain is a cycle are left out (errors.Is, which the pinned Router calls on every handler error, does not return from the former). "+
			"Class buffered (%d enumerated cells + random part): the scripted subscriber hands out a BUFFERED channel (capacity 1, 2, 8, 64; random part 1..64) and fills it ahead of the consumer, one sending goroutine per subscription; like every watermill subscriber it stops sending "+
			"and closes the channel when the subscription's context is cancelled or Close is called, leaving in the buffer what is there. The subscription ends = {Handler.Stop, Router.Close, Run context cancelled, subscriber closed from outside} while messages sit in channel buffers between "+
			"subscriber and handler = {the end is triggered by the sending goroutine between two emissions while messages are flowing; handler.run is parked at hook point router.run.received right after it received its 1st..3rd message; a subscriber decorator of the Router is "+
			"parked at hook point decorator.sub.before_out holding a message - in both parked variants the sender goes on until every buffer behind the parked goroutine is full (process quiescent), then the end is triggered, the harness waits until it has gone through the Router "+
			"as far as it can (quiescent again) and only then lets the parked goroutine go on} x {with / without a second handler} x 0..2 subscriber decorators x handler kinds x random middleware x random handler / publisher behaviours per message (30%% of the cases: 1..2 of the "+
			"first messages are held inside the handler / inside Publish until the end has gone through). Taken = the messages that are no longer in the subscriber's own channel: placed (sends into the channel that completed) minus len(channel) sampled after the sender stopped, at "+
			"quiescence after Router.Close returned; a channel is FIFO, so these are the first placed-len messages in emission order. Every taken message must be acked or nacked by then (settles, both-settled); one whose handler chain was invoked is judged by the rules of all classes "+
			"(Ack iff ..., publish-after-error, ack-before-publish, self-settlement-overridden ...); one whose chain was not invoked (the Router could not deliver it any more) must not be acked (ack-unhandled). Messages still in the subscriber's buffer are not judged. "+
			"Counters: taken_from_buffered_channel, taken_and_handled, taken_nacked_without_handling, left_in_subscriber_buffer, in_subscriber_buffer_when_subscription_ended, buffered_cases_with_full_buffer_at_end, buffered_goroutine_parked_when_subscription_ended. "+
			"A buffered case is non-trivial when messages were in the subscriber's channel buffer when the subscription ended (or were left there), the Router had taken messages and at least one of them was handled. "+
			"A case is non-trivial when every emitted message "+
			"was taken, handled and judged (and, for multi-message barrier cases, >=2 handlers were observed in flight together; for class end, >=1 message was in flight when the subscription "+
			"ended and the end was observed to have propagated; for classes multi and names, >=2 handlers handled messages; for class names, "+
			"additionally >=1 handler has an outcome-changing middleware of its own and >=1 has no middleware of its own); distinct = distinct "+
			"(cell, multiplicity) for the matrices, distinct (class, configuration, per-message behaviours, settlement order) for random batches.", len(cells), len(hbehs), len(mwMatrix), len(endCells), len(multiCells), len(nameCells), len(topicCells), len(panicCells), len(panicVals)-1, len(asyncCells), len(errCells), len(errVals)-1, len(bufCells)),
		Assumptions: []string{
			"panic(nil) follows the Go >= 1.21 semantics of the harness module (recover() returns *runtime.PanicNilError)",
			"a message counts as taken by the Router when the scripted subscriber's channel send completed (it was received by the Router's subscriber decorator)",
			"published messages are matched with the returned ones by their (unique) UUID and compared by value; pointer identity is recorded as a counter only, because the statement does not promise it",
			"splitting the outputs over several Publish calls is tolerated (the statement only says every returned message was accepted); an empty Publish call is not",
			"'never settles' is decided by process quiescence (all goroutines blocked, no timer pending), never by a time-out; RouterConfig.CloseTimeout is one hour",
			"class end: every message is taken and has entered its handler before the subscription is ended (a message the Router's subscriber decorator can no longer deliver is legitimately nacked without being handled, which is not what C02 is about)",
			"class names: 'the handler chain' of a message is the chain of the handler whose subscription delivered it: the middlewares given to Router.AddMiddleware, the ones given to that handler's Handler.AddMiddleware (godoc: 'adds new middleware to the specified handler in the router') and its function; all of them are in place before the handler is started (Run / RunHandlers); every scripted middleware calls the inner handler exactly once, so a middleware of the chain that was not entered (chain-middleware-skipped) or a middleware of another handler that was entered (chain-foreign-middleware) means that another chain was invoked; these two clauses are only reported when no clause about settlements / Publish calls fired in the case",
			"class names: at most one result-changing and at most one self-settling middleware per chain, so that the expected outcome does not depend on the nesting order of middlewares (another property); a settlement made by a middleware of the chain counts as 'a settlement the handler made itself'",
			"class names: registering a late handler under the name of a handler that was stopped earlier (classes names-reuse/*, clause name-reuse-inherits-middleware) is part of class random-names: the new handler's chain consists of the router-level middlewares, its own and its function only (the pinned Router also wrapped the stopped handler's middlewares around it; fixed in 2434b2b)",
			"class topics: every string is a legal subscribe / publish topic for the Router (AddHandler godoc: 'subscribeTopic is a topic from which handler will receive messages', 'publishTopic is a topic to which router will produce messages returned by handlerFunc'; neither is interpreted by the Router, and watermill itself registers handlers with publish topic \"\" and a real publisher in gochannel.FanOut); 'accepted by the handler's publisher' is judged on the call Publish(publishTopic, outputs...) with exactly the string given to AddHandler; handlers that subscribe to one topic name get subscriber instances of their own (the harness identifies the subscription of a handler by subscriber instance + topic), publishers may be shared",
			"class panic: 'panicked' covers every value given to panic, and run-time panics; the Router's logger is watermill.NopLogger (formatting the value is the Router's business: a panic value whose String / Error method panics is formatted by fmt without a new panic on the pinned tree); runtime.Goexit is not a panic and is not used",
			"class async: a settlement made by a goroutine the handler function started counts as 'a settlement the handler made itself'; Message.Ack / Message.Nack may be called from any goroutine (they are guarded by the message's mutex; godoc: 'Ack is not blocking. Ack is idempotent. False is returned, if Nack is already sent'), so a call that returned true has settled the message and must not be overridden, and after both calls exactly one of the two channels is closed. How closely the two calls coincide depends on the machine (cores, load): that only decides how often the narrow interleavings are reached, never a verdict; wall-clock readings are used only to skip the feedback of contests in which one side was evidently descheduled",
			"class errval: 'returned an error' / 'publishing failed' means that the returned value of type error is not nil - whatever its dynamic type, its text and the answers of its Cause / Unwrap / Is / As methods are; a typed nil pointer in the interface is a non-nil error (Go semantics). The Router's logger is watermill.NopLogger, so the Router itself never formats the value; an error value whose Is method panics makes the Router's own errors.Is call panic inside handleMessage, which is 'panicked': Nack either way",
			"class buffered: a message counts as taken by the Router when it is no longer in the channel the subscriber returned from Subscribe (the Router's subscriber decorator is the only receiver of that channel); messages that are still in that channel's buffer when everything has come to rest were never received by the Router and are not judged (a real client nacks / redelivers what is left of its prefetch window). A taken message that the Router can no longer hand to the handler function because the handler's context has ended is legitimately nacked without the chain being invoked (the pinned subscriber decorator does that; same reading as in class end) - what C02 demands of it is that it is settled exactly once and not acked. Buffered channels are legal: Subscriber.Subscribe only promises a receive-only channel that is closed when the subscription ends",
			"class multi: 'the handler's publisher' is the instance passed to AddHandler, seen through whatever decorators the Router was given; publisher decorators used by the harness do not change message values",
		},
		Run: run,
	})
}

// ---------------------------------------------------------------------------------------------
// Case construction

type mspec struct {
	H    int    `json:"h"`
	P    int    `json:"p"`
	Hd   int    `json:"hd,omitempty"`    // index of the handler whose subscription emits the message
	Hold string `json:"hold,omitempty"`  // class end: where the message is held when the subscription ends
	PV   int    `json:"pv,omitempty"`    // class panic: index into panicVals of the value the message's panic is raised with
	PVAt string `json:"pv_at,omitempty"` // class panic: where it is raised (handler function, middleware, Publish call)
	EV   int    `json:"ev,omitempty"`    // class errval: index into errVals of the error value the message fails with
	EVAt string `json:"ev_at,omitempty"` // class errval: what returns it (handler function, middleware, Publish call)
	Y1   int    `json:"-"`
	Y2   int    `json:"-"`
}

// hspec is one handler of the Router.
type hspec struct {
	Kind string
	Sub  int // index into config.Subs
	Pub  int // index into config.Pubs (-1: the handler has no publisher of its own)

	// class names
	Named bool     // register the handler under Name (otherwise under a name derived from the case id)
	Name  string   // may be empty, blank, equal to a topic ...
	MW    []string // middlewares added to this handler only (Handler.AddMiddleware), in this order
	Late  bool     // added while the Router is running and started by RunHandlers
	// StopEarly: the handler gets its messages first and is stopped (Handler.Stop, Stopped() closed) before the late
	// handlers are added; a late handler may then be registered under the same name
	StopEarly bool

	// class topics: subscribe / publish topic given to AddHandler when Wired (otherwise names derived from the case id)
	Wired bool   `json:",omitempty"`
	In    string `json:"-"`
	Out   string `json:"-"`
	Desc  string `json:"topics,omitempty"` // In / Out, shortened
}

// pspec is one publisher instance.
type pspec struct {
	Type string // "S": *vlib.Pub (has a String method), "A"/"B": wrapper types without one
	Name string
	Beh  string // behaviour of the instance; "" = decided per message (mspec.P)
}

type config struct {
	Class   string
	Kind    string // kind of the only handler when Handlers is empty
	MW      []string
	Barrier bool
	YieldP  float64
	Specs   []mspec

	PanicVals bool // class panic
	ErrVals   bool // class errval

	// several handlers (class multi); empty = one handler of kind Kind with one publisher and one subscriber
	Handlers []hspec
	Pubs     []pspec
	Subs     []string // subscriber instance names
	PubMode  string
	PubDecos []string // router-level publisher decorators
	SubDecos int      // router-level subscriber decorators
	// SameTopics: all handlers publish to one topic name, and (when every handler has its own subscriber instance)
	// subscribe to one topic name; otherwise every handler has its own topic names
	SameTopics bool

	// class end
	End  string
	Keep bool

	// class names
	NameScheme string
	HOrder     []int // order in which the handlers are registered (nil: 0..n-1); late handlers keep their relative order
	RMWAt      int   // the router-level middlewares are added after this many handlers have been registered
	MWGrouped  bool  // handler-level middlewares are added after all (early) handlers have been registered, otherwise right after their handler

	// class topics (and a fifth of the cases of the random classes): scheme the topics were drawn by ("" = ordinary topics)
	Wiring string
}

func (c *config) normalize(id string) {
	if len(c.Handlers) == 0 {
		h := hspec{Kind: c.Kind, Sub: 0, Pub: -1}
		if c.Kind == kindPub {
			h.Pub = 0
			c.Pubs = []pspec{{Type: "S", Name: id}}
		}
		c.Handlers = []hspec{h}
		c.Subs = []string{id}
	}
}

// chainOf returns the middlewares of the chain of handler hd: cfg.MW ("-r": router level; "-h": added to every handler)
// and the ones that were added to this handler only.
func (c *config) chainOf(hd int) []string {
	if len(c.Handlers[hd].MW) == 0 {
		return c.MW
	}
	return append(append([]string{}, c.MW...), c.Handlers[hd].MW...)
}

func (c *config) suffix(k int) string {
	if len(c.Handlers) == 1 {
		return ""
	}
	return strconv.Itoa(k)
}

// topicIn / topicOut: subscribe and publish topic of handler k (after normalize).
func (c *config) topicIn(id string, k int) string {
	if k < len(c.Handlers) && c.Handlers[k].Wired {
		return c.Handlers[k].In
	}
	if c.SameTopics && len(c.Subs) == len(c.Handlers) {
		return id + ".in"
	}
	return id + ".in" + c.suffix(k)
}

func (c *config) topicOut(id string, k int) string {
	if k < len(c.Handlers) && c.Handlers[k].Wired {
		return c.Handlers[k].Out
	}
	if c.SameTopics {
		return id + ".out"
	}
	return id + ".out" + c.suffix(k)
}

// hname is the name under which handler k is registered.
func (c *config) hname(id string, k int) string {
	if c.Handlers[k].Named {
		return c.Handlers[k].Name
	}
	return id + ".h" + c.suffix(k)
}

// kindOf returns the kind of the handler that message i was emitted for.
func (c *config) kindOf(i int) string { return c.Handlers[c.Specs[i].Hd].Kind }

// ownBeh is the behaviour of the publisher of message i's own handler towards the outputs of message i.
func (c *config) ownBeh(i int) string {
	if p := c.Handlers[c.Specs[i].Hd].Pub; p >= 0 && c.Pubs[p].Beh != "" {
		return c.Pubs[p].Beh
	}
	return pbehs[c.Specs[i].P]
}

func run(e *vlib.Env) vlib.Result {
	idx := e.Idx
	if idx < matrixCases() {
		c := cells[idx/2]
		multi := idx%2 == 1
		n := 1
		class := "matrix/1"
		if multi {
			n = e.R.Range(2, 16)
			class = "matrix/n"
		}
		cfg := config{Class: class, Kind: c.Kind, MW: c.MW, Barrier: multi}
		if multi {
			cfg.YieldP = 0.3 // perturb the concurrent handleMessage goroutines at watermill's hook points
		}
		for i := 0; i < n; i++ {
			cfg.Specs = append(cfg.Specs, mspec{H: c.H, P: c.P, Y1: e.R.Intn(3), Y2: e.R.Intn(3)})
		}
		res := runBatch(e, cfg)
		res.Sig = vlib.Sig("matrix", idx/2, multi)
		return res
	}
	idx -= matrixCases()
	if idx < oldRandomCases(e.Tier) {
		return runBatch(e, sprinkle(e, randomSingle(e.R)))
	}
	idx -= oldRandomCases(e.Tier)
	if idx < len(endCells) {
		c := endCells[idx]
		cfg := config{Class: "end-matrix/" + c.End, Kind: c.Kind, End: c.End, Keep: c.Keep}
		// 0..2 messages that are settled before the subscription ends, then the one that is in flight at that moment
		// (the last one the subscription delivered)
		for i := e.R.Intn(3); i > 0; i-- {
			s := mspec{H: e.R.Intn(len(hbehs)), P: e.R.Intn(len(pbehs)), Y1: e.R.Intn(3), Y2: e.R.Intn(3)}
			if c.Kind == kindNoPub {
				s.H = hbehsNoOut[e.R.Intn(len(hbehsNoOut))]
			}
			cfg.Specs = append(cfg.Specs, s)
		}
		cfg.Specs = append(cfg.Specs, mspec{H: c.H, P: c.P, Hold: c.Hold, Y1: e.R.Intn(3), Y2: e.R.Intn(3)})
		res := runBatch(e, cfg)
		res.Sig = vlib.Sig("end-matrix", idx)
		return res
	}
	idx -= len(endCells)
	if idx < len(multiCells) {
		c := multiCells[idx]
		cfg := config{Class: "multi-matrix/" + c.PubMode, PubMode: c.PubMode, PubDecos: c.Decos, Barrier: e.R.Bool(), YieldP: 0.2, SameTopics: e.R.Chance(0.3)}
		buildMulti(&cfg, e.ID(), []string{kindPub, kindPub}, c.PubMode, e.R.Intn(3), func(k int) string { return c.Behs[k] })
		for hd := 0; hd < 2; hd++ {
			for i := e.R.Range(1, 2); i > 0; i-- {
				cfg.Specs = append(cfg.Specs, mspec{H: c.H, P: e.R.Intn(len(pbehs)), Hd: hd, Y1: e.R.Intn(3), Y2: e.R.Intn(3)})
			}
		}
		res := runBatch(e, cfg)
		res.Sig = vlib.Sig("multi-matrix", idx)
		return res
	}
	idx -= len(multiCells)
	if idx < endRandomCases(e.Tier) {
		cfg := randomSingle(e.R)
		cfg.Class = "random-end/" + cfg.Kind
		cfg.Barrier = false
		cfg.End = endModes[e.R.Intn(len(endModes))]
		cfg.Keep = e.R.Bool()
		cfg.SubDecos = e.R.Intn(3)
		if len(cfg.Specs) > 8 {
			cfg.Specs = cfg.Specs[:8]
		}
		for i := range cfg.Specs {
			cfg.Specs[i].Hold = []string{holdNone, holdPre, holdPost, holdPublish, holdPublish}[e.R.Intn(5)]
		}
		if last := &cfg.Specs[len(cfg.Specs)-1]; last.Hold == holdNone && e.R.Chance(0.7) {
			last.Hold = []string{holdPre, holdPost}[e.R.Intn(2)]
		}
		return runBatch(e, sprinkle(e, cfg))
	}
	idx -= endRandomCases(e.Tier)
	if idx >= multiRandomCases(e.Tier) {
		idx -= multiRandomCases(e.Tier)
		if idx < len(nameCells) {
			res := runBatch(e, namesCase(e, &nameCells[idx]))
			res.Sig = vlib.Sig("names-matrix", idx)
			return res
		}
		idx -= len(nameCells)
		if idx < namesRandomCases(e.Tier) {
			return runBatch(e, sprinkle(e, namesCase(e, nil)))
		}
		idx -= namesRandomCases(e.Tier)
		if idx < len(topicCells) {
			res := runBatch(e, topicsCase(e, &topicCells[idx]))
			res.Sig = vlib.Sig("topics-matrix", idx)
			return res
		}
		idx -= len(topicCells)
		if idx < topicsRandomCases(e.Tier) {
			return runBatch(e, topicsCase(e, nil))
		}
		return runExtra(e, idx-topicsRandomCases(e.Tier))
	}
	cfg := randomMulti(e.R, e.ID(), 2)
	cfg.Class = "random-multi/" + cfg.PubMode
	return runBatch(e, sprinkle(e, cfg))
}

// randomMulti draws a case with lo..4 handlers on one Router (class random-multi; the caller names the class).
func randomMulti(r *vlib.Rand, id string, lo int) config {
	nh := r.Range(lo, 4)
	kinds := make([]string, nh)
	for k := range kinds {
		switch x := r.Intn(10); {
		case x < 8 || k == 0:
			kinds[k] = kindPub
		case x < 9:
			kinds[k] = kindNilPub
		default:
			kinds[k] = kindNoPub
		}
	}
	pm := pubModes[r.Intn(len(pubModes))]
	cfg := config{Class: "random-multi/" + pm, PubMode: pm, MW: randomMW(r), SubDecos: r.Intn(3), YieldP: []float64{0, 0.1, 0.3, 0.6}[r.Intn(4)]}
	for i := r.Intn(3); i > 0; i-- {
		cfg.PubDecos = append(cfg.PubDecos, []string{"transform", "wrap"}[r.Intn(2)])
	}
	if len(cfg.PubDecos) > 0 {
		// Not combined: the Router hands a nil publisher to the decorators like any other, and calls Close on the result
		// when the handler stops - with decorators that forward Close (watermill's own MessageTransformPublisherDecorator
		// does) that is a nil dereference in a Router goroutine. It has nothing to do with settlements.
		for k := range kinds {
			if kinds[k] == kindNilPub {
				kinds[k] = kindNoPub
			}
		}
	}
	buildMulti(&cfg, id, kinds, pm, r.Intn(3), func(int) string {
		return []string{"", "", "", "accept", "accept", "accept", "error", "error", "panic-str", "panic-nil"}[r.Intn(10)]
	})
	for hd := 0; hd < nh; hd++ {
		for i := r.Range(1, 4); i > 0; i-- {
			s := mspec{H: r.Intn(len(hbehs)), P: r.Intn(len(pbehs)), Hd: hd, Y1: r.Intn(4), Y2: r.Intn(4)}
			if r.Chance(0.5) {
				s.H = []int{2, 3}[r.Intn(2)] // enough handlers whose outputs reach the publisher
			}
			if kinds[hd] == kindNoPub {
				s.H = hbehsNoOut[r.Intn(len(hbehsNoOut))]
			}
			cfg.Specs = append(cfg.Specs, s)
		}
	}
	cfg.Barrier = r.Chance(0.5)
	cfg.SameTopics = r.Chance(0.3)
	return cfg
}

// buildMulti fills in the handlers, publisher instances and subscriber instances of a multi-handler case.
// subMode: 0 = one subscriber instance per handler with equal names, 1 = with different names, 2 = one shared instance.
func buildMulti(cfg *config, id string, kinds []string, pubMode string, subMode int, beh func(k int) string) {
	for k, kind := range kinds {
		h := hspec{Kind: kind, Pub: -1}
		switch subMode {
		case 0:
			h.Sub = len(cfg.Subs)
			cfg.Subs = append(cfg.Subs, id)
		case 1:
			h.Sub = len(cfg.Subs)
			cfg.Subs = append(cfg.Subs, fmt.Sprintf("%s-s%d", id, k))
		default:
			if len(cfg.Subs) == 0 {
				cfg.Subs = []string{id}
			}
		}
		if kind == kindPub {
			if pubMode == "shared" && len(cfg.Pubs) > 0 {
				h.Pub = 0
			} else {
				p := pspec{Type: "S", Name: id, Beh: beh(len(cfg.Pubs))}
				switch pubMode {
				case "same-type":
					p.Type = "A"
				case "diff-string":
					p.Name = fmt.Sprintf("%s-p%d", id, len(cfg.Pubs))
				case "diff-type":
					p.Type = []string{"A", "B", "S"}[len(cfg.Pubs)%3]
				}
				h.Pub = len(cfg.Pubs)
				cfg.Pubs = append(cfg.Pubs, p)
			}
		}
		cfg.Handlers = append(cfg.Handlers, h)
	}
}

// randomSingle draws a one-handler batch (the original random class).
func randomSingle(r *vlib.Rand) config {
	cfg := config{Class: "random"}
	switch k := r.Intn(10); {
	case k < 6:
		cfg.Kind = kindPub
	case k < 8:
		cfg.Kind = kindNilPub
	default:
		cfg.Kind = kindNoPub
	}
	cfg.Class = "random/" + cfg.Kind
	cfg.MW = randomMW(r)
	n := 1 + r.Intn(16)
	cfg.Barrier = n > 1 && r.Chance(0.7)
	cfg.YieldP = []float64{0, 0.1, 0.3, 0.6}[r.Intn(4)]
	for i := 0; i < n; i++ {
		s := mspec{H: r.Intn(len(hbehs)), P: r.Intn(len(pbehs)), Y1: r.Intn(4), Y2: r.Intn(4)}
		if cfg.Kind == kindNoPub {
			s.H = hbehsNoOut[r.Intn(len(hbehsNoOut))]
		}
		if r.Chance(0.4) {
			s.P = 0 // keep enough accepting publishers for the Ack-after-Publish path
		}
		cfg.Specs = append(cfg.Specs, s)
	}
	return cfg
}

// randomMW: any number of pass-through middlewares around at most one transforming middleware, so
// that the expected chain result does not depend on the nesting order (which is another property).
func randomMW(r *vlib.Rand) []string {
	lvl := func() string {
		if r.Bool() {
			return "-r"
		}
		return "-h"
	}
	var mw []string
	for i := r.Intn(2); i > 0; i-- {
		mw = append(mw, "pass"+lvl())
	}
	switch r.Intn(8) {
	case 0, 1:
		mw = append(mw, "add"+lvl())
	case 2:
		mw = append(mw, "swallow"+lvl())
	case 3:
		mw = append(mw, "fail"+lvl())
	case 4:
		mw = append(mw, "recover"+lvl())
	}
	for i := r.Intn(2); i > 0; i-- {
		mw = append(mw, "pass"+lvl())
	}
	return mw
}

// ---------------------------------------------------------------------------------------------
// Reference function

type expectation struct {
	Self     string // first settlement made by the chain itself (a middleware of the chain or the handler function; "" if none)
	Entry    string // settlement state when the handler function is entered (made by a middleware of the chain)
	Exit     string // settlement state when the handler function is left
	SelfRet  []bool // what the settlement calls of the handler function return
	ChainErr bool   // the chain returned an error or panicked
	NOuts    int    // number of messages the chain returned (only meaningful for the publish decision when !ChainErr)
	Publish  bool   // the publisher must be called
	Final    string // "ack" | "nack"
}

func mwKind(name string) string { return name[:strings.IndexByte(name, '-')] }

func isSettler(kind string) bool { return kind == "iack" || kind == "inack" || kind == "lack" }

// transformer is the (only) middleware of the chain that changes the result of the inner handler.
func transformer(mw []string) string {
	for _, m := range mw {
		if k := mwKind(m); k != "pass" && !isSettler(k) {
			return k
		}
	}
	return ""
}

// settler is the (only) middleware of the chain that settles the message itself.
func settler(mw []string) string {
	for _, m := range mw {
		if k := mwKind(m); isSettler(k) {
			return k
		}
	}
	return ""
}

// settleSim replays Ack / Nack calls on a message: the first one wins, Ack after Ack (Nack after Nack) reports true.
type settleSim struct{ s string }

func (m *settleSim) do(what string) bool {
	if m.s == "" {
		m.s = what
	}
	return m.s == what
}

// expect is the oracle's model of the statement.
func expect(kind string, mw []string, h hbeh, pb string) expectation {
	var x expectation
	// settlements made by the chain itself, in the order in which they are made: a middleware before the handler
	// function, the handler function, a middleware after it
	var sim settleSim
	set := settler(mw)
	switch set {
	case "iack":
		sim.do("ack")
	case "inack":
		sim.do("nack")
	}
	x.Entry = sim.s
	switch h.Pre {
	case "ack":
		x.SelfRet = []bool{sim.do("ack")}
	case "nack":
		x.SelfRet = []bool{sim.do("nack")}
	case "acknack":
		x.SelfRet = []bool{sim.do("ack"), sim.do("nack")}
	}
	x.Exit = sim.s
	if set == "lack" {
		sim.do("ack")
	}
	x.Self = sim.s
	outs := 0
	if h.Outs > 0 && kind != kindNoPub {
		outs = h.Outs
	}
	panicked := strings.HasPrefix(h.End, "panic")
	failed := strings.HasPrefix(h.End, "err")
	if panicked {
		outs = 0
	}
	switch transformer(mw) {
	case "add":
		if !panicked {
			outs++
		}
	case "drop":
		if !panicked {
			outs = 0
		}
	case "swallow":
		if !panicked {
			failed = false
		}
	case "fail", "failwith":
		if !panicked {
			failed = true
		}
	case "recover":
		if panicked {
			panicked, failed = false, true
		}
	case "panicafter":
		panicked, outs = true, 0
	}
	x.ChainErr = panicked || failed
	x.NOuts = outs
	x.Publish = !x.ChainErr && outs > 0 && kind == kindPub
	success := !x.ChainErr && (outs == 0 || (kind == kindPub && pb == "accept"))
	switch {
	case x.Self != "":
		x.Final = x.Self // "a settlement the handler made itself is never overridden"
	case success:
		x.Final = "ack"
	default:
		x.Final = "nack"
	}
	return x
}

// ---------------------------------------------------------------------------------------------
// Monitor state

type outRec struct {
	uuid string
	ptr  *message.Message
	snap vlib.MsgSnap
}

type msgRec struct {
	in         *message.Message
	uuid       string
	sent       bool // Send returned
	taken      bool // Send returned true
	entries    int
	entryState string
	exitState  string
	exited     int
	samePtr    bool
	selfRet    []bool
	outs       []outRec // messages the chain returned for this message, in return order (handler outputs, then middleware extras)
	goid       int64
	seen       string // settlement observed by the watcher
	seenStamp  uint64
	handledBy  int         // index of the handler whose chain was invoked (first entry)
	mwEntries  map[int]int // middleware instance (index into state.mws) -> number of times it was invoked with this message
	mwTrace    []string    // the middlewares that were invoked with this message, in order of entry
	parked     string      // class end: hold point at which the message is (or was) parked before the gate opened
	atEnd      string      // class end: settlement state sampled after the subscription's end had propagated, before the gate opened
	atEndTaken bool
}

// mwInst is one middleware given to the Router.
type mwInst struct {
	kind  string
	owner int // handler it was added to with Handler.AddMiddleware; -1: router level (Router.AddMiddleware)
}

type pubKey struct{ pub, no int }

type pubRec struct {
	seq      int // arrival order over all publisher instances
	pub      int // publisher instance that received the call
	no       int
	topic    string
	uuids    []string
	ptrs     []*message.Message
	owner    int
	byGoid   bool
	valueOK  bool
	stateIn  string
	stateOut string
	endStamp uint64
	outcome  string
}

type state struct {
	pubCallsOf map[int]int // message index -> Publish calls made for it so far (behaviour "error-once")
	id         string
	cfg        config

	mu          sync.Mutex
	recs        []*msgRec
	byUUID      map[string]int
	ownerPtr    map[*message.Message]int
	ownerUUID   map[string]int
	byGoid      map[int64]int
	pubs        map[pubKey]*pubRec
	unknown     []string
	mws         []mwInst
	entered     int
	inflight    int
	maxInflight int
	settled     int

	barrier     chan struct{}
	barrierOnce sync.Once

	// class end: held messages wait for the gate
	gate     chan struct{}
	gateOnce sync.Once
	gateOpen bool // under mu

	pubDecoCalls atomic.Int64
	subDecoCalls atomic.Int64
}

func (st *state) releaseBarrier() { st.barrierOnce.Do(func() { close(st.barrier) }) }

func (st *state) openGate() {
	st.gateOnce.Do(func() {
		st.mu.Lock()
		st.gateOpen = true
		st.mu.Unlock()
		close(st.gate)
	})
}

// park holds the calling goroutine (which is working on message i) at hold point `at` until the gate opens.
func (st *state) park(i int, at string) {
	st.mu.Lock()
	if st.gateOpen || st.recs[i].parked != "" {
		st.mu.Unlock()
		return
	}
	st.recs[i].parked = at
	st.mu.Unlock()
	<-st.gate
}

// publisher wrapper types without a String method: the Router names them by their Go type
type pubA struct{ p *vlib.Pub }

func (w *pubA) Publish(topic string, msgs ...*message.Message) error {
	return w.p.Publish(topic, msgs...)
}
func (w *pubA) Close() error { return w.p.Close() }

type pubB struct{ p *vlib.Pub }

func (w *pubB) Publish(topic string, msgs ...*message.Message) error {
	return w.p.Publish(topic, msgs...)
}
func (w *pubB) Close() error { return w.p.Close() }

// decoPub is a publisher decorator written as a wrapping type (the other one is watermill's MessageTransformPublisherDecorator).
type decoPub struct {
	message.Publisher
	n *atomic.Int64
}

func (d *decoPub) Publish(topic string, msgs ...*message.Message) error {
	d.n.Add(1)
	return d.Publisher.Publish(topic, msgs...)
}

func mwLevel(owner int) string {
	if owner < 0 {
		return "router level"
	}
	return "added to handler #" + strconv.Itoa(owner)
}

func goid() int64 {
	var buf [64]byte
	n := runtime.Stack(buf[:], false)
	f := strings.Fields(string(buf[:n]))
	if len(f) < 2 {
		return -1
	}
	id, err := strconv.ParseInt(f[1], 10, 64)
	if err != nil {
		return -1
	}
	return id
}

func yield(n int) {
	for i := 0; i < n; i++ {
		runtime.Gosched()
	}
}

var errScriptedHandler = errors.New("c02: scripted handler error")
var errScriptedPublish = errors.New("c02: scripted publish error")
var errScriptedMW = errors.New("c02: scripted middleware error")

// handle is the innermost handler function of handler number hd.
func (st *state) handle(hd int, m *message.Message) ([]*message.Message, error) {
	st.mu.Lock()
	i, ok := st.byUUID[m.UUID]
	if !ok {
		st.unknown = append(st.unknown, m.UUID)
		st.mu.Unlock()
		return nil, nil
	}
	r := st.recs[i]
	sp := st.cfg.Specs[i]
	h := hbehs[sp.H]
	r.entries++
	entry := r.entries
	if entry == 1 {
		r.entryState = vlib.Settled(m)
		r.samePtr = m == r.in
		r.goid = goid()
		r.handledBy = hd
		st.byGoid[r.goid] = i
	}
	st.inflight++
	if st.inflight > st.maxInflight {
		st.maxInflight = st.inflight
	}
	st.entered++
	if st.entered >= len(st.recs) {
		st.releaseBarrier()
	}
	st.mu.Unlock()

	if st.cfg.Barrier {
		<-st.barrier
	}
	yield(sp.Y1)
	if sp.Hold == holdPre && entry == 1 {
		st.park(i, holdPre)
	}
	var selfRet []bool
	switch h.Pre {
	case "ack":
		selfRet = append(selfRet, m.Ack())
	case "nack":
		selfRet = append(selfRet, m.Nack())
	case "acknack":
		selfRet = append(selfRet, m.Ack(), m.Nack())
	}
	yield(sp.Y2)
	if sp.Hold == holdPost && entry == 1 {
		st.park(i, holdPost)
	}

	var outs []*message.Message
	if h.Outs == 0 {
		outs = []*message.Message{}
	}
	panics := strings.HasPrefix(h.End, "panic")
	if h.Outs > 0 && st.cfg.Handlers[hd].Kind != kindNoPub && !panics {
		for k := 0; k < h.Outs; k++ {
			o := message.NewMessage(fmt.Sprintf("%s-o%d-e%d", m.UUID, k, entry), []byte(fmt.Sprintf("out %d of %s", k, m.UUID)))
			o.Metadata.Set("from", m.UUID)
			outs = append(outs, o)
		}
	}
	st.mu.Lock()
	if entry == 1 {
		r.selfRet = selfRet
		r.exitState = vlib.Settled(m)
	}
	r.exited++
	for _, o := range outs {
		st.registerOut(i, o)
	}
	st.inflight--
	st.mu.Unlock()

	switch h.End {
	case "ok":
		return outs, nil
	case "err":
		if sp.EVAt == evAtHandler {
			return outs, errVals[sp.EV].Make()
		}
		return outs, errScriptedHandler
	case "err-canceled":
		return outs, context.Canceled
	case "err-wrapped-canceled":
		return outs, fmt.Errorf("c02: scripted handler error: %w", context.Canceled)
	}
	if sp.PVAt == pvAtHandler {
		panicVals[sp.PV].Do()
	}
	switch h.End {
	case "panic-str":
		panic("c02: scripted handler panic")
	case "panic-err":
		panic(errors.New("c02: scripted handler panic (error value)"))
	default:
		var v any
		panic(v) // panic(nil)
	}
}

// registerOut records (under st.mu) that o is returned by the chain for message i.
func (st *state) registerOut(i int, o *message.Message) {
	st.recs[i].outs = append(st.recs[i].outs, outRec{uuid: o.UUID, ptr: o, snap: vlib.Snap(o)})
	st.ownerPtr[o] = i
	st.ownerUUID[o.UUID] = i
}

// middleware builds one scripted middleware (see mwMatrix). owner is the handler it is going to be added to
// (-1: router level). Every invocation is recorded with the message it was made for.
func (st *state) middleware(name string, owner int) message.HandlerMiddleware {
	kind := mwKind(name)
	st.mu.Lock()
	inst := len(st.mws)
	st.mws = append(st.mws, mwInst{kind: kind, owner: owner})
	st.mu.Unlock()
	// enter records the invocation; foreign = the middleware was added to one handler and is running for a message
	// of another one (the Router must never do that; its effects are then not part of what the message's chain returns)
	enter := func(m *message.Message) (i int, known, foreign bool) {
		st.mu.Lock()
		defer st.mu.Unlock()
		i, known = st.byUUID[m.UUID]
		if !known {
			return
		}
		r := st.recs[i]
		if r.mwEntries == nil {
			r.mwEntries = map[int]int{}
		}
		r.mwEntries[inst]++
		foreign = owner >= 0 && owner != st.cfg.Specs[i].Hd
		lvl := "router"
		if owner >= 0 {
			lvl = "handler#" + strconv.Itoa(owner)
		}
		r.mwTrace = append(r.mwTrace, kind+"@"+lvl)
		return
	}
	return func(next message.HandlerFunc) message.HandlerFunc {
		switch kind {
		case "add":
			return func(m *message.Message) ([]*message.Message, error) {
				i, known, foreign := enter(m)
				outs, err := next(m)
				x := message.NewMessage(m.UUID+"-x", []byte("added by middleware"))
				st.mu.Lock()
				if known && !foreign {
					x.UUID = fmt.Sprintf("%s-x%d", m.UUID, len(st.recs[i].outs))
					st.registerOut(i, x)
				} else if known {
					// attributed to the message, but not one of the messages its own chain returns
					x.UUID = fmt.Sprintf("%s-xf%d", m.UUID, inst)
					st.ownerPtr[x] = i
					st.ownerUUID[x.UUID] = i
				}
				st.mu.Unlock()
				res := make([]*message.Message, 0, len(outs)+1)
				res = append(res, outs...)
				return append(res, x), err
			}
		case "drop":
			return func(m *message.Message) ([]*message.Message, error) {
				i, known, foreign := enter(m)
				_, err := next(m)
				if known && !foreign {
					st.mu.Lock()
					st.recs[i].outs = nil // still attributed to the message (ownerPtr / ownerUUID) if they are published anyway
					st.mu.Unlock()
				}
				return nil, err
			}
		case "panicafter":
			// panics after the inner handler finished, with the value drawn for the message
			return func(m *message.Message) ([]*message.Message, error) {
				i, known, foreign := enter(m)
				next(m)
				v := pvDefaultMW
				if known {
					st.mu.Lock()
					if sp := st.cfg.Specs[i]; sp.PVAt == pvAtMW {
						v = sp.PV
					}
					if !foreign {
						st.recs[i].outs = nil // still attributed to the message if they are published anyway
					}
					st.mu.Unlock()
				}
				panicVals[v].Do()
				return nil, nil
			}
		case "swallow":
			return func(m *message.Message) ([]*message.Message, error) {
				enter(m)
				outs, _ := next(m)
				return outs, nil
			}
		case "fail":
			return func(m *message.Message) ([]*message.Message, error) {
				enter(m)
				outs, err := next(m)
				if err == nil {
					err = errScriptedMW
				}
				return outs, err
			}
		case "failwith":
			// fails after the inner handler finished, with the error value drawn for the message; the messages the inner
			// handler returned are returned together with the error
			return func(m *message.Message) ([]*message.Message, error) {
				i, known, _ := enter(m)
				outs, _ := next(m)
				v := evDefaultMW
				if known {
					if sp := st.cfg.Specs[i]; sp.EVAt == evAtMW {
						v = sp.EV
					}
				}
				return outs, errVals[v].Make()
			}
		case "recover":
			return func(m *message.Message) (outs []*message.Message, err error) {
				enter(m)
				defer func() {
					if r := recover(); r != nil {
						outs, err = nil, fmt.Errorf("c02: recovered: %v", r)
					}
				}()
				return next(m)
			}
		case "iack":
			return func(m *message.Message) ([]*message.Message, error) {
				enter(m)
				m.Ack()
				return next(m)
			}
		case "inack":
			return func(m *message.Message) ([]*message.Message, error) {
				enter(m)
				m.Nack()
				return next(m)
			}
		case "lack":
			return func(m *message.Message) ([]*message.Message, error) {
				enter(m)
				defer m.Ack() // also when the inner handler panics: the result does not depend on the nesting order
				return next(m)
			}
		default: // pass
			return func(m *message.Message) ([]*message.Message, error) { enter(m); return next(m) }
		}
	}
}

func (st *state) onPublish(pub int, c *vlib.PubCall) {
	g := goid()
	st.mu.Lock()
	defer st.mu.Unlock()
	pr := &pubRec{seq: len(st.pubs), pub: pub, no: c.No, topic: c.Topic, ptrs: c.Msgs, owner: -1, valueOK: true}
	owners := map[int]bool{}
	for _, m := range c.Msgs {
		pr.uuids = append(pr.uuids, m.UUID)
		if o, ok := st.ownerPtr[m]; ok {
			owners[o] = true
		} else if o, ok := st.ownerUUID[m.UUID]; ok {
			owners[o] = true
		} else {
			owners[-1] = true
		}
	}
	if len(owners) == 1 {
		for o := range owners {
			pr.owner = o
		}
	} else if len(c.Msgs) == 0 {
		if o, ok := st.byGoid[g]; ok {
			pr.owner, pr.byGoid = o, true
		}
	}
	if pr.owner >= 0 {
		r := st.recs[pr.owner]
		pr.stateIn = vlib.Settled(r.in)
		for _, m := range c.Msgs {
			for _, o := range r.outs {
				if o.uuid == m.UUID && !o.snap.SameValue(m) {
					pr.valueOK = false
				}
			}
		}
	}
	st.pubs[pubKey{pub, c.No}] = pr
}

// script decides the outcome of call number no received by publisher instance pub.
func (st *state) script(pub int, no int, topic string, msgs []*message.Message) error {
	st.mu.Lock()
	pr := st.pubs[pubKey{pub, no}]
	beh := "accept"
	owner := -1
	if pr != nil && pr.owner >= 0 {
		owner = pr.owner
		// the instance that received the call decides (a distinct publisher instance behaves in its own way)
		beh = st.cfg.Pubs[pub].Beh
		if beh == "" {
			beh = pbehs[st.cfg.Specs[owner].P]
		}
	}
	hold := owner >= 0 && st.cfg.Specs[owner].Hold == holdPublish
	st.mu.Unlock()
	if hold {
		st.park(owner, holdPublish) // the Publish call has not returned while the message is parked here
	}
	st.mu.Lock()
	if owner >= 0 {
		pr.stateOut = vlib.Settled(st.recs[owner].in)
	}
	if beh == "error-once" {
		if st.pubCallsOf == nil {
			st.pubCallsOf = map[int]int{}
		}
		st.pubCallsOf[pr.owner]++
		if st.pubCallsOf[pr.owner] > 1 {
			beh = "accept"
		}
	}
	if pr != nil {
		pr.outcome = beh
		pr.endStamp = vlib.Now()
	}
	st.mu.Unlock()
	if (beh == "panic-str" || beh == "panic-nil") && owner >= 0 {
		if sp := st.cfg.Specs[owner]; sp.PVAt == pvAtPub {
			panicVals[sp.PV].Do()
		}
	}
	if (beh == "error" || beh == "error-once") && owner >= 0 {
		if sp := st.cfg.Specs[owner]; sp.EVAt == evAtPub {
			return errVals[sp.EV].Make()
		}
	}
	switch beh {
	case "error-once":
		return errScriptedPublish
	case "error":
		// the error value must not matter: plain, context.Canceled and a wrapper of it (the Router treats
		// context.Canceled specially when it logs handler errors)
		switch no % 3 {
		case 1:
			return context.Canceled
		case 2:
			return fmt.Errorf("c02: scripted publish failure: %w", context.Canceled)
		}
		return errScriptedPublish
	case "panic-str":
		panic("c02: scripted publisher panic")
	case "panic-nil":
		var v any
		panic(v)
	}
	return nil
}

// ---------------------------------------------------------------------------------------------
// One execution

var waitClose = vlib.WaitOpts{Watchdog: 60 * time.Second, NoTimerCheck: []string{"pubsub/sync.WaitGroupTimeout"}}

func runBatch(e *vlib.Env, cfg config) (res vlib.Result) {
	res.Class = cfg.Class
	id := e.ID()
	cfg.normalize(id)
	n := len(cfg.Specs)
	nh := len(cfg.Handlers)
	st := &state{
		id: id, cfg: cfg,
		byUUID: map[string]int{}, ownerPtr: map[*message.Message]int{}, ownerUUID: map[string]int{},
		byGoid: map[int64]int{}, pubs: map[pubKey]*pubRec{}, barrier: make(chan struct{}), gate: make(chan struct{}),
	}
	for i := 0; i < n; i++ {
		u := fmt.Sprintf("%s-m%d", id, i)
		m := message.NewMessage(u, []byte("in "+u))
		m.Metadata.Set("n", strconv.Itoa(i))
		st.recs = append(st.recs, &msgRec{in: m, uuid: u, handledBy: -1})
		st.byUUID[u] = i
	}
	topicIn := func(k int) string { return cfg.topicIn(id, k) }
	topicOut := func(k int) string { return cfg.topicOut(id, k) }
	hname := func(k int) string { return cfg.hname(id, k) }
	ownNames := map[string]bool{}
	for k := range cfg.Handlers {
		ownNames[hname(k)] = true
		if cfg.Handlers[k].Wired {
			ownNames[topicIn(k)] = true // the subscriber decorator's hook point reports the topic
		}
	}

	ctl := vlib.NewCtl(e.R.Uint64(), cfg.YieldP, 30)
	ctl.Filter(func(point, a, b string) bool { return a == "" || strings.HasPrefix(a, id) || ownNames[a] })
	defer ctl.Uninstall()

	subs := make([]*vlib.Sub, len(cfg.Subs))
	for j, name := range cfg.Subs {
		subs[j] = &vlib.Sub{Name: name}
	}
	vpubs := make([]*vlib.Pub, len(cfg.Pubs))
	pubIfc := make([]message.Publisher, len(cfg.Pubs))
	for j, ps := range cfg.Pubs {
		j := j
		vp := &vlib.Pub{
			Name:      ps.Name,
			OnPublish: func(c *vlib.PubCall) { st.onPublish(j, c) },
			Script:    func(no int, topic string, msgs []*message.Message) error { return st.script(j, no, topic, msgs) },
		}
		vpubs[j] = vp
		switch ps.Type {
		case "A":
			pubIfc[j] = &pubA{vp}
		case "B":
			pubIfc[j] = &pubB{vp}
		default:
			pubIfc[j] = vp
		}
	}
	router, err := message.NewRouter(message.RouterConfig{CloseTimeout: time.Hour}, watermill.NopLogger{})
	if err != nil {
		res.Inconclusive("NewRouter: %v", err)
		return res
	}
	for _, d := range cfg.PubDecos {
		if d == "transform" {
			// the transform must not change the value of the message: published values are compared with the returned ones
			router.AddPublisherDecorators(message.MessageTransformPublisherDecorator(func(*message.Message) { st.pubDecoCalls.Add(1) }))
		} else {
			router.AddPublisherDecorators(func(p message.Publisher) (message.Publisher, error) {
				return &decoPub{Publisher: p, n: &st.pubDecoCalls}, nil
			})
		}
	}
	for i := 0; i < cfg.SubDecos; i++ {
		router.AddSubscriberDecorators(message.MessageTransformSubscriberDecorator(func(*message.Message) { st.subDecoCalls.Add(1) }))
	}
	hds := make([]*message.Handler, nh)
	addHandler := func(k int) {
		hs := cfg.Handlers[k]
		fn := func(m *message.Message) ([]*message.Message, error) { return st.handle(k, m) }
		switch hs.Kind {
		case kindPub:
			hds[k] = router.AddHandler(hname(k), topicIn(k), subs[hs.Sub], topicOut(k), pubIfc[hs.Pub], fn)
		case kindNilPub:
			hds[k] = router.AddHandler(hname(k), topicIn(k), subs[hs.Sub], topicOut(k), nil, fn)
		default:
			hds[k] = router.AddNoPublisherHandler(hname(k), topicIn(k), subs[hs.Sub], func(m *message.Message) error {
				_, err := st.handle(k, m)
				return err
			})
		}
	}
	// the middlewares that are added to handler k only
	addOwnMW := func(k int) {
		for _, name := range cfg.Handlers[k].MW {
			hds[k].AddMiddleware(st.middleware(name, k))
		}
	}
	addRouterMW := func() {
		for _, name := range cfg.MW {
			if strings.HasSuffix(name, "-r") {
				router.AddMiddleware(st.middleware(name, -1))
			}
		}
	}
	// cfg.MW entries of handler level are added to every handler
	addCommonMW := func(ks []int) {
		for _, name := range cfg.MW {
			if !strings.HasSuffix(name, "-r") {
				for _, k := range ks {
					hds[k].AddMiddleware(st.middleware(name, k))
				}
			}
		}
	}
	horder := cfg.HOrder
	if horder == nil {
		for k := range cfg.Handlers {
			horder = append(horder, k)
		}
	}
	var early, late []int
	for _, k := range horder {
		if cfg.Handlers[k].Late {
			late = append(late, k)
		} else {
			early = append(early, k)
		}
	}
	// Everything the Router is told before Run. Default order (all classes but names): the handlers, the router-level
	// middlewares and the common handler-level ones in the order of cfg.MW, then the handlers' own middlewares.
	routerMWAdded := false
	grouped := cfg.MWGrouped || cfg.NameScheme == ""
	if cfg.NameScheme == "" {
		for _, k := range early {
			addHandler(k)
		}
		for _, name := range cfg.MW {
			if strings.HasSuffix(name, "-r") {
				router.AddMiddleware(st.middleware(name, -1))
			} else {
				for _, k := range early {
					hds[k].AddMiddleware(st.middleware(name, k))
				}
			}
		}
		routerMWAdded = true
	} else {
		for j, k := range early {
			if j == cfg.RMWAt {
				addRouterMW()
				routerMWAdded = true
			}
			addHandler(k)
			if !grouped {
				addCommonMW([]int{k})
				addOwnMW(k)
			}
		}
		if !routerMWAdded {
			// Router.AddMiddleware is only used before Run (it appends to the list without taking the lock under which
			// the handler goroutines copy it)
			addRouterMW()
		}
		if grouped {
			addCommonMW(early)
		}
	}
	if grouped {
		for _, k := range early {
			addOwnMW(k)
		}
	}
	if cfg.Keep {
		// a second handler that never gets a message: the Router keeps running when the first handler stops
		router.AddNoPublisherHandler(id+".keep", id+".keepin", &vlib.Sub{Name: id + "-keep"}, func(*message.Message) error { return nil })
	}

	runCtx, cancelRun := context.WithCancel(context.Background())
	defer cancelRun()
	runDone := make(chan struct{})
	var runErr error
	go func() { runErr = router.Run(runCtx); close(runDone) }()

	// Router.Close waits in sync.WaitGroupTimeout (one hour here): that timer cannot fire within a case
	wopts := vlib.WD
	if cfg.End != "" {
		wopts.NoTimerCheck = waitClose.NoTimerCheck
	}

	stop := make(chan struct{})
	var aux sync.WaitGroup
	closeStarted := false
	closeDone := make(chan struct{})
	cleanup := func() (clean bool) {
		st.releaseBarrier()
		st.openGate()
		if !closeStarted {
			closeStarted = true
			go func() { router.Close(); close(closeDone) }()
		}
		clean = true
		if oc, _ := vlib.WaitClosed(closeDone, waitClose); oc != vlib.Done {
			clean = false
		}
		if oc, _ := vlib.WaitClosed(runDone, waitClose); oc != vlib.Done {
			clean = false
		}
		close(stop)
		auxDone := make(chan struct{})
		go func() { aux.Wait(); close(auxDone) }()
		if oc, _ := vlib.WaitClosed(auxDone, waitClose); oc != vlib.Done {
			clean = false
		}
		return clean
	}

	if oc, d := vlib.WaitClosed(router.Running(), vlib.WD); oc != vlib.Done {
		res.Inconclusive("router did not reach Running: %v", oc)
		res.Witness = d
		cleanup()
		return res
	}
	sps := make([]*vlib.Subscription, nh)
	subscribed := func(ks []int) bool {
		for _, k := range ks {
			sps[k] = subs[cfg.Handlers[k].Sub].SubFor(topicIn(k))
			if sps[k] == nil {
				res.Inconclusive("router is running but did not subscribe to %s", topicIn(k))
				return false
			}
		}
		return true
	}
	if !subscribed(early) {
		cleanup()
		return res
	}

	// watchers: stamp the settlement of every emitted message when it becomes visible
	for i := range st.recs {
		aux.Add(1)
		go func(i int) {
			defer aux.Done()
			m := st.recs[i].in
			var what string
			select {
			case <-m.Acked():
				what = "ack"
			case <-m.Nacked():
				what = "nack"
			case <-stop:
				return
			}
			s := vlib.Now()
			st.mu.Lock()
			st.recs[i].seen, st.recs[i].seenStamp = what, s
			st.settled++
			st.mu.Unlock()
		}(i)
	}
	// senders: one per subscription, each emits its messages one after another (the Router takes the next one
	// without waiting for a settlement)
	startSender := func(k int) {
		aux.Add(1)
		go func() {
			defer aux.Done()
			for i := range st.recs {
				if cfg.Specs[i].Hd != k {
					continue
				}
				ok := sps[k].Send(st.recs[i].in)
				st.mu.Lock()
				st.recs[i].sent, st.recs[i].taken = true, ok
				st.mu.Unlock()
				if !ok {
					return
				}
			}
		}()
	}

	// class names, re-used names: handlers that are stopped before the late handlers are added get their messages first;
	// when all of them are settled the handler is stopped, and the harness waits until the Router reports it as stopped
	// (it has forgotten the handler's name by then: AddHandler accepts the name again)
	for _, k := range early {
		if !cfg.Handlers[k].StopEarly {
			continue
		}
		startSender(k)
		oc, d := vlib.WaitUntil(func() bool {
			st.mu.Lock()
			defer st.mu.Unlock()
			for i, r := range st.recs {
				if cfg.Specs[i].Hd == k && (!r.sent || r.taken && r.seen == "") {
					return false
				}
			}
			return true
		}, wopts)
		if oc == vlib.Done {
			hds[k].Stop()
			oc, d = vlib.WaitClosed(hds[k].Stopped(), wopts)
		}
		if oc != vlib.Done {
			res.Inconclusive("handler #%d (stopped before its name is used again) did not finish its messages and stop: %v", k, oc)
			res.Witness = d
			cleanup()
			return res
		}
	}

	// handlers that are added while the Router is running: their middlewares are in place before RunHandlers starts them
	if len(late) > 0 {
		for _, k := range late {
			addHandler(k)
			if !grouped {
				addCommonMW([]int{k})
				addOwnMW(k)
			}
		}
		if grouped {
			addCommonMW(late)
			for _, k := range late {
				addOwnMW(k)
			}
		}
		if err := router.RunHandlers(runCtx); err != nil {
			res.Inconclusive("RunHandlers: %v", err)
			cleanup()
			return res
		}
		if !subscribed(late) {
			cleanup()
			return res
		}
	}
	for k := range cfg.Handlers {
		if !cfg.Handlers[k].StopEarly {
			startSender(k)
		}
	}

	// class end: when every message is either settled or parked at its hold point, end the subscription, wait until
	// that has gone through the Router, and only then let the parked messages go on.
	parkedAtEnd := 0
	endOutcome := ""
	if cfg.End != "" {
		ready := func() bool {
			st.mu.Lock()
			defer st.mu.Unlock()
			for i, r := range st.recs {
				if !r.sent {
					return false
				}
				sp := cfg.Specs[i]
				parks := sp.Hold == holdPre || sp.Hold == holdPost ||
					(sp.Hold == holdPublish && expect(cfg.kindOf(i), cfg.chainOf(sp.Hd), hbehs[sp.H], cfg.ownBeh(i)).Publish)
				if parks && r.parked == "" || !parks && r.seen == "" {
					return false
				}
			}
			return true
		}
		ocReady, _ := vlib.WaitUntil(ready, wopts)
		st.mu.Lock()
		for _, r := range st.recs {
			if r.parked != "" {
				parkedAtEnd++
			}
		}
		st.mu.Unlock()
		stoppedCh := hds[0].Stopped()
		switch cfg.End {
		case "handler-stop":
			hds[0].Stop()
		case "router-close":
			closeStarted = true
			go func() { router.Close(); close(closeDone) }()
		case "ctx-cancel":
			cancelRun()
		case "sub-close":
			aux.Add(1)
			go func() { defer aux.Done(); subs[0].Close() }()
		}
		// The end has gone through the Router when the handler is reported as stopped or (earlier) when the Router has
		// closed the handler's publisher, which it does after the handler's message channel was closed. While Router.Close
		// is waiting for the parked messages neither may be observable: then the process becomes quiescent, which also
		// means that everything the end of the subscription triggers has happened.
		propagated := func() bool {
			if vlib.IsClosed(stoppedCh) {
				return true
			}
			return cfg.Handlers[0].Kind == kindPub && vpubs[0].CloseCalls.Load() > 0
		}
		ocEnd, _ := vlib.WaitUntil(propagated, wopts)
		switch {
		case ocReady == vlib.Inconclusive || ocEnd == vlib.Inconclusive:
			endOutcome = "inconclusive"
		case ocEnd == vlib.Stuck:
			endOutcome = "quiescent"
		default:
			endOutcome = "observed"
		}
		st.mu.Lock()
		for _, r := range st.recs {
			if r.parked != "" {
				r.atEnd, r.atEndTaken = vlib.Settled(r.in), true
			}
		}
		st.mu.Unlock()
		st.openGate()
	}

	allSettled := func() bool {
		st.mu.Lock()
		defer st.mu.Unlock()
		if st.settled < n {
			return false
		}
		for _, r := range st.recs {
			if !r.sent {
				return false
			}
		}
		return true
	}
	barrierAborted := false
	var stuckDump string
	oc, d := vlib.WaitUntil(allSettled, wopts)
	if oc == vlib.Stuck && cfg.Barrier {
		st.mu.Lock()
		waiting := st.entered < n
		st.mu.Unlock()
		if waiting {
			// fewer than n handlers could be brought in flight together: concurrency is not part of what the
			// statement promises, so let the ones that are waiting go on and judge the rest as a free-running case.
			barrierAborted = true
			st.releaseBarrier()
			oc, d = vlib.WaitUntil(allSettled, wopts)
		}
	}
	switch oc {
	case vlib.Stuck:
		stuckDump = d
	case vlib.Inconclusive:
		res.Inconclusive("messages were not all settled before the watchdog and the process was never quiescent")
		res.Witness = d
		cleanup()
		return res
	}
	clean := cleanup()

	// ---------------------------------------------------------------- judge
	st.mu.Lock()
	defer st.mu.Unlock()
	res.Hooks = ctl.Counts()
	ncalls := 0
	for _, vp := range vpubs {
		ncalls += len(vp.Calls())
	}
	type msgOut struct {
		Hd     int      `json:"handler_no"`
		H      string   `json:"handler"`
		P      string   `json:"publisher"`
		Hold   string   `json:"held_at,omitempty"`
		AtEnd  string   `json:"state_when_subscription_ended,omitempty"`
		Want   string   `json:"want"`
		Got    string   `json:"got"`
		AtExit string   `json:"state_at_handler_exit"`
		Pubs   []string `json:"publish_calls,omitempty"`
	}
	var sample []msgOut
	pubsOf := map[int][]*pubRec{}
	var allPubs []*pubRec
	for _, pr := range st.pubs {
		allPubs = append(allPubs, pr)
	}
	sort.Slice(allPubs, func(a, b int) bool { return allPubs[a].seq < allPubs[b].seq })
	for _, pr := range allPubs {
		pubsOf[pr.owner] = append(pubsOf[pr.owner], pr)
		res.Count("publish_calls", 1)
		res.Count("publish_"+pr.outcome, 1)
		res.Events += 2
		same := true
		if pr.owner >= 0 {
			for _, p := range pr.ptrs {
				if o, ok := st.ownerPtr[p]; !ok || o != pr.owner {
					same = false
				}
			}
		}
		if same {
			res.Count("publish_calls_same_pointers", 1)
		}
	}
	if ncalls != len(st.pubs) {
		res.Inconclusive("harness: %d Publish calls recorded by the publishers, %d by the monitor", ncalls, len(st.pubs))
	}
	if len(st.unknown) > 0 {
		res.Fail("handler-unknown-message", "the handler was invoked with messages the subscriber never emitted: %v", st.unknown)
	}
	if prs := pubsOf[-1]; len(prs) > 0 {
		pr := prs[0]
		if len(pr.uuids) == 0 {
			res.Fail("publish-empty", "Publish(%q) was called with no messages (call #%d)", short(pr.topic), pr.no)
		} else {
			res.Fail("publish-unattributed", "Publish call #%d carries messages that are not the outputs of exactly one handled message: %v", pr.no, pr.uuids)
		}
	}
	judged := 0
	var chainFails [][2]string
	var order []string
	type so struct {
		i int
		s uint64
	}
	var sos []so
	for i, r := range st.recs {
		spc := cfg.Specs[i]
		h := hbehs[spc.H]
		kind := cfg.kindOf(i)
		ownBeh := cfg.ownBeh(i)
		ownPub := cfg.Handlers[spc.Hd].Pub
		chain := cfg.chainOf(spc.Hd)
		x := expect(kind, chain, h, ownBeh)
		got := vlib.Settled(r.in)
		prsAll := pubsOf[i]
		// a Publish call counts for the message only if it reached the publisher instance of the message's own handler
		var prs, foreign []*pubRec
		for _, pr := range prsAll {
			if pr.pub == ownPub {
				prs = append(prs, pr)
			} else {
				foreign = append(foreign, pr)
			}
		}
		if i < 4 {
			mo := msgOut{Hd: spc.Hd, H: h.Name, P: ownBeh, Hold: r.parked, AtEnd: r.atEnd, Want: x.Final, Got: got, AtExit: r.exitState}
			for _, pr := range prsAll {
				mo.Pubs = append(mo.Pubs, fmt.Sprintf("publisher %d #%d %s %d msgs -> %s (consumed message: %q at entry, %q before return)", pr.pub, pr.no, short(pr.topic), len(pr.uuids), pr.outcome, pr.stateIn, pr.stateOut))
			}
			sample = append(sample, mo)
		}
		res.Events++ // emission
		if !r.taken {
			res.Count("not_taken", 1)
			continue
		}
		judged++
		res.Count("messages", 1)
		if spc.PVAt != "" {
			res.Count("messages_with_drawn_panic_value", 1)
			res.Count("panic_value_drawn_for_"+map[string]string{pvAtHandler: "handler", pvAtMW: "middleware", pvAtPub: "publisher"}[spc.PVAt], 1)
		}
		res.Events += 2*r.entries + 1
		desc := fmt.Sprintf("message %d/%d (handler=%s publisher=%s kind=%s middleware=%v)", i, n, h.Name, ownBeh, kind, cfg.MW)
		if spc.PVAt != "" {
			desc = fmt.Sprintf("message %d/%d (handler=%s publisher=%s kind=%s middleware=%v; panic value %s: raised in the %s)", i, n, h.Name, ownBeh, kind, cfg.MW,
				panicVals[spc.PV].Name, map[string]string{pvAtHandler: "handler function", pvAtMW: "panicafter middleware", pvAtPub: "Publish call"}[spc.PVAt])
		}
		if spc.EVAt != "" {
			res.Count("messages_with_drawn_error_value", 1)
			res.Count("error_value_drawn_for_"+map[string]string{evAtHandler: "handler", evAtMW: "middleware", evAtPub: "publisher"}[spc.EVAt], 1)
			desc = fmt.Sprintf("message %d/%d (handler=%s publisher=%s kind=%s middleware=%v; error value %s: returned by the %s)", i, n, h.Name, ownBeh, kind, cfg.MW,
				errVals[spc.EV].Name, map[string]string{evAtHandler: "handler function", evAtMW: "failwith middleware", evAtPub: "Publish call"}[spc.EVAt])
		}
		if nh > 1 {
			desc = fmt.Sprintf("message %d/%d (handler #%d of %d: %s, its publisher: instance %d of %v mode %q decorators %v -> %s, kind=%s middleware=%v)",
				i, n, spc.Hd, nh, h.Name, ownPub, len(cfg.Pubs), cfg.PubMode, cfg.PubDecos, ownBeh, kind, chain)
		}
		if cfg.NameScheme != "" {
			var others []string
			for k := range cfg.Handlers {
				if k != spc.Hd {
					others = append(others, fmt.Sprintf("#%d %q own middlewares %v", k, hname(k), cfg.Handlers[k].MW))
				}
			}
			desc += fmt.Sprintf(" [its handler is registered as %q (late: %v) with router-level middlewares %v and own middlewares %v; other handlers: %s; middlewares invoked with the message: %v]",
				hname(spc.Hd), cfg.Handlers[spc.Hd].Late, cfg.MW, cfg.Handlers[spc.Hd].MW, strings.Join(others, ", "), r.mwTrace)
		}
		if cfg.Wiring != "" {
			desc += fmt.Sprintf(" [topics drawn by scheme %q: its handler subscribes to %q and publishes to %q (handler name %q)]", cfg.Wiring, short(topicIn(spc.Hd)), short(topicOut(spc.Hd)), short(hname(spc.Hd)))
		}
		if r.parked != "" {
			desc += fmt.Sprintf(" [in flight (held at %s) when the subscription ended by %s; state at that moment %q]", r.parked, cfg.End, r.atEnd)
			res.Count("parked_"+r.parked, 1)
			wantAtEnd := x.Self
			if r.parked == holdPre {
				wantAtEnd = ""
			}
			if r.atEndTaken && r.atEnd != wantAtEnd {
				res.Count("settled_while_in_flight", 1) // judged below by the clauses of the statement
			}
		}

		// --- the handler chain is invoked (once) before the settlement
		if r.entries != 1 {
			if r.entries == 0 && got == "" && stuckDump != "" {
				res.Fail("settles", "%s: taken from the subscriber but never handled nor settled (process quiescent)", desc)
				res.Witness = stuckDump
			} else {
				res.Fail("handler-calls", "%s: handler chain invoked %d times (settled %q)", desc, r.entries, got)
			}
			continue
		}
		if r.handledBy != spc.Hd {
			res.Fail("handler-foreign-chain", "%s: the message was emitted by the subscription of handler #%d but the chain of handler #%d was invoked", desc, spc.Hd, r.handledBy)
		}
		if r.entryState != x.Entry {
			res.Fail("settled-before-handler", "%s: message is %q when the handler function is entered, its chain had made it %q by then", desc, r.entryState, x.Entry)
		}
		if r.exited > 0 && r.exitState != x.Exit {
			res.Fail("settled-before-handler-exit", "%s: at handler exit the message is %q, the chain itself had made it %q by then", desc, r.exitState, x.Exit)
		}
		for k, ok := range r.selfRet {
			if k < len(x.SelfRet) && ok != x.SelfRet[k] {
				res.Fail("self-settlement", "%s: settlement call %d inside the handler returned %v, want %v", desc, k, ok, x.SelfRet[k])
			}
		}
		if x.Self != "" {
			res.Count("self_settled", 1)
		}
		if x.ChainErr {
			res.Count("chain_failures", 1)
		}

		// --- publishing
		var exp []string
		for _, o := range r.outs {
			exp = append(exp, o.uuid)
		}
		if !x.ChainErr && len(exp) != x.NOuts {
			res.Inconclusive("harness: %s: chain returned %d messages, model says %d", desc, len(exp), x.NOuts)
		}
		for _, pr := range prsAll {
			if x.Self != "ack" {
				ackSeenEarly := r.seen == "ack" && pr.endStamp != 0 && r.seenStamp < pr.endStamp
				if pr.stateIn == "ack" || pr.stateOut == "ack" || ackSeenEarly {
					res.Fail("ack-before-publish", "%s: the consumed message was already acked while Publish call #%d had not returned (state at entry %q, before return %q, ack observed at %d, publish returned at %d)",
						desc, pr.no, pr.stateIn, pr.stateOut, r.seenStamp, pr.endStamp)
				}
			}
			if len(pr.uuids) == 0 {
				res.Fail("publish-empty", "%s: Publish(%q) was called with no messages", desc, short(pr.topic))
			}
		}
		if len(prsAll) > 0 && x.ChainErr {
			res.Fail("publish-after-error", "%s: the chain failed but %d Publish call(s) were made with %v", desc, len(prsAll), prsAll[0].uuids)
		} else if len(prsAll) > 0 && !x.Publish {
			res.Fail("publish-unexpected", "%s: no publish expected but %d call(s) were made", desc, len(prsAll))
		}
		if len(foreign) > 0 {
			res.Count("publish_calls_foreign", len(foreign))
		}
		if x.Publish {
			res.Count("publish_expected", 1)
			var concat []string
			for _, pr := range prs {
				concat = append(concat, pr.uuids...)
				// "accepted by the handler's publisher": the call is the one AddHandler's arguments describe, i.e.
				// Publish(publishTopic, outputs...) with exactly the string the handler was given
				res.Count("publish_calls_topic_compared", 1)
				if pr.topic == "" {
					res.Count("publish_calls_to_empty_topic", 1)
				}
				if pr.topic != topicOut(spc.Hd) {
					res.Fail("publish-topic", "%s: published to %q, handler's publish topic is %q", desc, short(pr.topic), short(topicOut(spc.Hd)))
				}
				if !pr.valueOK {
					res.Fail("publish-args", "%s: a published message differs in value from the one the chain returned", desc)
				}
			}
			switch {
			case len(prs) == 0 && len(foreign) > 0:
				// The outputs went to a publisher that is not the handler's. The statement ties the Ack to the handler's
				// publisher having accepted them; whether a Nack is right is decided by the settlement clauses below.
				if got == "ack" && x.Self == "" {
					res.Fail("publish-foreign-publisher", "%s: acked although the handler's own publisher was never offered the outputs %v; they were offered to publisher instance %d (%s)",
						desc, exp, foreign[0].pub, foreign[0].outcome)
				}
			case len(prs) == 0:
				res.Fail("publish-missing", "%s: the chain returned %d messages without error but Publish was never called (message %q)", desc, len(exp), got)
			case ownBeh == "accept":
				if strings.Join(concat, ",") != strings.Join(exp, ",") {
					res.Fail("publish-args", "%s: published %v, the chain returned %v", desc, concat, exp)
				}
			default:
				// the publisher rejects every call for this message: which of the outputs were offered, and in how many
				// calls, is not constrained by the statement (docs: "It may end up producing only some messages and sending
				// msg.Nack()"); attribution already guarantees that only this message's outputs were offered.
			}
		}

		// --- settlement
		acked, nacked := vlib.IsClosed(r.in.Acked()), vlib.IsClosed(r.in.Nacked())
		switch {
		case acked && nacked:
			res.Fail("both-settled", "%s: both Acked() and Nacked() are closed", desc)
		case got == "":
			if stuckDump != "" {
				res.Fail("settles", "%s: handled but neither acked nor nacked and the process is quiescent (want %s)", desc, x.Final)
				res.Witness = stuckDump
			} else {
				res.Inconclusive("harness: %s unsettled without a quiescence verdict", desc)
			}
		case got != x.Final && x.Self != "":
			res.Fail("self-settlement-overridden", "%s: the handler %sed the message itself, final state is %s", desc, x.Self, got)
		case got != x.Final && got == "ack":
			res.Fail("ack-on-failure", "%s: message was acked, want nack (chain failed: %v, outputs: %d, publish expected: %v)", desc, x.ChainErr, x.NOuts, x.Publish)
		case got != x.Final:
			res.Fail("nack-on-success", "%s: message was nacked, want ack (chain failed: %v, outputs: %d, publish expected: %v)", desc, x.ChainErr, x.NOuts, x.Publish)
		}
		// --- "invokes the handler chain": the chain of a handler is the router-level middlewares, the middlewares that were
		// added to that handler (Handler.AddMiddleware: "adds new middleware to the specified handler in the router") and
		// its function. Every scripted middleware calls the inner handler exactly once, so each of them is entered once.
		for inst, mi := range st.mws {
			k := r.mwEntries[inst]
			res.Count("middleware_invocations", k)
			switch own := mi.owner < 0 || mi.owner == spc.Hd; {
			case own && k == 0:
				chainFails = append(chainFails, [2]string{"chain-middleware-skipped", fmt.Sprintf("%s: the %s middleware (%s) of its chain was not invoked", desc, mi.kind, mwLevel(mi.owner))})
			case own && k > 1:
				chainFails = append(chainFails, [2]string{"handler-calls", fmt.Sprintf("%s: the %s middleware (%s) of its chain was invoked %d times", desc, mi.kind, mwLevel(mi.owner), k)})
			case !own && k > 0:
				res.Count("foreign_middleware_invocations", k)
				chainFails = append(chainFails, [2]string{"chain-foreign-middleware", fmt.Sprintf("%s: a %s middleware that was added to handler #%d (%q) only was invoked with this message", desc, mi.kind, mi.owner, hname(mi.owner))})
			}
		}
		if got == "ack" {
			res.Count("acked", 1)
		} else if got == "nack" {
			res.Count("nacked", 1)
		}
		if r.samePtr {
			res.Count("handler_got_emitted_pointer", 1)
		}
		sos = append(sos, so{i, r.seenStamp})
	}
	// reported after the clauses about settlements and Publish calls of all messages
	for _, f := range chainFails {
		res.Fail(f[0], "%s", f[1])
	}
	// Re-used names. The Router keeps the handler-level middlewares in one list keyed by handler NAME (router.go:
	// addHandlerLevelMiddleware / handler.run) and does not drop the entries of a handler that stopped, so a handler that
	// is later registered under that name gets them in its chain. All violations this causes are reported under one clause.
	inherited := 0
	for i, r := range st.recs {
		hd := cfg.Specs[i].Hd
		for inst, k := range r.mwEntries {
			if o := st.mws[inst].owner; k > 0 && o >= 0 && o != hd && cfg.Handlers[o].StopEarly && hname(o) == hname(hd) {
				inherited += k
			}
		}
	}
	if inherited > 0 {
		res.Count("inherited_middleware_invocations", inherited)
		if res.Failed() {
			res.Reason = "[" + res.Clause + "] " + res.Reason
			res.Clause = "name-reuse-inherits-middleware"
		}
	}
	sort.Slice(sos, func(a, b int) bool { return sos[a].s < sos[b].s })
	for _, s := range sos {
		order = append(order, strconv.Itoa(s.i))
	}
	res.Count("handlers_in_flight_max_sum", st.maxInflight)
	if barrierAborted {
		res.Count("barrier_aborted", 1)
	}
	if st.maxInflight >= 2 {
		res.Count("cases_with_overlap", 1)
	}
	if st.maxInflight >= 8 {
		res.Count("cases_with_8_in_flight", 1)
	}
	if !clean && res.Verdict == "" {
		res.Inconclusive("router Close/Run did not return after every message was settled (not judged by C02)")
		res.Witness = stuckDump
	}
	if clean && runErr != nil {
		res.Count("run_errors", 1)
	}
	res.NonTrivial = judged == n && (!cfg.Barrier || st.maxInflight >= 2)
	if cfg.End != "" {
		res.Count("end_"+cfg.End, 1)
		res.Count("end_propagation_"+endOutcome, 1)
		res.Count("in_flight_when_subscription_ended", parkedAtEnd)
		if cfg.Keep {
			res.Count("end_with_second_handler", 1)
		}
		res.NonTrivial = res.NonTrivial && parkedAtEnd >= 1 && endOutcome != "inconclusive"
		if endOutcome == "inconclusive" && res.Verdict == "" {
			res.Inconclusive("the end of the subscription (%s) was neither observed to have gone through the Router nor was the process quiescent before the watchdog", cfg.End)
		}
	}
	if nh > 1 {
		handled := map[int]bool{}
		for _, r := range st.recs {
			if r.handledBy >= 0 {
				handled[r.handledBy] = true
			}
		}
		res.Count("handlers", nh)
		res.Count("publisher_instances", len(cfg.Pubs))
		res.Count("pubmode_"+cfg.PubMode, 1)
		res.NonTrivial = res.NonTrivial && len(handled) >= 2
	}
	if cfg.NameScheme != "" {
		changing, plain := 0, 0
		for k, hs := range cfg.Handlers {
			switch nm := hname(k); {
			case nm == "":
				res.Count("handlers_named_empty", 1)
			case strings.TrimSpace(nm) == "":
				res.Count("handlers_named_blank", 1)
			}
			if transformer(hs.MW) != "" || settler(hs.MW) != "" {
				changing++
			}
			if len(hs.MW) == 0 {
				plain++
			}
			if hs.Late {
				res.Count("handlers_started_by_RunHandlers", 1)
			}
			if hs.StopEarly {
				res.Count("handlers_stopped_before_their_name_is_used_again", 1)
			}
			for j := range cfg.Handlers {
				if a, b := hname(j), hname(k); j != k && a != "" && strings.HasPrefix(b, a) {
					res.Count("handler_name_is_prefix_of_another", 1)
				}
			}
			for j := range cfg.Handlers {
				if nm := hname(k); nm == topicIn(j) || nm == topicOut(j) {
					res.Count("handler_name_equals_a_topic", 1)
					break
				}
			}
		}
		res.Count("names_scheme_"+cfg.NameScheme, 1)
		res.Count("handlers_with_outcome_changing_own_middleware", changing)
		res.Count("handlers_without_own_middleware", plain)
		res.NonTrivial = res.NonTrivial && changing >= 1 && plain >= 1
	}
	if cfg.Wiring != "" {
		res.Count("cases_with_unusual_topics", 1)
		res.Count("topics_scheme_"+cfg.Wiring, 1)
		inN, outN := map[string]int{}, map[string]int{}
		for k, hs := range cfg.Handlers {
			inN[topicIn(k)]++
			if hs.Kind != kindNoPub {
				outN[topicOut(k)]++
			}
		}
		for k, hs := range cfg.Handlers {
			ti, to := topicIn(k), topicOut(k)
			if ti == "" {
				res.Count("handlers_subscribed_to_empty_topic", 1)
			}
			if inN[ti] > 1 {
				res.Count("handlers_sharing_a_subscribe_topic", 1)
			}
			if len(ti) > 1024 || len(to) > 1024 {
				res.Count("handlers_with_long_topics", 1)
			}
			if hs.Kind == kindNoPub {
				continue
			}
			if to == "" && hs.Kind == kindPub {
				res.Count("handlers_with_publisher_and_empty_publish_topic", 1)
			}
			if to == ti {
				res.Count("handlers_publishing_to_their_subscribe_topic", 1)
			} else if inN[to] > 0 {
				res.Count("handlers_publishing_to_another_handlers_subscribe_topic", 1)
			}
			if outN[to] > 1 {
				res.Count("handlers_sharing_a_publish_topic", 1)
			}
		}
	}
	if k := int(st.pubDecoCalls.Load()); k > 0 {
		res.Count("publisher_decorator_calls", k)
	}
	if k := int(st.subDecoCalls.Load()); k > 0 {
		res.Count("subscriber_decorator_calls", k)
	}
	var shape []string
	for _, s := range cfg.Specs {
		shape = append(shape, fmt.Sprintf("%d/%d/%d/%s%s%s", s.Hd, s.H, s.P, s.Hold, pvName(s), evName(s)))
	}
	if nh == 1 && cfg.End == "" && cfg.Wiring == "" && !cfg.PanicVals && !cfg.ErrVals {
		shape = shape[:0]
		for _, s := range cfg.Specs {
			shape = append(shape, fmt.Sprintf("%d/%d", s.H, s.P))
		}
		res.Sig = vlib.Sig("random", cfg.Kind, cfg.MW, cfg.Barrier, shape, order)
	} else {
		res.Sig = vlib.Sig(cfg.Class, cfg.Handlers, cfg.Pubs, len(cfg.Subs), cfg.PubDecos, cfg.SubDecos, cfg.SameTopics, cfg.End, cfg.Keep, cfg.MW, cfg.Barrier, shape, order, cfg.NameScheme, cfg.HOrder, cfg.RMWAt, cfg.MWGrouped, cfg.Wiring)
	}
	res.Sample = map[string]any{
		"kind": cfg.Kind, "middleware": cfg.MW, "messages": n, "barrier": cfg.Barrier, "max_in_flight": st.maxInflight,
		"settlement_order": order, "first_messages": sample,
	}
	if cfg.Wiring != "" {
		var ts []string
		for k := range cfg.Handlers {
			ts = append(ts, cfg.Handlers[k].Desc)
		}
		res.Sample.(map[string]any)["topics_scheme"] = cfg.Wiring
		res.Sample.(map[string]any)["topics"] = ts
	}
	if cfg.End != "" {
		res.Sample.(map[string]any)["subscription_ended_by"] = cfg.End
		res.Sample.(map[string]any)["second_handler"] = cfg.Keep
		res.Sample.(map[string]any)["subscriber_decorators"] = cfg.SubDecos
	}
	if nh > 1 {
		res.Sample.(map[string]any)["handlers"] = cfg.Handlers
		res.Sample.(map[string]any)["publishers"] = cfg.Pubs
		res.Sample.(map[string]any)["publisher_decorators"] = cfg.PubDecos
		res.Sample.(map[string]any)["subscriber_instances"] = len(cfg.Subs)
		res.Sample.(map[string]any)["same_topic_names"] = cfg.SameTopics
		if cfg.NameScheme != "" {
			res.Sample.(map[string]any)["registration"] = map[string]any{"handler_order": cfg.HOrder, "router_middlewares_after_n_handlers": cfg.RMWAt, "handler_middlewares_after_all_handlers": cfg.MWGrouped}
		}
		if cfg.SameTopics {
			res.Count("cases_with_equal_topic_names", 1)
		}
	}
	return res
}
