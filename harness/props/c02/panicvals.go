package c02

// Class panic: the handler function, a middleware of the chain or the handler's publisher panics with values of every
// kind. The statement says "Nack if it ... panicked, or publishing ... panicked" - whatever the value given to panic is.

import (
	"context"
	"errors"
	"fmt"
	"io"
	"strings"

	"verifharness/vlib"
)

type pvStruct struct {
	A int
	B string
}
type pvInt int       // a named type without methods
type pvString string // not the type string
type pvStringer struct{ s string }

func (p pvStringer) String() string { return p.s }

type pvPtrStringer struct{ s string } // only *pvPtrStringer is a fmt.Stringer

func (p *pvPtrStringer) String() string { return "ptr-stringer" }

type pvErr struct{ code int }

func (e pvErr) Error() string { return fmt.Sprintf("c02: pvErr %d", e.code) }

type pvPtrErr struct{ code int }

func (e *pvPtrErr) Error() string { return "c02: pvPtrErr" } // safe on a nil receiver

type pvBadStringer struct{}

func (pvBadStringer) String() string { panic("c02: String() of the panic value panics") }

type pvBadErr struct{}

func (pvBadErr) Error() string { panic("c02: Error() of the panic value panics") }

type pvEmptyErr struct{}

func (pvEmptyErr) Error() string { return "" }

// pval is one way of panicking. Do never returns.
type pval struct {
	Name string
	Do   func()
}

var pvSink int

// panicVals[0] is the place holder for "the behaviour's own value" (panic-str / panic-err / panic-nil).
var panicVals = []pval{
	{"default", func() { panic("c02: scripted panic") }},
	{"int", func() { panic(42) }},
	{"int-zero", func() { panic(0) }},
	{"float", func() { panic(3.14) }},
	{"float-nan", func() { z := 0.0; panic(z / z) }},
	{"bool-true", func() { panic(true) }},
	{"bool-false", func() { panic(false) }},
	{"rune", func() { panic('x') }},
	{"uint8", func() { panic(uint8(7)) }},
	{"complex", func() { panic(complex(1, 2)) }},
	{"struct-empty", func() { panic(struct{}{}) }},
	{"struct", func() { panic(pvStruct{1, "x"}) }},
	{"struct-ptr", func() { panic(&pvStruct{2, "y"}) }},
	{"struct-nil-ptr", func() { panic((*pvStruct)(nil)) }},
	{"bytes", func() { panic([]byte("c02: panic with a byte slice")) }},
	{"bytes-nil", func() { panic([]byte(nil)) }},
	{"int-slice", func() { panic([]int{1, 2, 3}) }},
	{"array", func() { panic([3]int{1, 2, 3}) }},
	{"map", func() { panic(map[string]int{"a": 1}) }},
	{"map-nil", func() { panic(map[string]int(nil)) }},
	{"func", func() { panic(func() {}) }},
	{"func-nil", func() { panic((func())(nil)) }},
	{"chan", func() { panic(make(chan int)) }},
	{"chan-nil", func() { panic((chan int)(nil)) }},
	{"named-int", func() { panic(pvInt(7)) }},
	{"named-string", func() { panic(pvString("c02: panic with a named string type")) }},
	{"stringer", func() { panic(pvStringer{"c02: stringer"}) }},
	{"stringer-by-ptr-value", func() { panic(pvPtrStringer{"v"}) }}, // the value is not a Stringer
	{"stringer-by-ptr", func() { panic(&pvPtrStringer{"p"}) }},
	{"stringer-panics", func() { panic(pvBadStringer{}) }},
	{"string", func() { panic("c02: panic with a string") }},
	{"string-empty", func() { panic("") }},
	{"string-verbs", func() { panic("%s %d %!v(MISSING) %n") }},
	{"string-long", func() { panic(strings.Repeat("x", 1<<16)) }},
	{"error", func() { panic(errors.New("c02: panic with an error")) }},
	{"error-struct", func() { panic(pvErr{3}) }},
	{"error-ptr", func() { panic(&pvPtrErr{4}) }},
	{"error-typed-nil", func() { panic((*pvPtrErr)(nil)) }},
	{"error-empty-text", func() { panic(pvEmptyErr{}) }},
	{"error-panics", func() { panic(pvBadErr{}) }},
	{"error-wrapped", func() { panic(fmt.Errorf("c02: wrapped: %w", errors.New("inner"))) }},
	{"error-joined", func() { panic(errors.Join(errors.New("a"), errors.New("b"))) }},
	{"error-canceled", func() { panic(context.Canceled) }},
	{"error-wrapped-canceled", func() { panic(fmt.Errorf("c02: %w", context.Canceled)) }},
	{"error-deadline", func() { panic(context.DeadlineExceeded) }},
	{"error-eof", func() { panic(io.EOF) }},
	{"nil", func() { panic(nil) }},
	{"nil-interface", func() { var v any; panic(v) }},
	{"nil-error-interface", func() { var err error; panic(err) }},
	{"runtime-nil-map-write", func() { var m map[string]int; m["a"] = 1; panic("unreachable") }},
	{"runtime-index", func() { s := make([]int, pvSink); pvSink = s[pvSink+3]; panic("unreachable") }},
	{"runtime-slice-bounds", func() { s := make([]int, 2); k := 5 + pvSink; pvSink = len(s[k:]); panic("unreachable") }},
	{"runtime-nil-deref", func() { var p *pvStruct; pvSink = p.A; panic("unreachable") }},
	{"runtime-divide", func() { z := pvSink - pvSink; pvSink = 1 / z; panic("unreachable") }},
	{"runtime-type-assertion", func() { var v any = "s"; pvSink = v.(int); panic("unreachable") }},
	{"runtime-close-nil-chan", func() { var c chan int; close(c); panic("unreachable") }},
	{"runtime-close-closed-chan", func() { c := make(chan int); close(c); close(c); panic("unreachable") }},
	{"runtime-negative-make", func() { n := -1 - pvSink + pvSink; _ = make([]int, n); panic("unreachable") }},
	{"repanic-in-defer", func() {
		defer func() { panic(pvStruct{9, "second panic, raised by a deferred call while the first one unwinds"}) }()
		panic("first")
	}},
	{"repanic-recovered", func() {
		defer func() { r := recover(); panic(r) }()
		panic(12345)
	}},
}

// pvDefaultMW is the value a panicking middleware uses for messages that did not draw one.
const pvDefaultMW = 1

// where the panic is raised
const (
	pvAtHandler = "h"   // in the handler function (the behaviour of the message is one of the panicking ones)
	pvAtMW      = "mw"  // in the middleware "panicafter" of the chain, after the inner handler returned
	pvAtPub     = "pub" // in the Publish call made for the outputs
)

// handler behaviours that panic: panic-str, panic-err, panic-nil, ack-panic, nack-panic
var pvPanickingH = []int{9, 10, 11, 16, 22}

type panicCell struct {
	V    int    // index into panicVals
	At   string // pvAt*
	Kind string
	MW   string // the panicking middleware for At == "mw"
}

var panicCells = func() []panicCell {
	var cs []panicCell
	for v := 1; v < len(panicVals); v++ {
		cs = append(cs,
			panicCell{v, pvAtHandler, kindPub, ""},
			panicCell{v, pvAtHandler, kindNoPub, ""},
			panicCell{v, pvAtHandler, kindNilPub, ""},
			panicCell{v, pvAtMW, kindPub, "panicafter-r"},
			panicCell{v, pvAtMW, []string{kindNoPub, kindNilPub}[v%2], "panicafter-h"},
			panicCell{v, pvAtPub, kindPub, ""},
		)
	}
	return cs
}()

func panicRandomCases(tier string) int { return vlib.TierN(tier, 600, 20000) }

func panicCases(tier string) int { return len(panicCells) + panicRandomCases(tier) }

// passesAround puts 0..1 pass-through middlewares on either side of mw.
func passesAround(r *vlib.Rand, mw string) []string {
	var out []string
	lvl := func() string { return []string{"-r", "-h"}[r.Intn(2)] }
	if r.Chance(0.3) {
		out = append(out, "pass"+lvl())
	}
	out = append(out, mw)
	if r.Chance(0.3) {
		out = append(out, "pass"+lvl())
	}
	return out
}

// pvSpec draws a message that panics with value v at site at (the chain / kind must allow it).
func pvSpec(r *vlib.Rand, v int, at, kind string) mspec {
	s := mspec{PV: v, PVAt: at, Y1: r.Intn(3), Y2: r.Intn(3)}
	switch at {
	case pvAtHandler:
		s.H, s.P = pvPanickingH[r.Intn(len(pvPanickingH))], r.Intn(len(pbehs))
	case pvAtMW:
		s.H, s.P = []int{0, 2, 4, 13, 18, 5, 3}[r.Intn(7)], 0 // ret-nil, ret-1, err, ack-ok1, nack-ok1, err+1, ret-3
		if kind == kindNoPub {
			s.H = []int{0, 4, 12, 17}[r.Intn(4)] // ret-nil, err, ack-ok0, nack-ok0
		}
	default:
		s.H, s.P = []int{2, 3, 2, 3, 13, 18}[r.Intn(6)], []int{2, 2, 3}[r.Intn(3)] // ret-1, ret-3, (ack|nack)-ok1; panic-str, panic-nil
	}
	return s
}

func panicCase(e *vlib.Env, idx int) config {
	r := e.R
	if idx < len(panicCells) {
		c := panicCells[idx]
		cfg := config{Class: "panic-matrix/" + c.At, Kind: c.Kind, PanicVals: true, YieldP: []float64{0, 0.2}[r.Intn(2)]}
		if c.MW != "" {
			cfg.MW = passesAround(r, c.MW)
		} else if c.At == pvAtPub {
			cfg.MW = [][]string{nil, nil, {"pass-r"}, {"pass-h"}, {"add-r"}, {"add-h"}}[r.Intn(6)]
		} else if r.Chance(0.4) {
			cfg.MW = randomMW(r)
		}
		// the probe, then 0..2 messages that follow it through the same handler
		cfg.Specs = append(cfg.Specs, pvSpec(r, c.V, c.At, c.Kind))
		for i := r.Intn(3); i > 0; i-- {
			s := mspec{H: r.Intn(len(hbehs)), P: r.Intn(len(pbehs)), Y1: r.Intn(3), Y2: r.Intn(3)}
			if c.Kind == kindNoPub {
				s.H = hbehsNoOut[r.Intn(len(hbehsNoOut))]
			}
			if r.Bool() {
				s = pvSpec(r, 1+r.Intn(len(panicVals)-1), c.At, c.Kind)
			}
			cfg.Specs = append(cfg.Specs, s)
		}
		cfg.Barrier = len(cfg.Specs) > 1 && r.Bool()
		return cfg
	}
	cfg := randomSingle(r)
	cfg.PanicVals = true
	cfg.Class = "random-panic/" + cfg.Kind
	hasMW := false
	if r.Chance(0.25) {
		cfg.MW = passesAround(r, "panicafter"+[]string{"-r", "-h"}[r.Intn(2)])
		hasMW = true
	}
	for i := range cfg.Specs {
		if !r.Chance(0.6) {
			continue
		}
		v := 1 + r.Intn(len(panicVals)-1)
		at := pvAtHandler
		switch x := r.Intn(10); {
		case hasMW && x < 6:
			at = pvAtMW
		case cfg.Kind == kindPub && x >= 6:
			at = pvAtPub
		}
		s := pvSpec(r, v, at, cfg.Kind)
		cfg.Specs[i] = s
	}
	return cfg
}

func pvName(s mspec) string {
	if s.PVAt == "" {
		return ""
	}
	return panicVals[s.PV].Name + "@" + s.PVAt
}

// runExtra runs the cases of the classes that were added after the class topics: idx counts from the first of them.
func runExtra(e *vlib.Env, idx int) vlib.Result {
	if idx < panicCases(e.Tier) {
		res := runBatch(e, panicCase(e, idx))
		if idx < len(panicCells) {
			res.Sig = vlib.Sig("panic-matrix", idx)
		}
		return res
	}
	idx -= panicCases(e.Tier)
	if idx < asyncCases(e.Tier) {
		return runAsync(e, idx)
	}
	idx -= asyncCases(e.Tier)
	if idx < errCases(e.Tier) {
		res := runBatch(e, errCase(e, idx))
		if idx < len(errCells) {
			res.Sig = vlib.Sig("errval-matrix", idx)
		}
		return res
	}
	return runBuffered(e, idx-errCases(e.Tier))
}

func extraCases(tier string) int {
	return panicCases(tier) + asyncCases(tier) + errCases(tier) + bufCases(tier)
}
