package c02

// Class buffered: the subscriber hands out a BUFFERED channel (a client with a prefetch window) and fills it ahead of the
// consumer, so that at the moment the subscription ends - Handler.Stop, Router.Close, Run context cancelled, the
// subscriber closing by itself - messages sit in channel buffers between the subscriber and the handler function.
//
// "For every message a Router takes from a subscriber it ... settles the message exactly once."
//
// From when is a message taken? The only thing the subscriber can see is its own channel: a message that is still in the
// buffer of the channel it returned from Subscribe was never received by the Router (it stays the subscriber's business:
// a real client nacks / redelivers what is left of its prefetch window); a message that is no longer there was received
// by the Router (by the goroutine of its subscriber decorator, which is the only receiver of that channel). A channel is
// a FIFO queue and the scripted subscriber has one sending goroutine per subscription, so with
//
//	placed = number of messages the subscriber put into the channel (its send completed),
//	left   = len(ch), sampled after the subscriber stopped sending and closed the channel,
//
// the first placed-left messages in emission order are the taken ones. len(ch) can only shrink once the sender is done,
// so a sample taken at process quiescence is final. Every taken message must be acked or nacked by then; if its handler
// chain was invoked it is judged by the rules of all classes; if it was not (the Router can no longer deliver it because
// the handler's context ended: the pinned subscriber decorator nacks such a message) it must not be acked.

import (
	"context"
	"fmt"
	"sort"
	"strconv"
	"strings"
	"sync"
	"sync/atomic"
	"time"

	"github.com/ThreeDotsLabs/watermill"
	"github.com/ThreeDotsLabs/watermill/message"

	"verifharness/vlib"
)

// bufSub is a scripted subscriber whose subscriptions hand out buffered channels.
type bufSub struct {
	name     string
	capacity int

	mu         sync.Mutex
	subs       []*bufSubscription
	closing    chan struct{}
	closeOnce  sync.Once
	closeCalls atomic.Int32
}

func (s *bufSub) String() string { return "c02-bufsub:" + s.name }

type bufItem struct {
	m   *message.Message
	res chan bool
}

type bufSubscription struct {
	topic   string
	ctx     context.Context
	out     chan *message.Message // what Subscribe returned: capacity > 0
	in      chan *bufItem
	closing chan struct{}
	exited  chan struct{} // closed after out was closed
}

func (s *bufSub) Subscribe(ctx context.Context, topic string) (<-chan *message.Message, error) {
	sp := &bufSubscription{topic: topic, ctx: ctx, out: make(chan *message.Message, s.capacity), in: make(chan *bufItem), closing: s.closing, exited: make(chan struct{})}
	s.mu.Lock()
	s.subs = append(s.subs, sp)
	s.mu.Unlock()
	go sp.pump()
	return sp.out, nil
}

// pump is the only sender of out. Like every watermill subscriber it stops and closes the channel when the context of the
// subscription is cancelled or the subscriber is closed; what is in the buffer at that moment stays there.
func (sp *bufSubscription) pump() {
	defer close(sp.exited)
	defer close(sp.out)
	for {
		select {
		case <-sp.closing:
			return
		case <-sp.ctx.Done():
			return
		case it := <-sp.in:
			select {
			case sp.out <- it.m:
				it.res <- true
			case <-sp.closing:
				it.res <- false
				return
			case <-sp.ctx.Done():
				it.res <- false
				return
			}
		}
	}
}

// place blocks until m is in the channel (in its buffer or handed to a waiting receiver): true; or until the subscription
// ended: false.
func (sp *bufSubscription) place(m *message.Message) bool {
	it := &bufItem{m: m, res: make(chan bool, 1)}
	select {
	case sp.in <- it:
	case <-sp.exited:
		return false
	}
	return <-it.res
}

func (s *bufSub) Close() error {
	s.closeCalls.Add(1)
	s.closeOnce.Do(func() { close(s.closing) })
	s.mu.Lock()
	subs := append([]*bufSubscription(nil), s.subs...)
	s.mu.Unlock()
	for _, sp := range subs {
		<-sp.exited
	}
	return nil
}

func (s *bufSub) first() *bufSubscription {
	s.mu.Lock()
	defer s.mu.Unlock()
	if len(s.subs) == 0 {
		return nil
	}
	return s.subs[0]
}

// where a goroutine of the Router is parked while the buffers fill up and the subscription is ended
const (
	bufParkNone = "free" // nothing is parked: the end is triggered by the sending goroutine in the middle of its emissions
	bufParkRun  = "run"  // handler.run, right after it received a message from its channel (hook point router.run.received)
	bufParkDeco = "deco" // a subscriber decorator of the Router, holding a message it took (hook point decorator.sub.before_out)
)

var bufParks = []string{bufParkNone, bufParkRun, bufParkDeco}

type bufCell struct {
	End  string
	Cap  int
	Park string
	Keep bool
}

var bufCells = func() []bufCell {
	var cs []bufCell
	for _, end := range endModes {
		for _, c := range []int{1, 2, 8, 64} {
			for _, park := range bufParks {
				for _, keep := range []bool{false, true} {
					cs = append(cs, bufCell{end, c, park, keep})
				}
			}
		}
	}
	return cs
}()

func bufRandomCases(tier string) int { return vlib.TierN(tier, 300, 12000) }

func bufCases(tier string) int { return len(bufCells) + bufRandomCases(tier) }

func runBuffered(e *vlib.Env, idx int) (res vlib.Result) {
	r := e.R
	id := e.ID()

	// ---------------------------------------------------------------- the case
	var bc bufCell
	matrix := idx < len(bufCells)
	if matrix {
		bc = bufCells[idx]
	} else {
		bc = bufCell{End: endModes[r.Intn(len(endModes))], Park: bufParks[r.Intn(len(bufParks))], Keep: r.Bool()}
		switch r.Intn(4) {
		case 0:
			bc.Cap = 1
		case 1:
			bc.Cap = r.Range(2, 4)
		case 2:
			bc.Cap = r.Range(5, 16)
		default:
			bc.Cap = r.Range(17, 64)
		}
	}
	cfg := config{End: bc.End, Keep: bc.Keep, SubDecos: r.Intn(3), YieldP: []float64{0, 0.1, 0.3, 0.6}[r.Intn(4)]}
	switch k := r.Intn(10); {
	case k < 6:
		cfg.Kind = kindPub
	case k < 8:
		cfg.Kind = kindNilPub
	default:
		cfg.Kind = kindNoPub
	}
	if matrix {
		cfg.Class = "buffered-matrix/" + bc.End
	} else {
		cfg.Class = "random-buffered/" + bc.End
	}
	res.Class = cfg.Class
	if r.Bool() {
		cfg.MW = randomMW(r)
	}
	parkN := 0
	switch bc.Park {
	case bufParkRun:
		parkN = r.Intn(3)
	case bufParkDeco:
		parkN = r.Intn(3 * (1 + cfg.SubDecos))
	}
	n := parkN + 2*bc.Cap + cfg.SubDecos + r.Range(4, 10) // more than the buffers between subscriber and handler can hold
	endAfter := -1
	if bc.Park == bufParkNone {
		n = r.Range(bc.Cap+3, 3*bc.Cap+10)
		endAfter = r.Range(1, n-2)
	}
	for i := 0; i < n; i++ {
		s := mspec{H: r.Intn(len(hbehs)), P: r.Intn(len(pbehs)), Y1: r.Intn(3), Y2: r.Intn(3)}
		if cfg.Kind == kindNoPub {
			s.H = hbehsNoOut[r.Intn(len(hbehsNoOut))]
		}
		if r.Chance(0.4) {
			s.P = 0
		}
		cfg.Specs = append(cfg.Specs, s)
	}
	// sometimes one or two of the first messages are held inside the handler / inside Publish until the end has gone through
	nHeld := 0
	if r.Chance(0.3) {
		for k := r.Range(1, 2); k > 0; k-- {
			i := r.Intn(3)
			if i < n && cfg.Specs[i].Hold == "" {
				cfg.Specs[i].Hold = []string{holdPre, holdPost, holdPublish}[r.Intn(3)]
				nHeld++
			}
		}
	}
	cfg.normalize(id)

	st := &state{
		id: id, cfg: cfg,
		byUUID: map[string]int{}, ownerPtr: map[*message.Message]int{}, ownerUUID: map[string]int{},
		byGoid: map[int64]int{}, pubs: map[pubKey]*pubRec{}, barrier: make(chan struct{}), gate: make(chan struct{}),
	}
	for i := 0; i < n; i++ {
		u := fmt.Sprintf("%s-m%d", id, i)
		m := message.NewMessage(u, []byte("in "+u))
		m.Metadata.Set("n", strconv.Itoa(i))
		st.recs = append(st.recs, &msgRec{in: m, uuid: u, handledBy: -1})
		st.byUUID[u] = i
	}
	hname, topicIn, topicOut := cfg.hname(id, 0), cfg.topicIn(id, 0), cfg.topicOut(id, 0)

	ctl := vlib.NewCtl(e.R.Uint64(), cfg.YieldP, 30)
	ctl.Filter(func(point, a, b string) bool { return a == "" || strings.HasPrefix(a, id) })
	defer ctl.Uninstall()
	var park *vlib.Park
	switch bc.Park {
	case bufParkRun:
		park = ctl.ParkAt("router.run.received", func(a, b string) bool { return a == hname }, parkN)
	case bufParkDeco:
		park = ctl.ParkAt("decorator.sub.before_out", func(a, b string) bool { return a == topicIn }, parkN)
	}

	sub := &bufSub{name: id, capacity: bc.Cap, closing: make(chan struct{})}
	var vp *vlib.Pub
	if cfg.Kind == kindPub {
		vp = &vlib.Pub{
			Name:      id,
			OnPublish: func(c *vlib.PubCall) { st.onPublish(0, c) },
			Script:    func(no int, topic string, msgs []*message.Message) error { return st.script(0, no, topic, msgs) },
		}
	}
	router, err := message.NewRouter(message.RouterConfig{CloseTimeout: time.Hour}, watermill.NopLogger{})
	if err != nil {
		res.Inconclusive("NewRouter: %v", err)
		return res
	}
	for i := 0; i < cfg.SubDecos; i++ {
		router.AddSubscriberDecorators(message.MessageTransformSubscriberDecorator(func(*message.Message) { st.subDecoCalls.Add(1) }))
	}
	fn := func(m *message.Message) ([]*message.Message, error) { return st.handle(0, m) }
	var hd *message.Handler
	switch cfg.Kind {
	case kindPub:
		hd = router.AddHandler(hname, topicIn, sub, topicOut, vp, fn)
	case kindNilPub:
		hd = router.AddHandler(hname, topicIn, sub, topicOut, nil, fn)
	default:
		hd = router.AddNoPublisherHandler(hname, topicIn, sub, func(m *message.Message) error { _, err := st.handle(0, m); return err })
	}
	for _, name := range cfg.MW {
		if strings.HasSuffix(name, "-r") {
			router.AddMiddleware(st.middleware(name, -1))
		} else {
			hd.AddMiddleware(st.middleware(name, 0))
		}
	}
	if cfg.Keep {
		router.AddNoPublisherHandler(id+".keep", id+".keepin", &vlib.Sub{Name: id + "-keep"}, func(*message.Message) error { return nil })
	}

	runCtx, cancelRun := context.WithCancel(context.Background())
	defer cancelRun()
	runDone := make(chan struct{})
	go func() { router.Run(runCtx); close(runDone) }()

	wopts := vlib.WD
	wopts.NoTimerCheck = waitClose.NoTimerCheck // Router.Close waits in sync.WaitGroupTimeout (one hour here)

	var aux sync.WaitGroup
	closeDone := make(chan struct{})
	var closeOnce sync.Once
	startClose := func() { closeOnce.Do(func() { go func() { router.Close(); close(closeDone) }() }) }
	cleanup := func() (clean bool) {
		if park != nil {
			park.Release()
		}
		st.releaseBarrier()
		st.openGate()
		startClose()
		clean = true
		if oc, _ := vlib.WaitClosed(closeDone, waitClose); oc != vlib.Done {
			clean = false
		}
		if oc, _ := vlib.WaitClosed(runDone, waitClose); oc != vlib.Done {
			clean = false
		}
		subClosed := make(chan struct{})
		go func() { sub.Close(); close(subClosed) }()
		if oc, _ := vlib.WaitClosed(subClosed, waitClose); oc != vlib.Done {
			clean = false
		}
		auxDone := make(chan struct{})
		go func() { aux.Wait(); close(auxDone) }()
		if oc, _ := vlib.WaitClosed(auxDone, waitClose); oc != vlib.Done {
			clean = false
		}
		return clean
	}
	if oc, d := vlib.WaitClosed(router.Running(), vlib.WD); oc != vlib.Done {
		res.Inconclusive("router did not reach Running: %v", oc)
		res.Witness = d
		cleanup()
		return res
	}
	sp := sub.first()
	if sp == nil || sp.topic != topicIn {
		res.Inconclusive("router is running but did not subscribe to %s", topicIn)
		cleanup()
		return res
	}

	// ---------------------------------------------------------------- emission and the end of the subscription
	var (
		placed        int  // under st.mu: messages whose send into the subscriber's channel completed
		senderDone    bool // under st.mu
		bufferedAtEnd atomic.Int32
		placedAtEnd   atomic.Int32
		endOnce       sync.Once
	)
	bufferedAtEnd.Store(-1)
	triggerEnd := func() {
		endOnce.Do(func() {
			bufferedAtEnd.Store(int32(len(sp.out)))
			st.mu.Lock()
			placedAtEnd.Store(int32(placed))
			st.mu.Unlock()
			switch cfg.End {
			case "handler-stop":
				hd.Stop()
			case "router-close":
				startClose()
			case "ctx-cancel":
				cancelRun()
			case "sub-close":
				aux.Add(1)
				go func() { defer aux.Done(); sub.Close() }()
			}
		})
	}
	aux.Add(1)
	go func() {
		defer aux.Done()
		defer func() {
			st.mu.Lock()
			senderDone = true
			st.mu.Unlock()
		}()
		for i, rec := range st.recs {
			if i == endAfter {
				triggerEnd() // while messages are flowing
			}
			ok := sp.place(rec.in)
			st.mu.Lock()
			rec.sent, rec.taken = true, ok // taken: here "placed in the subscriber's channel"
			if ok {
				placed++
			}
			st.mu.Unlock()
			if !ok {
				return
			}
		}
	}()

	// everything the subscriber emitted and that is no longer in its channel is settled
	finalCond := func() bool {
		st.mu.Lock()
		defer st.mu.Unlock()
		if !senderDone || !vlib.IsClosed(sp.exited) {
			return false
		}
		taken := placed - len(sp.out)
		for i := 0; i < taken; i++ {
			if vlib.Settled(st.recs[i].in) == "" {
				return false
			}
		}
		return true
	}
	inconclusive := func(what string, d string) vlib.Result {
		res.Inconclusive("%s: the watchdog fired and the process was never quiescent", what)
		res.Witness = d
		cleanup()
		return res
	}
	parkArrived := false
	if park != nil {
		// the buffers fill up behind the parked goroutine until the sender blocks (quiescent) or has nothing left
		oc, d := vlib.WaitUntil(func() bool { st.mu.Lock(); defer st.mu.Unlock(); return senderDone }, wopts)
		if oc == vlib.Inconclusive {
			return inconclusive("filling the buffers", d)
		}
		parkArrived = park.HasArrived()
		triggerEnd()
	}
	// the end goes through the Router as far as it can while the parked goroutine / the held messages stay where they are
	oc, d := vlib.WaitUntil(finalCond, wopts)
	if oc == vlib.Inconclusive {
		return inconclusive("ending the subscription", d)
	}
	triggerEnd() // (a sender that was cut short by its subscription never got to it)
	heldAtEnd := 0
	st.mu.Lock()
	for _, rec := range st.recs {
		if rec.parked != "" {
			heldAtEnd++
		}
	}
	st.mu.Unlock()
	if park != nil {
		park.Release()
	}
	st.openGate()
	oc, d = vlib.WaitUntil(finalCond, wopts)
	if oc == vlib.Inconclusive {
		return inconclusive("settling the messages the Router had taken", d)
	}
	clean := cleanup()
	// Router.Close and Run have returned, the subscriber is closed: nothing takes messages out of the channel any more
	stuck, stuckDump := false, ""
	oc, d = vlib.WaitUntil(finalCond, wopts)
	switch oc {
	case vlib.Stuck:
		stuck, stuckDump = true, d // (the dump is empty when no goroutine but this one is left)
	case vlib.Inconclusive:
		res.Inconclusive("after Router.Close: messages the Router had taken are not settled, the watchdog fired and the process was never quiescent")
		res.Witness = d
		return res
	}

	// ---------------------------------------------------------------- judge
	st.mu.Lock()
	defer st.mu.Unlock()
	res.Hooks = ctl.Counts()
	left := len(sp.out)
	taken := placed - left
	pubsOf := map[int][]*pubRec{}
	var allPubs []*pubRec
	for _, pr := range st.pubs {
		allPubs = append(allPubs, pr)
	}
	sort.Slice(allPubs, func(a, b int) bool { return allPubs[a].seq < allPubs[b].seq })
	for _, pr := range allPubs {
		pubsOf[pr.owner] = append(pubsOf[pr.owner], pr)
		res.Count("publish_calls", 1)
		res.Count("publish_"+pr.outcome, 1)
		res.Events += 2
	}
	if len(st.unknown) > 0 {
		res.Fail("handler-unknown-message", "the handler was invoked with messages the subscriber never emitted: %v", st.unknown)
	}
	if prs := pubsOf[-1]; len(prs) > 0 {
		pr := prs[0]
		if len(pr.uuids) == 0 {
			res.Fail("publish-empty", "Publish(%q) was called with no messages (call #%d)", short(pr.topic), pr.no)
		} else {
			res.Fail("publish-unattributed", "Publish call #%d carries messages that are not the outputs of exactly one handled message: %v", pr.no, pr.uuids)
		}
	}
	where := fmt.Sprintf("subscriber channel capacity %d, subscription ended by %s (%s; %d messages in the subscriber's channel buffer and %d placed at that moment), %d subscriber decorators; "+
		"the subscriber placed %d of %d messages in its channel, %d are still in its buffer, so the Router took the first %d",
		bc.Cap, cfg.End, map[string]string{bufParkNone: "triggered between two emissions", bufParkRun: "while handler.run was parked right after receiving a message", bufParkDeco: "while a subscriber decorator was parked holding a message"}[bc.Park],
		bufferedAtEnd.Load(), placedAtEnd.Load(), cfg.SubDecos, placed, n, left, taken)
	handled, unhandledNacked := 0, 0
	chain := cfg.chainOf(0)
	for i, rec := range st.recs {
		spc := cfg.Specs[i]
		h := hbehs[spc.H]
		ownBeh := cfg.ownBeh(i)
		res.Events++
		if i >= taken {
			if rec.taken {
				res.Count("left_in_subscriber_buffer", 1)
			} else {
				res.Count("not_placed", 1)
			}
			if rec.entries > 0 {
				res.Inconclusive("harness: message %d/%d was handled although it counts as not taken (%s)", i, n, where)
			}
			continue
		}
		res.Count("messages", 1)
		res.Count("taken_from_buffered_channel", 1)
		res.Events += 2*rec.entries + 1
		got := vlib.Settled(rec.in)
		desc := fmt.Sprintf("message %d/%d (handler=%s publisher=%s kind=%s middleware=%v; %s)", i, n, h.Name, ownBeh, cfg.Kind, cfg.MW, where)
		if rec.parked != "" {
			desc += fmt.Sprintf(" [held at %s until the end had gone through]", rec.parked)
			res.Count("parked_"+rec.parked, 1)
		}
		acked, nacked := vlib.IsClosed(rec.in.Acked()), vlib.IsClosed(rec.in.Nacked())
		if acked && nacked {
			res.Fail("both-settled", "%s: both Acked() and Nacked() are closed", desc)
			continue
		}
		if got == "" {
			if stuck {
				if rec.entries == 0 {
					res.Fail("settles", "%s: taken from the subscriber's channel but never handled, acked or nacked (process quiescent)", desc)
				} else {
					res.Fail("settles", "%s: handled but neither acked nor nacked and the process is quiescent", desc)
				}
				res.Witness = stuckDump
			} else {
				res.Inconclusive("harness: %s unsettled without a quiescence verdict", desc)
			}
			continue
		}
		switch {
		case rec.entries == 0 && got == "ack":
			res.Fail("ack-unhandled", "%s: acked although its handler chain was never invoked", desc)
			continue
		case rec.entries == 0:
			// the Router could not deliver it to the handler any more and told the subscriber so
			unhandledNacked++
			res.Count("taken_nacked_without_handling", 1)
			continue
		case rec.entries > 1:
			res.Fail("handler-calls", "%s: handler chain invoked %d times (settled %q)", desc, rec.entries, got)
			continue
		}
		handled++
		res.Count("taken_and_handled", 1)
		x := expect(cfg.Kind, chain, h, ownBeh)
		if rec.entryState != x.Entry {
			res.Fail("settled-before-handler", "%s: message is %q when the handler function is entered, its chain had made it %q by then", desc, rec.entryState, x.Entry)
		}
		if rec.exited > 0 && rec.exitState != x.Exit {
			res.Fail("settled-before-handler-exit", "%s: at handler exit the message is %q, the chain itself had made it %q by then", desc, rec.exitState, x.Exit)
		}
		for k, ok := range rec.selfRet {
			if k < len(x.SelfRet) && ok != x.SelfRet[k] {
				res.Fail("self-settlement", "%s: settlement call %d inside the handler returned %v, want %v", desc, k, ok, x.SelfRet[k])
			}
		}
		prs := pubsOf[i]
		var exp, concat []string
		for _, o := range rec.outs {
			exp = append(exp, o.uuid)
		}
		for _, pr := range prs {
			concat = append(concat, pr.uuids...)
			if x.Self != "ack" && (pr.stateIn == "ack" || pr.stateOut == "ack") {
				res.Fail("ack-before-publish", "%s: the consumed message was already acked while Publish call #%d had not returned (state at entry %q, before return %q)", desc, pr.no, pr.stateIn, pr.stateOut)
			}
			if len(pr.uuids) == 0 {
				res.Fail("publish-empty", "%s: Publish(%q) was called with no messages", desc, short(pr.topic))
			}
			if x.Publish && pr.topic != topicOut {
				res.Fail("publish-topic", "%s: published to %q, handler's publish topic is %q", desc, short(pr.topic), short(topicOut))
			}
			if x.Publish && !pr.valueOK {
				res.Fail("publish-args", "%s: a published message differs in value from the one the chain returned", desc)
			}
		}
		switch {
		case len(prs) > 0 && x.ChainErr:
			res.Fail("publish-after-error", "%s: the chain failed but %d Publish call(s) were made with %v", desc, len(prs), prs[0].uuids)
		case len(prs) > 0 && !x.Publish:
			res.Fail("publish-unexpected", "%s: no publish expected but %d call(s) were made", desc, len(prs))
		case x.Publish && len(prs) == 0:
			res.Fail("publish-missing", "%s: the chain returned %d messages without error but Publish was never called (message %q)", desc, len(exp), got)
		case x.Publish && ownBeh == "accept" && strings.Join(concat, ",") != strings.Join(exp, ","):
			res.Fail("publish-args", "%s: published %v, the chain returned %v", desc, concat, exp)
		}
		if x.Publish {
			res.Count("publish_expected", 1)
		}
		switch {
		case got != x.Final && x.Self != "":
			res.Fail("self-settlement-overridden", "%s: the handler %sed the message itself, final state is %s", desc, x.Self, got)
		case got != x.Final && got == "ack":
			res.Fail("ack-on-failure", "%s: message was acked, want nack (chain failed: %v, outputs: %d, publish expected: %v)", desc, x.ChainErr, x.NOuts, x.Publish)
		case got != x.Final:
			res.Fail("nack-on-success", "%s: message was nacked, want ack (chain failed: %v, outputs: %d, publish expected: %v)", desc, x.ChainErr, x.NOuts, x.Publish)
		}
		if got == "ack" {
			res.Count("acked", 1)
		} else {
			res.Count("nacked", 1)
		}
	}
	if !clean && res.Verdict == "" {
		res.Inconclusive("router Close/Run did not return after the subscription had ended (not judged by C02)")
		res.Witness = stuckDump
	}
	atEnd := int(bufferedAtEnd.Load())
	res.Count("buffered_cases", 1)
	res.Count("buffered_end_"+cfg.End, 1)
	res.Count("buffered_park_"+bc.Park, 1)
	if park != nil && parkArrived {
		res.Count("buffered_goroutine_parked_when_subscription_ended", 1)
	}
	if atEnd > 0 {
		res.Count("in_subscriber_buffer_when_subscription_ended", atEnd)
		res.Count("buffered_cases_with_messages_in_buffer_at_end", 1)
	}
	if atEnd >= bc.Cap {
		res.Count("buffered_cases_with_full_buffer_at_end", 1)
	}
	if heldAtEnd > 0 {
		res.Count("in_flight_when_subscription_ended", heldAtEnd)
	}
	if k := int(st.subDecoCalls.Load()); k > 0 {
		res.Count("subscriber_decorator_calls", k)
	}
	res.Count("subscriber_channel_capacity_sum", bc.Cap)
	// non-trivial: messages sat in the subscriber's channel buffer when the subscription ended (or were left there), the
	// Router had taken messages, and at least one of them went through the handler chain
	res.NonTrivial = taken > 0 && handled > 0 && (atEnd > 0 || left > 0)
	var shape []string
	for _, s := range cfg.Specs {
		shape = append(shape, fmt.Sprintf("%d/%d/%s", s.H, s.P, s.Hold))
	}
	if matrix {
		res.Sig = vlib.Sig("buffered-matrix", idx)
	} else {
		res.Sig = vlib.Sig(cfg.Class, bc, cfg.Kind, cfg.MW, cfg.SubDecos, parkN, endAfter, shape, taken, unhandledNacked)
	}
	res.Sample = map[string]any{
		"kind": cfg.Kind, "middleware": cfg.MW, "messages": n, "subscriber_channel_capacity": bc.Cap, "subscription_ended_by": cfg.End, "parked": bc.Park,
		"second_handler": cfg.Keep, "subscriber_decorators": cfg.SubDecos, "placed": placed, "left_in_subscriber_buffer": left, "taken": taken,
		"handled": handled, "nacked_without_handling": unhandledNacked, "in_subscriber_buffer_when_ended": atEnd, "held_in_handler": nHeld,
	}
	return res
}
