package c02

// Class async: the handler settles the message itself from a goroutine it started (watchdog / time-out / async worker),
// at a moment that is before, exactly around, or after the moment at which the chain returns and the Router sends its
// own settlement. Whatever the interleaving, afterwards exactly one of Acked() / Nacked() is closed, and a settlement
// call of the handler that reported success (returned true) stands.
//
// The two racing calls are brought together by a spin barrier: the goroutine of the handler spins on a flag that is set
//   - by the handler function as its last statement ("return"),
//   - by the handler's publisher as its last statement ("publish"), or
//   - at watermill's hook point router.handle.before_settle, i.e. right before the Router's Ack ("hook"),
// and both sides then burn a number of loop iterations that is steered by the outcome of the earlier messages of the
// case (own call won -> it is delayed more, own call lost -> less), so that the calls drift towards each other. This
// only drives the schedule; no verdict depends on it.

import (
	"context"
	"errors"
	"fmt"
	"runtime"
	"strconv"
	"sync"
	"sync/atomic"
	"time"

	"github.com/ThreeDotsLabs/watermill"
	"github.com/ThreeDotsLabs/watermill/message"
	"github.com/ThreeDotsLabs/watermill/verifhook"

	"verifharness/vlib"
)

// how the chain ends
var asyncEnds = []string{"ok0", "ok1", "err", "err+1", "panic"}

// when the goroutine of the handler makes its settlement call
const (
	tBefore  = "before"  // before the handler returns (the handler waits for it)
	tReturn  = "return"  // spin barrier released by the handler's last statement
	tPublish = "publish" // spin barrier released by the last statement of the Publish call made for the outputs
	tHook    = "hook"    // spin barrier released right before the Router's Ack (hook point router.handle.before_settle)
	tPoll    = "poll"    // busy-polls Acked()/Nacked() and calls as soon as the Router's settlement is visible
	tAfter   = "after"   // blocks until the Router's settlement is visible, then calls
)

var asyncTimings = []string{tBefore, tReturn, tPublish, tHook, tPoll, tAfter}

func asyncRaces(timing string) bool {
	return timing == tReturn || timing == tPublish || timing == tHook
}

// aspec is the behaviour drawn for one message.
type aspec struct {
	End    string // asyncEnds
	PB     string // "accept" | "error" (only matters when a Publish call is expected)
	Own    string // "ack" | "nack": the call the handler's goroutine makes
	Timing string
	GSpin  int // loop iterations the handler's goroutine burns after the barrier opened
	HSpin  int // loop iterations the side that opened the barrier burns before it goes on
	GYield int // Gosched calls instead (jitter)
	HYield int
}

// routerWant is the settlement the Router owes the message when nobody else settles it.
func asyncRouterWant(kind string, s aspec) (want string, publish bool) {
	switch s.End {
	case "ok0":
		return "ack", false
	case "ok1":
		switch kind {
		case kindPub:
			if s.PB == "accept" {
				return "ack", true
			}
			return "nack", true
		case kindNilPub:
			return "nack", false // ErrOutputInNoPublisherHandler
		}
		return "ack", false // a NoPublishHandlerFunc cannot return messages
	}
	return "nack", false
}

func asyncValid(kind string, s aspec) bool {
	if kind == kindNoPub && (s.End == "ok1" || s.End == "err+1") {
		return false
	}
	want, publish := asyncRouterWant(kind, s)
	switch s.Timing {
	case tPublish:
		return publish
	case tHook:
		return want == "ack"
	}
	return true
}

type asyncCell struct {
	Kind   string
	End    string
	PB     string
	Own    string
	Timing string
	MW     int
}

var asyncCells = func() []asyncCell {
	var cs []asyncCell
	for _, kind := range []string{kindPub, kindNoPub, kindNilPub} {
		for _, end := range asyncEnds {
			pbs := []string{"accept"}
			if kind == kindPub && end == "ok1" {
				pbs = []string{"accept", "error"}
			}
			for _, pb := range pbs {
				for _, own := range []string{"ack", "nack"} {
					for _, tm := range asyncTimings {
						if !asyncValid(kind, aspec{End: end, PB: pb, Own: own, Timing: tm}) {
							continue
						}
						for _, mw := range []int{0, 2} {
							cs = append(cs, asyncCell{kind, end, pb, own, tm, mw})
						}
					}
				}
			}
		}
	}
	return cs
}()

func asyncRandomCases(tier string) int { return vlib.TierN(tier, 320, 2000) }

// messages per case
func asyncMsgs(tier string, timing string) int {
	switch {
	case timing == "": // a random case
		return vlib.TierN(tier, 200, 400)
	case asyncRaces(timing):
		return vlib.TierN(tier, 200, 800)
	case timing == tPoll:
		return vlib.TierN(tier, 64, 256)
	}
	return vlib.TierN(tier, 32, 128)
}

func asyncCases(tier string) int { return len(asyncCells) + asyncRandomCases(tier) }

type arec struct {
	idx  int
	m    *message.Message
	spec aspec

	ready    atomic.Int32 // the handler's goroutine is running
	flag     atomic.Int32 // 1, 2: ping (the handler's goroutine answers by copying it to pong), 3: the barrier is open
	pong     atomic.Int32
	tOpen    time.Time    // when the barrier was opened (written before flag becomes 3)
	live     bool         // the second ping was answered at once (written before flag becomes 3)
	returned atomic.Int32 // the handler function is about to return
	gstarted atomic.Int32 // the handler's goroutine is about to make its call
	gdone    chan struct{}

	mu         sync.Mutex
	taken      bool
	entries    int
	entryState string
	exitState  string
	pubCalls   int
	pubOuts    int
	pubEarly   string // "ack" if the message was acked inside Publish although the handler's goroutine had not started its call
	seen       string // poll / after: settlement the handler's goroutine saw before it made its call
	called     bool
	ret        bool
	flagMissed bool
	slow       bool // the two goroutines were not both running when the barrier opened (no feedback from this message)
}

type asyncState struct {
	id   string
	kind string

	mu   sync.RWMutex
	recs map[string]*arec
	all  []*arec

	stop     chan struct{}
	stopped  atomic.Int32
	unknown  atomic.Int32
	lanesEnd atomic.Int32
}

func (a *asyncState) lookup(uuid string) *arec {
	a.mu.RLock()
	r := a.recs[uuid]
	a.mu.RUnlock()
	return r
}

//go:noinline
func burn(n int) int {
	x := 1
	for i := 0; i < n; i++ {
		x += i ^ (x >> 3)
	}
	return x
}

// open opens the barrier of r and delays the caller as drawn for the message. It first makes sure that the handler's
// goroutine is on a processor right now (it answers a ping; the machine may be heavily loaded): otherwise the two calls
// would be milliseconds apart whatever the loop counts are.
func (r *arec) open() {
	if !r.flag.CompareAndSwap(0, 1) { // ping
		return // opened before (a second Publish call for the message, ...)
	}
	for n := 1; r.pong.Load() == 0 && n < 1<<16; n++ {
		if n&255 == 0 {
			runtime.Gosched()
		}
	}
	// a second round that is answered at once tells that both goroutines are on a processor at this moment
	r.flag.Store(2)
	for n := 1; n < 256; n++ {
		if r.pong.Load() == 2 {
			r.live = true
			break
		}
	}
	r.tOpen = time.Now()
	r.flag.Store(3)
	if r.spec.HYield > 0 {
		yield(r.spec.HYield)
		return
	}
	if burn(r.spec.HSpin) == -1 {
		runtime.Gosched()
	}
}

var errAsyncHandler = errors.New("c02: scripted handler error (async)")
var errAsyncPublish = errors.New("c02: scripted publish error (async)")

func (a *asyncState) handle(m *message.Message) ([]*message.Message, error) {
	r := a.lookup(m.UUID)
	if r == nil {
		a.unknown.Add(1)
		return nil, nil
	}
	entry := vlib.Settled(m)
	r.mu.Lock()
	r.entries++
	first := r.entries == 1
	if first {
		r.entryState = entry
	}
	r.mu.Unlock()
	if !first {
		return nil, nil
	}
	go a.settler(r) // the goroutine the handler starts; it settles the message
	for r.ready.Load() == 0 {
		runtime.Gosched()
	}
	if r.spec.Timing == tBefore {
		select {
		case <-r.gdone:
		case <-a.stop:
		}
	}
	var outs []*message.Message
	if r.spec.End == "ok1" || r.spec.End == "err+1" {
		o := message.NewMessage(m.UUID+"-o", []byte("out of "+m.UUID))
		o.Metadata.Set("from", m.UUID)
		outs = append(outs, o)
	}
	exit := vlib.Settled(m)
	r.mu.Lock()
	r.exitState = exit
	r.mu.Unlock()
	r.returned.Store(1)
	if r.spec.Timing == tReturn {
		r.open() // last statement of the handler
	}
	switch r.spec.End {
	case "err", "err+1":
		return outs, errAsyncHandler
	case "panic":
		panic("c02: scripted handler panic (async)")
	}
	return outs, nil
}

// settler is the goroutine the handler started.
func (a *asyncState) settler(r *arec) {
	defer close(r.gdone)
	r.ready.Store(1)
	m := r.m
	seen := ""
	missed := false
	switch tm := r.spec.Timing; {
	case tm == tBefore:
		yield(r.spec.GYield)
	case asyncRaces(tm):
		// bounded: if the barrier is not opened (the flagged point is not reached) the call is made some time after
		// the handler returned
		late := 0
		var ponged int32
		for n := 1; ; n++ {
			if f := r.flag.Load(); f == 3 {
				break
			} else if f > ponged {
				ponged = f
				r.pong.Store(f)
			}
			if n&0xffff == 0 {
				runtime.Gosched()
				if r.returned.Load() != 0 {
					if late++; late > 60 || a.stopped.Load() != 0 {
						missed = true
						break
					}
				}
			}
		}
		if r.spec.GYield > 0 {
			yield(r.spec.GYield)
		} else if burn(r.spec.GSpin) == -1 {
			runtime.Gosched()
		}
	case tm == tPoll:
		for n := 1; seen == ""; n++ {
			seen = vlib.Settled(m)
			if seen == "" && n&255 == 0 {
				runtime.Gosched()
				if n > 1<<22 || a.stopped.Load() != 0 {
					break
				}
			}
		}
		if seen != "" {
			break
		}
		fallthrough
	default: // after
		select {
		case <-m.Acked():
			seen = "ack"
		case <-m.Nacked():
			seen = "nack"
		case <-a.stop:
			return
		}
	}
	r.gstarted.Store(1)
	var ret bool
	if r.spec.Own == "ack" {
		ret = m.Ack()
	} else {
		ret = m.Nack()
	}
	// schedule control only: was this goroutine running when the barrier opened? (its call is then made within
	// microseconds of it)
	slow := false
	if asyncRaces(r.spec.Timing) && !missed {
		slow = !r.live || time.Since(r.tOpen) > 30*time.Microsecond+time.Duration(r.spec.GSpin)*4*time.Nanosecond
	}
	r.mu.Lock()
	r.called, r.ret, r.seen, r.flagMissed, r.slow = true, ret, seen, missed, slow
	r.mu.Unlock()
}

// asyncPub is the publisher of the handler.
type asyncPub struct{ a *asyncState }

func (p *asyncPub) Publish(topic string, msgs ...*message.Message) error {
	var r *arec
	if len(msgs) > 0 {
		r = p.a.lookup(msgs[0].Metadata.Get("from"))
	}
	if r == nil {
		p.a.unknown.Add(1)
		return nil
	}
	s := vlib.Settled(r.m)
	g := r.gstarted.Load()
	r.mu.Lock()
	r.pubCalls++
	r.pubOuts += len(msgs)
	if s == "ack" && g == 0 {
		r.pubEarly = s
	}
	r.mu.Unlock()
	var err error
	if r.spec.PB != "accept" {
		err = errAsyncPublish
	}
	if r.spec.Timing == tPublish {
		r.open() // last statement of the Publish call
	}
	return err
}

func (p *asyncPub) Close() error { return nil }

// hook is installed at watermill's verifhook points.
func (a *asyncState) hook(point, _, uuid string) {
	if point != "router.handle.before_settle" {
		return
	}
	if r := a.lookup(uuid); r != nil && r.spec.Timing == tHook {
		r.open()
	}
}

// drawAsync draws the behaviour of one message of a random case.
func drawAsync(r *vlib.Rand, kind string) aspec {
	for {
		s := aspec{End: asyncEnds[r.Intn(len(asyncEnds))], PB: []string{"accept", "accept", "error"}[r.Intn(3)], Own: []string{"ack", "nack"}[r.Intn(2)]}
		s.Timing = []string{tBefore, tReturn, tReturn, tReturn, tPublish, tPublish, tHook, tHook, tHook, tPoll, tAfter}[r.Intn(11)]
		if asyncValid(kind, s) {
			return s
		}
	}
}

func abs(x int) int {
	if x < 0 {
		return -x
	}
	return x
}

func runAsync(e *vlib.Env, idx int) (res vlib.Result) {
	r := e.R
	id := e.ID()
	var cell *asyncCell
	kind := []string{kindPub, kindPub, kindPub, kindNoPub, kindNilPub}[r.Intn(5)]
	nmw := r.Intn(3)
	lanes := 1
	timing := ""
	if idx < len(asyncCells) {
		cell = &asyncCells[idx]
		kind, nmw = cell.Kind, cell.MW
		timing = cell.Timing
		res.Class = "async-matrix/" + cell.Timing
		if r.Chance(0.25) {
			lanes = 2
		}
	} else {
		res.Class = "random-async/" + kind
		lanes = []int{1, 1, 2, 3, 4}[r.Intn(5)]
	}
	n := asyncMsgs(e.Tier, timing)

	a := &asyncState{id: id, kind: kind, recs: map[string]*arec{}, stop: make(chan struct{})}
	router, err := message.NewRouter(message.RouterConfig{CloseTimeout: time.Hour}, watermill.NopLogger{})
	if err != nil {
		res.Inconclusive("NewRouter: %v", err)
		return res
	}
	sub := &vlib.Sub{Name: id}
	topic := id + ".in"
	switch kind {
	case kindPub:
		router.AddHandler(id+".h", topic, sub, id+".out", &asyncPub{a}, a.handle)
	case kindNilPub:
		router.AddHandler(id+".h", topic, sub, id+".out", nil, a.handle)
	default:
		router.AddNoPublisherHandler(id+".h", topic, sub, func(m *message.Message) error { _, err := a.handle(m); return err })
	}
	for i := 0; i < nmw; i++ {
		router.AddMiddleware(func(next message.HandlerFunc) message.HandlerFunc {
			return func(m *message.Message) ([]*message.Message, error) { return next(m) }
		})
	}
	verifhook.Set(a.hook)
	defer verifhook.Set(nil)

	runDone := make(chan struct{})
	go func() { router.Run(context.Background()); close(runDone) }()
	closeDone := make(chan struct{})
	var aux sync.WaitGroup
	cleanup := func() bool {
		a.stopped.Store(1)
		close(a.stop)
		go func() { router.Close(); close(closeDone) }()
		clean := true
		if oc, _ := vlib.WaitClosed(closeDone, waitClose); oc != vlib.Done {
			clean = false
		}
		if oc, _ := vlib.WaitClosed(runDone, waitClose); oc != vlib.Done {
			clean = false
		}
		auxDone := make(chan struct{})
		go func() { aux.Wait(); close(auxDone) }()
		if oc, _ := vlib.WaitClosed(auxDone, waitClose); oc != vlib.Done {
			clean = false
		}
		return clean
	}
	if oc, d := vlib.WaitClosed(router.Running(), vlib.WD); oc != vlib.Done {
		res.Inconclusive("router did not reach Running: %v", oc)
		res.Witness = d
		cleanup()
		return res
	}
	sp := sub.SubFor(topic)
	if sp == nil {
		res.Inconclusive("router is running but did not subscribe to %s", topic)
		cleanup()
		return res
	}

	// the messages and their lanes: a lane sends its messages one after another and waits for the settlement of each
	// before it sends the next one; lanes run concurrently
	for i := 0; i < n; i++ {
		u := fmt.Sprintf("%s-a%d", id, i)
		rec := &arec{idx: i, m: message.NewMessage(u, []byte("in "+u)), gdone: make(chan struct{})}
		a.recs[u] = rec
		a.all = append(a.all, rec)
	}
	var won, lost, contests, liveN atomic.Int64
	var dmu sync.Mutex
	finalDelays := map[string]int{}
	for l := 0; l < lanes; l++ {
		lr := r.Fork()
		l := l
		aux.Add(1)
		go func() {
			defer aux.Done()
			defer a.lanesEnd.Add(1)
			delay := map[string]int{} // barrier kind + end of the chain -> current distance (>0: the handler's goroutine waits, <0: the other side)
			defer func() {
				dmu.Lock()
				for k, v := range delay {
					finalDelays[fmt.Sprintf("lane%d:%s", l, k)] = v
				}
				dmu.Unlock()
			}()
			for i := l; i < n; i += lanes {
				rec := a.all[i]
				var s aspec
				if cell != nil {
					s = aspec{End: cell.End, PB: cell.PB, Own: cell.Own, Timing: cell.Timing}
				} else {
					s = drawAsync(lr, kind)
				}
				want, _ := asyncRouterWant(kind, s)
				key := s.Timing + "/" + s.End + "/" + s.PB
				conflict := want != s.Own
				jitter := false
				if asyncRaces(s.Timing) {
					d := delay[key]
					switch {
					case lr.Chance(0.08):
						jitter = true
						s.GYield, s.HYield = lr.Intn(3), lr.Intn(3)
					case cell != nil && !conflict:
						// no feedback (both calls are of the same kind): sweep
						d = lr.Intn(1 << uint(lr.Intn(14)))
						if lr.Chance(0.2) {
							d = -d
						}
					case lr.Chance(0.15):
						// sweep, whatever the feedback says
						d = lr.Intn(1 << uint(lr.Intn(14)))
						if lr.Chance(0.3) {
							d = -d
						}
						jitter = true
					case lr.Chance(0.3):
						k := abs(d)/4 + 8
						d += lr.Range(-k, k)
					}
					if d > 0 {
						s.GSpin = d
					} else {
						s.HSpin = -d
					}
				} else if s.Timing == tBefore {
					s.GYield = lr.Intn(3)
				}
				rec.spec = s // published to the Router's goroutines by the channel send below
				ok := sp.Send(rec.m)
				rec.mu.Lock()
				rec.taken = ok
				rec.mu.Unlock()
				if !ok {
					return
				}
				select {
				case <-rec.gdone:
				case <-a.stop:
					return
				}
				select {
				case <-rec.m.Acked():
				case <-rec.m.Nacked():
				case <-a.stop:
					return
				}
				if asyncRaces(s.Timing) && conflict {
					rec.mu.Lock()
					ret, missed := rec.ret, rec.flagMissed || rec.slow
					rec.mu.Unlock()
					contests.Add(1)
					if ret {
						won.Add(1)
					} else {
						lost.Add(1)
					}
					if !missed {
						liveN.Add(1)
					}
					if !jitter && !missed {
						d := delay[key]
						step := abs(d)/8 + 1
						if step > 48 {
							step = 48
						}
						step += lr.Intn(3)
						if ret {
							d += step // the handler's goroutine was first: it waits longer next time
						} else {
							d -= step
						}
						if d > 1<<15 {
							d = 1 << 15
						}
						if d < -(1 << 15) {
							d = -(1 << 15)
						}
						delay[key] = d
					}
				}
			}
		}()
	}
	// under heavy load a message of a spin-barrier timing may take milliseconds (the ping waits for the other goroutine's
	// time slice); the driver's own stall limit is 120 s
	oc, dump := vlib.WaitUntil(func() bool { return int(a.lanesEnd.Load()) == lanes }, vlib.WaitOpts{Watchdog: 100 * time.Second})
	stuckDump := ""
	switch oc {
	case vlib.Stuck:
		stuckDump = dump
	case vlib.Inconclusive:
		res.Inconclusive("the messages were not all settled before the watchdog and the process was never quiescent")
		res.Witness = dump
		cleanup()
		return res
	}
	clean := cleanup()

	// ---------------------------------------------------------------- judge
	// Router.Close has returned: every handleMessage call has returned, so the Router has made all its settlement calls.
	if k := a.unknown.Load(); k > 0 {
		res.Fail("handler-unknown-message", "the handler / publisher was invoked with %d messages that cannot be attributed to an emitted message", k)
	}
	judged, bothWays := 0, 0
	timings := map[string]bool{}
	var shape []string
	type msgOut struct {
		Spec  aspec  `json:"spec"`
		Want  string `json:"router_owes"`
		Ret   bool   `json:"own_call_returned"`
		Final string `json:"final"`
	}
	var sample []msgOut
	for _, rec := range a.all {
		rec.mu.Lock()
		s := rec.spec
		taken, entries, entryState, exitState := rec.taken, rec.entries, rec.entryState, rec.exitState
		pubCalls, pubEarly, seen, called, ret, missed := rec.pubCalls, rec.pubEarly, rec.seen, rec.called, rec.ret, rec.flagMissed
		rec.mu.Unlock()
		res.Events++
		if !taken {
			res.Count("not_taken", 1)
			continue
		}
		want, publish := asyncRouterWant(kind, s)
		acked, nacked := vlib.IsClosed(rec.m.Acked()), vlib.IsClosed(rec.m.Nacked())
		final := ""
		switch {
		case acked:
			final = "ack"
		case nacked:
			final = "nack"
		}
		if len(sample) < 4 {
			sample = append(sample, msgOut{s, want, ret, final})
		}
		desc := fmt.Sprintf("message %d/%d (kind=%s, %d pass-through middlewares; chain ends with %s, publisher: %s; the handler's goroutine calls %s, timing %q, spins %d/%d, yields %d/%d; its call returned %v (made: %v), it had seen %q; the Router owes %s)",
			rec.idx, n, kind, nmw, s.End, s.PB, s.Own, s.Timing, s.GSpin, s.HSpin, s.GYield, s.HYield, ret, called, seen, want)
		res.Events += 3
		if entries != 1 {
			if entries == 0 && final == "" && stuckDump != "" {
				res.Fail("settles", "%s: taken from the subscriber but never handled nor settled (process quiescent)", desc)
				res.Witness = stuckDump
			} else {
				res.Fail("handler-calls", "%s: handler chain invoked %d times (settled %q)", desc, entries, final)
			}
			continue
		}
		if !clean || !called {
			// the handler's goroutine did not get to its call (it waits for a settlement that never came), or the Router did not shut down
			if final == "" && stuckDump != "" {
				res.Fail("settles", "%s: handled but neither acked nor nacked and the process is quiescent", desc)
				res.Witness = stuckDump
			} else {
				res.Inconclusive("harness: %s: not judged (Router closed cleanly: %v)", desc, clean)
			}
			continue
		}
		judged++
		timings[s.Timing] = true
		res.Count("messages", 1)
		res.Count("async_messages", 1)
		res.Count("async_timing_"+s.Timing, 1)
		if missed {
			res.Count("async_barrier_not_reached", 1)
		}
		if ret {
			res.Count("async_own_call_succeeded", 1)
		} else {
			res.Count("async_own_call_refused", 1)
		}
		if want != s.Own {
			res.Count("async_opposite_settlements", 1)
		}
		if entryState != "" {
			res.Fail("settled-before-handler", "%s: message is %q when the handler function is entered", desc, entryState)
		}
		if s.Timing == tBefore {
			if !ret || exitState != s.Own {
				res.Fail("settled-before-handler-exit", "%s: the handler's goroutine made its call before the handler returned; it returned %v and at handler exit the message is %q", desc, ret, exitState)
			}
		} else if exitState != "" {
			res.Fail("settled-before-handler-exit", "%s: at handler exit the message is %q, nothing of the chain had settled it by then", desc, exitState)
		}
		// --- publishing
		switch {
		case publish && pubCalls == 0:
			res.Fail("publish-missing", "%s: the chain returned 1 message without error but Publish was never called", desc)
		case !publish && pubCalls > 0 && want == "nack" && kind == kindPub:
			res.Fail("publish-after-error", "%s: the chain failed but %d Publish call(s) were made", desc, pubCalls)
		case !publish && pubCalls > 0:
			res.Fail("publish-unexpected", "%s: no publish expected but %d call(s) were made", desc, pubCalls)
		}
		if publish {
			res.Count("publish_expected", 1)
			res.Count("publish_calls", pubCalls)
		}
		if pubEarly != "" {
			res.Fail("ack-before-publish", "%s: the consumed message was already acked inside the Publish call although the handler's goroutine had not started its call", desc)
		}
		// --- settlement
		if seen != "" {
			// the handler's goroutine saw a settlement nobody but the Router can have made
			if seen != want && seen == "ack" {
				res.Fail("ack-on-failure", "%s: the Router acked the message, want nack", desc)
			} else if seen != want {
				res.Fail("nack-on-success", "%s: the Router nacked the message, want ack", desc)
			}
			if ret != (seen == s.Own) {
				res.Fail("self-settlement", "%s: the message was %sed when the handler's goroutine called %s, the call returned %v", desc, seen, s.Own, ret)
			}
		}
		switch {
		case acked && nacked:
			res.Fail("both-settled", "%s: both Acked() and Nacked() are closed", desc)
		case final == "":
			res.Fail("settles", "%s: neither acked nor nacked after the handler's own call and Router.Close returned", desc)
		case ret && final != s.Own:
			res.Fail("self-settlement-overridden", "%s: the handler %sed the message itself (the call returned true), final state is %s", desc, s.Own, final)
		case !ret && final == s.Own:
			res.Fail("self-settlement", "%s: the handler's %s call returned false but the message is %sed", desc, s.Own, final)
		case !ret && final != want && final == "ack":
			res.Fail("ack-on-failure", "%s: message was acked by the Router, want nack", desc)
		case !ret && final != want:
			res.Fail("nack-on-success", "%s: message was nacked by the Router, want ack", desc)
		}
		if final == "ack" {
			res.Count("acked", 1)
		} else if final == "nack" {
			res.Count("nacked", 1)
		}
		if cell == nil && len(shape) < 64 {
			shape = append(shape, s.End+"/"+s.PB+"/"+s.Own+"/"+s.Timing+"/"+strconv.FormatBool(ret))
		}
	}
	w, l := int(won.Load()), int(lost.Load())
	res.Count("async_contests", int(contests.Load()))
	res.Count("async_contests_won_by_handler", w)
	res.Count("async_contests_won_by_router", l)
	res.Count("async_contests_with_both_goroutines_running", int(liveN.Load()))
	if w > 0 && l > 0 {
		bothWays = 1
		res.Count("async_cases_with_both_contest_outcomes", 1)
	}
	if !clean && res.Verdict == "" {
		res.Inconclusive("router Close/Run did not return after every message was settled (not judged by C02)")
		res.Witness = stuckDump
	}
	res.NonTrivial = judged == n
	if cell != nil {
		res.Sig = vlib.Sig("async-matrix", idx)
	} else {
		res.Sig = vlib.Sig("random-async", kind, nmw, lanes, shape, bothWays)
	}
	res.Sample = map[string]any{"kind": kind, "middlewares": nmw, "lanes": lanes, "messages": n, "first_messages": sample,
		"contests_won_by_handler": w, "contests_won_by_router": l, "final_distances": func() map[string]int { dmu.Lock(); defer dmu.Unlock(); return finalDelays }()}
	return res
}
