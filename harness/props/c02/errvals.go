package c02

// Class errval: the handler function, a middleware of the chain or the handler's publisher returns error VALUES of every
// shape. The statement says "Nack if it returned an error ... or publishing failed" and "messages returned together with
// an error are not published": an error is any non-nil value of the interface type error - whatever its dynamic type is,
// whatever its methods (Error, Cause, Unwrap, Is, ...) answer, whether or not it is comparable, whether or not the pointer
// inside the interface is nil.
//
// Not in the list, because the unchanged Router does not return from them (errors.Is(err, context.Canceled), which decides
// whether the error is logged, follows Unwrap() for ever): error types whose Unwrap() chain is a cycle. Types whose Cause()
// chain is a cycle are left out as well (github.com/pkg/errors.Cause does not return from them; the pinned Router does not
// call it, but nothing can be learned from a busy loop: the process never becomes quiescent).

import (
	"context"
	"errors"
	"fmt"
	"io"
	"strings"

	multierror "github.com/hashicorp/go-multierror"
	pkgerrors "github.com/pkg/errors"

	"github.com/ThreeDotsLabs/watermill/message"

	"verifharness/vlib"
)

// evCauser: an application error type with an optional underlying error (the pre-Go-1.13 convention, pkg/errors style).
type evCauser struct {
	code  string
	cause error
}

func (e *evCauser) Error() string { return "c02: evCauser " + e.code }
func (e *evCauser) Cause() error  { return e.cause }

// evCauserVal: the same returned by value (a comparable struct).
type evCauserVal struct {
	code  string
	cause error
}

func (e evCauserVal) Error() string { return "c02: evCauserVal " + e.code }
func (e evCauserVal) Cause() error  { return e.cause }

// evUnwrapper: a hand-written Go >= 1.13 error type with an optional inner error.
type evUnwrapper struct {
	msg   string
	inner error
}

func (e *evUnwrapper) Error() string { return "c02: evUnwrapper " + e.msg }
func (e *evUnwrapper) Unwrap() error { return e.inner }

// evMulti: Unwrap() []error (Go >= 1.20); a struct with a slice field is not comparable.
type evMulti struct{ inner []error }

func (e evMulti) Error() string   { return fmt.Sprintf("c02: evMulti of %d", len(e.inner)) }
func (e evMulti) Unwrap() []error { return e.inner }

// evBoth: Cause() and Unwrap()
type evBoth struct{ inner error }

func (e *evBoth) Error() string { return "c02: evBoth" }
func (e *evBoth) Cause() error {
	if e == nil {
		return nil
	}
	return e.inner
}
func (e *evBoth) Unwrap() error {
	if e == nil {
		return nil
	}
	return e.inner
}

// non-comparable dynamic types (== on two interface values holding them panics at run time)
type evNonComparable struct{ tags []string }

func (e evNonComparable) Error() string { return "c02: evNonComparable" }

type evMapErr map[string]string

func (e evMapErr) Error() string { return "c02: evMapErr" }

type evSliceErr []string

func (e evSliceErr) Error() string { return "c02: evSliceErr" }

type evFuncErr func() string

func (e evFuncErr) Error() string { return "c02: evFuncErr" }

// zero values of basic kinds in a non-nil interface
type evIntErr int

func (e evIntErr) Error() string { return "" }

type evBoolErr bool

func (e evBoolErr) Error() string { return "false" }

type evStringErr string

func (e evStringErr) Error() string { return string(e) }

type evEmptyStruct struct{}

func (evEmptyStruct) Error() string { return "c02: evEmptyStruct" }

// evIsAll claims to be every target (errors.Is(err, context.Canceled) is true for it)
type evIsAll struct{}

func (evIsAll) Error() string        { return "c02: evIsAll" }
func (evIsAll) Is(target error) bool { return true }

// evIsPanics: its Is method panics (the Router's own errors.Is call then panics inside handleMessage, which is "panicked")
type evIsPanics struct{}

func (evIsPanics) Error() string        { return "c02: evIsPanics" }
func (evIsPanics) Is(target error) bool { panic("c02: Is() of the error value panics") }

// evAsAll: an As method that accepts every target type without setting it
type evAsAll struct{}

func (evAsAll) Error() string          { return "c02: evAsAll" }
func (evAsAll) As(target any) bool     { return true }
func (evAsAll) Timeout() bool          { return true }
func (evAsAll) Temporary() bool        { return true }
func (evAsAll) String() string         { return "" }
func (evAsAll) GoString() string       { return "" }
func (evAsAll) Format(fmt.State, rune) {}

// evCausePanics / evUnwrapPanics: the accessor panics ("panicked" if the Router calls it, an error otherwise)
type evCausePanics struct{}

func (evCausePanics) Error() string { return "c02: evCausePanics" }
func (evCausePanics) Cause() error  { panic("c02: Cause() of the error value panics") }

// eval is one error value. Make returns a fresh non-nil error.
type eval struct {
	Name string
	Make func() error
}

func evDeep(n int, wrap func(error) error) error {
	var err error = errors.New("c02: root of a deep chain")
	for i := 0; i < n; i++ {
		err = wrap(err)
	}
	return err
}

// errVals[0] is the place holder for "the behaviour's own value" (errScriptedHandler / errScriptedMW / errScriptedPublish).
var errVals = []eval{
	{"default", func() error { return errScriptedHandler }},
	// plain
	{"errors.New", func() error { return errors.New("c02: plain error") }},
	{"errors.New-empty-text", func() error { return errors.New("") }},
	{"fmt.Errorf", func() error { return fmt.Errorf("c02: formatted error %d", 7) }},
	{"fmt.Errorf-verbs-text", func() error { return errors.New("%s %d %!v(MISSING) %n %w") }},
	{"long-text", func() error { return errors.New(strings.Repeat("e", 1<<16)) }},
	{"pkg-errors.New", func() error { return pkgerrors.New("c02: pkg/errors error") }},
	{"pkg-errors.Errorf", func() error { return pkgerrors.Errorf("c02: pkg/errors error %d", 7) }},
	// sentinels
	{"context.Canceled", func() error { return context.Canceled }},
	{"context.DeadlineExceeded", func() error { return context.DeadlineExceeded }},
	{"io.EOF", func() error { return io.EOF }},
	{"ErrOutputInNoPublisherHandler", func() error { return message.ErrOutputInNoPublisherHandler }},
	// wrapped
	{"wrap-%w", func() error { return fmt.Errorf("c02: wrapped: %w", errors.New("inner")) }},
	{"wrap-%w-twice", func() error { return fmt.Errorf("outer: %w", fmt.Errorf("middle: %w", errors.New("inner"))) }},
	{"wrap-%w-%w", func() error { return fmt.Errorf("c02: %w and %w", errors.New("a"), io.EOF) }},
	{"wrap-%w-canceled", func() error { return fmt.Errorf("c02: %w", context.Canceled) }},
	{"wrap-%w-nil-operand", func() error { var in error; return fmt.Errorf("c02: wrapped nothing: %w", in) }},
	{"wrap-%v-of-error", func() error { return fmt.Errorf("c02: not wrapped: %v", io.EOF) }},
	{"pkg-errors.Wrap", func() error { return pkgerrors.Wrap(errors.New("inner"), "c02: wrapped") }},
	{"pkg-errors.WithStack", func() error { return pkgerrors.WithStack(errors.New("inner")) }},
	{"pkg-errors.WithMessage", func() error { return pkgerrors.WithMessage(errors.New("inner"), "c02: msg") }},
	{"pkg-errors.Wrap-canceled", func() error { return pkgerrors.Wrap(context.Canceled, "c02: wrapped") }},
	{"pkg-errors.Wrap-of-%w", func() error { return pkgerrors.Wrap(fmt.Errorf("m: %w", io.EOF), "c02: wrapped") }},
	{"%w-of-pkg-errors.Wrap", func() error { return fmt.Errorf("c02: %w", pkgerrors.Wrap(io.EOF, "wrapped")) }},
	{"errors.Join", func() error { return errors.Join(errors.New("a"), errors.New("b")) }},
	{"errors.Join-one", func() error { return errors.Join(nil, errors.New("only"), nil) }},
	{"errors.Join-canceled", func() error { return errors.Join(errors.New("a"), context.Canceled) }},
	{"errors.Join-nested", func() error {
		return errors.Join(errors.Join(io.EOF), fmt.Errorf("x: %w", errors.Join(errors.New("y"))))
	}},
	{"multierror", func() error { return multierror.Append(nil, errors.New("a"), errors.New("b")) }},
	{"multierror-empty", func() error { return &multierror.Error{} }},            // ErrorOrNil() of it is nil, the value is not
	{"multierror-typed-nil", func() error { var m *multierror.Error; return m }}, // the classic typed nil; its Error method would panic
	{"deep-%w-chain", func() error { return evDeep(500, func(e error) error { return fmt.Errorf("l: %w", e) }) }},
	{"deep-pkg-errors-chain", func() error { return evDeep(200, func(e error) error { return pkgerrors.WithMessage(e, "l") }) }},
	// Cause() accessors
	{"causer-nil-cause", func() error { return &evCauser{code: "E1"} }},
	{"causer-with-cause", func() error { return &evCauser{code: "E2", cause: errors.New("root")} }},
	{"causer-cause-canceled", func() error { return &evCauser{code: "E3", cause: context.Canceled} }},
	{"causer-value-nil-cause", func() error { return evCauserVal{code: "E4"} }},
	{"causer-value-with-cause", func() error { return evCauserVal{code: "E5", cause: io.EOF} }},
	{"causer-chain-ending-in-nil", func() error {
		return &evCauser{code: "E6", cause: &evCauser{code: "E7", cause: evCauserVal{code: "E8"}}}
	}},
	{"causer-typed-nil-cause", func() error { var in *evCauser; return &evCauser{code: "E9", cause: in} }},
	{"pkg-errors.Wrap-of-causer-nil", func() error { return pkgerrors.Wrap(&evCauser{code: "E10"}, "c02: wrapped") }},
	{"pkg-errors.WithStack-of-causer-nil", func() error { return pkgerrors.WithStack(evCauserVal{code: "E11"}) }},
	{"pkg-errors.WithMessage-of-causer-nil", func() error { return pkgerrors.WithMessage(&evCauser{code: "E12"}, "m") }},
	{"%w-of-causer-nil", func() error { return fmt.Errorf("c02: %w", &evCauser{code: "E13"}) }},
	{"errors.Join-of-causer-nil", func() error { return errors.Join(&evCauser{code: "E14"}) }},
	{"causer-of-%w", func() error { return &evCauser{code: "E15", cause: fmt.Errorf("m: %w", io.EOF)} }},
	{"cause-and-unwrap-nil", func() error { return &evBoth{} }},
	{"cause-and-unwrap-set", func() error { return &evBoth{inner: errors.New("root")} }},
	{"cause-panics", func() error { return evCausePanics{} }},
	// Unwrap() accessors
	{"unwrapper-nil-inner", func() error { return &evUnwrapper{msg: "U1"} }},
	{"unwrapper-with-inner", func() error { return &evUnwrapper{msg: "U2", inner: errors.New("root")} }},
	{"unwrapper-inner-canceled", func() error { return &evUnwrapper{msg: "U3", inner: context.Canceled} }},
	{"unwrapper-typed-nil-inner", func() error { var in *evUnwrapper; return &evUnwrapper{msg: "U4", inner: in} }},
	{"multi-unwrapper-nil", func() error { return evMulti{} }},
	{"multi-unwrapper-empty", func() error { return evMulti{inner: []error{}} }},
	{"multi-unwrapper-nil-elements", func() error { return evMulti{inner: []error{nil, nil}} }},
	{"multi-unwrapper-with-canceled", func() error { return evMulti{inner: []error{io.EOF, context.Canceled}} }},
	// typed nil pointers in a non-nil interface
	{"typed-nil-ptr", func() error { return (*pvPtrErr)(nil) }},
	{"typed-nil-causer", func() error { return (*evBoth)(nil) }}, // its methods are safe on a nil receiver
	{"typed-nil-in-wrap", func() error { return fmt.Errorf("c02: %w", (*pvPtrErr)(nil)) }},
	// non-comparable dynamic types, zero values
	{"non-comparable-struct", func() error { return evNonComparable{tags: []string{"a"}} }},
	{"non-comparable-struct-zero", func() error { return evNonComparable{} }},
	{"map-type", func() error { return evMapErr{"k": "v"} }},
	{"map-type-nil", func() error { return evMapErr(nil) }},
	{"slice-type", func() error { return evSliceErr{"x"} }},
	{"slice-type-nil", func() error { return evSliceErr(nil) }},
	{"func-type", func() error { return evFuncErr(func() string { return "" }) }},
	{"func-type-nil", func() error { return evFuncErr(nil) }},
	{"%w-of-non-comparable", func() error { return fmt.Errorf("c02: %w", evNonComparable{tags: []string{"a"}}) }},
	{"pkg-errors.Wrap-of-non-comparable", func() error { return pkgerrors.Wrap(evSliceErr{"x"}, "w") }},
	{"int-type-zero", func() error { return evIntErr(0) }},
	{"bool-type-false", func() error { return evBoolErr(false) }},
	{"string-type-empty", func() error { return evStringErr("") }},
	{"string-type-nil-text", func() error { return evStringErr("<nil>") }},
	{"empty-struct", func() error { return evEmptyStruct{} }},
	{"struct-value", func() error { return pvErr{0} }},
	{"ptr-to-struct", func() error { return &pvPtrErr{0} }},
	// methods that answer unusually
	{"empty-text", func() error { return pvEmptyErr{} }},
	{"error-method-panics", func() error { return pvBadErr{} }},
	{"is-everything", func() error { return evIsAll{} }},
	{"is-panics", func() error { return evIsPanics{} }},
	{"as-everything", func() error { return evAsAll{} }},
	{"%w-of-is-everything", func() error { return fmt.Errorf("c02: %w", evIsAll{}) }},
}

// where the error value is returned
const (
	evAtHandler = "h"   // by the handler function (the behaviour of the message is one of the failing ones)
	evAtMW      = "mw"  // by the middleware "failwith" of the chain, after the inner handler returned (whatever it returned)
	evAtPub     = "pub" // by the Publish call made for the outputs
)

// evDefaultMW is the value a failwith middleware uses for messages that did not draw one.
const evDefaultMW = 1

// handler behaviours that return an error: err, err+1, err+3, ack-err, ack-err+1, nack-err, nack-err+1
var evFailingH = []int{4, 5, 6, 14, 15, 20, 21}

// ... the ones a NoPublishHandlerFunc can express: err, ack-err, nack-err
var evFailingHNoOut = []int{4, 14, 20}

type errCell struct {
	V    int    // index into errVals
	At   string // evAt*
	Kind string
	MW   string // the failing middleware for At == "mw"
}

var errCells = func() []errCell {
	var cs []errCell
	for v := 1; v < len(errVals); v++ {
		cs = append(cs,
			errCell{v, evAtHandler, kindPub, ""},
			errCell{v, evAtHandler, kindNoPub, ""},
			errCell{v, evAtHandler, kindNilPub, ""},
			errCell{v, evAtMW, kindPub, "failwith-r"},
			errCell{v, evAtMW, []string{kindNoPub, kindNilPub}[v%2], "failwith-h"},
			errCell{v, evAtPub, kindPub, ""},
		)
	}
	return cs
}()

func errRandomCases(tier string) int { return vlib.TierN(tier, 600, 20000) }

func errCases(tier string) int { return len(errCells) + errRandomCases(tier) }

// evSpec draws a message that fails with value v at site at.
func evSpec(r *vlib.Rand, v int, at, kind string) mspec {
	s := mspec{EV: v, EVAt: at, Y1: r.Intn(3), Y2: r.Intn(3)}
	switch at {
	case evAtHandler:
		s.H, s.P = evFailingH[r.Intn(len(evFailingH))], r.Intn(len(pbehs))
		if r.Chance(0.5) {
			s.H = 5 // err+1: "messages returned together with an error are not published"
		}
		if kind == kindNoPub {
			s.H = evFailingHNoOut[r.Intn(len(evFailingHNoOut))]
		}
	case evAtMW:
		s.H, s.P = []int{0, 2, 2, 3, 5, 13, 18}[r.Intn(7)], 0 // ret-nil, ret-1, ret-3, err+1, ack-ok1, nack-ok1
		if kind == kindNoPub {
			s.H = []int{0, 4, 12, 17}[r.Intn(4)] // ret-nil, err, ack-ok0, nack-ok0
		}
	default:
		s.H, s.P = []int{2, 3, 2, 3, 13, 18}[r.Intn(6)], []int{1, 1, 4}[r.Intn(3)] // ret-1, ret-3, (ack|nack)-ok1; error, error-once
	}
	return s
}

func errCase(e *vlib.Env, idx int) config {
	r := e.R
	if idx < len(errCells) {
		c := errCells[idx]
		cfg := config{Class: "errval-matrix/" + c.At, Kind: c.Kind, ErrVals: true, YieldP: []float64{0, 0.2}[r.Intn(2)]}
		if c.MW != "" {
			cfg.MW = passesAround(r, c.MW)
		} else if c.At == evAtPub {
			cfg.MW = [][]string{nil, nil, {"pass-r"}, {"pass-h"}, {"add-r"}, {"add-h"}}[r.Intn(6)]
		} else if r.Chance(0.4) {
			cfg.MW = [][]string{{"pass-r"}, {"pass-h"}, {"add-r"}, {"add-h"}, {"pass-r", "pass-h"}, {"recover-h"}}[r.Intn(6)] // none of them turns an error into success
		}
		// the probe, then 0..2 messages that follow it through the same handler
		cfg.Specs = append(cfg.Specs, evSpec(r, c.V, c.At, c.Kind))
		for i := r.Intn(3); i > 0; i-- {
			s := mspec{H: r.Intn(len(hbehs)), P: r.Intn(len(pbehs)), Y1: r.Intn(3), Y2: r.Intn(3)}
			if c.Kind == kindNoPub {
				s.H = hbehsNoOut[r.Intn(len(hbehsNoOut))]
			}
			if r.Bool() {
				s = evSpec(r, 1+r.Intn(len(errVals)-1), c.At, c.Kind)
			}
			cfg.Specs = append(cfg.Specs, s)
		}
		cfg.Barrier = len(cfg.Specs) > 1 && r.Bool()
		return cfg
	}
	cfg := randomSingle(r)
	cfg.ErrVals = true
	cfg.Class = "random-errval/" + cfg.Kind
	hasMW := false
	if r.Chance(0.25) {
		cfg.MW = passesAround(r, "failwith"+[]string{"-r", "-h"}[r.Intn(2)])
		hasMW = true
	}
	for i := range cfg.Specs {
		if !r.Chance(0.6) {
			continue
		}
		v := 1 + r.Intn(len(errVals)-1)
		at := evAtHandler
		switch x := r.Intn(10); {
		case hasMW && x < 6:
			at = evAtMW
		case cfg.Kind == kindPub && x >= 6:
			at = evAtPub
		}
		cfg.Specs[i] = evSpec(r, v, at, cfg.Kind)
	}
	return cfg
}

func evName(s mspec) string {
	if s.EVAt == "" {
		return ""
	}
	return "/err:" + errVals[s.EV].Name + "@" + s.EVAt
}
