package c03

import (
	"fmt"
	"runtime"
	"sync"
	"sync/atomic"
	"time"

	"github.com/ThreeDotsLabs/watermill/message"
	"github.com/anishathalye/porcupine"

	"verifharness/vlib"
)

// C03 — Message Ack/Nack is a linearizable first-wins state machine.

const (
	opAck = iota
	opNack
	opReadAcked
	opReadNacked
)

var c03OpNames = []string{"Ack", "Nack", "Acked?", "Nacked?"}

// model: 0 = unsettled, 1 = acked, 2 = nacked
func c03Step(state int, op int) (out bool, next int) {
	switch op {
	case opAck:
		if state == 2 {
			return false, state
		}
		return true, 1
	case opNack:
		if state == 1 {
			return false, state
		}
		return true, 2
	case opReadAcked:
		return state == 1, state
	default:
		return state == 2, state
	}
}

var c03Kinds = []string{"new", "copy-unsettled", "copy-acked", "copy-nacked", "zero"}

func c03Make(kind string) *message.Message {
	switch kind {
	case "new", "compared-crosswise":
		return message.NewMessage("u", []byte("p"))
	case "copy-unsettled":
		return message.NewMessage("u", []byte("p")).Copy()
	case "copy-acked":
		o := message.NewMessage("u", []byte("p"))
		o.Ack()
		return o.Copy()
	case "copy-nacked":
		o := message.NewMessage("u", []byte("p"))
		o.Nack()
		return o.Copy()
	default:
		return &message.Message{}
	}
}

func c03Apply(m *message.Message, op int) bool {
	switch op {
	case opAck:
		return m.Ack()
	case opNack:
		return m.Nack()
	case opReadAcked:
		return vlib.IsClosed(m.Acked())
	default:
		return vlib.IsClosed(m.Nacked())
	}
}

const c03SeqBlocks = 32
const c03MaxLen = 8

func c03SeqCases() int { return len(c03Kinds) * c03SeqBlocks }

func init() {
	vlib.Register(&vlib.Prop{
		ID:              "C03",
		Level:           "exploration",
		RaceIsViolation: true,
		Cases: func(tier string) int {
			return c03SeqCases() + vlib.TierN(tier, 160, 48000)
		},
		Rule: "sequential part: every op sequence over {Ack,Nack,Acked?,Nacked?} of length 0..8 (87381 sequences) on 5 message kinds " +
			"(NewMessage, Copy of unsettled/acked/nacked, zero value), checked step by step against the 3-state model, once with both channels observed after every step and once with no reads but the sequence's own (exhaustive, counter seq_sequences); " +
			"concurrent part: batches of 40 histories of 2..16 goroutines x 1..4 ops on one shared message (NewMessage, Copy, zero value, zero value settled by one earlier call, Copy taken while four goroutines hammer Ack/Nack on the source, NewMessage compared with a peer by four bystander goroutines calling Equals in both directions before and during the history - judged on the message or on the peer) with Gosched injection, each history checked " +
			"with porcupine against the same model. A concurrent case is non-trivial when operations of different goroutines overlapped in logical time and " +
			"both Ack and Nack were attempted; distinct = distinct (kind, observed history) hashes; a sequential case is non-trivial always, distinct per (kind, block).",
		Assumptions: []string{
			"zero-value messages: concurrent histories race Ack and Nack only and read Acked()/Nacked() after the join (reading the channel fields concurrently with the first Ack/Nack on a message built without the constructor is not promised); kind zero-settled settles such a message by one sequential call first and then races all four operations (nothing writes the channel fields after the first settlement, so the reads are race-free on the pinned tree)",
			"no call blocks: decided by the quiescence detector, not by a time-out",
			"kind compared-crosswise: Equals is not in the judged alphabet; it only runs beside it (it reads UUID, payload and metadata, race-free on the pinned tree). What is judged is still that Ack/Nack/Acked()/Nacked() on the message linearize and never block while other goroutines use the message's read-only API",
		},
		Run: c03Run,
	})
}

func c03Run(e *vlib.Env) vlib.Result {
	if e.Idx < c03SeqCases() {
		return c03Seq(e)
	}
	return c03Conc(e)
}

func c03Seq(e *vlib.Env) vlib.Result {
	kind := c03Kinds[e.Idx/c03SeqBlocks]
	block := e.Idx % c03SeqBlocks
	res := vlib.Result{Class: "seq/" + kind, NonTrivial: true, Sig: vlib.Sig("seq", kind, block)}
	done := make(chan struct{})
	var mu sync.Mutex
	var failure string
	var nseq, nops int
	var sample []string
	go func() {
		defer close(done)
		defer func() {
			if r := recover(); r != nil {
				mu.Lock()
				failure = fmt.Sprintf("panic: %v", r)
				mu.Unlock()
			}
		}()
		seqNo := 0
		ops := make([]int, 0, c03MaxLen)
		var rec func()
		check := func() {
			if seqNo%c03SeqBlocks == block {
				// each sequence runs twice: with both channels observed after every step, and with no reads other than the
				// sequence's own (observing the channels is itself an operation on a message built without the constructor)
				for _, observe := range []bool{true, false} {
					m := c03Make(kind)
					st := 0
					for i, op := range ops {
						want, next := c03Step(st, op)
						got := c03Apply(m, op)
						st = next
						a, n := st == 1, st == 2
						if observe || i == len(ops)-1 {
							a, n = vlib.IsClosed(m.Acked()), vlib.IsClosed(m.Nacked())
						}
						if got != want || a != (st == 1) || n != (st == 2) {
							mu.Lock()
							if failure == "" {
								failure = fmt.Sprintf("kind=%s seq=%v step=%d op=%s returned %v want %v; acked-closed=%v nacked-closed=%v model-state=%d", kind, opsStr(ops), i, c03OpNames[op], got, want, a, n, st)
							}
							mu.Unlock()
							return
						}
					}
				}
				mu.Lock()
				nseq++
				nops += len(ops)
				if len(sample) < 3 && len(ops) == c03MaxLen {
					sample = append(sample, fmt.Sprint(opsStr(ops)))
				}
				mu.Unlock()
			}
			seqNo++
		}
		rec = func() {
			check()
			if len(ops) == c03MaxLen {
				return
			}
			for op := 0; op < 4; op++ {
				ops = append(ops, op)
				rec()
				ops = ops[:len(ops)-1]
			}
		}
		rec()
	}()
	oc, dump := vlib.WaitClosed(done, vlib.WD)
	mu.Lock()
	defer mu.Unlock()
	res.Events = nops
	res.Count("seq_sequences", nseq)
	res.Sample = map[string]any{"kind": kind, "block": block, "sequences": nseq, "examples": sample}
	switch oc {
	case vlib.Stuck:
		res.Fail("blocks", "a call blocked on a %s message (process quiescent)", kind)
		res.Witness = dump
	case vlib.Inconclusive:
		res.Inconclusive("sequential enumeration did not finish")
	}
	if failure != "" {
		res.Fail("sequential-model", "%s", failure)
	}
	return res
}

func opsStr(ops []int) []string {
	o := make([]string, len(ops))
	for i, op := range ops {
		o[i] = c03OpNames[op]
	}
	return o
}

type c03In struct{ Op int }

var c03Model = porcupine.Model{
	Init: func() interface{} { return 0 },
	Step: func(state, input, output interface{}) (bool, interface{}) {
		want, next := c03Step(state.(int), input.(c03In).Op)
		return want == output.(bool), next
	},
	DescribeOperation: func(input, output interface{}) string {
		return fmt.Sprintf("%s->%v", c03OpNames[input.(c03In).Op], output)
	},
}

func c03Conc(e *vlib.Env) vlib.Result {
	res := vlib.Result{Class: "concurrent"}
	kinds := []string{"new", "copy-unsettled", "zero", "new", "zero-settled", "copy-of-busy-source", "compared-crosswise"}
	distinct := map[string]bool{}
	overlapping := 0
	var sample any
	const histories = 40
	for h := 0; h < histories; h++ {
		kind := kinds[e.R.Intn(len(kinds))]
		m := c03Make(kind)
		// zero-settled: a message built without the constructor is settled by one call first; after that call has
		// returned, nothing writes the channel fields any more, so readers may run concurrently with further Ack/Nack calls
		var pre []porcupine.Operation
		if kind == "copy-of-busy-source" {
			// the copy is taken while other goroutines are inside Ack/Nack of the source; Copy reads UUID, payload and
			// metadata only, so this is race-free on the pinned tree, and the copy starts unsettled whatever the source's state
			src := message.NewMessage("u", []byte("p"))
			stopH := make(chan struct{})
			var hw sync.WaitGroup
			for hgr := 0; hgr < 4; hgr++ {
				hw.Add(1)
				go func(hgr int) {
					defer hw.Done()
					for i := 0; ; i++ {
						select {
						case <-stopH:
							return
						default:
						}
						if (i+hgr)%2 == 0 {
							src.Ack()
						} else {
							src.Nack()
						}
					}
				}(hgr)
			}
			for y := e.R.Intn(20); y > 0; y-- {
				runtime.Gosched()
			}
			m = src.Copy()
			close(stopH)
			hw.Wait()
		}
		var stopCmp chan struct{}
		var cmpWg sync.WaitGroup
		if kind == "compared-crosswise" {
			// bystanders compare the message with a peer in both directions (m.Equals(peer), peer.Equals(m)) before and
			// while the history runs: Equals reads UUID, payload and metadata only (race-free on the pinned tree) and
			// whatever it does internally, "no call blocks" still has to hold for Ack/Nack on m and on the peer
			peer := message.NewMessage("u", []byte("p"))
			stopCmp = make(chan struct{})
			var calls atomic.Int64
			ma, mb := m, peer
			for b := 0; b < 4; b++ {
				cmpWg.Add(1)
				go func(b int) {
					defer cmpWg.Done()
					for {
						select {
						case <-stopCmp:
							return
						default:
						}
						if b%2 == 0 {
							ma.Equals(mb)
						} else {
							mb.Equals(ma)
						}
						calls.Add(1)
					}
				}(b)
			}
			// warm-up (no verdict here): if the bystanders wedge each other the history below shows it as a blocked Ack/Nack
			vlib.WaitUntil(func() bool { return calls.Load() >= 4000 }, vlib.WD)
			res.Count("crosswise_equals_calls_before_history", int(calls.Load()))
			if h%2 == 1 {
				m = peer // judge the peer in half of these histories
			}
		}
		if kind == "zero-settled" {
			op := e.R.Intn(2)
			call := vlib.Now()
			out := c03Apply(m, op)
			ret := vlib.Now()
			pre = append(pre, porcupine.Operation{ClientId: 99, Input: c03In{op}, Call: int64(call), Output: out, Return: int64(ret)})
		}
		g := e.R.Range(2, 16)
		type plan struct {
			ops   []int
			yield []int
		}
		plans := make([]plan, g)
		for i := range plans {
			n := e.R.Range(1, 4)
			for j := 0; j < n; j++ {
				op := e.R.Intn(4)
				if kind == "zero" {
					op = e.R.Intn(2)
				}
				plans[i].ops = append(plans[i].ops, op)
				plans[i].yield = append(plans[i].yield, e.R.Intn(4))
			}
		}
		var mu sync.Mutex
		ops := append([]porcupine.Operation(nil), pre...)
		var panics []string
		start := make(chan struct{})
		var wg sync.WaitGroup
		for i := 0; i < g; i++ {
			wg.Add(1)
			go func(i int) {
				defer wg.Done()
				defer func() {
					if r := recover(); r != nil {
						mu.Lock()
						panics = append(panics, fmt.Sprint(r))
						mu.Unlock()
					}
				}()
				local := make([]porcupine.Operation, 0, 4)
				<-start
				for j, op := range plans[i].ops {
					for y := 0; y < plans[i].yield[j]; y++ {
						runtime.Gosched()
					}
					call := vlib.Now()
					out := c03Apply(m, op)
					ret := vlib.Now()
					local = append(local, porcupine.Operation{ClientId: i, Input: c03In{op}, Call: int64(call), Output: out, Return: int64(ret)})
				}
				mu.Lock()
				ops = append(ops, local...)
				mu.Unlock()
			}(i)
		}
		doneCh := make(chan struct{})
		go func() { wg.Wait(); close(doneCh) }()
		close(start)
		oc, dump := vlib.WaitClosed(doneCh, vlib.WD)
		if stopCmp != nil && oc == vlib.Done {
			close(stopCmp)
			cmpDone := make(chan struct{})
			go func() { cmpWg.Wait(); close(cmpDone) }()
			if o, _ := vlib.WaitClosed(cmpDone, vlib.WD); o == vlib.Stuck {
				// the comparing bystanders never came back; the history above happened not to need what they hold: probe with one settling call
				probe := make(chan struct{})
				go func() { m.Ack(); close(probe) }()
				oc, dump = vlib.WaitClosed(probe, vlib.WD)
			}
		}
		if oc == vlib.Stuck {
			res.Fail("blocks", "concurrent Ack/Nack history on a %s message never finished (process quiescent)", kind)
			res.Witness = dump
			return res
		}
		if oc == vlib.Inconclusive {
			res.Inconclusive("history did not finish before the watchdog")
			return res
		}
		if len(panics) > 0 {
			res.Fail("panic", "kind=%s: %v", kind, panics)
			return res
		}
		// final reads after the join (these are part of the history too)
		for _, op := range []int{opReadAcked, opReadNacked} {
			call := vlib.Now()
			out := c03Apply(m, op)
			ret := vlib.Now()
			ops = append(ops, porcupine.Operation{ClientId: g, Input: c03In{op}, Call: int64(call), Output: out, Return: int64(ret)})
		}
		res.Events += len(ops)
		if vlib.IsClosed(m.Acked()) && vlib.IsClosed(m.Nacked()) {
			res.Fail("both-closed", "kind=%s: both Acked() and Nacked() are closed after the history %s", kind, c03Describe(ops))
			return res
		}
		cr, _ := porcupine.CheckOperationsVerbose(c03Model, ops, 10*time.Second)
		switch cr {
		case porcupine.Illegal:
			res.Fail("not-linearizable", "kind=%s: history is not linearizable w.r.t. the first-wins model: %s", kind, c03Describe(ops))
			res.Witness = c03Describe(ops)
			return res
		case porcupine.Unknown:
			res.Count("checker_timeouts", 1)
			continue
		}
		// non-triviality: overlap between different clients, and both Ack and Nack attempted
		hasAck, hasNack, overlap := false, false, false
		for i, a := range ops {
			if a.Input.(c03In).Op == opAck {
				hasAck = true
			}
			if a.Input.(c03In).Op == opNack {
				hasNack = true
			}
			for _, b := range ops[i+1:] {
				if a.ClientId != b.ClientId && a.Call < b.Return && b.Call < a.Return {
					overlap = true
				}
			}
		}
		if hasAck && hasNack && overlap {
			overlapping++
			distinct[vlib.Sig(kind, c03Describe(ops))] = true
		}
		if sample == nil {
			sample = map[string]any{"kind": kind, "goroutines": g, "history": c03Describe(ops)}
		}
	}
	res.Count("histories", histories)
	res.Count("histories_overlapping", overlapping)
	res.Count("distinct_histories", len(distinct))
	res.NonTrivial = overlapping > 0
	// the case signature folds the distinct histories it saw
	keys := make([]string, 0, len(distinct))
	for k := range distinct {
		keys = append(keys, k)
	}
	res.Sig = vlib.Sig("conc", vlib.SortedStrings(keys))
	res.Sample = sample
	return res
}

func c03Describe(ops []porcupine.Operation) string {
	s := make([]porcupine.Operation, len(ops))
	copy(s, ops)
	for i := 1; i < len(s); i++ {
		for j := i; j > 0 && s[j].Call < s[j-1].Call; j-- {
			s[j], s[j-1] = s[j-1], s[j]
		}
	}
	out := ""
	for _, o := range s {
		out += fmt.Sprintf("g%d:%s=%v[%d,%d] ", o.ClientId, c03OpNames[o.Input.(c03In).Op], o.Output, o.Call, o.Return)
	}
	return out
}
