// Package props holds one workload + oracle per property (C01..C20).
package props

import (
	"fmt"
	"sort"
	"strings"
	"time"

	"verifharness/vlib"
)

func sigOf(parts ...any) string {
	var b strings.Builder
	for _, p := range parts {
		fmt.Fprintf(&b, "%v|", p)
	}
	return fmt.Sprintf("%016x", vlib.HashStr(b.String()))
}

func hooksOf(c *vlib.Ctl) map[string]int {
	if c == nil {
		return nil
	}
	return c.Counts()
}

func sortedCopy(s []string) []string {
	o := append([]string(nil), s...)
	sort.Strings(o)
	return o
}

func tierN(tier string, quick, thorough int) int {
	if tier == "thorough" {
		return thorough
	}
	return quick
}

var wd = vlib.WaitOpts{Watchdog: 60 * time.Second}

func isClosed(ch <-chan struct{}) bool {
	select {
	case <-ch:
		return true
	default:
		return false
	}
}
