// Package c07: GoChannel Close and subscription cancel always terminate safely.
package c07

import (
	"context"
	"fmt"
	"runtime"
	"strings"
	"sync"
	"sync/atomic"

	"github.com/ThreeDotsLabs/watermill"
	"github.com/ThreeDotsLabs/watermill/message"
	"github.com/ThreeDotsLabs/watermill/pubsub/gochannel"

	"verifharness/props/gcw"
	"verifharness/vlib"
)

type aKind struct {
	op    string // publish | subscribe | cancel | close
	point string
	need  string // "", "persistent", "blocking", "decorator"
}

var aKinds = []aKind{
	{"publish", "gochannel.publish.after_closed_check", ""},
	{"publish", "gochannel.publish.locked", ""},
	{"publish", "gochannel.publish.persisted", ""},
	{"publish", "gochannel.publish.wait_ack", "blocking"},
	{"publish", "gochannel.send.locked", ""},
	{"publish", "gochannel.send.before_chan", ""},
	{"publish", "gochannel.send.wait_settle", ""},
	{"subscribe", "gochannel.subscribe.after_closed_check", ""},
	{"subscribe", "gochannel.subscribe.locked", ""},
	{"subscribe", "gochannel.subscribe.replay", "persistent"},
	{"subscribe", "gochannel.subscribe.before_add", "persistent"},
	{"cancel", "gochannel.sub.teardown", ""},
	{"cancel", "gochannel.sub.close.before_lock", ""},
	{"cancel", "gochannel.unsubscribe.before_remove", ""},
	{"close", "gochannel.close.signalled", ""},
	{"close", "gochannel.close.waited", ""},
	{"publish", "decorator.sub.before_out", "decorator"},
}

var bKinds = []string{"close", "cancel", "close-twice", "publish", "subscribe"}
var readers = []string{"drain", "one-unsettled", "never-read", "always-nack"}

const gridSize = 17 * 5 * 8 * 3 * 4 // aKinds x bKinds x configs x fronts x readers

func init() {
	vlib.Register(&vlib.Prop{
		ID:              "C07",
		Level:           "fault_enumeration",
		RaceIsViolation: true,
		Cases: func(tier string) int {
			if tier == "thorough" {
				return gridSize + 72000 + stormCases(tier)
			}
			return 1360 + 640 + stormCases(tier)
		},
		Rule: "pairwise part: operation A in {Publish, Subscribe, context cancel, Close} is parked at one of 17 hook points (publish: after closed check / topic lock / persisted / waiting for ack; send loop: lock taken / before channel send / waiting for settlement; " +
			"subscribe: registered / locks taken / before replay / before registration; teardown: woken / before sending lock / before removal; close: signalled / subscriptions gone; decorator pump holding a message) while action B in {Close, cancel, Close twice concurrently, Publish, Subscribe} runs to completion or blocks behind A " +
			"(decided by the quiescence detector), then A is released; grid x {persistent} x {blocking} x buffer {0,2} x front {bare, 1, 2 MessageTransform subscriber decorators} x reader {drains, holds one message unsettled, never reads, nacks everything} = 8160 cells (thorough: all, quick: a seed-rotated sixth). " +
			"storm part (96 / 1920 cases x 30 rounds): on a fresh GoChannel with 0..3 subscriptions (bare or behind 1..2 subscriber decorators) 2..8 Close callers - on the Pub/Sub or on a decorator - start together behind a spin gate, optionally with a racing Subscribe or Publish: no panic, every call returns, every output channel ends up closed. " +
			"random part: generated concurrent programs (publishers, subscriptions, cancels, consumers that stop reading or never ack, decorators) with Close arriving mid-run from 1..3 goroutines. " +
			"Oracle: no API call panics, no product goroutine crashes the process, no data race with a watermill frame, every Close/cancel/Publish/Subscribe call returns (quiescent-without-return = violation), after Close every output channel handed out is closed, Publish and Subscribe return errors, " +
			"no goroutine created by gochannel/decorator code remains, and after cancelling one subscription a fresh publish still reaches another. Non-trivial: the park point was reached (pairwise) / Close overlapped a running program (random). Distinct = (cell or program shape, who blocked behind whom, hook fingerprint).",
		Assumptions: []string{
			"a forced cell whose hook point is not reached is reported unreached (never held)",
			"'completes' is decided by quiescence (all goroutines blocked, no timers), not by a time-out",
			"the leak filter counts goroutines created by pubsub/gochannel or message.(*messageTransformSubscriberDecorator) before and after the case",
		},
		Run: run,
	})
}

func stormCases(tier string) int { return vlib.TierN(tier, 96, 1920) }

func run(e *vlib.Env) vlib.Result {
	if base := map[bool]int{true: gridSize + 72000, false: 1360 + 640}[e.Tier == "thorough"]; e.Idx >= base {
		return storm(e)
	}
	if e.Tier == "thorough" {
		if e.Idx < gridSize {
			return pair(e, e.Idx)
		}
		return random(e)
	}
	if e.Idx < 1360 {
		// quick: a sixth of the grid, rotated by the seed so that different seeds cover different cells
		cell := int((uint64(e.Idx)*6 + e.Seed%6) % gridSize)
		return pair(e, cell)
	}
	return random(e)
}

type transformCtxKey struct{}

// transformFor picks what a subscriber decorator's transform does to a message: nothing, a metadata edit, or a replaced
// message context (a transform may do anything to the message; the decorator's own termination must not depend on it).
func transformFor(v uint64) func(*message.Message) {
	switch v % 3 {
	case 0:
		return func(*message.Message) {}
	case 1:
		return func(m *message.Message) { m.Metadata.Set("c07-transformed", "1") }
	default:
		return func(m *message.Message) { m.SetContext(context.WithValue(context.Background(), transformCtxKey{}, 1)) }
	}
}

func productGoroutine(g vlib.Goroutine) bool {
	c := g.CreatedBy
	return strings.Contains(c, "watermill/pubsub/gochannel.") || strings.Contains(c, "message.(*messageTransformSubscriberDecorator)")
}

type world struct {
	e        *vlib.Env
	ps       *gochannel.GoChannel
	front    message.Subscriber
	topic    string
	mu       sync.Mutex
	panics   []string
	chans    []<-chan *message.Message
	received atomic.Int32
	closed   atomic.Bool
	n        atomic.Int32

	openAtCloseReturn []string
}

func (w *world) guard(name string, f func()) {
	defer func() {
		if v := recover(); v != nil {
			w.mu.Lock()
			w.panics = append(w.panics, fmt.Sprintf("%s panicked: %v", name, v))
			w.mu.Unlock()
		}
	}()
	f()
}

func (w *world) publish() (err error) {
	w.guard("Publish", func() {
		err = w.ps.Publish(w.topic, message.NewMessage(fmt.Sprintf("%s/m%d", w.e.ID(), w.n.Add(1)), []byte("x")))
	})
	return err
}

// subscribe subscribes through the front and starts a reader; it returns the cancel func.
func (w *world) subscribe(reader string) (context.CancelFunc, error) {
	ctx, cancel := context.WithCancel(context.Background())
	var ch <-chan *message.Message
	var err error
	w.guard("Subscribe", func() { ch, err = w.front.Subscribe(ctx, w.topic) })
	if err != nil || ch == nil {
		cancel()
		return func() {}, err
	}
	w.mu.Lock()
	w.chans = append(w.chans, ch)
	w.mu.Unlock()
	switch reader {
	case "drain":
		go func() {
			for m := range ch {
				w.received.Add(1)
				m.Ack()
			}
		}()
	case "always-nack":
		go func() {
			n := 0
			for m := range ch {
				w.received.Add(1)
				n++
				if n > 2000 {
					m.Ack() // bound the resend loop; Close normally interrupts it long before
					continue
				}
				m.Nack()
			}
		}()
	case "one-unsettled":
		go func() {
			if _, ok := <-ch; ok {
				w.received.Add(1)
			}
		}()
	case "never-read":
	}
	return cancel, nil
}

func (w *world) closeAll() {
	ok := true
	w.guard("Close", func() { w.front.Close() })
	w.guard("Close", func() {
		if err := w.ps.Close(); err != nil {
			ok = false
		}
	})
	if !ok {
		return
	}
	// Close has returned to THIS caller: every output channel handed out so far must be closed now
	// (an empty channel that would block a receive is provably still open; a received value proves nothing)
	w.mu.Lock()
	chans := append([]<-chan *message.Message(nil), w.chans...)
	w.mu.Unlock()
	open := 0
	for _, ch := range chans {
		select {
		case <-ch:
		default:
			open++
		}
	}
	if open > 0 {
		w.mu.Lock()
		w.openAtCloseReturn = append(w.openAtCloseReturn, fmt.Sprintf("%d of %d output channels were still open when a Close call returned", open, len(chans)))
		w.mu.Unlock()
	}
}

func pair(e *vlib.Env, cell int) vlib.Result {
	i := cell
	ak := aKinds[i%len(aKinds)]
	i /= len(aKinds)
	bk := bKinds[i%len(bKinds)]
	i /= len(bKinds)
	cfgI := i % 8
	i /= 8
	fronts := i % 3
	i /= 3
	reader := readers[i%len(readers)]
	cfg := gochannel.Config{Persistent: cfgI&1 == 1, BlockPublishUntilSubscriberAck: cfgI&2 == 2, OutputChannelBuffer: []int64{0, 2}[cfgI>>2]}
	spec := fmt.Sprintf("A=%s@%s B=%s persistent=%v blocking=%v buf=%d decorators=%d reader=%s", ak.op, strings.TrimPrefix(ak.point, "gochannel."), bk, cfg.Persistent, cfg.BlockPublishUntilSubscriberAck, cfg.OutputChannelBuffer, fronts, reader)
	res := vlib.Result{Class: "pair/" + ak.op + "@" + strings.TrimPrefix(ak.point, "gochannel.") + "/" + bk, Spec: spec}
	if (ak.need == "persistent" && !cfg.Persistent) || (ak.need == "blocking" && !cfg.BlockPublishUntilSubscriberAck) || (ak.need == "decorator" && fronts == 0) {
		// the point does not exist in this configuration: run the same cell with the requirement switched on
		switch ak.need {
		case "persistent":
			cfg.Persistent = true
		case "blocking":
			cfg.BlockPublishUntilSubscriberAck = true
		case "decorator":
			fronts = 1
		}
		spec += " (requirement of the point switched on)"
		res.Spec = spec
	}

	before, _ := vlib.CountGoroutines(productGoroutine)
	w := &world{e: e, topic: e.ID() + "/t"}
	w.ps = gochannel.NewGoChannel(cfg, watermill.NopLogger{})
	w.front = w.ps
	for d := 0; d < fronts; d++ {
		w.front, _ = message.MessageTransformSubscriberDecorator(transformFor(vlib.HashStr(fmt.Sprintf("%s/transform%d", e.ID(), d))))(w.front)
	}
	ctl := vlib.NewCtl(e.R.Uint64(), 0, 0)
	defer ctl.Uninstall()
	ctl.Filter(func(p, a, b string) bool { return true })

	// initial state: (persistent: one stored message to replay,) one subscription with the chosen reader, one with a
	// draining reader (the "other" subscription)
	if cfg.Persistent {
		w.publish() // no subscriber yet: returns at once
	}
	cancel1, _ := w.subscribe(reader)
	_, _ = w.subscribe("drain")
	vlib.Settle(vlib.WD)

	park := ctl.ParkAt(ak.point, nil, 0)
	aDone, bDone := make(chan struct{}), make(chan struct{})
	var cancelA context.CancelFunc
	go func() {
		defer close(aDone)
		switch ak.op {
		case "publish":
			w.publish()
		case "subscribe":
			c, _ := w.subscribe("drain")
			cancelA = c
		case "cancel":
			cancel1()
		case "close":
			w.closeAll()
		}
	}()
	oc, _ := vlib.WaitUntil(func() bool { return park.HasArrived() }, vlib.WD)
	reached := park.HasArrived()
	if !reached && oc == vlib.Inconclusive {
		res.Inconclusive("A neither parked nor became quiescent")
	}
	runB := func() {
		defer close(bDone)
		switch bk {
		case "close":
			w.closeAll()
		case "cancel":
			cancel1()
		case "close-twice":
			var wg sync.WaitGroup
			for k := 0; k < 2; k++ {
				wg.Add(1)
				go func() { defer wg.Done(); w.closeAll() }()
			}
			wg.Wait()
		case "publish":
			w.publish()
		case "subscribe":
			w.subscribe("drain")
		}
	}
	go runB()
	o2, _ := vlib.WaitClosed(bDone, vlib.WD)
	bBlocked := o2 == vlib.Stuck
	park.Release()
	// every started call must return now. Exception: in blocking mode a reader that withholds its Ack legitimately blocks
	// Publish (waits for the ack) and, behind it, Subscribe (needs the write lock) until the Pub/Sub is closed; those calls
	// must return once the final Close has returned.
	withheld := cfg.BlockPublishUntilSubscriberAck && (reader == "one-unsettled" || reader == "never-read")
	closedAlready := ak.op == "close" || strings.HasPrefix(bk, "close")
	deferred := map[string]chan struct{}{}
	for name, ch := range map[string]chan struct{}{"A(" + ak.op + ")": aDone, "B(" + bk + ")": bDone} {
		if o, d := vlib.WaitClosed(ch, vlib.WD); o == vlib.Stuck {
			// once the withholding subscription itself has been cancelled nothing explains a blocked call any more
			sub1Cancelled := ak.op == "cancel" || bk == "cancel"
			legit := withheld && !closedAlready && !sub1Cancelled && (strings.Contains(name, "publish") || strings.Contains(name, "subscribe"))
			if !legit {
				res.Fail("call-stuck", "%s never returned (process quiescent) in cell: %s", name, spec)
				res.Witness = d
			} else {
				deferred[name] = ch
				res.Count("calls_blocked_by_withheld_ack", 1)
			}
		} else if o == vlib.Inconclusive {
			res.Inconclusive("%s neither returned nor quiescent", name)
		}
	}

	// a cancelled subscription's channel must get closed; the other subscription keeps working
	cancelled := ak.op == "cancel" || bk == "cancel"
	if !res.Failed() && res.Verdict == "" && cancelled && !closedAlready {
		w.mu.Lock()
		ch1 := w.chans[0]
		w.mu.Unlock()
		// "an unread channel": behind a subscriber decorator the channel is unbuffered, so once the process is quiescent after
		// the cancel it must already be closed without anybody having read it; a message that can still be received then was
		// held by a forwarder that the cancel did not release
		if reader == "never-read" && fronts > 0 && len(deferred) == 0 {
			if o, _ := vlib.Settle(vlib.WD); o == vlib.Stuck {
				res.Count("unread_decorated_channel_probed_after_cancel", 1)
				select {
				case m, ok := <-ch1:
					if ok {
						res.Fail("cancel-channel-open-while-unread", "the subscription context was cancelled and the process is quiescent, but the unread decorated output channel is still open and still hands out message %s in cell: %s", m.UUID, spec)
					}
				default: // open and nobody sending: the wait below reports it
				}
			}
		}
		// the harness takes over reading the cancelled subscription's channel: it must end
		ended := make(chan struct{})
		go func() {
			for range ch1 {
			}
			close(ended)
		}()
		if o, d := vlib.WaitClosed(ended, vlib.WD); o == vlib.Stuck {
			res.Fail("cancel-channel-not-closed", "after cancelling the subscription context its output channel was never closed (quiescent) in cell: %s", spec)
			res.Witness = d
		}
		if !res.Failed() && len(deferred) == 0 {
			got := w.received.Load()
			pd := make(chan struct{})
			go func() { w.publish(); close(pd) }()
			if o, d := vlib.WaitUntil(func() bool { return w.received.Load() > got && vlib.IsClosed(pd) }, vlib.WD); o == vlib.Stuck {
				res.Fail("others-broken-after-cancel", "after cancelling one subscription a fresh Publish was not delivered to the other subscription / did not return (quiescent) in cell: %s", spec)
				res.Witness = d
			}
		}
	}

	// final Close: must return; afterwards everything is closed
	if !res.Failed() && res.Verdict == "" {
		cd := make(chan struct{})
		go func() { w.closeAll(); close(cd) }()
		if o, d := vlib.WaitClosed(cd, vlib.WD); o == vlib.Stuck {
			res.Fail("close-stuck", "Close never returned (process quiescent) in cell: %s", spec)
			res.Witness = d
		} else if o == vlib.Inconclusive {
			res.Inconclusive("Close neither returned nor quiescent")
		}
	}
	for name, ch := range deferred {
		if o, d := vlib.WaitClosed(ch, vlib.WD); o == vlib.Stuck && !res.Failed() {
			res.Fail("call-stuck-after-close", "%s was blocked behind a withheld Ack and still has not returned after Close returned (quiescent) in cell: %s", name, spec)
			res.Witness = d
		}
	}
	if !res.Failed() && res.Verdict == "" {
		afterClose(w, &res, spec, before)
	}
	if cancelA != nil {
		cancelA()
	}
	cancel1()
	w.mu.Lock()
	for _, p := range w.panics {
		res.Fail("panic", "%s in cell: %s", p, spec)
	}
	for _, o := range w.openAtCloseReturn {
		res.Fail("close-returned-with-open-channel", "%s in cell: %s", o, spec)
	}
	w.mu.Unlock()
	res.Hooks = ctl.Counts()
	res.Events = len(res.Hooks) + int(w.received.Load()) + 6
	res.NonTrivial = reached
	res.Sig = vlib.Sig(spec, bBlocked, ctl.Fingerprint())
	res.Count("forced_reached", b2i(reached))
	res.Count("b_blocked_behind_a", b2i(bBlocked))
	if !reached && res.Verdict == "" {
		res.Verdict = vlib.Unreached
		res.Reason = "park point not reached: " + spec
	}
	res.Sample = map[string]any{"cell": spec, "reached": reached, "b_blocked_behind_a": bBlocked, "received": w.received.Load()}
	return res
}

func b2i(b bool) int {
	if b {
		return 1
	}
	return 0
}

// afterClose checks the post-conditions of a returned Close.
func afterClose(w *world, res *vlib.Result, spec string, before int) {
	w.mu.Lock()
	chans := append([]<-chan *message.Message(nil), w.chans...)
	w.mu.Unlock()
	var wg sync.WaitGroup
	for _, ch := range chans {
		wg.Add(1)
		go func(ch <-chan *message.Message) {
			defer wg.Done()
			for range ch {
			}
		}(ch)
	}
	done := make(chan struct{})
	go func() { wg.Wait(); close(done) }()
	if o, d := vlib.WaitClosed(done, vlib.WD); o == vlib.Stuck {
		res.Fail("channel-not-closed", "Close returned but an output channel handed out by Subscribe was never closed (quiescent) in: %s", spec)
		res.Witness = d
		return
	}
	var perr, serr error
	w.guard("Publish after Close", func() { perr = w.ps.Publish(w.topic, message.NewMessage("late", nil)) })
	if perr == nil {
		res.Fail("publish-after-close", "Publish returned nil after Close had returned in: %s", spec)
	}
	w.guard("Subscribe after Close", func() {
		var ch <-chan *message.Message
		ch, serr = w.front.Subscribe(context.Background(), w.topic)
		if serr == nil && ch != nil {
			go func() {
				for range ch {
				}
			}()
		}
	})
	if serr == nil {
		res.Fail("subscribe-after-close", "Subscribe returned no error after Close had returned in: %s", spec)
	}
	if o, _ := vlib.Settle(vlib.WD); o == vlib.Stuck {
		after, dump := vlib.CountGoroutines(productGoroutine)
		if after > before {
			res.Fail("goroutine-leak", "%d goroutine(s) created by gochannel/decorator code remain after Close returned (quiescent) in: %s", after-before, spec)
			res.Witness = dump
		}
	}
}

// ---------------------------------------------------------------------------------------------

func random(e *vlib.Env) vlib.Result {
	r := e.R
	cfgI := r.Intn(12)
	prog := gcw.Program{
		Cfg:       gochannel.Config{OutputChannelBuffer: []int64{0, 1, 4}[cfgI%3], Persistent: (cfgI/3)%2 == 1, BlockPublishUntilSubscriberAck: cfgI/6 == 1},
		Topics:    r.Range(1, 2),
		MetaKeys:  1,
		PayloadSz: 8,
		CloseMid:  r.Chance(0.7),
		Closers:   []int{1, 2, 3, 8, 8}[r.Intn(5)],
		YieldP:    []float64{0, 0.3, 0.6}[r.Intn(3)],
		YieldUs:   []int{0, 40, 150}[r.Intn(3)],
	}
	// Message.UUID is not an identity: a quarter of the programs use empty or equal UUIDs (see gcw.Program.UUIDs)
	prog.UUIDs = []string{"", "", "empty", "same"}[vlib.HashStr(e.ID())%4]
	prog.SharedDecorator = vlib.HashStr(e.ID()+"/shared-decorator")%2 == 0 // one decorator value for all subscriptions and stack levels
	prog.MsgCtx = vlib.HashStr(e.ID()+"/msgctx")%3 == 0                    // a third of the programs publish messages that carry (cancelled, soon cancelled, live) contexts
	for i, n := 0, r.Range(1, 3); i < n; i++ {
		prog.Pubs = append(prog.Pubs, gcw.PubSpec{Topic: r.Intn(prog.Topics), N: r.Range(1, 12), Batch: r.Range(1, 2)})
	}
	for i, n := 0, r.Range(1, 5); i < n; i++ {
		s := gcw.SubSpec{Topic: r.Intn(prog.Topics), During: r.Chance(0.4), Consumers: r.Range(1, 2), NackPct: []int{0, 30, 100}[r.Intn(3)], Slow: r.Intn(3), NestedTo: -1, CancelAt: -1, StopAfter: -1,
			Decorators: []int{0, 0, 1, 2}[r.Intn(4)]}
		switch r.Intn(6) {
		case 0:
			s.CancelFree = true
		case 1:
			s.CancelAt = r.Intn(3)
		case 2:
			s.StopAfter = r.Intn(3)
		case 3:
			s.NeverAck = true
		}
		prog.Subs = append(prog.Subs, s)
	}
	shape := fmt.Sprintf("%+v", prog)
	res := vlib.Result{Class: fmt.Sprintf("random/persistent=%v/blocking=%v/closeMid=%v", prog.Cfg.Persistent, prog.Cfg.BlockPublishUntilSubscriberAck, prog.CloseMid), Spec: shape}
	before, _ := vlib.CountGoroutines(productGoroutine)
	ctl := vlib.NewCtl(r.Uint64(), prog.YieldP, prog.YieldUs)
	defer ctl.Uninstall()
	rn := gcw.Start(e, prog)
	// publishers may legitimately block (never-ack / stopped readers in blocking mode) until Close arrives
	vlib.WaitClosed(rn.PubsDone(), vlib.WD)
	vlib.WaitClosed(rn.SubbersDone(), vlib.WD)
	vlib.WaitClosed(rn.CancelsDone(), vlib.WD)
	cd := rn.Close(prog.Closers)
	if o, d := vlib.WaitClosed(cd, vlib.WD); o == vlib.Stuck {
		res.Fail("close-stuck", "Close (GoChannel and its subscriber decorators, %d concurrent callers) never returned (process quiescent)", prog.Closers)
		res.Witness = d
	} else if o == vlib.Inconclusive {
		res.Inconclusive("Close neither returned nor quiescent")
	}
	if res.Verdict == "" {
		for name, ch := range map[string]<-chan struct{}{"Publish": rn.PubsDone(), "Subscribe": rn.SubbersDone(), "cancel": rn.CancelsDone()} {
			if o, d := vlib.WaitClosed(ch, vlib.WD); o == vlib.Stuck {
				res.Fail("call-stuck", "a %s call never returned although Close has returned (quiescent)", name)
				res.Witness = d
			}
		}
	}
	if res.Verdict == "" {
		// every output channel handed out must be closed now; stopped readers are replaced by the harness
		subs := rn.SubRecs()
		if o, d := vlib.WaitUntil(func() bool {
			for _, s := range subs {
				if !rn.ChannelClosed(s) {
					return false
				}
			}
			return true
		}, vlib.WD); o == vlib.Stuck {
			res.Fail("channel-not-closed", "Close returned but an output channel was never closed (quiescent)")
			res.Witness = d
		}
		if o, d := vlib.WaitUntil(rn.ConsumersIdle, vlib.WD); o == vlib.Stuck && !res.Failed() {
			res.Fail("channel-not-closed", "Close returned but a consumer never saw its channel closed (quiescent)")
			res.Witness = d
		}
		if err := rn.PS.Publish(e.ID()+"/t0", message.NewMessage("late", nil)); err == nil {
			res.Fail("publish-after-close", "Publish returned nil after Close had returned")
		}
		if _, err := rn.PS.Subscribe(context.Background(), e.ID()+"/t0"); err == nil {
			res.Fail("subscribe-after-close", "Subscribe returned no error after Close had returned")
		}
		if o, _ := vlib.Settle(vlib.WD); o == vlib.Stuck && !res.Failed() {
			after, dump := vlib.CountGoroutines(productGoroutine)
			if after > before {
				res.Fail("goroutine-leak", "%d goroutine(s) created by gochannel/decorator code remain after Close returned (quiescent)", after-before)
				res.Witness = dump
			}
		}
	}
	for _, p := range rn.Panics() {
		res.Fail("panic", "%s", p)
	}
	for _, o := range rn.OpenAtClose() {
		res.Fail("close-returned-with-open-channel", "%s", o)
	}
	res.Events = int(rn.Events.Load())
	res.Hooks = ctl.Counts()
	res.Sig = vlib.Sig(shape, ctl.Fingerprint())
	closeOverlapped := false
	cs := rn.CloseStart.Load()
	for _, p := range rn.PubRecs() {
		if p.Start < cs && (p.End == 0 || p.End > cs) {
			closeOverlapped = true
		}
	}
	res.Count("close_overlapped_publish", b2i(closeOverlapped))
	res.NonTrivial = rn.Events.Load() > 4
	res.Sample = map[string]any{"program": shape, "close_overlapped_a_publish": closeOverlapped}
	return res
}

// storm: Close calls that overlap from their very first instruction (check-then-act slips need that; a second Close that
// arrives while the first one is already inside behaves correctly).
func storm(e *vlib.Env) vlib.Result {
	r := e.R
	res := vlib.Result{Class: "storm"}
	gcFrame := func(g vlib.Goroutine) bool { return g.Has("pubsub/gochannel.") }
	before, _ := vlib.CountGoroutines(gcFrame)
	panics := 0
	var firstPanic string
	var pmu sync.Mutex
	rounds, closers := 30, 0
	for round := 0; round < rounds && !res.Failed() && res.Verdict == ""; round++ {
		cfgI := r.Intn(12)
		ps := gochannel.NewGoChannel(gochannel.Config{OutputChannelBuffer: []int64{0, 1, 4}[cfgI%3], Persistent: (cfgI/3)%2 == 1, BlockPublishUntilSubscriberAck: cfgI/6 == 1}, watermill.NopLogger{})
		topic := fmt.Sprintf("%s/storm%d", e.ID(), round)
		var fronts []message.Subscriber
		var chans []<-chan *message.Message
		for i, n := 0, r.Intn(4); i < n; i++ {
			var sub message.Subscriber = ps
			for d, nd := 0, r.Intn(3); d < nd; d++ {
				dec, err := message.MessageTransformSubscriberDecorator(transformFor(vlib.HashStr(fmt.Sprintf("%s/transform%d.%d", topic, i, d))))(sub)
				if err != nil {
					res.Verdict, res.Reason = vlib.HarnessError, err.Error()
					return res
				}
				sub = dec
			}
			ch, err := sub.Subscribe(context.Background(), topic)
			if err != nil {
				res.Fail("subscribe-error", "Subscribe on an open Pub/Sub failed: %v", err)
				break
			}
			fronts = append(fronts, sub)
			chans = append(chans, ch)
			go func() {
				for m := range ch {
					m.Ack()
				}
			}()
		}
		if r.Bool() {
			go func() { _ = ps.Publish(topic, message.NewMessage("m", []byte("p"))) }()
		}
		n := r.Range(2, 8)
		closers += n
		var ready atomic.Int32
		var wg sync.WaitGroup
		call := func(name string, f func()) {
			wg.Add(1)
			go func() {
				defer wg.Done()
				defer func() {
					if v := recover(); v != nil {
						pmu.Lock()
						panics++
						if firstPanic == "" {
							firstPanic = fmt.Sprintf("%s: %v", name, v)
						}
						pmu.Unlock()
					}
				}()
				ready.Add(1)
				for spin := 0; int(ready.Load()) < n && spin < 200000; spin++ {
					if spin%64 == 63 {
						runtime.Gosched()
					}
				}
				f()
			}()
		}
		for i := 0; i < n; i++ {
			k := r.Intn(10)
			if i == 0 {
				k = 0 // at least one Close of the Pub/Sub itself: the racing Subscribe reads until its channel is closed
			}
			switch {
			case k < 6 || (k < 8 && len(fronts) == 0):
				call("GoChannel.Close", func() { ps.Close() })
			case k < 8:
				f := fronts[r.Intn(len(fronts))]
				call("Close of a subscription's front (decorator or Pub/Sub)", func() { f.Close() })
			case k == 8:
				call("Subscribe", func() {
					if ch, err := ps.Subscribe(context.Background(), topic); err == nil {
						for m := range ch {
							m.Ack()
						}
					}
				})
			default:
				call("Publish", func() { _ = ps.Publish(topic, message.NewMessage("m2", []byte("p"))) })
			}
		}
		done := make(chan struct{})
		go func() { wg.Wait(); close(done) }()
		if oc, d := vlib.WaitClosed(done, vlib.WD); oc == vlib.Stuck {
			res.Fail("call-stuck", "round %d: %d Close/Subscribe/Publish calls started together on a fresh GoChannel; at least one never returned (quiescent)", round, n)
			res.Witness = vlib.Trunc(d, 60000)
			break
		} else if oc == vlib.Inconclusive {
			res.Inconclusive("round %d did not finish", round)
			break
		}
		// a Close call has returned on the Pub/Sub itself in every round where one was made; make sure of one, then all channels must end
		cd := make(chan struct{})
		go func() { ps.Close(); close(cd) }()
		if oc, _ := vlib.WaitClosed(cd, vlib.WD); oc != vlib.Done {
			res.Fail("call-stuck", "round %d: a further Close after the storm never returned", round)
			break
		}
		for i, ch := range chans {
			ch := ch
			ended := make(chan struct{})
			go func() {
				for range ch {
				}
				close(ended)
			}()
			if oc, d := vlib.WaitClosed(ended, vlib.WD); oc == vlib.Stuck {
				res.Fail("channel-open-after-close", "round %d: output channel %d is still open after Close returned (quiescent)", round, i)
				res.Witness = vlib.Trunc(d, 60000)
				break
			}
		}
		res.Events += n + len(chans)
	}
	pmu.Lock()
	if panics > 0 {
		res.Fail("panic", "%d call(s) panicked, first: %s", panics, firstPanic)
	}
	pmu.Unlock()
	if !res.Failed() && res.Verdict == "" {
		vlib.Settle(vlib.WD)
		if after, _ := vlib.CountGoroutines(gcFrame); after > before {
			res.Count("gochannel_goroutines_left", after-before)
		}
	}
	res.Count("storm_rounds", rounds)
	res.Count("storm_calls_started_together", closers)
	res.NonTrivial = true
	res.Sig = vlib.Sig("storm", e.Idx)
	res.Sample = map[string]any{"rounds": rounds, "calls": closers}
	return res
}
