package c20

// pubretry: a failed Publish through delay.Publisher (and the other publisher decorators) and the caller's retry
// with the SAME message objects.
//
// The statement: "delay.Publisher additionally stamps each outgoing message with exactly one delay chosen by
// precedence (metadata already present, else the delay in the message context, else the default generator ...)
// and publishes nothing when no delay is available unless AllowNoDelay", quantified over "all PublisherConfig
// settings (generator present, absent, failing ...), all inner-publisher failure sequences".
//
// "Metadata already present" is the strongest source, so whatever a failed Publish leaves in a message's delay
// keys decides what the retry sends. The class therefore judges, attempt by attempt,
//
//   - the metadata the caller's messages carry after a failed Publish: the delay keys are what they were before
//     the call, or a delay that a source really chose in that attempt (the context delay, or a generator result
//     returned WITHOUT error for that message in that attempt). delay.Publisher keeps the stamps of the messages
//     it resolved before the failure (and of all messages when only the inner publisher failed); removing them
//     again would be just as good - both are accepted. A stamp that no source chose is a violation
//     (failed-publish-stamp), so is any other change to the caller's metadata besides the trail of the transforms
//     that ran (failed-publish-metadata);
//   - the forwarded retry against the precedence rule evaluated on the state the caller handed in: a message that
//     still has no stamp must get the context delay or the result the outermost generator returned in THIS
//     attempt (so the generator has to be consulted again), a message with a stamp goes out with that very stamp.
//
// The reference model is driven by boundary observations only: the scripted generators log every consultation
// (attempt, ordinal, outcome), the transforms log every invocation, the scripted publisher snapshots what arrives.

import (
	"context"
	"errors"
	"fmt"
	"os"
	"strings"
	"sync"
	"time"

	"github.com/prometheus/client_golang/prometheus"

	"github.com/ThreeDotsLabs/watermill/components/delay"
	"github.com/ThreeDotsLabs/watermill/components/metrics"
	"github.com/ThreeDotsLabs/watermill/message"

	"verifharness/vlib"
)

// decoyOff is the delay some failing generators return together with their error; it is no member of
// delayOffsets, so a stamp made from it can never pass for a chosen delay.
const decoyOff = 7*time.Minute + 13*time.Second

type retryGenEntry struct {
	attempt int // case-wide number of the Publish call during which the generator was consulted
	ord     int // 1-based consultation ordinal for this (layer, message)
	fail    bool
	built   *builtDelay
	topic   string
	ptr     *message.Message
}

// retryGen scripts the default generator of one delay layer for one message.
type retryGen struct {
	specs  []delaySpec  // result of the k-th consultation (cycling): a re-consultation is distinguishable from a kept stamp
	failAt map[int]bool // consultation ordinals that fail
	decoy  bool         // failing consultations return delay.For(decoyOff) with the error instead of Delay{}
	calls  int
	log    []retryGenEntry
}

type retryLayer struct {
	Kind         string `json:"kind"` // T | D | M
	Tag          string `json:"tag,omitempty"`
	Gen          string `json:"gen,omitempty"` // none | ok | transient
	AllowNoDelay bool   `json:"allow_no_delay,omitempty"`

	mu      sync.Mutex
	gens    map[string]*retryGen
	attempt int
}

func (l *retryLayer) String() string {
	switch l.Kind {
	case "T":
		return "T(" + l.Tag + ")"
	case "D":
		s := "D(gen=" + l.Gen
		if l.AllowNoDelay {
			s += ",allowNoDelay"
		}
		return s + ")"
	}
	return "M"
}

func (l *retryLayer) setAttempt(a int) {
	l.mu.Lock()
	l.attempt = a
	l.mu.Unlock()
}

func (l *retryLayer) generator(p delay.DefaultDelayGeneratorParams) (delay.Delay, error) {
	l.mu.Lock()
	defer l.mu.Unlock()
	g := l.gens[p.Message.UUID]
	if g == nil {
		return delay.Delay{}, fmt.Errorf("c20: generator asked about unknown message %q", p.Message.UUID)
	}
	g.calls++
	en := retryGenEntry{attempt: l.attempt, ord: g.calls, topic: p.Topic, ptr: p.Message}
	if g.failAt[g.calls] {
		en.fail = true
		g.log = append(g.log, en)
		if g.decoy {
			return delay.For(decoyOff), errGenerator
		}
		return delay.Delay{}, errGenerator
	}
	en.built = g.specs[(g.calls-1)%len(g.specs)].build()
	g.log = append(g.log, en)
	return en.built.d, nil
}

// consulted returns the consultations about uuid during attempt a.
func (l *retryLayer) consulted(uuid string, a int) []retryGenEntry {
	l.mu.Lock()
	defer l.mu.Unlock()
	g := l.gens[uuid]
	if g == nil {
		return nil
	}
	var out []retryGenEntry
	for _, en := range g.log {
		if en.attempt == a {
			out = append(out, en)
		}
	}
	return out
}

type retryMsg struct {
	UUID string     `json:"uuid"`
	Meta *delaySpec `json:"meta,omitempty"`
	Ctx  *delaySpec `json:"ctx,omitempty"`
	// CtxOnRetry: the caller put a context delay on the message before this attempt (1-based), 0 = never
	CtxOnRetry int `json:"ctx_set_before_attempt,omitempty"`

	msg      *message.Message
	ctxBuilt *builtDelay
	payload  string
}

type retryBatch struct {
	Topic       string      `json:"topic"`
	Msgs        []*retryMsg `json:"msgs"`
	InnerFailAt []int       `json:"inner_fails_on_calls,omitempty"`
	Attempts    []string    `json:"attempts,omitempty"` // observed outcome per attempt
}

func delayKeysOf(m map[string]string) string {
	f, okF := m[delay.DelayedForKey]
	u, okU := m[delay.DelayedUntilKey]
	if !okF && !okU {
		return ""
	}
	return fmt.Sprintf("%s=%q %s=%q", delay.DelayedForKey, f, delay.DelayedUntilKey, u)
}

func withoutDelayKeys(m map[string]string) map[string]string {
	o := copyMeta(m)
	delete(o, delay.DelayedForKey)
	delete(o, delay.DelayedUntilKey)
	return o
}

func randFailSet(r *vlib.Rand) map[int]bool {
	switch x := r.Float(); {
	case x < 0.35:
		return map[int]bool{}
	case x < 0.75:
		return map[int]bool{1: true}
	case x < 0.93:
		return map[int]bool{1: true, 2: true}
	default:
		return map[int]bool{1: true, 2: true, 3: true}
	}
}

func runPubRetry(e *vlib.Env) vlib.Result {
	res := vlib.Result{Class: "pubretry"}
	r := e.R
	strictMetric := os.Getenv("C20_METRICS_RETRY") == "1"

	// ---- stack, outermost first; at least one delay layer
	depth := r.Range(1, 3)
	layers := make([]*retryLayer, depth)
	forceD := r.Intn(depth)
	for i := range layers {
		l := &retryLayer{gens: map[string]*retryGen{}}
		x := r.Float()
		switch {
		case i == forceD || x < 0.30:
			l.Kind = "D"
			switch y := r.Float(); {
			case y < 0.15:
				l.Gen = "none"
			case y < 0.30:
				l.Gen = "ok"
			default:
				l.Gen = "transient"
			}
			l.AllowNoDelay = r.Chance(0.3)
		case x < 0.60:
			l.Kind, l.Tag = "T", fmt.Sprintf("t%d", i)
		default:
			l.Kind = "M"
		}
		layers[i] = l
	}
	var stackNames []string
	nM, firstM := 0, -1
	for i, l := range layers {
		stackNames = append(stackNames, l.String())
		if l.Kind == "M" {
			nM++
			if firstM < 0 {
				firstM = i
			}
		}
	}
	stack := strings.Join(stackNames, ">")
	res.Class = fmt.Sprintf("pubretry/d%d", depth)

	// ---- batches
	nBatches := r.Range(1, 3)
	batches := make([]*retryBatch, nBatches)
	innerFail := map[string]map[int]bool{}
	innerErrs := map[string]error{}
	for b := range batches {
		rb := &retryBatch{Topic: fmt.Sprintf("%s-topic%d", e.ID(), b)}
		n := 1
		if !r.Chance(0.4) {
			n = r.Range(2, 4)
		}
		for i := 0; i < n; i++ {
			mp := &retryMsg{UUID: fmt.Sprintf("%s-b%d-m%d", e.ID(), b, i)}
			if r.Chance(0.2) {
				s := randDelaySpec(r)
				mp.Meta = &s
			}
			if r.Chance(0.25) {
				s := randDelaySpec(r)
				mp.Ctx = &s
			}
			for _, l := range layers {
				if l.Kind != "D" || l.Gen == "none" {
					continue
				}
				g := &retryGen{failAt: map[int]bool{}, decoy: r.Chance(0.4)}
				for k := r.Range(2, 3); k > 0; k-- {
					g.specs = append(g.specs, randDelaySpec(r))
				}
				if l.Gen == "transient" {
					g.failAt = randFailSet(r)
				}
				l.gens[mp.UUID] = g
			}
			m := message.NewMessage(mp.UUID, r.Payload(12))
			for k := r.Intn(3); k > 0; k-- {
				m.Metadata.Set(fmt.Sprintf("k%d", k), r.UTF8(6))
			}
			if mp.Meta != nil {
				delay.Message(m, mp.Meta.build().d)
			}
			if mp.Ctx != nil {
				mp.ctxBuilt = mp.Ctx.build()
				m.SetContext(delay.WithContext(context.Background(), mp.ctxBuilt.d))
			}
			mp.msg, mp.payload = m, string(m.Payload)
			rb.Msgs = append(rb.Msgs, mp)
		}
		fs := randFailSet(r)
		innerFail[rb.Topic] = fs
		for k := 1; k <= 4; k++ {
			if fs[k] {
				rb.InnerFailAt = append(rb.InnerFailAt, k)
			}
		}
		innerErrs[rb.Topic] = fmt.Errorf("c20: scripted inner publish error on %s", rb.Topic)
		batches[b] = rb
	}
	var closeErr error
	if r.Bool() {
		closeErr = errors.New("c20: scripted close error")
	}

	// ---- the real stack around the scripted end
	inner := &vlib.Pub{Name: e.ID()}
	var innerMu sync.Mutex
	innerCalls := map[string]int{}
	inner.Script = func(no int, topic string, msgs []*message.Message) error {
		innerMu.Lock()
		defer innerMu.Unlock()
		innerCalls[topic]++
		if innerFail[topic][innerCalls[topic]] {
			return innerErrs[topic]
		}
		return nil
	}
	end := &closeErrPub{Pub: inner, closeErr: closeErr}
	reg := prometheus.NewRegistry()
	builder := metrics.NewPrometheusMetricsBuilder(reg, "c20", "")
	tlog := &transformLog{}
	var top message.Publisher = end
	for i := depth - 1; i >= 0; i-- {
		l := layers[i]
		var err error
		switch l.Kind {
		case "T":
			top, err = message.MessageTransformPublisherDecorator(tagTransform(l.Tag, tlog))(top)
		case "D":
			cfg := delay.PublisherConfig{AllowNoDelay: l.AllowNoDelay}
			if l.Gen != "none" {
				cfg.DefaultDelayGenerator = l.generator
			}
			top, err = delay.NewPublisher(top, cfg)
		case "M":
			top, err = builder.DecoratePublisher(top)
		}
		if err != nil {
			res.Fail("decorate", "stack %s: decorating layer %d (%s) failed: %v", stack, i, l, err)
			return res
		}
	}

	const maxAttempts = 4
	var shapes []string
	attemptNo := 0
	cnt := map[string]int{}

	body := func() {
		for _, rb := range batches {
			n := len(rb.Msgs)
			msgs := make([]*message.Message, n)
			for i, mp := range rb.Msgs {
				msgs[i] = mp.msg
			}
			shape := fmt.Sprintf("%d:", n)
			cnt["batches"]++
			// marked: an earlier attempt of this batch may have reached a metrics decorator, which leaves its
			// "observed" mark in the messages' contexts (see Assumptions)
			marked := false

			for a := 1; a <= maxAttempts; a++ {
				attemptNo++
				for _, l := range layers {
					l.setAttempt(attemptNo)
				}
				pre := make([]map[string]string, n)
				for i, mp := range rb.Msgs {
					pre[i] = copyMeta(mp.msg.Metadata)
				}
				tl0 := tlog.total()
				var metricBefore map[string]int
				if nM > 0 {
					metricBefore, _ = gatherBy(reg, famPublish, "success")
				}
				before := len(inner.Calls())

				gotErr := top.Publish(rb.Topic, msgs...)

				newCalls := inner.Calls()[before:]
				post := make([]map[string]string, n)
				for i, mp := range rb.Msgs {
					post[i] = copyMeta(mp.msg.Metadata)
				}
				ran := map[string][]string{} // uuid -> tags of the transforms that ran on it in this attempt, in order
				for _, ev := range tlog.since(tl0) {
					k := strings.Index(ev, "/")
					ran[ev[k+1:]] = append(ran[ev[k+1:]], ev[:k])
				}
				res.Events += 1 + len(newCalls) + n
				cnt["attempts"]++
				if a > 1 {
					cnt["retry_attempts"]++
				}

				describe := func() string {
					var ms []string
					for i, mp := range rb.Msgs {
						s := mp.UUID[strings.LastIndex(mp.UUID, "-")+1:] + "{"
						if mp.Meta != nil {
							s += "meta=" + mp.Meta.String() + " "
						}
						if mp.ctxBuilt != nil {
							s += "ctx=" + mp.ctxBuilt.spec.String() + " "
						}
						if dk := delayKeysOf(pre[i]); dk != "" {
							s += "before:[" + dk + "] "
						} else {
							s += "before:unstamped "
						}
						for li, l := range layers {
							for _, en := range l.consulted(mp.UUID, attemptNo) {
								if en.fail {
									s += fmt.Sprintf("gen@%d#%d=FAIL ", li, en.ord)
								} else {
									s += fmt.Sprintf("gen@%d#%d=%s ", li, en.ord, en.built.spec)
								}
							}
						}
						ms = append(ms, strings.TrimSpace(s)+"}")
					}
					return fmt.Sprintf("stack %s, batch %s attempt %d (same message objects) Publish(%d msgs: %s) returned %v, inner calls %d",
						stack, rb.Topic[strings.LastIndex(rb.Topic, "-")+1:], a, n, strings.Join(ms, " "), gotErr, len(newCalls))
				}
				witness := func() map[string]any {
					return map[string]any{"metadata_before_attempt": pre, "metadata_after_attempt": post, "attempts_so_far": rb.Attempts}
				}

				if len(newCalls) > 1 {
					res.Fail("publish-forwarded-once", "%s: the inner publisher saw %d calls for one Publish", describe(), len(newCalls))
					return
				}
				forwarded := len(newCalls) == 1
				for _, mp := range rb.Msgs {
					seen := map[string]int{}
					for _, tag := range ran[mp.UUID] {
						seen[tag]++
						if seen[tag] > 1 {
							res.Fail("transform-once", "%s: transform %s ran %d times on %s within one Publish", describe(), tag, seen[tag], mp.UUID)
							return
						}
					}
				}

				// ---- reference model: walk the delay layers outermost first on the state the caller handed in
				type mstate struct {
					source string // "" | meta | ctx | gen
					b      *builtDelay
					genL   *retryLayer
				}
				st := make([]mstate, n)
				for i := range rb.Msgs {
					if pre[i][delay.DelayedForKey] != "" {
						st[i].source = "meta"
					}
				}
				firstRefusal, refuseKind := -1, ""
			walk:
				for li, l := range layers {
					if l.Kind != "D" {
						continue
					}
					for i, mp := range rb.Msgs {
						if st[i].source != "" {
							continue
						}
						if mp.ctxBuilt != nil {
							st[i].source, st[i].b = "ctx", mp.ctxBuilt
							continue
						}
						if l.Gen != "none" {
							ens := l.consulted(mp.UUID, attemptNo)
							if len(ens) == 0 {
								if forwarded {
									res.Fail("delay-precedence", "%s: message %s has neither a stamp nor a context delay when layer %d (%s) gets it, but that layer's default generator was not consulted in this attempt; forwarded metadata %v",
										describe(), mp.UUID, li, l, newCalls[0].Snaps[i].Metadata)
									res.Witness = witness()
									return
								}
								break walk // not forwarded and no source failed so far: judged below (no reason for the refusal)
							}
							en := ens[len(ens)-1]
							if en.fail {
								if l.AllowNoDelay {
									// generator failed and AllowNoDelay is set: still a refusal. AllowNoDelay covers the absence of a
									// generator only (godoc: "By default, the publisher returns an error when a message is published
									// without a delay and no default delay generator is provided"); a configured generator is the last
									// link of the statement's precedence chain and its failure is an error of Publish.
									cnt["generator_failures_with_allow_no_delay"]++
									if forwarded {
										res.Fail("generator-error-swallowed", "%s: the default generator of layer %d (%s) failed for %s; AllowNoDelay only covers a missing generator, so Publish has to fail and publish nothing, but the batch reached the inner publisher",
											describe(), li, l, mp.UUID)
										res.Witness = witness()
										return
									}
									firstRefusal, refuseKind = li, "generator-failed(AllowNoDelay)"
									break walk
								}
								if forwarded {
									res.Fail("publish-without-delay", "%s: the default generator of layer %d (%s) failed for %s, no delay is available, but the batch reached the inner publisher",
										describe(), li, l, mp.UUID)
									res.Witness = witness()
									return
								}
								firstRefusal, refuseKind = li, "generator-failed"
								break walk
							}
							if en.topic != rb.Topic || en.ptr != mp.msg {
								res.Fail("delay-generator-params", "%s: generator got topic %q / message %p, want %q / %p", describe(), en.topic, en.ptr, rb.Topic, mp.msg)
								return
							}
							st[i].source, st[i].b, st[i].genL = "gen", en.built, l
							continue
						}
						if !l.AllowNoDelay {
							if forwarded {
								res.Fail("publish-without-delay", "%s: layer %d (%s) has no delay for %s but the batch reached the inner publisher", describe(), li, l, mp.UUID)
								res.Witness = witness()
								return
							}
							firstRefusal, refuseKind = li, "no-delay"
							break walk
						}
					}
				}

				// delay sources that really chose a delay for message i in this attempt
				chosen := func(i int) []*builtDelay {
					mp := rb.Msgs[i]
					if mp.ctxBuilt != nil {
						return []*builtDelay{mp.ctxBuilt}
					}
					var out []*builtDelay
					for _, l := range layers {
						for _, en := range l.consulted(mp.UUID, attemptNo) {
							if !en.fail {
								out = append(out, en.built)
							}
						}
					}
					return out
				}
				// judgeAfterFailure: what a failed Publish may leave in the caller's message i.
				// alsoOK: a second accepted value of the delay keys (the forwarded snapshot's).
				judgeAfterFailure := func(i int, alsoOK map[string]string) bool {
					mp := rb.Msgs[i]
					res.Events++
					cnt["messages_judged_after_failed_publish"]++
					wantOther := withoutDelayKeys(pre[i])
					if t := strings.Join(ran[mp.UUID], ";"); t != "" {
						wantOther[trailKey] = pre[i][trailKey] + t + ";"
					}
					if d := metaDiff(wantOther, withoutDelayKeys(post[i])); d != "" {
						res.Fail("failed-publish-metadata", "%s: after the failed Publish message %s carries changed metadata (transforms that ran on it: %v): %s", describe(), mp.UUID, ran[mp.UUID], d)
						res.Witness = witness()
						return false
					}
					preK, postK := delayKeysOf(pre[i]), delayKeysOf(post[i])
					if postK == preK {
						if preK == "" {
							cnt["unstamped_after_failed_publish"]++
						}
						return true
					}
					if preK != "" {
						res.Fail("failed-publish-stamp", "%s: the failed Publish changed the delay stamp message %s already carried: before [%s], after [%s]", describe(), mp.UUID, preK, postK)
						res.Witness = witness()
						return false
					}
					if alsoOK != nil && postK == delayKeysOf(alsoOK) {
						cnt["stamps_kept_after_failed_publish"]++
						return true
					}
					var why []string
					for _, b := range chosen(i) {
						w := checkStamp(b, post[i][delay.DelayedForKey], post[i][delay.DelayedUntilKey])
						if w == "" {
							cnt["stamps_kept_after_failed_publish"]++
							return true
						}
						why = append(why, fmt.Sprintf("not %s: %s", b.spec, w))
					}
					if len(why) == 0 {
						why = append(why, "no context delay, and no generator returned a delay for it in this attempt")
					}
					res.Fail("failed-publish-stamp", "%s: message %s had no delay stamp before the failed Publish and carries [%s] after it, a delay that no source chose (%s); 'metadata already present' would make a retry send it with this delay",
						describe(), mp.UUID, postK, strings.Join(why, "; "))
					res.Witness = witness()
					return false
				}

				// ---- publish metric of this attempt
				judgeMetric := func(must, may bool) bool {
					if nM == 0 {
						return true
					}
					metricAfter, err := gatherBy(reg, famPublish, "success")
					if err != nil {
						res.Fail("metrics-gather", "Gather failed: %v", err)
						return false
					}
					label := fmt.Sprint(gotErr == nil)
					dT, dF := metricAfter["true"]-metricBefore["true"], metricAfter["false"]-metricBefore["false"]
					res.Events++
					bad := dT < 0 || dF < 0 || dT+dF > 1 || (dT+dF == 1 && metricAfter[label] == metricBefore[label]) || (!may && dT+dF != 0)
					if bad || (must && !marked && dT+dF != 1) {
						res.Fail("metrics-publish-count", "%s: this call changed publish_time_seconds sample counts by success from %s to %s (outermost metrics decorator at layer %d; must observe=%v, may observe=%v)",
							describe(), fmtCounts(metricBefore), fmtCounts(metricAfter), firstM, must, may)
						return false
					}
					if must && marked && dT+dF != 1 {
						cnt["metric_retry_not_observed"]++
						if strictMetric {
							res.Fail("metrics-publish-count-retry", "%s: the retried Publish (same message objects) reached the metrics decorator at layer %d but was not observed: publish_time_seconds %s -> %s",
								describe(), firstM, fmtCounts(metricBefore), fmtCounts(metricAfter))
							return false
						}
					}
					cnt["metric_observations"] += dT + dF
					marked = marked || may
					return true
				}

				if !forwarded {
					if gotErr == nil {
						res.Fail("publish-lost", "%s: returned nil but nothing reached the inner publisher", describe())
						res.Witness = witness()
						return
					}
					if firstRefusal < 0 {
						res.Fail("publish-lost", "%s: the call never reached the inner publisher although every message has a delay by precedence or may go without (no generator failed, no layer lacks a delay)", describe())
						res.Witness = witness()
						return
					}
					for i := range rb.Msgs {
						if !judgeAfterFailure(i, nil) {
							return
						}
					}
					if !judgeMetric(firstM >= 0 && firstM < firstRefusal, firstM >= 0 && firstM < firstRefusal) {
						return
					}
					switch refuseKind {
					case "no-delay":
						cnt["attempts_refused_no_delay"]++
						shape += "n"
					case "generator-failed":
						cnt["attempts_failed_generator"]++
						shape += "g"
					default:
						cnt["attempts_failed_generator_allow_no_delay"]++
						shape += "a"
					}
					rb.Attempts = append(rb.Attempts, "refused:"+refuseKind)
				} else {
					pc := newCalls[0]
					if pc.Topic != rb.Topic {
						res.Fail("publish-transparent", "%s: inner topic %q, want %q", describe(), pc.Topic, rb.Topic)
						return
					}
					if len(pc.Msgs) != n {
						res.Fail("publish-forwarded-once", "%s: inner call carries %d messages, want the whole batch of %d in one call", describe(), len(pc.Msgs), n)
						return
					}
					for i := range msgs {
						if pc.Msgs[i] != msgs[i] {
							res.Fail("publish-transparent", "%s: inner message %d is not the published message %s (order / identity changed)", describe(), i, msgs[i].UUID)
							return
						}
					}
					wantErr := pc.Err
					if (wantErr == nil) != (gotErr == nil) || (wantErr != nil && !errors.Is(gotErr, wantErr)) {
						res.Fail("publish-error-passthrough", "%s: the inner publisher returned %v", describe(), wantErr)
						return
					}
					fullTrail := ""
					for _, l := range layers {
						if l.Kind == "T" {
							fullTrail += l.Tag + ";"
						}
					}
					for i, mp := range rb.Msgs {
						snap := pc.Snaps[i]
						res.Events++
						if got := strings.Join(ran[mp.UUID], ";"); fullTrail != "" && got+";" != fullTrail {
							res.Fail("transform-once", "%s: transforms that ran on %s in this attempt: %q, want each layer once in stack order %q", describe(), mp.UUID, got, fullTrail)
							return
						}
						if snap.UUID != mp.UUID || string(snap.Payload) != mp.payload {
							res.Fail("publish-transparent", "%s: message %s reached the inner publisher with uuid %q / payload changed=%v", describe(), mp.UUID, snap.UUID, string(snap.Payload) != mp.payload)
							return
						}
						want := withoutDelayKeys(pre[i])
						if fullTrail != "" {
							want[trailKey] = pre[i][trailKey] + fullTrail
						}
						if d := metaDiff(want, withoutDelayKeys(snap.Metadata)); d != "" {
							res.Fail("publish-transparent", "%s: message %s reached the inner publisher with wrong metadata: %s", describe(), mp.UUID, d)
							res.Witness = witness()
							return
						}
						gotK := delayKeysOf(snap.Metadata)
						switch st[i].source {
						case "meta":
							// "metadata already present": goes out with the stamp it came with
							if preK := delayKeysOf(pre[i]); gotK != preK {
								res.Fail("delay-precedence", "%s: message %s came with the stamp [%s] (metadata already present) but reached the inner publisher with [%s]", describe(), mp.UUID, preK, gotK)
								res.Witness = witness()
								return
							}
							if a > 1 {
								cnt["retried_messages_sent_with_kept_stamp"]++
							}
						case "":
							if gotK != "" {
								res.Fail("delay-precedence", "%s: message %s has no delay source in this attempt (AllowNoDelay pass-through) but reached the inner publisher with [%s]", describe(), mp.UUID, gotK)
								res.Witness = witness()
								return
							}
						default:
							if why := checkStamp(st[i].b, snap.Metadata[delay.DelayedForKey], snap.Metadata[delay.DelayedUntilKey]); why != "" {
								res.Fail("delay-stamp", "%s: message %s came without a stamp and must carry the %s delay %s of this attempt: %s", describe(), mp.UUID, st[i].source, st[i].b.spec, why)
								res.Witness = witness()
								return
							}
							cnt["messages_stamped"]++
							if a > 1 && st[i].source == "gen" {
								cnt["retried_messages_stamped_by_generator_again"]++
							}
						}
						shape += st[i].source[:min(1, len(st[i].source))]
						if st[i].source == "" {
							shape += "-"
						}
					}
					if gotErr != nil {
						for i := range rb.Msgs {
							if !judgeAfterFailure(i, pc.Snaps[i].Metadata) {
								return
							}
						}
					}
					if !judgeMetric(nM > 0, nM > 0) {
						return
					}
					if gotErr != nil {
						cnt["attempts_failed_inner"]++
						shape += "!i"
						rb.Attempts = append(rb.Attempts, "forwarded, inner publisher failed")
					} else {
						cnt["attempts_succeeded"]++
						if a > 1 {
							cnt["retries_succeeded"]++
						}
						rb.Attempts = append(rb.Attempts, "forwarded")
					}
				}
				if gotErr == nil {
					break
				}
				shape += "|"
				if a == maxAttempts {
					cnt["batches_given_up"]++
					break
				}
				// the caller may give a still unstamped message a context delay before retrying
				p := 0.15
				if refuseKind == "no-delay" {
					p = 0.7
				}
				for _, mp := range rb.Msgs {
					if mp.msg.Metadata.Get(delay.DelayedForKey) == "" && mp.ctxBuilt == nil && r.Chance(p) {
						s := randDelaySpec(r)
						mp.Ctx, mp.CtxOnRetry = &s, a+1
						mp.ctxBuilt = s.build()
						mp.msg.SetContext(delay.WithContext(context.Background(), mp.ctxBuilt.d))
						cnt["context_delay_set_before_retry"]++
					}
				}
			}
			shapes = append(shapes, shape)
		}

		gotClose := top.Close()
		res.Events++
		if c := inner.CloseCalls.Load(); c != 1 {
			res.Fail("close-once", "stack %s: one Close on the stack closed the inner publisher %d times", stack, c)
			return
		}
		if (closeErr == nil) != (gotClose == nil) || (closeErr != nil && !errors.Is(gotClose, closeErr)) {
			res.Fail("close-error-passthrough", "stack %s: Close returned %v, the inner publisher's Close returned %v", stack, gotClose, closeErr)
			return
		}
	}

	done := make(chan struct{})
	go func() { defer close(done); body() }()
	switch oc, dump := vlib.WaitClosed(done, vlib.WD); oc {
	case vlib.Stuck:
		res.Fail("blocks", "stack %s: Publish/Close never returned (process quiescent)", stack)
		res.Witness = dump
		return res
	case vlib.Inconclusive:
		res.Inconclusive("publisher retry case did not finish")
		return res
	}

	gens, fails := 0, 0
	for _, l := range layers {
		l.mu.Lock()
		for _, g := range l.gens {
			gens += len(g.log)
			for _, en := range g.log {
				if en.fail {
					fails++
					if g.decoy {
						cnt["generator_failures_with_decoy_delay"]++
					}
				}
			}
		}
		l.mu.Unlock()
	}
	cnt["generator_consultations"] = gens
	cnt["generator_failures_fired"] = fails
	cnt["transform_invocations"] = tlog.total()
	for k, v := range cnt {
		res.Count("pubretry_"+k, v)
	}
	res.NonTrivial = cnt["retry_attempts"] > 0
	res.Sig = vlib.Sig("pubretry", stack, strings.Join(shapes, ","))
	res.Sample = map[string]any{"stack_outermost_first": stackNames, "batches": batches, "close_err": closeErr != nil}
	return res
}
