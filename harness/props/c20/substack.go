package c20

import (
	"context"
	"errors"
	"fmt"
	"strings"
	"sync"

	"github.com/prometheus/client_golang/prometheus"

	"github.com/ThreeDotsLabs/watermill/components/metrics"
	"github.com/ThreeDotsLabs/watermill/message"

	"verifharness/vlib"
)

type subMsgPlan struct {
	UUID   string `json:"uuid"`
	Action string `json:"action"` // ack | nack | hold-ack | hold-nack (settled only in phase 2)

	sent *message.Message // what the scripted inner subscriber emitted
	got  *message.Message // what came out of the outermost channel
}

type subPlan struct {
	Topic string        `json:"topic"`
	Msgs  []*subMsgPlan `json:"msgs"`

	sp  *vlib.Subscription
	out <-chan *message.Message
}

func runSubStack(e *vlib.Env) vlib.Result {
	res := vlib.Result{Class: "substack"}
	r := e.R

	// stack, outermost first
	depth := r.Intn(4)
	kinds := make([]string, depth)
	tags := make([]string, depth)
	nM := 0
	for i := range kinds {
		if r.Chance(0.55) {
			kinds[i] = "M"
		} else {
			kinds[i], tags[i] = "T", fmt.Sprintf("t%d", i)
		}
	}
	if e.Idx%12 == 5 && depth >= 2 { // frequent "same metrics decorator twice"
		p := r.Perm(depth)
		kinds[p[0]], kinds[p[1]] = "M", "M"
		tags[p[0]], tags[p[1]] = "", ""
	}
	var stackNames []string
	for i, k := range kinds {
		if k == "M" {
			nM++
			stackNames = append(stackNames, "M")
		} else {
			stackNames = append(stackNames, "T("+tags[i]+")")
		}
	}
	stack := strings.Join(stackNames, ">")
	res.Class = fmt.Sprintf("substack/d%d", depth)
	// the trail a message carries at the outer end: transforms run innermost first
	wantTrail := ""
	for i := depth - 1; i >= 0; i-- {
		if kinds[i] == "T" {
			wantTrail += tags[i] + ";"
		}
	}

	nSubs := r.Range(1, 2)
	subs := make([]*subPlan, nSubs)
	actions := []string{"ack", "nack", "hold-ack", "hold-nack", "ack", "nack"}
	for s := range subs {
		p := &subPlan{Topic: fmt.Sprintf("%s-topic%d", e.ID(), s)}
		for i, n := 0, r.Range(1, 5); i < n; i++ {
			mp := &subMsgPlan{UUID: fmt.Sprintf("%s-s%d-m%d", e.ID(), s, i), Action: actions[r.Intn(len(actions))]}
			mp.sent = message.NewMessage(mp.UUID, r.Payload(10))
			if r.Bool() {
				mp.sent.Metadata.Set("k", r.UTF8(5))
			}
			p.Msgs = append(p.Msgs, mp)
		}
		subs[s] = p
	}
	failFirstSubscribe := r.Chance(0.3)
	var closeErr error
	if r.Bool() {
		closeErr = errors.New("c20: scripted subscriber close error")
	}

	inner := &vlib.Sub{Name: e.ID()}
	end := &closeErrSub{Sub: inner, closeErr: closeErr}
	reg := prometheus.NewRegistry()
	builder := metrics.NewPrometheusMetricsBuilder(reg, "c20", "")
	tlog := &transformLog{}
	var top message.Subscriber = end
	for i := depth - 1; i >= 0; i-- {
		var err error
		if kinds[i] == "T" {
			top, err = message.MessageTransformSubscriberDecorator(tagTransform(tags[i], tlog))(top)
		} else {
			top, err = builder.DecorateSubscriber(top)
		}
		if err != nil {
			res.Fail("decorate", "stack %s: decorating layer %d failed: %v", stack, i, err)
			return res
		}
	}

	var mu sync.Mutex // guards res / settled from the reader goroutines
	settled := map[string]int{}
	fail := func(clause, f string, a ...any) {
		mu.Lock()
		defer mu.Unlock()
		res.Fail(clause, f, a...)
	}
	failed := func() bool {
		mu.Lock()
		defer mu.Unlock()
		return res.Failed()
	}
	settle := func(mp *subMsgPlan, kind string) {
		var ok bool
		if kind == "ack" {
			ok = mp.got.Ack()
		} else {
			ok = mp.got.Nack()
		}
		mu.Lock()
		res.Events++
		if ok {
			settled[kind+"ed"]++
		}
		mu.Unlock()
		// settling the received message settles the inner subscriber's message
		if s := vlib.Settled(mp.sent); s != kind || !ok {
			fail("settle-reaches-inner", "stack %s: %s() on the message received from the stack (returned %v) left the inner subscriber's message %s in state %q",
				stack, strings.ToUpper(kind[:1])+kind[1:], ok, mp.UUID, s)
		}
	}
	checkMetric := func(phase string) bool {
		switch oc, dump := vlib.Settle(vlib.WD); oc {
		case vlib.Inconclusive:
			res.Inconclusive("process did not become quiescent before reading the metrics (%s)", phase)
			_ = dump
			return false
		}
		got, err := gatherBy(reg, famSubscriber, "acked")
		if err != nil {
			res.Fail("metrics-gather", "Gather failed: %v", err)
			return false
		}
		mu.Lock()
		defer mu.Unlock()
		want := map[string]int{}
		if nM > 0 {
			want = map[string]int{"acked": settled["acked"], "nacked": settled["nacked"]}
		}
		res.Events += want["acked"] + want["nacked"]
		if !sameCounts(got, want) {
			res.Fail("metrics-subscriber-count", "stack %s (%d metrics decorators of one builder), %s: subscriber_messages_received_total by acked label %s, want %s = messages settled so far by the harness",
				stack, nM, phase, fmtCounts(got), fmtCounts(want))
			res.Witness = map[string]any{"subscriptions": subs}
			return false
		}
		return true
	}

	// 1. Subscribe error passes through
	if failFirstSubscribe {
		errSub := errors.New("c20: scripted subscribe error")
		inner.SubscribeErr = errSub
		ch, err := top.Subscribe(context.Background(), e.ID()+"-failing")
		inner.SubscribeErr = nil
		res.Events++
		if !errors.Is(err, errSub) || ch != nil {
			res.Fail("subscribe-error-passthrough", "stack %s: inner Subscribe failed with %v, the stack returned (ch nil=%v, err=%v)", stack, errSub, ch == nil, err)
			return res
		}
		if n := inner.SubCalls.Load(); n != 1 {
			res.Fail("subscribe-once", "stack %s: one Subscribe reached the inner subscriber %d times", stack, n)
			return res
		}
	}
	base := int(inner.SubCalls.Load())

	// 2. subscribe, emit, receive in order, settle per plan
	// in half of the cases the subscription contexts are cancelled while some messages are still held unsettled; the
	// held messages are settled afterwards and still have to be counted ("every settled received message exactly once")
	lateSettle := r.Bool()
	var cancels []context.CancelFunc
	defer func() {
		for _, c := range cancels {
			c()
		}
	}()
	for s, p := range subs {
		sctx, cancel := context.WithCancel(context.Background())
		cancels = append(cancels, cancel)
		out, err := top.Subscribe(sctx, p.Topic)
		if err != nil {
			res.Fail("subscribe-error-passthrough", "stack %s: Subscribe(%s) failed: %v", stack, p.Topic, err)
			return res
		}
		p.out = out
		if n := int(inner.SubCalls.Load()) - base; n != s+1 {
			res.Fail("subscribe-once", "stack %s: %d Subscribe calls reached the inner subscriber %d times", stack, s+1, n)
			return res
		}
		all := inner.Subs()
		p.sp = all[len(all)-1]
		if p.sp.Topic != p.Topic {
			res.Fail("subscribe-transparent", "stack %s: inner Subscribe saw topic %q, want %q", stack, p.sp.Topic, p.Topic)
			return res
		}
	}
	var wg sync.WaitGroup
	for _, p := range subs {
		p := p
		wg.Add(2)
		go func() { // the broker side
			defer wg.Done()
			for _, mp := range p.Msgs {
				// like a broker client: the message context derives from the subscription context
				mp.sent.SetContext(p.sp.Ctx)
				if !p.sp.Send(mp.sent) {
					fail("message-lost", "stack %s: subscription %s ended before message %s was taken", stack, p.Topic, mp.UUID)
					return
				}
			}
		}()
		go func() { // the consumer of the outermost channel
			defer wg.Done()
			for i, mp := range p.Msgs {
				m, ok := <-p.out
				if !ok {
					fail("message-lost", "stack %s: outer channel of %s closed before message %d (%s)", stack, p.Topic, i, mp.UUID)
					return
				}
				mu.Lock()
				res.Events++
				mu.Unlock()
				if m.UUID != mp.UUID {
					fail("receive-order", "stack %s: message %d on %s is %s, the inner subscriber emitted %s (lost, duplicated or reordered)", stack, i, p.Topic, m.UUID, mp.UUID)
					return
				}
				mp.got = m
				if string(m.Payload) != string(mp.sent.Payload) {
					fail("receive-transparent", "stack %s: payload of %s changed", stack, mp.UUID)
					return
				}
				if t := m.Metadata.Get(trailKey); t != wantTrail {
					fail("transform-once", "stack %s: message %s carries transform trail %q, want %q (every transform once, innermost first)", stack, mp.UUID, t, wantTrail)
					return
				}
				switch mp.Action {
				case "ack", "nack":
					settle(mp, mp.Action)
				}
			}
		}()
	}
	done := make(chan struct{})
	go func() { wg.Wait(); close(done) }()
	switch oc, dump := vlib.WaitClosed(done, vlib.WD); oc {
	case vlib.Stuck:
		if !failed() {
			fail("message-lost", "stack %s: emitted messages never arrived at the outermost channel (process quiescent)", stack)
			res.Witness = dump
		}
		return res
	case vlib.Inconclusive:
		res.Inconclusive("subscriber stack case did not finish")
		return res
	}
	if failed() {
		return res
	}
	// every transform ran once per message
	for i, k := range kinds {
		if k != "T" {
			continue
		}
		for _, p := range subs {
			for _, mp := range p.Msgs {
				if n := tlog.count(tags[i], mp.UUID); n != 1 {
					res.Fail("transform-once", "stack %s: transform %s ran %d times on %s", stack, tags[i], n, mp.UUID)
					return res
				}
			}
		}
	}

	// 3. metrics, phase 1: only the messages settled so far are counted (held ones are not)
	if !checkMetric("phase 1 (some messages still unsettled)") {
		return res
	}
	held := 0
	if lateSettle {
		for _, c := range cancels {
			c()
		}
		vlib.Settle(vlib.WD)
		res.Count("cases_settling_after_subscription_cancel", 1)
	}
	for _, p := range subs {
		for _, mp := range p.Msgs {
			if strings.HasPrefix(mp.Action, "hold-") {
				held++
				settle(mp, strings.TrimPrefix(mp.Action, "hold-"))
			}
		}
	}
	if res.Failed() {
		return res
	}
	if !checkMetric("phase 2 (all messages settled)") {
		return res
	}

	// 4. Close passes through once; the outer channels end
	var gotClose error
	closed := make(chan struct{})
	go func() { defer close(closed); gotClose = top.Close() }()
	switch oc, dump := vlib.WaitClosed(closed, vlib.WD); oc {
	case vlib.Stuck:
		res.Fail("blocks", "stack %s: Close never returned although every emitted message had been received (process quiescent)", stack)
		res.Witness = dump
		return res
	case vlib.Inconclusive:
		res.Inconclusive("Close did not finish")
		return res
	}
	res.Events++
	if n := inner.CloseCalls.Load(); n != 1 {
		res.Fail("close-once", "stack %s: one Close on the stack closed the inner subscriber %d times", stack, n)
		return res
	}
	if (closeErr == nil) != (gotClose == nil) || (closeErr != nil && !errors.Is(gotClose, closeErr)) {
		res.Fail("close-error-passthrough", "stack %s: Close returned %v, the inner subscriber's Close returned %v", stack, gotClose, closeErr)
		return res
	}
	for _, p := range subs {
		p := p
		extra := ""
		oc, dump := vlib.WaitUntil(func() bool {
			select {
			case m, ok := <-p.out:
				if ok {
					extra = m.UUID
				}
				return true
			default:
				return false
			}
		}, vlib.WD)
		if oc == vlib.Stuck {
			res.Fail("close-ends-subscriptions", "stack %s: after Close the outer channel of %s stays open (process quiescent)", stack, p.Topic)
			res.Witness = dump
			return res
		}
		if extra != "" {
			res.Fail("receive-order", "stack %s: extra message %s on %s after all emitted messages were received", stack, extra, p.Topic)
			return res
		}
	}

	nMsgs := 0
	var shape []string
	for _, p := range subs {
		s := ""
		for _, mp := range p.Msgs {
			nMsgs++
			s += mp.Action[:1]
			if strings.HasPrefix(mp.Action, "hold-") {
				s += mp.Action[5:6]
			}
		}
		shape = append(shape, s)
	}
	res.Count("messages_received", nMsgs)
	res.Count("messages_acked", settled["acked"])
	res.Count("messages_nacked", settled["nacked"])
	res.Count("messages_held_until_phase2", held)
	res.Count("transform_invocations", tlog.total())
	if nM >= 2 {
		res.Count("stacks_with_metrics_twice", 1)
	}
	res.NonTrivial = depth > 0 && nMsgs > 0
	res.Sig = vlib.Sig("sub", stack, strings.Join(shape, "|"), failFirstSubscribe, closeErr != nil)
	res.Sample = map[string]any{"stack_outermost_first": stackNames, "subscriptions": subs, "failing_subscribe_first": failFirstSubscribe,
		"close_err": closeErr != nil, "metric_final": map[string]int{"acked": settled["acked"], "nacked": settled["nacked"]}}
	return res
}
