package c20

import (
	"context"
	"errors"
	"fmt"
	"strings"
	"sync"
	"time"

	"github.com/prometheus/client_golang/prometheus"

	"github.com/ThreeDotsLabs/watermill/components/delay"
	"github.com/ThreeDotsLabs/watermill/components/metrics"
	"github.com/ThreeDotsLabs/watermill/message"

	"verifharness/vlib"
)

// ---------------------------------------------------------------------------------------------
// delays

// delaySpec describes how a Delay is constructed (by the harness or by the scripted generator).
type delaySpec struct {
	Until bool          `json:"until,omitempty"` // delay.Until(now+Off) instead of delay.For(Off)
	Off   time.Duration `json:"off"`
	Zone  bool          `json:"zone,omitempty"` // Until: the time carries a non-UTC location
	// ZeroValue: the Delay is delay.Delay{} ("The zero value of Delay is a zero delay" - a legal, available delay)
	ZeroValue bool `json:"zero_value,omitempty"`
}

func (s delaySpec) String() string {
	if s.ZeroValue {
		return "Delay{}"
	}
	if s.Until {
		z := ""
		if s.Zone {
			z = ",zone"
		}
		return fmt.Sprintf("Until(now%+v%s)", s.Off, z)
	}
	return fmt.Sprintf("For(%v)", s.Off)
}

// builtDelay is a constructed Delay with the wall-clock bracket of its construction.
type builtDelay struct {
	spec   delaySpec
	d      delay.Delay
	c0, c1 time.Time // wall clock (monotonic reading stripped) before / after delay.For / delay.Until
	t      time.Time // Until: the instant passed in
}

func wallNow() time.Time { return time.Now().Round(0) }

var oddZone = time.FixedZone("c20+0330", 3*3600+1800)

func (s delaySpec) build() *builtDelay {
	b := &builtDelay{spec: s}
	if s.ZeroValue {
		b.c0 = wallNow()
		b.d = delay.Delay{}
		b.c1 = wallNow()
		return b
	}
	if s.Until {
		b.t = wallNow().Add(s.Off)
		if s.Zone {
			b.t = b.t.In(oddZone)
		}
		b.c0 = wallNow()
		b.d = delay.Until(b.t)
		b.c1 = wallNow()
		return b
	}
	b.c0 = wallNow()
	b.d = delay.For(s.Off)
	b.c1 = wallNow()
	return b
}

var delayOffsets = []time.Duration{
	-time.Hour,                   // 1 h in the past
	0,                            // zero duration
	10 * 365 * 24 * time.Hour,    // 10 years ahead (inside time.Duration's range)
	1500 * time.Millisecond,      // sub-second part
	90 * time.Second,             //
	36*time.Hour + 7*time.Second, //
}

func randDelaySpec(r *vlib.Rand) delaySpec {
	if r.Chance(0.1) {
		return delaySpec{ZeroValue: true}
	}
	s := delaySpec{Off: delayOffsets[r.Intn(len(delayOffsets))]}
	if r.Chance(0.45) {
		s.Until = true
		s.Zone = r.Chance(0.3)
	}
	return s
}

// checkStamp judges the two delay metadata values against the Delay they must stem from:
// For(d):   delayed_for parses to d; delayed_until lies in [trunc(c0+d), trunc(c1+d)]
// Until(t): delayed_until is t (to the second); delayed_for lies in [t-c1, t-c0]
// (bracketing only: c0/c1 are readings before/after the construction of the Delay).
func checkStamp(b *builtDelay, forStr, untilStr string) string {
	if forStr == "" || untilStr == "" {
		return fmt.Sprintf("delay keys incomplete: %s=%q %s=%q", delay.DelayedForKey, forStr, delay.DelayedUntilKey, untilStr)
	}
	d, err := time.ParseDuration(forStr)
	if err != nil {
		return fmt.Sprintf("%s=%q does not parse as a duration: %v", delay.DelayedForKey, forStr, err)
	}
	u, err := time.Parse(time.RFC3339, untilStr)
	if err != nil {
		return fmt.Sprintf("%s=%q does not parse as RFC3339: %v", delay.DelayedUntilKey, untilStr, err)
	}
	if b.spec.ZeroValue {
		// delay.Message formats the zero Delay as the zero time and a zero duration
		if d != 0 || !u.Equal(time.Time{}) {
			return fmt.Sprintf("%s=%q %s=%q, want the stamp of the zero-value Delay (0s, %s)", delay.DelayedForKey, forStr, delay.DelayedUntilKey, untilStr, time.Time{}.Format(time.RFC3339))
		}
		return ""
	}
	if !b.spec.Until {
		if d != b.spec.Off {
			return fmt.Sprintf("%s=%q, want the chosen delay %v (%s)", delay.DelayedForKey, forStr, b.spec.Off, b.spec)
		}
		lo, hi := b.c0.Add(b.spec.Off).Truncate(time.Second), b.c1.Add(b.spec.Off).Truncate(time.Second)
		if u.Before(lo) || u.After(hi) {
			return fmt.Sprintf("%s=%q outside [%s, %s] = construction bracket + %v (%s): delayed-for and delayed-until disagree",
				delay.DelayedUntilKey, untilStr, lo.UTC().Format(time.RFC3339), hi.UTC().Format(time.RFC3339), b.spec.Off, b.spec)
		}
		return ""
	}
	if want := b.t.Truncate(time.Second); !u.Equal(want) {
		return fmt.Sprintf("%s=%q, want the chosen instant %s (%s)", delay.DelayedUntilKey, untilStr, want.Format(time.RFC3339), b.spec)
	}
	lo, hi := b.t.Sub(b.c1), b.t.Sub(b.c0)
	if d < lo || d > hi {
		return fmt.Sprintf("%s=%q outside [%v, %v] = chosen instant - construction bracket (%s): delayed-for and delayed-until disagree",
			delay.DelayedForKey, forStr, lo, hi, b.spec)
	}
	return ""
}

// ---------------------------------------------------------------------------------------------
// plan

type genEntry struct {
	fail  bool
	spec  delaySpec
	built *builtDelay // filled when the generator ran
	calls int
	topic string
	ptr   *message.Message
}

type pubLayer struct {
	Kind         string `json:"kind"` // T | D | M
	Tag          string `json:"tag,omitempty"`
	Gen          string `json:"gen,omitempty"` // none | ok | failing
	AllowNoDelay bool   `json:"allow_no_delay,omitempty"`

	mu  sync.Mutex
	gen map[string]*genEntry // by message uuid
}

func (l *pubLayer) String() string {
	switch l.Kind {
	case "T":
		return "T(" + l.Tag + ")"
	case "D":
		s := "D(gen=" + l.Gen
		if l.AllowNoDelay {
			s += ",allowNoDelay"
		}
		return s + ")"
	}
	return "M"
}

type msgPlan struct {
	UUID string     `json:"uuid"`
	Meta *delaySpec `json:"meta,omitempty"` // pre-set with delay.Message
	Ctx  *delaySpec `json:"ctx,omitempty"`  // delay.WithContext

	msg      *message.Message
	ctxBuilt *builtDelay
	base     map[string]string // metadata before Publish
	payload  string
}

type callPlan struct {
	Topic    string     `json:"topic"`
	Msgs     []*msgPlan `json:"msgs"`
	InnerErr bool       `json:"inner_err,omitempty"`
	// observed
	Outcome string `json:"outcome,omitempty"`
}

var errGenerator = errors.New("c20: scripted generator failure")

func (l *pubLayer) generator(p delay.DefaultDelayGeneratorParams) (delay.Delay, error) {
	l.mu.Lock()
	defer l.mu.Unlock()
	ge := l.gen[p.Message.UUID]
	if ge == nil {
		return delay.Delay{}, fmt.Errorf("c20: generator asked about unknown message %q", p.Message.UUID)
	}
	ge.calls++
	ge.topic = p.Topic
	ge.ptr = p.Message
	if ge.fail {
		return delay.Delay{}, errGenerator
	}
	ge.built = ge.spec.build()
	return ge.built.d, nil
}

// ---------------------------------------------------------------------------------------------
// the case

func runPubStack(e *vlib.Env) vlib.Result {
	res := vlib.Result{Class: "pubstack"}
	r := e.R

	// stack, outermost first
	depth := r.Intn(4)
	layers := make([]*pubLayer, depth)
	for i := range layers {
		l := &pubLayer{gen: map[string]*genEntry{}}
		switch x := r.Float(); {
		case x < 0.25:
			l.Kind, l.Tag = "T", fmt.Sprintf("t%d", i)
		case x < 0.65:
			l.Kind = "D"
			l.Gen = []string{"none", "ok", "failing"}[r.Intn(3)]
			l.AllowNoDelay = r.Bool()
		default:
			l.Kind = "M"
		}
		layers[i] = l
	}
	if e.Idx%12 == 3 && depth >= 2 { // make sure the "same metrics decorator twice" stacks are frequent
		p := r.Perm(depth)
		layers[p[0]] = &pubLayer{Kind: "M"}
		layers[p[1]] = &pubLayer{Kind: "M"}
	}
	var stackNames []string
	nM, nD, nT := 0, 0, 0
	for _, l := range layers {
		stackNames = append(stackNames, l.String())
		switch l.Kind {
		case "M":
			nM++
		case "D":
			nD++
		default:
			nT++
		}
	}
	stack := strings.Join(stackNames, ">")
	res.Class = fmt.Sprintf("pubstack/d%d", depth)

	// calls
	nCalls := r.Range(3, 8)
	calls := make([]*callPlan, nCalls)
	innerErrs := map[string]error{}
	for c := range calls {
		cp := &callPlan{Topic: fmt.Sprintf("%s-topic%d", e.ID(), c)}
		n := 0
		if !r.Chance(0.1) {
			n = r.Range(1, 4)
		}
		for i := 0; i < n; i++ {
			mp := &msgPlan{UUID: fmt.Sprintf("%s-c%d-m%d", e.ID(), c, i)}
			// with delay layers, bias towards "some delay available" so that calls are not refused all the time
			pMeta, pCtx := 0.3, 0.45
			if r.Chance(pMeta) {
				s := randDelaySpec(r)
				mp.Meta = &s
			}
			if r.Chance(pCtx) {
				s := randDelaySpec(r)
				mp.Ctx = &s
			}
			for _, l := range layers {
				if l.Kind == "D" && l.Gen != "none" {
					ge := &genEntry{spec: randDelaySpec(r)}
					if l.Gen == "failing" {
						ge.fail = r.Chance(0.4)
					}
					l.gen[mp.UUID] = ge
				}
			}
			// the message itself
			m := message.NewMessage(mp.UUID, r.Payload(12))
			for k := r.Intn(3); k > 0; k-- {
				m.Metadata.Set(fmt.Sprintf("k%d", k), r.UTF8(6))
			}
			if mp.Meta != nil {
				delay.Message(m, mp.Meta.build().d)
			}
			mp.msg = m
			cp.Msgs = append(cp.Msgs, mp)
		}
		if r.Chance(0.25) {
			cp.InnerErr = true
			innerErrs[cp.Topic] = fmt.Errorf("c20: scripted inner publish error on %s", cp.Topic)
		}
		calls[c] = cp
	}
	var closeErr error
	if r.Bool() {
		closeErr = errors.New("c20: scripted close error")
	}

	// build the real stack around the scripted end
	inner := &vlib.Pub{Name: e.ID()}
	inner.Script = func(no int, topic string, msgs []*message.Message) error { return innerErrs[topic] }
	end := &closeErrPub{Pub: inner, closeErr: closeErr}
	reg := prometheus.NewRegistry()
	builder := metrics.NewPrometheusMetricsBuilder(reg, "c20", "")
	tlog := &transformLog{}
	var top message.Publisher = end
	for i := depth - 1; i >= 0; i-- {
		l := layers[i]
		var err error
		switch l.Kind {
		case "T":
			top, err = message.MessageTransformPublisherDecorator(tagTransform(l.Tag, tlog))(top)
		case "D":
			cfg := delay.PublisherConfig{AllowNoDelay: l.AllowNoDelay}
			if l.Gen != "none" {
				cfg.DefaultDelayGenerator = l.generator
			}
			top, err = delay.NewPublisher(top, cfg)
		case "M":
			top, err = builder.DecoratePublisher(top)
		}
		if err != nil {
			res.Fail("decorate", "stack %s: decorating layer %d (%s) failed: %v", stack, i, l, err)
			return res
		}
	}

	expMetric := map[string]int{}
	var shapes []string
	refused, forwarded, stamped := 0, 0, 0
	genFailAllowN, genErrAsIs := 0, 0

	body := func() {
		for c, cp := range calls {
			// finish the messages: context delays are built right before the call
			msgs := make([]*message.Message, len(cp.Msgs))
			for i, mp := range cp.Msgs {
				if mp.Ctx != nil {
					mp.ctxBuilt = mp.Ctx.build()
					mp.msg.SetContext(delay.WithContext(context.Background(), mp.ctxBuilt.d))
				}
				mp.base = copyMeta(mp.msg.Metadata)
				mp.payload = string(mp.msg.Payload)
				msgs[i] = mp.msg
			}

			// ---- reference model: walk the stack outermost first
			type mstate struct {
				source string // "" | meta | ctx | gen
				genL   *pubLayer
				trail  string
			}
			st := make([]mstate, len(cp.Msgs))
			for i, mp := range cp.Msgs {
				if mp.Meta != nil {
					st[i].source = "meta"
				}
			}
			// genFailAllow: the refusing generator failure happened in a layer with AllowNoDelay set. That is still a
			// refusal: PublisherConfig's godoc ties AllowNoDelay to the absence of a generator ("By default, the publisher
			// returns an error when a message is published without a delay and no default delay generator is provided"),
			// and the statement's precedence chain ends in "else the default generator" whenever one is configured - its
			// failure is an error of Publish (every error passes through), not "no delay is available".
			refusedAt, refuseKind, genFailAllow := -1, "", false
			metricsReached := false
			reachedT := map[string]bool{}
		walk:
			for li, l := range layers {
				switch l.Kind {
				case "T":
					reachedT[l.Tag] = true
					for i := range st {
						st[i].trail += l.Tag + ";"
					}
				case "M":
					if len(msgs) > 0 {
						metricsReached = true
					}
				case "D":
					for i, mp := range cp.Msgs {
						if st[i].source != "" {
							continue // metadata already present (pre-set or stamped by an outer delay layer)
						}
						if mp.Ctx != nil {
							st[i].source = "ctx"
							continue
						}
						if l.Gen != "none" {
							if l.gen[mp.UUID].fail {
								refusedAt, refuseKind, genFailAllow = li, "generator-failed", l.AllowNoDelay
								break walk
							}
							st[i].source, st[i].genL = "gen", l
							continue
						}
						if !l.AllowNoDelay {
							refusedAt, refuseKind = li, "no-delay"
							break walk
						}
					}
				}
			}

			// ---- the real call
			before := len(inner.Calls())
			gotErr := top.Publish(cp.Topic, msgs...)
			after := inner.Calls()
			newCalls := after[before:]
			res.Events += 1 + len(newCalls)

			describe := func() string {
				var ms []string
				for _, mp := range cp.Msgs {
					s := mp.UUID[strings.LastIndex(mp.UUID, "-")+1:] + "{"
					if mp.Meta != nil {
						s += "meta=" + mp.Meta.String() + " "
					}
					if mp.Ctx != nil {
						s += "ctx=" + mp.Ctx.String() + " "
					}
					for _, l := range layers {
						if ge := l.gen[mp.UUID]; ge != nil {
							if ge.fail {
								s += "gen=FAIL "
							} else {
								s += "gen=" + ge.spec.String() + " "
							}
						}
					}
					ms = append(ms, strings.TrimSpace(s)+"}")
				}
				return fmt.Sprintf("stack %s, call %d Publish(%d msgs: %s) innerErr=%v", stack, c, len(msgs), strings.Join(ms, " "), cp.InnerErr)
			}

			if len(newCalls) > 1 {
				res.Fail("publish-forwarded-once", "%s: the inner publisher saw %d calls for one Publish (batch must be forwarded in one call)", describe(), len(newCalls))
				return
			}
			if refusedAt >= 0 {
				refused++
				cp.Outcome = "refused:" + refuseKind
				if genFailAllow {
					genFailAllowN++
					if len(newCalls) != 0 || gotErr == nil {
						res.Fail("generator-error-swallowed", "%s: the default generator of layer %d (%s) returned an error for a message without metadata / context delay; AllowNoDelay only covers a missing generator, "+
							"so Publish has to fail and publish nothing, but it returned err=%v and %d call(s) reached the inner publisher", describe(), refusedAt, layers[refusedAt], gotErr, len(newCalls))
						if len(newCalls) == 1 {
							res.Witness = map[string]any{"forwarded_snapshots": newCalls[0].Snaps}
						}
						return
					}
				}
				if refuseKind == "generator-failed" && errors.Is(gotErr, errGenerator) {
					genErrAsIs++
				}
				if len(newCalls) != 0 {
					res.Fail("publish-without-delay", "%s: layer %d (%s) has no delay for a message (%s) but the batch reached the inner publisher (returned err=%v)",
						describe(), refusedAt, layers[refusedAt], refuseKind, gotErr)
					return
				}
				if gotErr == nil {
					res.Fail("publish-without-delay", "%s: layer %d (%s) has no delay for a message (%s); nothing was published but Publish returned nil", describe(), refusedAt, layers[refusedAt], refuseKind)
					return
				}
				if metricsBefore(layers, refusedAt) && len(msgs) > 0 {
					expMetric["false"]++
				}
				shapes = append(shapes, fmt.Sprintf("%d:%s", len(msgs), refuseKind))
				continue
			}
			// must have been forwarded: once, same topic, same pointers, same order
			if len(newCalls) != 1 {
				res.Fail("publish-lost", "%s: the call never reached the inner publisher (returned err=%v)", describe(), gotErr)
				return
			}
			pc := newCalls[0]
			forwarded++
			if pc.Topic != cp.Topic {
				res.Fail("publish-transparent", "%s: inner topic %q, want %q", describe(), pc.Topic, cp.Topic)
				return
			}
			if len(pc.Msgs) != len(msgs) {
				res.Fail("publish-forwarded-once", "%s: inner call carries %d messages, want the whole batch of %d in one call", describe(), len(pc.Msgs), len(msgs))
				return
			}
			for i := range msgs {
				if pc.Msgs[i] != msgs[i] {
					res.Fail("publish-transparent", "%s: inner message %d is not the published message %s (order / identity changed)", describe(), i, msgs[i].UUID)
					return
				}
			}
			wantErr := innerErrs[cp.Topic]
			if (wantErr == nil) != (gotErr == nil) || (wantErr != nil && !errors.Is(gotErr, wantErr)) {
				res.Fail("publish-error-passthrough", "%s: Publish returned %v, the inner publisher returned %v", describe(), gotErr, wantErr)
				return
			}
			if metricsReached {
				expMetric[fmt.Sprint(wantErr == nil)]++
			}
			// transforms: each reached transform exactly once per message
			for _, l := range layers {
				if l.Kind != "T" {
					continue
				}
				for _, mp := range cp.Msgs {
					if n := tlog.count(l.Tag, mp.UUID); n != 1 {
						res.Fail("transform-once", "%s: transform %s ran %d times on %s", describe(), l.Tag, n, mp.UUID)
						return
					}
				}
			}
			// forwarded metadata = original + transform trail + exactly the delay chosen by precedence
			shape := fmt.Sprintf("%d:", len(msgs))
			for i, mp := range cp.Msgs {
				snap := pc.Snaps[i]
				res.Events++
				if snap.UUID != mp.UUID || string(snap.Payload) != mp.payload {
					res.Fail("publish-transparent", "%s: message %s reached the inner publisher with uuid %q / payload changed=%v", describe(), mp.UUID, snap.UUID, string(snap.Payload) != mp.payload)
					return
				}
				want := copyMeta(mp.base)
				if st[i].trail != "" {
					want[trailKey] = st[i].trail
				}
				got := copyMeta(snap.Metadata)
				shape += st[i].source[:min(1, len(st[i].source))]
				switch st[i].source {
				case "meta":
					// delay already in the metadata: untouched (want already holds the pre-set keys)
				case "":
					// AllowNoDelay pass-through: no stamp
					shape += "-"
				default:
					stamped++
					var b *builtDelay
					if st[i].source == "ctx" {
						b = mp.ctxBuilt
					} else {
						ge := st[i].genL.gen[mp.UUID]
						b = ge.built
						if b == nil || ge.calls == 0 {
							res.Fail("delay-precedence", "%s: message %s has neither metadata nor context delay, but the default generator of %s was not consulted; forwarded metadata %v",
								describe(), mp.UUID, st[i].genL, snap.Metadata)
							return
						}
						if ge.topic != cp.Topic || ge.ptr != mp.msg {
							res.Fail("delay-generator-params", "%s: generator got topic %q / message %p, want %q / %p", describe(), ge.topic, ge.ptr, cp.Topic, mp.msg)
							return
						}
					}
					if why := checkStamp(b, got[delay.DelayedForKey], got[delay.DelayedUntilKey]); why != "" {
						// say which other source would explain it
						res.Fail("delay-stamp", "%s: message %s must carry the %s delay %s: %s", describe(), mp.UUID, st[i].source, b.spec, why)
						res.Witness = map[string]any{"forwarded_metadata": snap.Metadata, "expected_source": st[i].source, "construction_bracket": []string{b.c0.Format(time.RFC3339Nano), b.c1.Format(time.RFC3339Nano)}}
						return
					}
					delete(got, delay.DelayedForKey)
					delete(got, delay.DelayedUntilKey)
				}
				if d := metaDiff(want, got); d != "" {
					clause := "publish-transparent"
					if strings.Contains(d, delay.DelayedForKey) || strings.Contains(d, delay.DelayedUntilKey) {
						clause = "delay-precedence"
					}
					res.Fail(clause, "%s: message %s (delay source by precedence: %q) reached the inner publisher with wrong metadata: %s", describe(), mp.UUID, st[i].source, d)
					res.Witness = map[string]any{"forwarded_metadata": snap.Metadata, "metadata_before_publish": mp.base}
					return
				}
			}
			if gotErr != nil {
				shape += "!"
			}
			cp.Outcome = "forwarded"
			shapes = append(shapes, shape)
		}

		// Close passes through once, with its error
		gotClose := top.Close()
		res.Events++
		if n := inner.CloseCalls.Load(); n != 1 {
			res.Fail("close-once", "stack %s: one Close on the stack closed the inner publisher %d times", stack, n)
			return
		}
		if (closeErr == nil) != (gotClose == nil) || (closeErr != nil && !errors.Is(gotClose, closeErr)) {
			res.Fail("close-error-passthrough", "stack %s: Close returned %v, the inner publisher's Close returned %v", stack, gotClose, closeErr)
			return
		}

		// metrics: histogram sample counts per success label == the model's count of observed publish calls
		got, err := gatherBy(reg, famPublish, "success")
		if err != nil {
			res.Fail("metrics-gather", "Gather failed: %v", err)
			return
		}
		res.Events += expMetric["true"] + expMetric["false"]
		if !sameCounts(got, expMetric) {
			res.Fail("metrics-publish-count", "stack %s (%d metrics decorators of one builder): publish_time_seconds sample counts by success %s, want %s = non-empty Publish calls that reached the outermost metrics decorator, by outcome",
				stack, nM, fmtCounts(got), fmtCounts(expMetric))
			res.Witness = map[string]any{"calls": calls}
			return
		}
	}

	done := make(chan struct{})
	go func() { defer close(done); body() }()
	switch oc, dump := vlib.WaitClosed(done, vlib.WD); oc {
	case vlib.Stuck:
		res.Fail("blocks", "stack %s: Publish/Close never returned (process quiescent)", stack)
		res.Witness = dump
		return res
	case vlib.Inconclusive:
		res.Inconclusive("publisher stack case did not finish")
		return res
	}

	res.Count("publish_calls", nCalls)
	res.Count("calls_forwarded", forwarded)
	res.Count("calls_refused", refused)
	res.Count("calls_generator_failed_allow_no_delay", genFailAllowN)
	res.Count("generator_errors_returned_as_is", genErrAsIs)
	res.Count("messages_stamped", stamped)
	res.Count("metric_observations_expected", expMetric["true"]+expMetric["false"])
	res.Count("transform_invocations", tlog.total())
	if nM >= 2 {
		res.Count("stacks_with_metrics_twice", 1)
	}
	res.NonTrivial = depth > 0 && forwarded+refused > 0
	res.Sig = vlib.Sig("pub", stack, strings.Join(shapes, ","))
	res.Sample = map[string]any{"stack_outermost_first": stackNames, "calls": calls, "close_err": closeErr != nil,
		"metric_expected": expMetric}
	return res
}

// metricsBefore reports whether a metrics layer sits outside layer index at.
func metricsBefore(layers []*pubLayer, at int) bool {
	for i := 0; i < at && i < len(layers); i++ {
		if layers[i].Kind == "M" {
			return true
		}
	}
	return false
}
