package c20

import (
	"context"
	"encoding/json"
	"errors"
	"fmt"
	"strings"
	"sync"

	"github.com/prometheus/client_golang/prometheus"

	"github.com/ThreeDotsLabs/watermill/components/metrics"
	"github.com/ThreeDotsLabs/watermill/message"

	"verifharness/vlib"
)

// Workload class "subclose": the subscriber decorators are transparent also on the error paths.
//
// A scripted inner subscriber whose Close reports an error (on the first call only / on every call / never) and
// whose Subscribe fails for chosen topics is driven through one script - Subscribe calls, emissions of which the
// consumer reads only a prefix (the rest stays inside the decorators: nobody is reading), 1..3 Close calls
// (sequential or concurrent, optionally with a Subscribe racing them and with the consumer resuming to read),
// Subscribe after Close - once behind a stack of 0..3 decorators. Depth 0 is the bare subscriber: every
// clause below is formulated on what the inner subscriber did and returned, so it holds trivially for depth 0
// and demands of a deeper stack only that it behaves like the bare subscriber of the same script
// ("every message, error and Close passes through once and in order").
//
// Like the Subscriber godoc demands ("Close closes all subscriptions with their output channels"), the scripted
// inner subscriber ends its subscriptions in every Close call, also in those that report an error.

// flakySub is the scripted inner subscriber of the class.
type flakySub struct {
	*vlib.Sub
	policy     string           // none | first | every: which Close calls report closeErr
	closeErr   error            //
	failTopics map[string]error // Subscribe fails for these topics (fixed before the script starts)

	mu        sync.Mutex
	closeRets []error        // result of every inner Close call, in the order the calls arrived
	subCalls  map[string]int // Subscribe calls seen per topic
	subErrs   map[string]error
}

func (s *flakySub) Subscribe(ctx context.Context, topic string) (<-chan *message.Message, error) {
	s.mu.Lock()
	s.subCalls[topic]++
	err := s.failTopics[topic]
	if err != nil {
		s.subErrs[topic] = err
	}
	s.mu.Unlock()
	if err != nil {
		return nil, err
	}
	return s.Sub.Subscribe(ctx, topic)
}

func (s *flakySub) Close() error {
	s.mu.Lock()
	n := len(s.closeRets)
	var err error
	if s.policy == "every" || (s.policy == "first" && n == 0) {
		err = s.closeErr
	}
	s.closeRets = append(s.closeRets, err)
	s.mu.Unlock()
	s.Sub.Close() // ends every subscription (and waits until their channels are closed), whatever is reported
	return err
}

func (s *flakySub) seen(topic string) (calls int, err error) {
	s.mu.Lock()
	defer s.mu.Unlock()
	return s.subCalls[topic], s.subErrs[topic]
}

func (s *flakySub) closes() []error {
	s.mu.Lock()
	defer s.mu.Unlock()
	return append([]error(nil), s.closeRets...)
}

type scMsg struct {
	UUID   string `json:"uuid"`
	Action string `json:"action"` // what the consumer does with it if it receives it: ack | nack
	Fate   string `json:"fate,omitempty"`

	sent      *message.Message
	handed    bool   // the inner subscription's Send returned true: somebody took the message from the inner channel
	delivered bool   // it came out of the outermost channel
	recvStamp uint64 // logical stamp taken before the receive operation that produced it was started
}

type scSub struct {
	Topic        string   `json:"topic"`
	FailErr      bool     `json:"subscribe_fails,omitempty"`
	Msgs         []*scMsg `json:"msgs,omitempty"`
	ReadBefore   int      `json:"read_before_close"`
	CancelBefore bool     `json:"ctx_cancelled_before_close,omitempty"`
	Phase        string   `json:"phase"` // before | during | after (the Close calls)

	ctx    context.Context
	cancel context.CancelFunc
	out    <-chan *message.Message
	err    error
	sp     *vlib.Subscription
	next   int // index of the next message the consumer expects
}

type scClose struct {
	No    int    `json:"no"`
	Start uint64 `json:"start"`
	End   uint64 `json:"end"` // 0: did not return
	Err   string `json:"err,omitempty"`
	err   error
}

func runSubClose(e *vlib.Env) vlib.Result {
	res := vlib.Result{Class: "subclose"}
	r := e.R

	// ---- the stack, outermost first (as in the substack class)
	depth := r.Intn(4)
	kinds := make([]string, depth)
	tags := make([]string, depth)
	nM := 0
	for i := range kinds {
		if r.Chance(0.5) {
			kinds[i] = "M"
		} else {
			kinds[i], tags[i] = "T", fmt.Sprintf("t%d", i)
		}
	}
	if e.Idx%12 == 9 && depth >= 2 && r.Bool() {
		p := r.Perm(depth)
		kinds[p[0]], kinds[p[1]] = "M", "M"
		tags[p[0]], tags[p[1]] = "", ""
	}
	var stackNames []string
	for i, k := range kinds {
		if k == "M" {
			nM++
			stackNames = append(stackNames, "M")
		} else {
			stackNames = append(stackNames, "T("+tags[i]+")")
		}
	}
	stack := strings.Join(stackNames, ">")
	if stack == "" {
		stack = "(bare)"
	}
	res.Class = fmt.Sprintf("subclose/d%d", depth)
	wantTrail := ""
	for i := depth - 1; i >= 0; i-- {
		if kinds[i] == "T" {
			wantTrail += tags[i] + ";"
		}
	}

	// ---- the script
	errSubscribe := errors.New("c20: scripted subscribe error")
	errClose := errors.New("c20: scripted subscriber close error")
	policy := []string{"none", "first", "first", "every", "every"}[r.Intn(5)]
	nClose := r.Range(1, 3)
	concurrentClose := nClose > 1 && r.Bool()
	holdSettled := r.Chance(0.7) // wait until the unread messages sit in the decorators before Close is called
	lateReader := r.Chance(0.3)  // the consumer resumes reading while Close is running
	ignoreCtx := r.Chance(0.3)

	var subs []*scSub
	newSub := func(name, phase string, pFail float64) *scSub {
		p := &scSub{Topic: fmt.Sprintf("%s-%s", e.ID(), name), Phase: phase, FailErr: r.Chance(pFail)}
		p.ctx, p.cancel = context.WithCancel(context.Background())
		subs = append(subs, p)
		return p
	}
	nBefore := r.Range(1, 3)
	for s := 0; s < nBefore; s++ {
		newSub(fmt.Sprintf("topic%d", s), "before", 0.25)
	}
	subs[r.Intn(nBefore)].FailErr = false // at least one subscription works
	for s, p := range subs {
		if p.FailErr {
			continue
		}
		n := r.Intn(5)
		for i := 0; i < n; i++ {
			mp := &scMsg{UUID: fmt.Sprintf("%s-s%d-m%d", e.ID(), s, i), Action: []string{"ack", "nack"}[r.Intn(2)]}
			mp.sent = message.NewMessage(mp.UUID, r.Payload(10))
			p.Msgs = append(p.Msgs, mp)
		}
		p.ReadBefore = r.Intn(n + 1)
		if n > 0 && r.Chance(0.7) {
			p.ReadBefore = r.Intn(n) // leave something unread
		}
		p.CancelBefore = r.Chance(0.15)
	}
	var during, after *scSub
	if r.Chance(0.3) {
		during = newSub("during", "during", 0.3)
	}
	if r.Chance(0.5) {
		after = newSub("after", "after", 0.4)
	}
	defer func() {
		for _, p := range subs {
			p.cancel()
		}
	}()

	inner := &flakySub{Sub: &vlib.Sub{Name: e.ID(), IgnoreCtx: ignoreCtx}, policy: policy, closeErr: errClose,
		failTopics: map[string]error{}, subCalls: map[string]int{}, subErrs: map[string]error{}}
	for _, p := range subs {
		if p.FailErr {
			inner.failTopics[p.Topic] = errSubscribe
		}
	}
	reg := prometheus.NewRegistry()
	builder := metrics.NewPrometheusMetricsBuilder(reg, "c20", "")
	tlog := &transformLog{}
	var top message.Subscriber = inner
	for i := depth - 1; i >= 0; i-- {
		var err error
		if kinds[i] == "T" {
			top, err = message.MessageTransformSubscriberDecorator(tagTransform(tags[i], tlog))(top)
		} else {
			top, err = builder.DecorateSubscriber(top)
		}
		if err != nil {
			res.Fail("decorate", "stack %s: decorating layer %d failed: %v", stack, i, err)
			return res
		}
	}

	var mu sync.Mutex // guards res, the scMsg/scSub/scClose records and the counters below
	consumerSettled := map[string]int{}
	closeRecs := make([]*scClose, nClose)
	for i := range closeRecs {
		closeRecs[i] = &scClose{No: i + 1}
	}
	ret := func() vlib.Result {
		mu.Lock()
		defer mu.Unlock()
		return res
	}
	fail := func(clause, f string, a ...any) {
		mu.Lock()
		defer mu.Unlock()
		res.Fail(clause, f, a...)
	}
	failed := func() bool {
		mu.Lock()
		defer mu.Unlock()
		return res.Failed()
	}
	witness := func(dump string) {
		mu.Lock()
		defer mu.Unlock()
		if res.Witness == nil {
			// deep snapshot: goroutines of a violating case may still be running when the result is written out
			snap, _ := json.Marshal(map[string]any{"subscriptions": subs, "close_calls": closeRecs, "inner_close_policy": policy})
			res.Witness = map[string]any{"script": json.RawMessage(snap), "goroutines": vlib.Trunc(dump, 6000)}
		}
	}
	// await waits for done; a quiescent process before that is the given violation.
	await := func(done <-chan struct{}, clause, f string, a ...any) bool {
		switch oc, dump := vlib.WaitClosed(done, vlib.WD); oc {
		case vlib.Stuck:
			fail(clause, f, a...)
			witness(dump)
			return false
		case vlib.Inconclusive:
			mu.Lock()
			res.Inconclusive("subclose case did not finish (%s)", clause)
			mu.Unlock()
			return false
		}
		return true
	}
	goAll := func(fs ...func()) <-chan struct{} {
		var wg sync.WaitGroup
		for _, f := range fs {
			f := f
			wg.Add(1)
			go func() { defer wg.Done(); f() }()
		}
		done := make(chan struct{})
		go func() { wg.Wait(); close(done) }()
		return done
	}

	// callSubscribe runs one Subscribe call on the stack; judgeSubscribe judges it against what the inner subscriber saw.
	// strict: no Close has been called yet - the call reaches the inner subscriber exactly once and its outcome is the inner one.
	callSubscribe := func(p *scSub) {
		out, err := top.Subscribe(p.ctx, p.Topic)
		mu.Lock()
		p.out, p.err = out, err
		res.Events++
		mu.Unlock()
	}
	judgeSubscribe := func(p *scSub, strict bool) {
		mu.Lock()
		out, err := p.out, p.err
		mu.Unlock()
		calls, innerErr := inner.seen(p.Topic)
		if calls > 1 || (strict && calls != 1) {
			fail("subscribe-once", "stack %s: one Subscribe(%s) (%s Close) reached the inner subscriber %d times", stack, p.Topic, p.Phase, calls)
			return
		}
		if innerErr != nil && (!errors.Is(err, innerErr) || out != nil) {
			fail("subscribe-error-passthrough", "stack %s: the inner Subscribe(%s) (%s Close) failed with %q, the stack returned (channel nil=%v, err=%v)",
				stack, p.Topic, p.Phase, innerErr, out == nil, err)
			return
		}
		if strict && innerErr == nil && (err != nil || out == nil) {
			fail("subscribe-error-passthrough", "stack %s: the inner Subscribe(%s) succeeded before any Close, the stack returned (channel nil=%v, err=%v)",
				stack, p.Topic, out == nil, err)
			return
		}
		if innerErr != nil {
			mu.Lock()
			res.Count("subscribe_errors_passed_through", 1)
			mu.Unlock()
		}
	}
	subscribe := func(p *scSub, strict bool) {
		if await(goAll(func() { callSubscribe(p) }), "blocks", "stack %s: Subscribe(%s) (%s Close) never returned (process quiescent)", stack, p.Topic, p.Phase) {
			judgeSubscribe(p, strict)
		}
	}

	// consume reads p's outermost channel: n messages (n >= 0) or, with n < 0, until the channel is closed.
	consume := func(p *scSub, n int) {
		for got := 0; n < 0 || got < n; got++ {
			stamp := vlib.Now()
			m, ok := <-p.out
			if !ok {
				if n >= 0 {
					fail("message-lost", "stack %s: outer channel of %s closed before message %d of the %d the consumer reads before Close", stack, p.Topic, got, n)
				}
				return
			}
			mu.Lock()
			res.Events++
			idx := -1
			for i, mp := range p.Msgs {
				if mp.UUID == m.UUID {
					idx = i
				}
			}
			var mp *scMsg
			dup := false
			if idx >= 0 {
				mp = p.Msgs[idx]
				dup = mp.delivered
			}
			inOrder := idx >= p.next
			if idx >= 0 && !dup {
				mp.delivered, mp.recvStamp = true, stamp
				if inOrder {
					p.next = idx + 1
				}
			}
			mu.Unlock()
			switch {
			case idx < 0:
				fail("receive-transparent", "stack %s: message %s on %s was never emitted by the inner subscriber", stack, m.UUID, p.Topic)
				return
			case dup:
				fail("receive-order", "stack %s: message %s came out of %s twice", stack, m.UUID, p.Topic)
				return
			case !inOrder:
				fail("receive-order", "stack %s: message %s (#%d) came out of %s after a later message of the inner subscriber", stack, m.UUID, idx, p.Topic)
				return
			case n >= 0 && idx != got:
				fail("receive-order", "stack %s: message %d on %s is %s, the inner subscriber emitted %s (lost, duplicated or reordered)", stack, got, p.Topic, m.UUID, p.Msgs[got].UUID)
				return
			}
			if string(m.Payload) != string(mp.sent.Payload) {
				fail("receive-transparent", "stack %s: payload of %s changed", stack, mp.UUID)
				return
			}
			if t := m.Metadata.Get(trailKey); t != wantTrail {
				fail("transform-once", "stack %s: message %s carries transform trail %q, want %q (every transform once, innermost first)", stack, mp.UUID, t, wantTrail)
				return
			}
			// settling the received message settles the inner subscriber's message
			var ok2 bool
			if mp.Action == "ack" {
				ok2 = m.Ack()
			} else {
				ok2 = m.Nack()
			}
			if s := vlib.Settled(mp.sent); s != mp.Action || !ok2 {
				fail("settle-reaches-inner", "stack %s: %s on the message received from the stack (returned %v) left the inner subscriber's message %s in state %q",
					stack, mp.Action, ok2, mp.UUID, s)
				return
			}
			mu.Lock()
			consumerSettled[mp.Action+"ed"]++
			mu.Unlock()
		}
	}

	// ---- 1. Subscribe calls before any Close: outcome of the inner call, once
	var live []*scSub
	for _, p := range subs {
		if p.Phase != "before" {
			continue
		}
		subscribe(p, true)
		if failed() || res.Verdict != "" {
			return ret()
		}
		if p.FailErr {
			continue
		}
		all := inner.Subs()
		if len(all) != len(live)+1 || all[len(all)-1].Topic != p.Topic {
			res.Fail("subscribe-transparent", "stack %s: after Subscribe(%s) the inner subscriber has %d subscriptions, want %d with that topic last", stack, p.Topic, len(all), len(live)+1)
			return ret()
		}
		p.sp = all[len(all)-1]
		live = append(live, p)
	}

	// ---- 2. the broker side emits everything it has (a Send ends when somebody took the message or the subscription ended);
	//         the consumer reads only the first ReadBefore messages of each subscription
	var brokers, readers []func()
	for _, p := range live {
		p := p
		brokers = append(brokers, func() {
			for _, mp := range p.Msgs {
				mp.sent.SetContext(p.sp.Ctx) // like a broker client: the message context derives from the subscription context
				ok := p.sp.Send(mp.sent)
				mu.Lock()
				mp.handed = ok
				mu.Unlock()
				if !ok {
					return
				}
			}
		})
		readers = append(readers, func() { consume(p, p.ReadBefore) })
	}
	brokersDone := goAll(brokers...)
	if !await(goAll(readers...), "message-lost", "stack %s: emitted messages never arrived at the outermost channel although it was being read (process quiescent)", stack) || failed() {
		return ret()
	}
	if holdSettled {
		if oc, _ := vlib.Settle(vlib.WD); oc == vlib.Inconclusive {
			res.Inconclusive("process did not become quiescent before Close")
			return ret()
		}
	}
	cancelled := 0
	for _, p := range live {
		if p.CancelBefore {
			p.cancel()
			cancelled++
		}
	}
	if cancelled > 0 && holdSettled {
		vlib.Settle(vlib.WD)
	}
	heldAtClose := 0
	mu.Lock()
	for _, p := range live {
		for _, mp := range p.Msgs {
			if mp.handed && !mp.delivered && vlib.Settled(mp.sent) == "" {
				heldAtClose++
			}
		}
	}
	mu.Unlock()

	// ---- 3. the Close calls (+ a racing Subscribe, + the consumer coming back)
	closeOne := func(i int) {
		c := closeRecs[i]
		start := vlib.Now()
		mu.Lock()
		c.Start = start
		mu.Unlock()
		err := top.Close()
		end := vlib.Now()
		mu.Lock()
		c.End, c.err = end, err
		if err != nil {
			c.Err = err.Error()
		}
		res.Events++
		mu.Unlock()
	}
	var closers []func()
	if concurrentClose {
		for i := 0; i < nClose; i++ {
			i := i
			closers = append(closers, func() { closeOne(i) })
		}
	} else {
		closers = append(closers, func() {
			for i := 0; i < nClose; i++ {
				closeOne(i)
			}
		})
	}
	var drains []func()
	for _, p := range live {
		p := p
		drains = append(drains, func() { consume(p, -1) })
	}
	var drainsDone <-chan struct{}
	if lateReader {
		drainsDone = goAll(drains...)
	}
	var duringDone <-chan struct{}
	if during != nil {
		duringDone = goAll(func() { callSubscribe(during) })
	}
	if !await(goAll(closers...), "blocks", "stack %s, inner Close reports an error: %s: a Close call never returned (process quiescent); the bare subscriber's Close returns in the same script", stack, policy) {
		mu.Lock()
		var st []string
		for _, c := range closeRecs {
			switch {
			case c.End != 0:
				st = append(st, fmt.Sprintf("#%d returned %v", c.No, c.err))
			case c.Start != 0:
				st = append(st, fmt.Sprintf("#%d never returned", c.No))
			default:
				st = append(st, fmt.Sprintf("#%d not started", c.No))
			}
		}
		if res.Failed() && res.Clause == "blocks" {
			res.Reason += " [" + strings.Join(st, ", ") + fmt.Sprintf("; %d message(s) held in the decorators when Close was called]", heldAtClose)
		}
		mu.Unlock()
		return ret()
	}
	if duringDone != nil {
		if !await(duringDone, "blocks", "stack %s: Subscribe racing Close never returned (process quiescent)", stack) {
			return ret()
		}
		judgeSubscribe(during, false)
	}
	if failed() {
		return ret()
	}

	// every Close passed through once, with its result, in order
	rets := inner.closes()
	if len(rets) != nClose {
		res.Fail("close-once", "stack %s: %d Close calls on the stack closed the inner subscriber %d times", stack, nClose, len(rets))
		return ret()
	}
	firstEnd := uint64(0)
	gotErrs, wantErrs := 0, 0
	for i, c := range closeRecs {
		if firstEnd == 0 || c.End < firstEnd {
			firstEnd = c.End
		}
		if c.err != nil {
			gotErrs++
			if !errors.Is(c.err, errClose) {
				res.Fail("close-error-passthrough", "stack %s: Close #%d returned %v, the inner subscriber's Close only ever returned nil or %q", stack, c.No, c.err, errClose)
				return ret()
			}
		}
		if rets[i] != nil {
			wantErrs++
		}
		if !concurrentClose && (rets[i] == nil) != (c.err == nil) {
			res.Fail("close-error-passthrough", "stack %s: Close #%d of %d sequential calls returned %v, the inner subscriber's Close #%d returned %v (policy: error on %s call)",
				stack, c.No, nClose, c.err, i+1, rets[i], policy)
			return ret()
		}
	}
	if gotErrs != wantErrs {
		res.Fail("close-error-passthrough", "stack %s: %d concurrent Close calls returned %d errors, the inner subscriber's Close calls returned %d", stack, nClose, gotErrs, wantErrs)
		return ret()
	}
	res.Count("close_errors_passed_through", gotErrs)

	// ---- 4. Subscribe after Close
	if after != nil {
		subscribe(after, false)
		if failed() || res.Verdict != "" {
			return ret()
		}
	}

	// ---- 5. every inner subscription has ended (the inner Close returned): every channel the stack handed out ends
	if !lateReader {
		drainsDone = goAll(drains...)
	}
	var lateChans []func()
	for _, p := range []*scSub{during, after} {
		p := p
		if p != nil && p.out != nil {
			lateChans = append(lateChans, func() {
				for m := range p.out {
					fail("receive-transparent", "stack %s: message %s on %s was never emitted by the inner subscriber", stack, m.UUID, p.Topic)
				}
			})
		}
	}
	if !await(drainsDone, "close-ends-subscriptions", "stack %s: Close returned (inner subscriber closed, its channels ended) but an outer channel stays open (process quiescent)", stack) {
		return ret()
	}
	if !await(goAll(lateChans...), "close-ends-subscriptions", "stack %s: the channel returned by a Subscribe during/after Close stays open although the inner subscription has ended (process quiescent)", stack) {
		return ret()
	}
	if oc, _ := vlib.WaitClosed(brokersDone, vlib.WD); oc != vlib.Done {
		mu.Lock()
		res.Inconclusive("the scripted inner subscriber did not end its subscriptions (%v)", oc)
		mu.Unlock()
		return ret()
	}
	if failed() {
		return ret()
	}
	if oc, _ := vlib.Settle(vlib.WD); oc == vlib.Inconclusive {
		res.Inconclusive("process did not become quiescent after Close")
		return ret()
	}

	// ---- 6. every message the inner subscriber handed over was delivered or given back; nothing came out after Close had returned
	nHanded, nDelivered, nGivenBack, nLate := 0, 0, 0, 0
	for _, p := range live {
		for _, mp := range p.Msgs {
			st := vlib.Settled(mp.sent)
			switch {
			case !mp.handed:
				mp.Fate = "not taken"
				continue
			case mp.delivered:
				mp.Fate = "delivered+" + st
				nDelivered++
			case st == "nack":
				mp.Fate = "nacked undelivered"
				nGivenBack++
			default:
				mp.Fate = "undelivered, state " + st
			}
			nHanded++
			res.Events++
		}
	}
	for _, p := range live {
		for i, mp := range p.Msgs {
			if !mp.handed {
				continue
			}
			if mp.delivered && mp.recvStamp > firstEnd {
				nLate++
				res.Fail("deliver-after-close", "stack %s, inner Close reports an error: %s: message %s (#%d of %s, taken from the inner subscriber before its Close) came out of the stack by a receive started at stamp %d, "+
					"after a Close call had returned at stamp %d: the bare subscriber's channel is closed by then", stack, policy, mp.UUID, i, p.Topic, mp.recvStamp, firstEnd)
			}
			if !mp.delivered && vlib.Settled(mp.sent) != "nack" {
				res.Fail("message-lost", "stack %s, inner Close reports an error: %s: message %s (#%d of %s) was taken from the inner subscriber, never came out of the stack and is in state %q after all %d Close calls "+
					"returned and the process is quiescent: neither delivered nor given back (nacked)", stack, policy, mp.UUID, i, p.Topic, vlib.Settled(mp.sent), nClose)
			}
		}
	}
	if res.Failed() {
		witness("")
		return ret()
	}
	for i, k := range kinds {
		if k != "T" {
			continue
		}
		for _, p := range live {
			for _, mp := range p.Msgs {
				n := tlog.count(tags[i], mp.UUID)
				if n > 1 || (mp.delivered && n != 1) {
					res.Fail("transform-once", "stack %s: transform %s ran %d times on %s (delivered=%v)", stack, tags[i], n, mp.UUID, mp.delivered)
					return ret()
				}
			}
		}
	}

	// ---- 7. metrics: every message the consumer received and settled is counted once; a message the decorators gave back
	//         themselves may or may not have reached the metrics layer (the statement speaks of received messages)
	got, err := gatherBy(reg, famSubscriber, "acked")
	if err != nil {
		res.Fail("metrics-gather", "Gather failed: %v", err)
		return ret()
	}
	if nM == 0 {
		if len(got) != 0 {
			res.Fail("metrics-subscriber-count", "stack %s without metrics decorator: subscriber_messages_received_total %s", stack, fmtCounts(got))
			return ret()
		}
	} else {
		res.Events += consumerSettled["acked"] + consumerSettled["nacked"]
		if got["acked"] != consumerSettled["acked"] || got["nacked"] < consumerSettled["nacked"] || got["nacked"] > consumerSettled["nacked"]+nGivenBack {
			res.Fail("metrics-subscriber-count", "stack %s (%d metrics decorators of one builder): subscriber_messages_received_total by acked label %s; the consumer acked %d and nacked %d received messages, the decorators gave back %d undelivered ones",
				stack, nM, fmtCounts(got), consumerSettled["acked"], consumerSettled["nacked"], nGivenBack)
			witness("")
			return ret()
		}
	}

	res.Count("subclose_cases", 1)
	res.Count("close_calls", nClose)
	if concurrentClose {
		res.Count("cases_with_concurrent_close", 1)
	}
	res.Count("messages_held_in_decorators_at_close", heldAtClose)
	res.Count("messages_taken_from_inner", nHanded)
	res.Count("messages_received", nDelivered)
	res.Count("messages_given_back_undelivered", nGivenBack)
	res.Count("messages_acked", consumerSettled["acked"])
	res.Count("messages_nacked", consumerSettled["nacked"])
	res.Count("transform_invocations", tlog.total())
	if lateReader {
		res.Count("cases_consumer_reads_during_close", 1)
	}
	if during != nil {
		res.Count("subscribe_racing_close", 1)
	}
	if after != nil {
		res.Count("subscribe_after_close", 1)
	}
	if cancelled > 0 {
		res.Count("subscriptions_cancelled_before_close", cancelled)
	}
	if nM >= 2 {
		res.Count("stacks_with_metrics_twice", 1)
	}
	nFailSub := 0
	var shape []string
	for _, p := range subs {
		s := p.Phase[:1]
		if p.FailErr {
			nFailSub++
			s += "!"
		}
		for i, mp := range p.Msgs {
			if i == p.ReadBefore {
				s += "|"
			}
			s += mp.Action[:1]
		}
		if p.CancelBefore {
			s += "x"
		}
		shape = append(shape, s)
	}
	res.NonTrivial = depth > 0 && (wantErrs > 0 || heldAtClose > 0 || nGivenBack > 0 || nFailSub > 0)
	res.Sig = vlib.Sig("subclose", stack, policy, nClose, concurrentClose, holdSettled, lateReader, ignoreCtx, strings.Join(shape, ","))
	res.Sample = map[string]any{"stack_outermost_first": stackNames, "inner_close_error_policy": policy, "close_calls": closeRecs, "concurrent_close": concurrentClose,
		"hold_settled_before_close": holdSettled, "consumer_reads_during_close": lateReader, "inner_ignores_ctx": ignoreCtx, "subscriptions": subs,
		"metric_final": got}
	return ret()
}
