// Package c20 checks property C20 of ThreeDotsLabs/watermill:
//
//	Pub/Sub decorators are transparent; delay stamps and metrics count exactly.
//
// Five workload classes run the real decorators (message transform, delay.Publisher, Prometheus
// metrics decorators and middleware) around scripted ends and judge every execution against a
// reference model:
//
//	pubstack  publisher decorator stacks of depth 0..3 over {transform, delay, metrics (same builder, also twice)}
//	substack  subscriber decorator stacks of depth 0..3 over {transform, metrics (same builder, also twice)}
//	router    a Router with the metrics decorators/middleware and scripted handler outcomes
//	subclose  subscriber stacks on the error paths: failing inner Close / Subscribe, messages held in the decorators,
//	          repeated and concurrent Close, Subscribe during/after Close, compared with the bare subscriber (subclose.go)
//	pubretry  publisher stacks with a delay.Publisher whose Publish fails (transiently failing default generator, no delay
//	          available, failing inner publisher) and is retried by the caller with the SAME message objects (pubretry.go)
package c20

import (
	"fmt"
	"sort"
	"strings"
	"sync"

	"github.com/prometheus/client_golang/prometheus"
	dto "github.com/prometheus/client_model/go"

	"github.com/ThreeDotsLabs/watermill/message"

	"verifharness/vlib"
)

func init() {
	vlib.Register(&vlib.Prop{
		ID:    "C20",
		Level: "exploration",
		Cases: func(tier string) int { return vlib.TierN(tier, 750, 150000) },
		Rule: "case idx%12 in 0..3: publisher stack (depth 0..3 drawn from transform / delay.Publisher / metrics decorator of one builder, the metrics decorator " +
			"possibly twice) around a scripted publisher; 3..8 Publish calls with fresh batches of 0..4 messages mixing pre-set delay metadata (delay.Message), " +
			"context delays (For/Until: -1h, 0, +10y, small) and none, PublisherConfig {generator absent/present/failing} x AllowNoDelay (a generator failure refuses the batch with an error in both AllowNoDelay settings: clause generator-error-swallowed), scripted inner errors; " +
			"idx%12 in 4..5: subscriber stack (depth 0..3 of transform / metrics, also twice) around a scripted subscriber, 1..2 subscriptions, messages acked, nacked or " +
			"held back (two-phase metric comparison), Subscribe/Close errors; idx%12 in 6..7: Router with metrics decorators (once / twice) and middleware, Recoverer absent / outside / inside, " +
			"handler outcome sequences over {success, error, panic, publish failure} with broker-like redelivery; " +
			"idx%12 in 8..9 (subclose, error paths of the subscriber decorators): the same kind of stack (depth 0 = the bare subscriber, the reference) around a scripted subscriber whose Close reports an error " +
			"never / on the first call only / on every call (its subscriptions end in every Close call) and whose Subscribe fails for chosen topics; script: 1..3 Subscribe calls, 0..4 emissions per subscription of which the consumer " +
			"reads a prefix (the rest is held inside the decorators, nobody reading; 70%: Close is called only once the process is quiescent, else while messages are in flight), optional ctx cancel of a subscription, 1..3 Close calls " +
			"sequential or concurrent, optionally a Subscribe racing them and the consumer resuming to read during Close, optional Subscribe after Close, then the consumer drains every channel. Judged on what the inner subscriber " +
			"did (holds trivially at depth 0): every Subscribe/Close reaches it once and returns its error (sequence for sequential, multiset for concurrent Close calls), every Close and Subscribe call returns (quiescence), " +
			"every channel handed out ends once the inner subscriptions ended, every message taken from the inner subscriber is either received (once, in order, transformed once, settling reaches the inner message) or nacked, " +
			"no message comes out by a receive started after a Close call had returned (logical stamps), subscriber metric = consumer's settlements (+ at most the messages the decorators gave back); " +
			"idx%12 in 10..11 (pubretry, failed Publish + retry with the same message objects): publisher stack of depth 1..3 over transform / delay.Publisher / metrics with at least one delay.Publisher " +
			"(generator absent / never failing / transiently failing: per message it fails on its first 0..3 consultations and then succeeds, returning a different delay on every consultation and, on failure, " +
			"either Delay{} or a non-zero decoy Delay together with the error; AllowNoDelay on/off) around a scripted publisher that fails on the first 0..3 calls per topic; 1..3 batches of 1..4 messages " +
			"(40% single) mixing pre-set delay metadata / context delay / none; every batch is published up to 4 times with the SAME message objects until a Publish returns nil, optionally the caller puts a context delay on a still " +
			"unstamped message before a retry. Judged per attempt from the messages' metadata before the call, the generators' own consultation log of that attempt, the forwarded snapshots and the metadata after the call: " +
			"a forwarded attempt carries for every message exactly the delay chosen by precedence on the state the caller handed in (stamp already present: unchanged; else context; else the outermost generator's result of THIS attempt, " +
			"which therefore has to be consulted again on a retry), whole batch in one call, inner error passed through; an attempt that does not reach the inner publisher needs a reason (a generator failure or no delay available) and an error; " +
			"after ANY failed attempt every message's delay keys are either what they were before the call or a delay that a source chose in that attempt (context delay or a generator result returned without error) - never a stamp nobody chose " +
			"(clause failed-publish-stamp) - and its other metadata is what it was plus the trail of the transforms that ran (failed-publish-metadata). Every case compares the scripted ends' records and a private " +
			"prometheus.Registry's Gather() with the reference model. Non-trivial = at least one decorator in the stack and at least one message passed or was refused " +
			"(subclose: at least one decorator and an inner Close/Subscribe error, or a message held in / given back by the decorators; pubretry: at least one failed Publish was retried with the same messages); " +
			"distinct = distinct (class, stack, per-call shape and outcome) signatures.",
		Assumptions: []string{
			"a message is published once (fresh messages per Publish call, per the Message godoc); pubretry class: a message whose Publish returned an error is published again (same object) until a Publish returns nil, never after that",
			"pubretry class: which messages of a failed batch keep a legitimately resolved stamp is not decided by the statement (delay.Publisher keeps the stamps of the messages it had resolved before the failure, and all of them when the inner publisher fails): unchanged and stamped-by-the-chosen-source are both accepted, a retry then falls under 'metadata already present'",
			"pubretry class: the metrics publisher decorator leaves its 'observed' mark in the message context, so a re-published message object is not observed again; the publish metric of retry attempts is therefore judged as 0 or 1 observation with the right label (C20_METRICS_RETRY=1 demands exactly one: clause metrics-publish-count-retry)",
			"substack class: received messages are consumed from the outermost channel before Close; the subclose class drops this (messages stay unread in the decorators when Close is called)",
			"subclose class: the inner subscriber honours the Subscriber godoc ('Close closes all subscriptions with their output channels') in every Close call, also in those that report an error; a Subscribe on a closed stack may be refused by the decorator itself ('subscriber closed') - only an error of the inner Subscribe has to come through",
			"subclose class: a message that the decorators give back themselves (nack, never delivered) may or may not be counted by the subscriber metric (the statement counts received messages)",
			"delay bracket checks compare wall-clock readings taken around the construction of the Delay (no wall-clock step inside that window)",
			"a failing DefaultDelayGenerator is an error of Publish also when AllowNoDelay is set (clause generator-error-swallowed; pubstack and pubretry classes): the statement's precedence chain ends in 'else the default generator' whenever one is configured and lists 'generator failing' as a setting of its own, and PublisherConfig's godoc ties AllowNoDelay to the absence of a generator ('By default, the publisher returns an error when a message is published without a delay and no default delay generator is provided'); only the presence of an error is demanded, not its identity (counter generator_errors_returned_as_is)",
			"metrics middleware is applied once per router (the statement's 'applied twice' is exercised for the publisher/subscriber decorators, which carry the idempotency mark; C20_MIDDLEWARE_TWICE=1 adds a router variant with the middleware doubled, clause metrics-handler-middleware-twice)",
		},
		Run: run,
	})
}

func run(e *vlib.Env) vlib.Result {
	switch e.Idx % 12 {
	case 0, 1, 2, 3:
		return runPubStack(e)
	case 4, 5:
		return runSubStack(e)
	case 6, 7:
		return runRouter(e)
	case 8, 9:
		return runSubClose(e)
	default:
		return runPubRetry(e)
	}
}

// ---------------------------------------------------------------------------------------------
// shared helpers

const (
	famPublish    = "publish_time_seconds"
	famSubscriber = "subscriber_messages_received_total"
	famHandler    = "handler_execution_time_seconds"
)

// gatherBy sums, for the metric family whose name ends in suffix, the histogram sample counts /
// counter values per value of label (over all other labels). A missing family yields an empty map.
func gatherBy(reg *prometheus.Registry, suffix, label string) (map[string]int, error) {
	fams, err := reg.Gather()
	if err != nil {
		return nil, err
	}
	out := map[string]int{}
	for _, f := range fams {
		if !strings.HasSuffix(f.GetName(), suffix) {
			continue
		}
		for _, m := range f.GetMetric() {
			v := ""
			for _, lp := range m.GetLabel() {
				if lp.GetName() == label {
					v = lp.GetValue()
				}
			}
			switch f.GetType() {
			case dto.MetricType_HISTOGRAM:
				out[v] += int(m.GetHistogram().GetSampleCount())
			case dto.MetricType_COUNTER:
				out[v] += int(m.GetCounter().GetValue())
			}
		}
	}
	return out, nil
}

func fmtCounts(m map[string]int) string {
	keys := make([]string, 0, len(m))
	for k := range m {
		keys = append(keys, k)
	}
	sort.Strings(keys)
	var b strings.Builder
	b.WriteString("{")
	for i, k := range keys {
		if i > 0 {
			b.WriteString(" ")
		}
		fmt.Fprintf(&b, "%s:%d", k, m[k])
	}
	b.WriteString("}")
	return b.String()
}

// sameCounts compares two label->count maps treating absent as zero.
func sameCounts(a, b map[string]int) bool {
	for k, v := range a {
		if b[k] != v {
			return false
		}
	}
	for k, v := range b {
		if a[k] != v {
			return false
		}
	}
	return true
}

// transformLog records every transform invocation (layer tag, message uuid) in order.
type transformLog struct {
	mu  sync.Mutex
	ev  []string
	cnt map[string]int
}

func (l *transformLog) add(tag, uuid string) {
	l.mu.Lock()
	defer l.mu.Unlock()
	if l.cnt == nil {
		l.cnt = map[string]int{}
	}
	l.ev = append(l.ev, tag+"/"+uuid)
	l.cnt[tag+"/"+uuid]++
}

func (l *transformLog) count(tag, uuid string) int {
	l.mu.Lock()
	defer l.mu.Unlock()
	return l.cnt[tag+"/"+uuid]
}

// since returns the invocations recorded after the first n ("tag/uuid", in order).
func (l *transformLog) since(n int) []string {
	l.mu.Lock()
	defer l.mu.Unlock()
	return append([]string(nil), l.ev[n:]...)
}

func (l *transformLog) total() int {
	l.mu.Lock()
	defer l.mu.Unlock()
	return len(l.ev)
}

// trailKey is the metadata key transforms append their tag to: the value read at the far end
// is the ordered list of transforms the message went through.
const trailKey = "x-c20-trail"

func tagTransform(tag string, log *transformLog) func(*message.Message) {
	return func(m *message.Message) {
		log.add(tag, m.UUID)
		m.Metadata.Set(trailKey, m.Metadata.Get(trailKey)+tag+";")
	}
}

// closeErrPub / closeErrSub give the scripted ends a scripted Close result (vlib's return nil).
type closeErrPub struct {
	*vlib.Pub
	closeErr error
}

func (p *closeErrPub) Close() error { p.Pub.Close(); return p.closeErr }

type closeErrSub struct {
	*vlib.Sub
	closeErr error
}

func (s *closeErrSub) Close() error { s.Sub.Close(); return s.closeErr }

func copyMeta(m map[string]string) map[string]string {
	o := make(map[string]string, len(m))
	for k, v := range m {
		o[k] = v
	}
	return o
}

func metaDiff(want, got map[string]string) string {
	var d []string
	for k, v := range want {
		if g, ok := got[k]; !ok {
			d = append(d, fmt.Sprintf("missing %q (want %q)", k, v))
		} else if g != v {
			d = append(d, fmt.Sprintf("%q=%q (want %q)", k, g, v))
		}
	}
	for k, g := range got {
		if _, ok := want[k]; !ok {
			d = append(d, fmt.Sprintf("unexpected %q=%q", k, g))
		}
	}
	sort.Strings(d)
	return strings.Join(d, ", ")
}
