package c20

import (
	"context"
	"errors"
	"fmt"
	"os"
	"strings"
	"sync"
	"time"

	"github.com/prometheus/client_golang/prometheus"

	"github.com/ThreeDotsLabs/watermill"
	"github.com/ThreeDotsLabs/watermill/components/metrics"
	"github.com/ThreeDotsLabs/watermill/message"
	"github.com/ThreeDotsLabs/watermill/message/router/middleware"

	"verifharness/vlib"
)

// handler outcomes
const (
	outOK0     = "ok0" // success, nothing produced
	outOK1     = "ok1" // success, 1 produced message
	outOK2     = "ok2" // success, 2 produced messages (one Publish call)
	outErr     = "err"
	outPanic   = "panic"
	outPubFail = "pubfail" // handler succeeds, publishing its output fails
	outPass    = "pass"    // success, the consumed message itself is returned (message.PassthroughHandler style): its context
	// already went through the subscriber-side decorators when it reaches the publisher-side ones
)

type routerMsgPlan struct {
	UUID   string   `json:"uuid"`
	Script []string `json:"script"` // outcome of the 1st, 2nd ... invocation for this message (redelivered after each nack)
	// observed
	Copies []string `json:"copies_settled,omitempty"` // "ack"/"nack" per delivered copy
}

type routerHandlerPlan struct {
	Name  string           `json:"name"`
	Topic string           `json:"topic"`
	NoPub bool             `json:"no_publisher,omitempty"`
	Msgs  []*routerMsgPlan `json:"msgs"`
}

var errHandler = errors.New("c20: scripted handler error")

func runRouter(e *vlib.Env) vlib.Result {
	res := vlib.Result{Class: "router"}
	r := e.R

	variants := []string{"router-metrics-once", "decorators-twice", "once+transform+again"}
	if os.Getenv("C20_MIDDLEWARE_TWICE") == "1" {
		// Off by default: the statement's quantifier names decorator stacks ("incl. the same metrics decorator twice"),
		// not a doubled handler middleware. With the toggle, a fourth variant calls AddPrometheusRouterMetrics twice
		// (decorators AND middleware doubled) and still demands exactly-once handler counts.
		variants = append(variants, "router-metrics-twice")
	}
	variant := variants[r.Intn(len(variants))]
	recoverer := []string{"none", "outside-metrics", "inside-metrics"}[r.Intn(3)]
	res.Class = "router/" + variant

	nH := r.Range(1, 2)
	plans := make([]*routerHandlerPlan, nH)
	byUUID := map[string]*routerMsgPlan{}
	for h := range plans {
		hp := &routerHandlerPlan{Name: fmt.Sprintf("%s-h%d", e.ID(), h), Topic: fmt.Sprintf("%s-in%d", e.ID(), h), NoPub: h == 1 && r.Bool()}
		outs := []string{outOK0, outOK1, outOK2, outErr, outPanic, outPubFail, outPass}
		if hp.NoPub {
			outs = []string{outOK0, outErr, outPanic}
		}
		for i, n := 0, r.Range(1, 4); i < n; i++ {
			mp := &routerMsgPlan{UUID: fmt.Sprintf("%s-h%d-m%d", e.ID(), h, i)}
			for k, l := 0, r.Range(1, 4); k < l; k++ {
				mp.Script = append(mp.Script, outs[r.Intn(len(outs))])
			}
			if r.Chance(0.6) {
				mp.Script[len(mp.Script)-1] = outs[r.Intn(3)%len(outs)]
				if hp.NoPub {
					mp.Script[len(mp.Script)-1] = outOK0
				}
			}
			// a success ends the redeliveries
			for k, o := range mp.Script {
				if strings.HasPrefix(o, "ok") {
					mp.Script = mp.Script[:k+1]
					break
				}
			}
			hp.Msgs = append(hp.Msgs, mp)
			byUUID[mp.UUID] = mp
		}
		plans[h] = hp
	}

	// scripted ends
	sub := &vlib.Sub{Name: e.ID()}
	pub := &vlib.Pub{Name: e.ID()}
	errPublish := errors.New("c20: scripted publish failure")
	pub.Script = func(no int, topic string, msgs []*message.Message) error {
		for _, m := range msgs {
			if strings.HasSuffix(m.UUID, "-F") {
				return errPublish
			}
		}
		return nil
	}

	// handler function: outcome by (message, attempt); every invocation is recorded here, at the boundary
	var mu sync.Mutex
	attempts := map[string]int{}
	invoked := map[string]int{} // by outcome
	var trace []string
	handle := func(msg *message.Message) ([]*message.Message, error) {
		mu.Lock()
		mp := byUUID[msg.UUID]
		a := attempts[msg.UUID]
		attempts[msg.UUID]++
		out := outOK0
		if mp != nil && a < len(mp.Script) {
			out = mp.Script[a]
		}
		invoked[out]++
		if len(trace) < 64 {
			trace = append(trace, fmt.Sprintf("%s#%d:%s", msg.UUID[strings.LastIndex(msg.UUID, "-h")+1:], a, out))
		}
		mu.Unlock()
		mk := func(i int, suffix string) *message.Message {
			return message.NewMessage(fmt.Sprintf("%s-a%d-p%d%s", msg.UUID, a, i, suffix), []byte("out"))
		}
		switch out {
		case outOK1:
			return []*message.Message{mk(0, "")}, nil
		case outOK2:
			return []*message.Message{mk(0, ""), mk(1, "")}, nil
		case outErr:
			return nil, errHandler
		case outPanic:
			panic("c20: scripted handler panic")
		case outPubFail:
			return []*message.Message{mk(0, ""), mk(1, "-F")}, nil
		case outPass:
			return []*message.Message{msg}, nil
		}
		return nil, nil
	}

	// router with metrics
	reg := prometheus.NewRegistry()
	builder := metrics.NewPrometheusMetricsBuilder(reg, "c20", "")
	router, err := message.NewRouter(message.RouterConfig{CloseTimeout: 10 * time.Second}, watermill.NopLogger{})
	if err != nil {
		res.Inconclusive("NewRouter: %v", err)
		return res
	}
	tlog := &transformLog{}
	if recoverer == "outside-metrics" {
		router.AddMiddleware(middleware.Recoverer)
	}
	switch variant {
	case "router-metrics-once":
		builder.AddPrometheusRouterMetrics(router)
	case "router-metrics-twice":
		builder.AddPrometheusRouterMetrics(router)
		builder.AddPrometheusRouterMetrics(router)
	case "decorators-twice":
		router.AddPublisherDecorators(builder.DecoratePublisher, builder.DecoratePublisher)
		router.AddSubscriberDecorators(builder.DecorateSubscriber, builder.DecorateSubscriber)
		router.AddMiddleware(builder.NewRouterMiddleware().Middleware)
	default:
		builder.AddPrometheusRouterMetrics(router)
		router.AddPublisherDecorators(message.MessageTransformPublisherDecorator(tagTransform("rp", tlog)), builder.DecoratePublisher)
		router.AddSubscriberDecorators(message.MessageTransformSubscriberDecorator(tagTransform("rs", tlog)), builder.DecorateSubscriber)
	}
	if recoverer == "inside-metrics" {
		router.AddMiddleware(middleware.Recoverer)
	}
	for _, hp := range plans {
		if hp.NoPub {
			router.AddNoPublisherHandler(hp.Name, hp.Topic, sub, func(m *message.Message) error { _, err := handle(m); return err })
		} else {
			router.AddHandler(hp.Name, hp.Topic, sub, e.ID()+"-out", pub, handle)
		}
	}

	ctx, cancel := context.WithCancel(context.Background())
	defer cancel()
	runDone := make(chan struct{})
	var runErr error
	go func() { defer close(runDone); runErr = router.Run(ctx) }()
	if oc, _ := vlib.WaitClosed(router.Running(), vlib.WD); oc != vlib.Done {
		res.Inconclusive("router did not start (%v)", oc)
		return res
	}

	// broker side: deliver every message, redelivering after each nack as long as the script lasts
	settledCopies := map[string]int{}
	var wg sync.WaitGroup
	for _, hp := range plans {
		hp := hp
		sp := sub.SubFor(hp.Topic)
		if sp == nil {
			res.Inconclusive("router did not subscribe to %s", hp.Topic)
			return res
		}
		wg.Add(1)
		go func() {
			defer wg.Done()
			for _, mp := range hp.Msgs {
				orig := message.NewMessage(mp.UUID, []byte("in"))
				copies, _ := sp.Deliver(orig, len(mp.Script)-1)
				mu.Lock()
				for _, c := range copies {
					s := vlib.Settled(c)
					mp.Copies = append(mp.Copies, s)
					if s != "" {
						settledCopies[s+"ed"]++
					}
				}
				mu.Unlock()
			}
		}()
	}
	delivered := make(chan struct{})
	go func() { wg.Wait(); close(delivered) }()
	switch oc, dump := vlib.WaitClosed(delivered, vlib.WD); oc {
	case vlib.Stuck:
		// a message that is never settled is the Router's business (C06), not a decorator property
		res.Inconclusive("a delivered message was never settled by the router (process quiescent)")
		res.Witness = dump
		return res
	case vlib.Inconclusive:
		res.Inconclusive("deliveries did not finish")
		return res
	}
	closeDone := make(chan struct{})
	go func() { defer close(closeDone); router.Close() }()
	if oc, _ := vlib.WaitClosed(closeDone, vlib.WD); oc != vlib.Done {
		res.Inconclusive("router.Close did not return (%v)", oc)
		return res
	}
	if oc, _ := vlib.WaitClosed(runDone, vlib.WD); oc != vlib.Done {
		res.Inconclusive("router.Run did not return (%v)", oc)
		return res
	}
	_ = runErr
	// the subscriber metric is incremented by a goroutine woken by the ack/nack: wait until nothing can move any more
	if oc, _ := vlib.Settle(vlib.WD); oc == vlib.Inconclusive {
		res.Inconclusive("process did not become quiescent before reading the metrics")
		return res
	}

	mu.Lock()
	defer mu.Unlock()

	// the harness's own counts
	wantHandler := map[string]int{
		"true":  invoked[outOK0] + invoked[outOK1] + invoked[outOK2] + invoked[outPubFail] + invoked[outPass],
		"false": invoked[outErr] + invoked[outPanic],
	}
	wantSub := map[string]int{"acked": settledCopies["acked"], "nacked": settledCopies["nacked"]}
	wantPub := map[string]int{}
	for _, c := range pub.Calls() {
		if len(c.Msgs) == 0 {
			continue
		}
		wantPub[fmt.Sprint(c.Err == nil)]++
	}
	nInv := wantHandler["true"] + wantHandler["false"]
	res.Events = 2*nInv + wantSub["acked"] + wantSub["nacked"] + wantPub["true"] + wantPub["false"]

	sample := map[string]any{"variant": variant, "recoverer": recoverer, "handlers": plans, "invocations": trace,
		"expected": map[string]any{"handler_by_success": wantHandler, "subscriber_by_acked": wantSub, "publish_by_success": wantPub}}
	res.Sample = sample

	gotHandler, err1 := gatherBy(reg, famHandler, "success")
	gotSub, err2 := gatherBy(reg, famSubscriber, "acked")
	gotPub, err3 := gatherBy(reg, famPublish, "success")
	if err1 != nil || err2 != nil || err3 != nil {
		res.Fail("metrics-gather", "Gather failed: %v %v %v", err1, err2, err3)
		return res
	}
	cfg := fmt.Sprintf("router (%s, Recoverer %s, %d handlers)", variant, recoverer, nH)
	if !sameCounts(gotPub, wantPub) {
		res.Fail("metrics-publish-count", "%s: publish_time_seconds sample counts by success %s, want %s = Publish calls seen by the scripted publisher, by outcome", cfg, fmtCounts(gotPub), fmtCounts(wantPub))
		res.Witness = sample
		return res
	}
	if !sameCounts(gotSub, wantSub) {
		res.Fail("metrics-subscriber-count", "%s: subscriber_messages_received_total by acked label %s, want %s = delivered copies by how the router settled them", cfg, fmtCounts(gotSub), fmtCounts(wantSub))
		res.Witness = sample
		return res
	}
	if !sameCounts(gotHandler, wantHandler) {
		clause := "metrics-handler-count"
		// diagnosis: exactly the panics that crossed the metrics middleware are labelled success="true"
		crossing := 0
		if recoverer != "inside-metrics" {
			crossing = invoked[outPanic]
		}
		if crossing > 0 && gotHandler["true"] == wantHandler["true"]+crossing && gotHandler["false"] == wantHandler["false"]-crossing {
			clause = "metrics-handler-panic-label"
		}
		if variant == "router-metrics-twice" && gotHandler["true"] == 2*wantHandler["true"] && gotHandler["false"] == 2*wantHandler["false"] {
			clause = "metrics-handler-middleware-twice"
		}
		res.Fail(clause, "%s: handler_execution_time_seconds sample counts by success %s, want %s = handler invocations recorded by the handler function "+
			"(ok=%d err=%d panic=%d ok-but-publish-failed=%d)", cfg, fmtCounts(gotHandler), fmtCounts(wantHandler),
			invoked[outOK0]+invoked[outOK1]+invoked[outOK2], invoked[outErr], invoked[outPanic], invoked[outPubFail])
		res.Witness = sample
		return res
	}

	res.Count("handler_invocations", nInv)
	for k, v := range invoked {
		res.Count("invocations_"+k, v)
	}
	res.Count("copies_acked", wantSub["acked"])
	res.Count("copies_nacked", wantSub["nacked"])
	res.Count("router_publish_calls", wantPub["true"]+wantPub["false"])
	res.Count("router_publish_failures", wantPub["false"])
	res.NonTrivial = nInv > 0
	var shape []string
	for _, hp := range plans {
		for _, mp := range hp.Msgs {
			shape = append(shape, strings.Join(mp.Script, ">"))
		}
	}
	res.Sig = vlib.Sig("router", variant, recoverer, strings.Join(shape, "|"))
	return res
}
