package c15

import (
	"reflect"
	"strings"

	gogoproto "github.com/gogo/protobuf/proto"
	stdproto "google.golang.org/protobuf/proto"

	"verifharness/vlib"
)

// ---------------------------------------------------------------------------------------------
// Handlers that own the value they receive.
//
// "a processor invokes a handler, with a value equal to the one sent": the value handed to a handler is the
// handler's to keep and to change (it is a pointer to a freshly decoded struct; normalising an ID, appending to
// a slice, keeping the pointer in a cache are all ordinary handler code). Whatever one invocation does to its
// value must not show in the value of any OTHER invocation: the next handler of the group, the same handler on
// the redelivered copy, the next message. The harness therefore
//   - takes a deep snapshot (clone) of the value at handler entry - the oracle only ever judges snapshots - and
//   - lets handlers (and OnHandle hooks, after the wrapped handler returned) mutate the value they got, at once
//     and/or later through a retained pointer. "Later" is made deterministic: the retained values of a
//     subscription are mutated at the next boundary of that subscription (OnHandle entry, handler entry before
//     the snapshot is taken), i.e. strictly after the invocation that retained them returned.

// mutation modes of a handler / hook (hdef.Mut, subDef.HookMut)
var mutModes = []string{"scalar", "inplace", "grow", "replace", "zero", "all"}

// clone returns a deep copy of a decoded value (pointer to a struct of the family).
func clone(v any) any {
	if v == nil {
		return nil
	}
	if m, ok := v.(stdproto.Message); ok {
		return stdproto.Clone(m)
	}
	if m, ok := v.(gogoproto.Message); ok {
		return gogoproto.Clone(m)
	}
	return deepCopy(reflect.ValueOf(v)).Interface()
}

func deepCopy(v reflect.Value) reflect.Value {
	switch v.Kind() {
	case reflect.Ptr:
		if v.IsNil() {
			return reflect.Zero(v.Type())
		}
		n := reflect.New(v.Type().Elem())
		n.Elem().Set(deepCopy(v.Elem()))
		return n
	case reflect.Struct:
		n := reflect.New(v.Type()).Elem()
		for i := 0; i < v.NumField(); i++ {
			if v.Type().Field(i).PkgPath != "" {
				continue
			}
			n.Field(i).Set(deepCopy(v.Field(i)))
		}
		return n
	case reflect.Slice:
		if v.IsNil() {
			return reflect.Zero(v.Type())
		}
		n := reflect.MakeSlice(v.Type(), v.Len(), v.Len())
		for i := 0; i < v.Len(); i++ {
			n.Index(i).Set(deepCopy(v.Index(i)))
		}
		return n
	case reflect.Array:
		n := reflect.New(v.Type()).Elem()
		for i := 0; i < v.Len(); i++ {
			n.Index(i).Set(deepCopy(v.Index(i)))
		}
		return n
	case reflect.Map:
		if v.IsNil() {
			return reflect.Zero(v.Type())
		}
		n := reflect.MakeMapWithSize(v.Type(), v.Len())
		it := v.MapRange()
		for it.Next() {
			n.SetMapIndex(deepCopy(it.Key()), deepCopy(it.Value()))
		}
		return n
	case reflect.Interface:
		if v.IsNil() {
			return reflect.Zero(v.Type())
		}
		n := reflect.New(v.Type()).Elem()
		n.Set(deepCopy(v.Elem()))
		return n
	}
	return v
}

// mutator walks the exported state of a decoded value and changes it.
type mutator struct {
	r       *vlib.Rand
	scalar  bool // direct scalar fields (reached without passing a slice, map or pointer)
	inplace bool // elements of slices / maps and pointees of nested pointers, containers themselves untouched
	grow    bool // append to slices, insert into / delete from maps, allocate nil pointers
	n       int  // number of changes made
}

func (m *mutator) walk(v reflect.Value, indirect bool, depth int) {
	if depth > 8 {
		return
	}
	leaf := (indirect && m.inplace) || (!indirect && m.scalar)
	switch v.Kind() {
	case reflect.Struct:
		for i := 0; i < v.NumField(); i++ {
			f := v.Type().Field(i)
			if f.PkgPath != "" || strings.HasPrefix(f.Name, "XXX_") {
				continue // protobuf bookkeeping
			}
			m.walk(v.Field(i), indirect, depth+1)
		}
	case reflect.Array:
		for i := 0; i < v.Len(); i++ {
			m.walk(v.Index(i), indirect, depth+1)
		}
	case reflect.String:
		if leaf && v.CanSet() {
			v.SetString(v.String() + "~m")
			m.n++
		}
	case reflect.Bool:
		if leaf && v.CanSet() {
			v.SetBool(!v.Bool())
			m.n++
		}
	case reflect.Int, reflect.Int8, reflect.Int16, reflect.Int32, reflect.Int64:
		if leaf && v.CanSet() {
			v.SetInt(v.Int() ^ 1)
			m.n++
		}
	case reflect.Uint, reflect.Uint8, reflect.Uint16, reflect.Uint32, reflect.Uint64:
		if leaf && v.CanSet() {
			v.SetUint(v.Uint() ^ 1)
			m.n++
		}
	case reflect.Float32, reflect.Float64:
		if leaf && v.CanSet() {
			v.SetFloat(v.Float() + 1.5)
			m.n++
		}
	case reflect.Ptr:
		if v.IsNil() {
			if m.grow && v.CanSet() && v.Type().Elem().Kind() != reflect.Struct {
				v.Set(reflect.New(v.Type().Elem()))
				m.n++
			}
			return
		}
		m.walk(v.Elem(), true, depth+1)
	case reflect.Interface: // protobuf oneof wrappers
		if v.IsNil() {
			return
		}
		if e := v.Elem(); e.Kind() == reflect.Ptr && !e.IsNil() {
			m.walk(e.Elem(), true, depth+1)
		}
	case reflect.Slice:
		if m.inplace {
			for i := 0; i < v.Len(); i++ {
				m.walk(v.Index(i), true, depth+1) // writes into the backing array the value owns
			}
		}
		if m.grow && v.CanSet() {
			v.Set(reflect.Append(v, m.fresh(v.Type().Elem())))
			m.n++
		}
	case reflect.Map:
		if m.inplace && v.Len() > 0 {
			for _, k := range v.MapKeys() {
				e := v.MapIndex(k)
				switch e.Kind() {
				case reflect.Ptr:
					if !e.IsNil() {
						m.walk(e.Elem(), true, depth+1)
					}
				case reflect.Int, reflect.Int64:
					v.SetMapIndex(k, reflect.ValueOf(e.Int()^1).Convert(e.Type()))
					m.n++
				}
			}
		}
		if m.grow {
			if v.Len() > 0 && m.r.Bool() {
				v.SetMapIndex(v.MapKeys()[0], reflect.Value{}) // delete
				m.n++
				return
			}
			if v.IsNil() {
				if !v.CanSet() {
					return
				}
				v.Set(reflect.MakeMap(v.Type()))
			}
			if v.Type().Key().Kind() == reflect.String {
				v.SetMapIndex(reflect.ValueOf("~added").Convert(v.Type().Key()), m.fresh(v.Type().Elem()))
				m.n++
			}
		}
	}
}

// fresh builds a non-nil element for an appended slice slot / inserted map entry.
func (m *mutator) fresh(t reflect.Type) reflect.Value {
	switch t.Kind() {
	case reflect.Ptr:
		return reflect.New(t.Elem())
	case reflect.String:
		return reflect.ValueOf("~new").Convert(t)
	case reflect.Int, reflect.Int8, reflect.Int16, reflect.Int32, reflect.Int64:
		return reflect.ValueOf(7).Convert(t)
	case reflect.Uint, reflect.Uint8, reflect.Uint16, reflect.Uint32, reflect.Uint64:
		return reflect.ValueOf(uint(7)).Convert(t)
	}
	return reflect.Zero(t)
}

// mutate changes the value v points to according to mode; it reports whether the value now differs from what it was.
// t is the family type of v (needed for "replace": another random value of the same type).
func mutate(r *vlib.Rand, v any, t *tdef, mode string) bool {
	if v == nil || mode == "" || mode == "none" {
		return false
	}
	rv := reflect.ValueOf(v)
	if rv.Kind() != reflect.Ptr || rv.IsNil() {
		return false
	}
	before := clone(v)
	switch mode {
	case "zero", "replace":
		var other any
		if mode == "replace" && t != nil && t.rt == rv.Type().Elem() {
			other = t.gen(r)
		}
		switch m := v.(type) {
		case stdproto.Message:
			stdproto.Reset(m)
			if other != nil {
				stdproto.Merge(m, other.(stdproto.Message))
			}
		case gogoproto.Message:
			m.Reset()
			if other != nil {
				gogoproto.Merge(m, other.(gogoproto.Message))
			}
		default:
			if other != nil {
				rv.Elem().Set(reflect.ValueOf(other).Elem())
			} else {
				rv.Elem().Set(reflect.Zero(rv.Type().Elem()))
			}
		}
		if !equal(before, v) {
			return true
		}
		mode = "all" // the value was already zero / the new random value is the same: change something else
	}
	m := &mutator{r: r}
	switch mode {
	case "scalar":
		m.scalar = true
	case "inplace":
		m.inplace = true
	case "grow":
		m.grow = true
	default:
		m.scalar, m.inplace, m.grow = true, true, true
	}
	m.walk(rv.Elem(), false, 0)
	if m.n == 0 && mode != "all" {
		m.scalar, m.inplace, m.grow = true, true, true
		m.walk(rv.Elem(), false, 0)
	}
	return !equal(before, v)
}
