package c15

import (
	"bytes"
	"context"
	"fmt"
	"sync"

	"github.com/ThreeDotsLabs/watermill/components/cqrs"
	"github.com/ThreeDotsLabs/watermill/message"

	"verifharness/vlib"
)

// ---------------------------------------------------------------------------------------------
// A published message keeps its value.
//
// "A command or event sent through a bus is published once ... carrying its type name and serialized value; a
// processor invokes a handler, with a value equal to the one sent". Between Publish and the handler lies the
// transport, and a transport is free to keep the message it was given for as long as it likes (GoChannel Persistent,
// an outbox / forwarder, a batching publisher, any queue in front of a busy handler) - Message.Copy() shares the
// payload slice by design, so what the consumer decodes are the very bytes the marshaler produced. The publisher
// behind the buses therefore STORES the messages: every Send/Publish of the case (the stream's own plus "extra"
// sends nobody consumes) happens first - back to back from one goroutine, or from several goroutines sharing the two
// buses - and only after all of them returned are the stored messages handed to the processors (every delivered copy
// is stored.Copy(): same payload slice). A further batch of sends may run WHILE the processors are handling
// (one send per hand-over / handler entry, from its own goroutine).
//
// Oracle: the value of a stored message is snapshotted inside Publish (vlib.Pub) and compared with the stored
// message (a) when all sends of the burst returned, (b) every time a copy is handed to a processor and (c) after the
// run. Bytes may differ only if they still decode (reference codec) to the value sent and the name metadata is
// unchanged; anything else is clause published-value-kept. The handler-side clauses keep judging against the
// Publish-time snapshot, so a consumer that decodes changed bytes also trips value / settle-*.

type sendKey struct{}

// bsend is one Send / Publish call of the case.
type bsend struct {
	No      int
	M       *smsg // the stream message it creates (nil: an extra send, stored but never consumed)
	Stream  string
	T       *tdef
	sent    any
	ByValue bool
	Mod     bool // SendWithModifiedMessage
	Nested  bool // called with the context of an outer message being handled
	Tag     string
	Phase   string // burst | overlap
	G       int    // sending goroutine

	// written by the sending goroutine, read after it was joined
	done bool
	err  error
	pan  any

	// attribution
	ctxMatched bool
	live       *message.Message
	snap       vlib.MsgSnap
}

type keptStats struct {
	burst, extra, overlap, overlapPlanned int
	ctxAttributed                         int
	handover, delivery, afterRun          int
	liveCopies                            int
	bytesChangedSameValue                 int
}

func (cs *caseState) poke() {
	select {
	case cs.tick <- struct{}{}:
	default:
	}
}

func (cs *caseState) buildBuses() error {
	c, e := &cs.c, cs.e
	cs.pub = &vlib.Pub{Name: e.ID()}
	mar := c.marshaler(cs.newUUID)
	var err error
	if c.LegacyCmdBus {
		cs.cbus, err = cqrs.NewCommandBus(cs.pub, func(n string) string { return cs.topic("cmd", n) }, mar)
	} else {
		conf := cqrs.CommandBusConfig{
			GeneratePublishTopic: func(p cqrs.CommandBusGeneratePublishTopicParams) (string, error) {
				return cs.topic("cmd", p.CommandName), nil
			},
			Marshaler: mar,
		}
		if c.BusHooks {
			conf.OnSend = func(p cqrs.CommandBusOnSendParams) error {
				cs.hookCalls.Add(1)
				p.Message.Metadata.Set("x-hook", p.CommandName)
				return nil
			}
		}
		cs.cbus, err = cqrs.NewCommandBusWithConfig(cs.pub, conf)
	}
	if err != nil {
		return fmt.Errorf("command bus: %w", err)
	}
	if c.LegacyEvtBus {
		cs.ebus, err = cqrs.NewEventBus(cs.pub, func(n string) string { return cs.topic("evt", n) }, mar)
	} else {
		conf := cqrs.EventBusConfig{
			GeneratePublishTopic: func(p cqrs.GenerateEventPublishTopicParams) (string, error) {
				return cs.topic("evt", p.EventName), nil
			},
			Marshaler: mar,
		}
		if c.BusHooks {
			conf.OnPublish = func(p cqrs.OnEventSendParams) error {
				cs.hookCalls.Add(1)
				p.Message.Metadata.Set("x-hook", p.EventName)
				return nil
			}
		}
		cs.ebus, err = cqrs.NewEventBusWithConfig(cs.pub, conf)
	}
	if err != nil {
		return fmt.Errorf("event bus: %w", err)
	}
	return nil
}

// planSend draws everything random about one send (called on the case's goroutine only).
func (cs *caseState) planSend(m *smsg, stream string, t *tdef, sent any, byValue bool, phase string) *bsend {
	r := cs.e.R
	b := &bsend{No: len(cs.sends), M: m, Stream: stream, T: t, sent: sent, ByValue: byValue, Phase: phase}
	if r.Chance(0.5) {
		b.Tag = fmt.Sprintf("tenant%d", r.Intn(3))
	}
	// half of the sends happen "inside a handler": with the context of an outer message being handled
	b.Nested = r.Bool()
	b.Mod = stream == "cmd" && r.Chance(0.3)
	cs.sends = append(cs.sends, b)
	return b
}

func (cs *caseState) planExtra(phase string) *bsend {
	r := cs.e.R
	t := cs.fam[r.Intn(len(cs.fam))]
	stream := "cmd"
	if r.Bool() {
		stream = "evt"
	}
	return cs.planSend(nil, stream, t, normalise(t, t.gen(r)), !t.ptrOnly && r.Bool(), phase)
}

// doSend performs one Send / Publish. It may run on any goroutine; it draws nothing.
func (cs *caseState) doSend(b *bsend) {
	defer func() {
		if r := recover(); r != nil {
			b.pan = r
		}
		b.done = true
	}()
	v := b.sent
	if b.ByValue {
		v = derefValue(v)
	}
	// the number of the send travels in the context the bus is called with (both buses do msg.SetContext(ctx)); the
	// oracle only uses it as a preference when several stored messages carry the same (topic, name, value)
	ctx := context.WithValue(context.Background(), sendKey{}, b.No)
	if b.Nested {
		outer := message.NewMessage(fmt.Sprintf("%s-outer%d", cs.e.ID(), b.No), []byte(`{"outer":true}`))
		outer.Metadata.Set("name", "outer."+b.Stream)
		ctx = cqrs.CtxWithOriginalMessage(context.WithValue(ctx, harnessKey{}, "outer"), outer)
	}
	switch {
	case b.Stream == "cmd" && b.Mod:
		b.err = cs.cbus.SendWithModifiedMessage(ctx, v, func(mm *message.Message) error {
			mm.Metadata.Set("x-mod", "1")
			return nil
		})
	case b.Stream == "cmd":
		b.err = cs.cbus.Send(ctx, v)
	default:
		b.err = cs.ebus.Publish(ctx, v)
	}
}

func (cs *caseState) descSend(b *bsend) string {
	what := "stream message"
	if b.M == nil {
		what = "extra send"
	}
	return fmt.Sprintf("%s bus, send #%d (%s, %s phase, goroutine %d of %s/%d), value %s (by value: %v), marshaler %s/%s",
		b.Stream, b.No, what, b.Phase, b.G, cs.c.SendMode, cs.c.Senders, show(b.sent), b.ByValue, cs.c.MK, cs.c.Gen)
}

func ctxSendNo(m *message.Message) (int, bool) {
	if m == nil || m.Context() == nil {
		return 0, false
	}
	n, ok := m.Context().Value(sendKey{}).(int)
	return n, ok
}

// attribute matches the sends that returned with the Publish calls the storing publisher recorded meanwhile:
// every send must have exactly one call of its own - one message, on the topic the configuration generates (under
// the topic tag in force), carrying the type name and a payload that decodes to the value sent - and no call may be
// left over. Everything is judged on the snapshots taken inside Publish.
func (cs *caseState) attribute(res *vlib.Result, sends []*bsend, calls []*vlib.PubCall) bool {
	c := &cs.c
	used := make([]bool, len(calls))
	fits := func(b *bsend, pc *vlib.PubCall) string {
		if len(pc.Snaps) != 1 {
			return "bus-publish-count"
		}
		if pc.Topic != cs.topicFor(b.Stream, c.name(b.T), b.Tag) {
			return "bus-topic"
		}
		if got, ok := pc.Snaps[0].Metadata["name"]; !ok || got != c.name(b.T) {
			return "bus-name"
		}
		if dv, derr := decode(c.MK, pc.Snaps[0].Payload, b.T); derr != nil || !equal(dv, b.sent) {
			return "bus-value"
		}
		return ""
	}
	for _, b := range sends {
		res.Events++
		res.Count("bus_sends", 1)
		desc := cs.descSend(b)
		if b.pan != nil {
			res.Fail("bus-error", "%s: Send/Publish panicked: %v", desc, b.pan)
			return false
		}
		if b.err != nil {
			res.Fail("bus-error", "%s: Send/Publish returned %v although every hook and the publisher succeed (publish calls: %d)", desc, b.err, len(calls))
			return false
		}
		best, own := -1, -1
		for i, pc := range calls {
			if used[i] {
				continue
			}
			var first *message.Message
			if len(pc.Msgs) > 0 {
				first = pc.Msgs[0]
			}
			n, ok := ctxSendNo(first)
			mine := ok && n == b.No
			if mine && own < 0 {
				own = i
			}
			if fits(b, pc) != "" {
				continue
			}
			if best < 0 {
				best = i
			}
			if mine {
				best = i
				break
			}
		}
		if best < 0 {
			// say what is wrong with the call that is this send's own (the only one / the one carrying its context)
			cand := own
			if cand < 0 && len(sends) == 1 && len(calls) == 1 {
				cand = 0
			}
			if cand < 0 {
				nm := 0
				for _, pc := range calls {
					nm += len(pc.Snaps)
				}
				res.Fail("bus-publish-count", "%s: no Publish call carries this send (expected exactly one call with one message per send; %d sends, %d calls carrying %d messages)", desc, len(sends), len(calls), nm)
				return false
			}
			pc := calls[cand]
			switch why := fits(b, pc); why {
			case "bus-publish-count":
				res.Fail(why, "%s: expected exactly one Publish call with one message, saw a call carrying %d messages (%d calls for %d sends)", desc, len(pc.Snaps), len(calls), len(sends))
			case "bus-topic":
				res.Fail(why, "%s: published on topic %q, the configuration generates %q", desc, pc.Topic, cs.topicFor(b.Stream, c.name(b.T), b.Tag))
			case "bus-name":
				got, ok := pc.Snaps[0].Metadata["name"]
				res.Fail(why, "%s: published message carries name metadata %q (present=%v), type name is %q", desc, got, ok, c.name(b.T))
			default:
				dv, derr := decode(c.MK, pc.Snaps[0].Payload, b.T)
				res.Fail("bus-value", "%s: published payload %q decodes to %s (err=%v), not to the value sent", desc, trunc(pc.Snaps[0].Payload), show(dv), derr)
			}
			return false
		}
		used[best] = true
		pc := calls[best]
		b.live, b.snap = pc.Msgs[0], pc.Snaps[0]
		if n, ok := ctxSendNo(b.live); ok && n == b.No {
			b.ctxMatched = true
			cs.ks.ctxAttributed++
		}
	}
	for i, pc := range calls {
		if !used[i] {
			res.Fail("bus-publish-count", "%d sends (%s ... ) caused %d Publish calls: call #%d on topic %q with %d message(s) belongs to no send (every send is published once)",
				len(sends), cs.descSend(sends[0]), len(calls), pc.No, pc.Topic, len(pc.Snaps))
			return false
		}
	}
	return true
}

// adopt turns the stored message of a stream send into the message of the stream.
func (cs *caseState) adopt(b *bsend) {
	m := b.M
	if m == nil || b.live == nil {
		return
	}
	m.orig = message.NewMessage(b.snap.UUID, b.snap.Payload)
	for k, v := range b.snap.Metadata {
		m.orig.Metadata.Set(k, v)
	}
	m.live, m.snap = b.live, &b.snap
	if b.Nested {
		// what a context-preserving transport would hand to the consumer
		m.busCtx = b.live.Context()
	}
}

func (cs *caseState) busPhase(res *vlib.Result) {
	defer cs.topicTag.Store(nil) // the processors subscribe to the plain topics
	c, e := &cs.c, cs.e
	if err := cs.buildBuses(); err != nil {
		res.Verdict, res.Reason = vlib.HarnessError, err.Error()
		return
	}

	// harness-built messages, and the plan of the burst
	var burst []*bsend
	for _, m := range cs.msgs {
		t := m.T
		if m.Kind == "typed" && m.ViaBus {
			burst = append(burst, cs.planSend(m, m.Stream, t, m.sent, m.ByValue, "burst"))
			continue
		}
		good, eerr := encode(m.sent)
		if eerr != nil {
			res.Verdict, res.Reason = vlib.HarnessError, "reference encode: "+eerr.Error()
			return
		}
		payload := good
		switch m.Kind {
		case "malformed":
			m.Bad, payload = badPayload(e.R, t.codec, good, t)
		case "foreign":
			if e.R.Bool() {
				payload = e.R.Payload(12)
			}
		}
		m.orig = message.NewMessage(fmt.Sprintf("%s-h%d", e.ID(), m.No), payload)
		if m.HasName {
			m.orig.Metadata.Set("name", m.Name)
		} else if e.R.Bool() {
			m.orig.Metadata.Set("Name", c.name(t)) // wrong key: still foreign
		}
	}
	for i := 0; i < c.Extras; i++ {
		burst = append(burst, cs.planExtra("burst"))
	}
	// the stream's sends and the extra ones in a random order
	order := e.R.Perm(len(burst))
	shuffled := make([]*bsend, len(burst))
	for i, j := range order {
		shuffled[i] = burst[j]
	}
	burst = shuffled
	for i := 0; i < c.Overlap; i++ {
		b := cs.planExtra("overlap")
		b.Tag = "" // the processors are subscribed by then: the plain topics
	}

	setTag := func(tag string) {
		if tag == "" {
			cs.topicTag.Store(nil)
		} else {
			cs.topicTag.Store(&tag)
		}
	}
	switch c.SendMode {
	case "conc":
		// several goroutines share the two buses (and with them the marshaler and the publisher); the topic tag is
		// the same for the whole burst
		tag := ""
		if len(burst) > 0 {
			tag = burst[0].Tag
		}
		setTag(tag)
		parts := make([][]*bsend, c.Senders)
		for _, b := range burst {
			b.Tag = tag
			b.G = e.R.Intn(c.Senders)
			parts[b.G] = append(parts[b.G], b)
		}
		start, joined := make(chan struct{}), make(chan struct{})
		var wg sync.WaitGroup
		for _, list := range parts {
			wg.Add(1)
			go func(list []*bsend) {
				defer wg.Done()
				<-start
				for _, b := range list {
					cs.doSend(b)
				}
			}(list)
		}
		close(start)
		go func() { wg.Wait(); close(joined) }()
		if oc, dump := vlib.WaitClosed(joined, vlib.WD); oc != vlib.Done {
			res.Inconclusive("the concurrent Send/Publish calls did not all return (%v)", oc)
			res.Witness = dump
			return
		}
		if !cs.attribute(res, burst, cs.pub.Calls()) {
			return
		}
	default:
		for _, b := range burst {
			setTag(b.Tag)
			before := len(cs.pub.Calls())
			cs.doSend(b)
			if !cs.attribute(res, []*bsend{b}, cs.pub.Calls()[before:]) {
				return
			}
		}
	}
	setTag("")
	for _, b := range burst {
		cs.adopt(b)
		if b.M == nil {
			cs.ks.extra++
		}
		cs.ks.burst++
	}
	// (a) all sends of the burst returned: the publisher still stores what it was given
	cs.keptAll(res, "when all sends of the burst had returned (before any stored message was handed to a processor)", &cs.ks.handover)
}

// keptDiff compares a stored message with the snapshot taken inside Publish. same = identical bytes and name.
func (cs *caseState) keptDiff(payload []byte, name string, hasName bool, snap *vlib.MsgSnap, t *tdef, sent any) (same bool, bad string) {
	if want := snap.Metadata["name"]; !hasName || name != want {
		return false, fmt.Sprintf("name metadata is now %q (present=%v), it was published as %q", name, hasName, want)
	}
	if bytes.Equal(payload, snap.Payload) {
		return true, ""
	}
	dv, derr := decode(cs.c.MK, payload, t)
	if derr != nil || !equal(dv, sent) {
		return false, fmt.Sprintf("payload is now %q and decodes to %s (err=%v); it was published as %q = the value sent %s", trunc(payload), show(dv), derr, trunc(snap.Payload), show(sent))
	}
	return false, "" // other bytes, same value: not demanded to be stable
}

// keptAll judges every stored message of the case against its Publish-time snapshot.
func (cs *caseState) keptAll(res *vlib.Result, when string, n *int) bool {
	for _, b := range cs.sends {
		if b.live == nil {
			continue
		}
		*n++
		res.Events++
		name, has := b.live.Metadata["name"]
		same, bad := cs.keptDiff(b.live.Payload, name, has, &b.snap, b.T, b.sent)
		if bad != "" {
			res.Fail("published-value-kept", "%s: the message the bus published (uuid %s) no longer carries what it was published with, %s: %s [%d sends in the case, %d of them extra, %d planned during handling]",
				cs.descSend(b), b.snap.UUID, when, bad, len(cs.sends), cs.c.Extras, cs.c.Overlap)
			return false
		}
		if !same {
			cs.ks.bytesChangedSameValue++
		}
	}
	return true
}

// overlapSends returns the sends planned for the processor phase.
func (cs *caseState) overlapSends() []*bsend {
	var o []*bsend
	for _, b := range cs.sends {
		if b.Phase == "overlap" {
			o = append(o, b)
		}
	}
	return o
}

// chatter performs the overlap sends, one per poke, until the list is exhausted or the deliveries are over.
func (cs *caseState) chatter(list []*bsend, stop <-chan struct{}, done chan<- struct{}) {
	defer close(done)
	for _, b := range list {
		select {
		case <-cs.tick:
		case <-stop:
			return
		}
		cs.doSend(b)
	}
}
