package c15

import (
	"bytes"
	"encoding/json"
	"reflect"
	"sort"
	"strings"

	"verifharness/vlib"
)

// Structured corruptions of a JSON document for the "malformed payload under a handled name" messages.
//
// Every family below except "legal-odd" is meant to be rejected: a candidate is kept only if
// encoding/json.Unmarshal (called directly, not through watermill) refuses it for the target type; a
// candidate that happens to decode is thrown away and another one is drawn. "legal-odd" is the opposite:
// unusual but legal documents (duplicated keys, surrounding white space, unknown members) that must
// reach the handler with the value encoding/json gives them. Either way the oracle never trusts the
// family label: what a delivered copy must cause is decided by the reference decode of its payload.

func jsonRejects(p []byte, t *tdef) bool {
	return json.Unmarshal(p, reflect.New(t.rt).Interface()) != nil
}

func cat(parts ...any) []byte {
	var b []byte
	for _, p := range parts {
		switch x := p.(type) {
		case string:
			b = append(b, x...)
		case []byte:
			b = append(b, x...)
		case byte:
			b = append(b, x)
		}
	}
	return b
}

// trailing data: the payload STARTS with a complete JSON value (a decoder that reads one value from a
// stream and stops is happy with it), but is not one JSON document.
func jsonTrailing(r *vlib.Rand, good []byte) []byte {
	lead := good
	if r.Chance(0.15) {
		lead = [][]byte{[]byte("{}"), []byte("null"), []byte(`{"unknown":1}`)}[r.Intn(3)]
	}
	sep := []string{"", "", " ", "\n", "\t\r\n"}[r.Intn(5)]
	var tail []byte
	switch r.Intn(8) {
	case 0, 1:
		tail = good // concatenated documents
	case 2:
		tail = []byte([]string{"garbage", "x", "//c", "#", ";", "\\", "EOF"}[r.Intn(7)])
	case 3:
		tail = []byte([]string{"}", "]", ",", ":", "}}", ")", "\""}[r.Intn(7)])
	case 4:
		tail = []byte([]string{"null", "0", `""`, "{}", "[]", "true", "-1", `"x"`}[r.Intn(8)])
	case 5:
		tail = []byte([]string{"\x00", "\x00\x00", "\ufeff", "\x1e", "\x7f", "\xff", " "}[r.Intn(7)])
	case 6:
		tail = good[:r.Range(1, len(good)-1)] // second document truncated
	default:
		tail = r.Bytes(r.Range(1, 5))
	}
	return cat(lead, sep, tail)
}

func jsonLeading(r *vlib.Rand, good []byte) []byte {
	pre := []string{"\xef\xbb\xbf", "\ufeff ", "\x00", "\x1e", "}", ",", "x", "//c\n", "\x7f", ")]}'\n", "\xff\xfe"}[r.Intn(11)]
	return cat(pre, good)
}

func jsonTrailingComma(r *vlib.Rand, good []byte) []byte {
	switch r.Intn(4) {
	case 0:
		return cat("{,", good[1:])
	case 1:
		if i := bytes.IndexByte(good, ']'); i >= 0 {
			return cat(good[:i], ",", good[i:])
		}
	case 2:
		if i := bytes.IndexByte(good, ','); i >= 0 {
			return cat(good[:i], ",", good[i:]) // doubled comma between members
		}
	}
	return cat(good[:len(good)-1], ",}")
}

// members splits an object document into its members in a fixed (sorted) order.
func members(good []byte) (keys []string, vals map[string]json.RawMessage) {
	if json.Unmarshal(good, &vals) != nil {
		return nil, nil
	}
	for k := range vals {
		keys = append(keys, k)
	}
	sort.Strings(keys)
	return keys, vals
}

func assemble(keys []string, vals map[string]json.RawMessage) []byte {
	var b bytes.Buffer
	b.WriteByte('{')
	for i, k := range keys {
		if i > 0 {
			b.WriteByte(',')
		}
		kb, _ := json.Marshal(k)
		b.Write(kb)
		b.WriteByte(':')
		b.Write(vals[k])
	}
	b.WriteByte('}')
	return b.Bytes()
}

// wrong types: a well-formed document whose shape does not fit the target type.
func jsonWrongType(r *vlib.Rand, good []byte) []byte {
	keys, vals := members(good)
	if len(keys) == 0 || r.Chance(0.2) {
		switch r.Intn(5) {
		case 0:
			return cat("[", good, "]")
		case 1:
			s, _ := json.Marshal(string(good))
			return s
		case 2:
			return []byte("[]")
		case 3:
			return []byte("17")
		}
		return []byte("true")
	}
	k := keys[r.Intn(len(keys))]
	var alt []string
	switch raw := vals[k]; raw[0] {
	case '"':
		alt = []string{"123", "true", "{}", "[]", "1.5"}
	case 't', 'f':
		alt = []string{`"true"`, "1", "0", "[]", "{}"}
	case '{':
		alt = []string{"[]", `"s"`, "1", "true", `[{}]`}
	case '[':
		alt = []string{"{}", "1", "true", `{"0":1}`, "0.5"}
	case 'n':
		alt = []string{"[{}]", `{"a":[]}`, "true", `"s"`, "1.5"}
	default: // number
		alt = []string{`"7"`, "true", "[1]", "{}", `"1e3"`}
	}
	vals[k] = json.RawMessage(alt[r.Intn(len(alt))])
	return assemble(keys, vals)
}

// control bytes dropped into the document.
func jsonCtrl(r *vlib.Rand, good []byte) []byte {
	c := []byte{0x00, 0x00, 0x01, '\n', 0x1f, 0x7f, 0x08, 0x0c}[r.Intn(8)]
	i := r.Intn(len(good) + 1)
	return cat(good[:i], c, good[i:])
}

var jsonSyntaxDocs = []string{
	"NaN", "Infinity", "-Infinity", "True", "NULL", "nul", "+1", "01", "1.", ".5", "0x10", "1e", "--1", "undefined",
	`{"ID":"\x"}`, `{"ID":"\u12"}`, `{"ID":"a"`, `{"ID":}`, `{:1}`, `{"ID"}`, "[", "]", "}{", "{{}}", `{"ID":"a"]`, `("x")`,
	`{"a":01}`, `{"a":1,}`, `{"a" "b"}`, `{"a":'b'}`, `{a:1}`, `{"a":1;"b":2}`, `{"a":tru}`, `{"a":nulll}`, `{"a":"b`, `{"a":"\`,
	"{\"a\":\"\t\"}", `{"a":1 "b":2}`, `{"a"::1}`, `{[]}`, `{"a":[1 2]}`, `{"a":{"b":}}`, " ", "\n", "\xef\xbb\xbf",
}

func jsonSyntax(r *vlib.Rand, good []byte) []byte {
	switch r.Intn(6) {
	case 0:
		return []byte(strings.ReplaceAll(string(good), `"`, `'`))
	case 1:
		// unquote the first key
		if i := bytes.IndexByte(good, '"'); i >= 0 {
			if j := bytes.IndexByte(good[i+1:], '"'); j >= 0 {
				return cat(good[:i], good[i+1:i+1+j], good[i+2+j:])
			}
		}
	case 2:
		return cat("/*c*/", good)
	case 3:
		if i := bytes.IndexByte(good, ':'); i >= 0 {
			return cat(good[:i], "=", good[i+1:])
		}
	case 4:
		// drop the closing brace but keep a complete-looking tail
		return cat(good[:len(good)-1], "]")
	}
	return []byte(jsonSyntaxDocs[r.Intn(len(jsonSyntaxDocs))])
}

// out-of-range / unrepresentable values for the fields of the family's types.
var jsonRangeDocs = map[string][]string{
	"TA": {`{"N":9223372036854775808}`, `{"N":1.5}`, `{"N":1e400}`, `{"N":-9223372036854775809}`, `{"Tags":[1]}`, `{"Tags":{"0":"a"}}`, `{"ID":["a"]}`},
	"TB": {`{"Blob":"!!not-base64"}`, `{"Blob":"QQ"}`, `{"Blob":[256]}`, `{"M":{"a":1.5}}`, `{"M":{"a":99999999999999999999}}`, `{"M":[1]}`, `{"Flag":0}`},
	"TC": {`{"P":2.5}`, `{"P":"1"}`, `{"Inner":{"N":1e19}}`, `{"Inner":[]}`, `{"Inner":{"Tags":"a"}}`, `{"P":99999999999999999999}`},
	"TD": {`{"X":1e999}`, `{"X":"1"}`, `{"X":-1e999}`, `{"S":1}`, `{"X":[0]}`},
	"TE": {`[]`, `"{}"`, `0`, `false`},
	"TF": {`{"V":256}`, `{"V":-1}`, `{"V":1.0e3}`, `{"W":[2147483648,0]}`, `{"W":[0,-2147483649]}`, `{"W":["1","2"]}`, `{"W":{"0":1}}`, `{"V":0.5}`},
}

func jsonRange(r *vlib.Rand, good []byte, t *tdef) []byte {
	docs := jsonRangeDocs[t.key]
	doc := docs[r.Intn(len(docs))]
	if doc[0] != '{' || r.Bool() {
		return []byte(doc)
	}
	// merge the offending member into the otherwise correct document
	keys, vals := members(good)
	k2, v2 := members([]byte(doc))
	if vals == nil || v2 == nil {
		return []byte(doc)
	}
	for _, k := range k2 {
		if _, ok := vals[k]; !ok {
			keys = append(keys, k)
		}
		vals[k] = v2[k]
	}
	sort.Strings(keys)
	return assemble(keys, vals)
}

// unusual but legal documents: these must be handled, with the value encoding/json decodes.
func jsonLegalOdd(r *vlib.Rand, good []byte) []byte {
	switch r.Intn(6) {
	case 0:
		return cat(" \n\t", good, " \r\n\t ") // surrounding white space is not trailing data
	case 1:
		if len(good) > 2 {
			return cat(good[:len(good)-1], ",", good[1:]) // every key twice
		}
	case 2:
		return cat(good[:len(good)-1], []string{"", ","}[b2i(len(good) > 2)], `"zz":[1,{"q":null}]}`)
	case 3:
		return []byte(strings.ToLower(string(good[:len(good)/2])) + string(good[len(good)/2:])) // keys match case-insensitively
	case 4:
		return cat(good, "\n")
	}
	return []byte("{ }")
}

func b2i(b bool) int {
	if b {
		return 1
	}
	return 0
}

// badJSON returns (family, payload). good is the reference encoding of a value of type t (always an object).
func badJSON(r *vlib.Rand, good []byte, t *tdef) (string, []byte) {
	x := r.Intn(100)
	if x < 26 {
		return "legacy", legacyBadJSON(r, good)
	}
	if x >= 94 {
		return "legal-odd", jsonLegalOdd(r, good)
	}
	fam := ""
	for try := 0; try < 8; try++ {
		var p []byte
		switch {
		case x < 48:
			fam, p = "trailing-data", jsonTrailing(r, good)
		case x < 56:
			fam, p = "truncated", good[:r.Range(1, len(good)-1)]
		case x < 63:
			fam, p = "leading-junk", jsonLeading(r, good)
		case x < 69:
			fam, p = "trailing-comma", jsonTrailingComma(r, good)
		case x < 77:
			fam, p = "wrong-type", jsonWrongType(r, good)
		case x < 83:
			fam, p = "control-byte", jsonCtrl(r, good)
		case x < 89:
			fam, p = "syntax", jsonSyntax(r, good)
		default:
			fam, p = "out-of-range", jsonRange(r, good, t)
		}
		if jsonRejects(p, t) {
			return fam, p
		}
	}
	// nothing of the family is rejected for this type (e.g. wrong member types for a struct without fields):
	// a doubled closing brace always is
	return "trailing-data", cat(good, "}")
}

func legacyBadJSON(r *vlib.Rand, good []byte) []byte {
	switch r.Intn(10) {
	case 0:
		return []byte("{")
	case 1:
		return nil
	case 2:
		return []byte("nil")
	case 3:
		return []byte("[]")
	case 4:
		return []byte(`"str"`)
	case 5:
		return []byte(`{"ID":5,"Flag":"x","Inner":3,"X":"y","V":-1,"N":"n"}`)
	case 6:
		return good[:len(good)/2]
	case 7:
		return []byte("null") // decodable: zero value
	case 8:
		return []byte(`{"unknown":1}`) // decodable
	}
	return r.Bytes(r.Range(1, 6))
}

// badProto returns (family, payload) for the protobuf codecs. Concatenated protobuf messages are legal
// (merge semantics), so "trailing data" means a complete message followed by bytes that are not a field.
func badProto(r *vlib.Rand, good []byte) (string, []byte) {
	switch r.Intn(16) {
	case 0:
		return "legacy", []byte{0x08} // field 1, varint, value missing
	case 1:
		return "legacy", []byte{0x0a, 0x05, 'a'} // length 5, one byte
	case 2:
		return "legacy", []byte{0xff}
	case 3:
		return "legacy", []byte{0x80, 0x80}
	case 4:
		if len(good) > 0 {
			return "legacy", good[:len(good)-1]
		}
		return "legacy", []byte{0x12}
	case 5:
		return "legacy", []byte{0x0a, 0x01, 0xff} // invalid UTF-8 in a string field (codec-dependent)
	case 6:
		return "legacy", []byte{0x10, 0x01, 0x08} // unknown field then truncated tag
	case 7:
		return "legacy", []byte{0x98, 0x06, 0x01} // unknown field 99: decodable
	case 8:
		return "legacy", r.Bytes(r.Range(1, 6))
	case 9:
		return "trailing-data", cat(good, byte(0x08)) // complete message + tag without value
	case 10:
		return "trailing-data", cat(good, byte(0x0f)) // + wire type 7
	case 11:
		return "trailing-data", cat(good, byte(0x0c)) // + end-group without start
	case 12:
		return "trailing-data", cat(good, []byte{0x0a, 0xff, 0xff, 0xff, 0xff, 0xff, 0xff, 0xff, 0xff, 0xff, 0xff, 0x01}) // + overlong length varint
	case 13:
		return "trailing-data", cat(good, byte(0x00)) // + field number 0
	case 14:
		return "trailing-data", cat(good, []byte{0xf8, 0x07, 0x80}) // + unknown field 127 with an unterminated varint
	}
	return "legal-odd", cat(good, good) // concatenation = merge: decodable
}
