package c15

import (
	"context"
	"encoding/json"
	"errors"
	"fmt"
	"reflect"
	"strings"

	"github.com/ThreeDotsLabs/watermill/components/cqrs"
	gogoproto "github.com/gogo/protobuf/proto"
	gogotypes "github.com/gogo/protobuf/types"
	stdproto "google.golang.org/protobuf/proto"
	"google.golang.org/protobuf/types/known/durationpb"
	"google.golang.org/protobuf/types/known/structpb"
	"google.golang.org/protobuf/types/known/timestamppb"
	"google.golang.org/protobuf/types/known/wrapperspb"

	"verifharness/vlib"
)

// ---------------------------------------------------------------------------------------------
// The family of command/event types. Every expected type name below is written out by hand (it is
// NOT computed with watermill's name functions), so the oracle's notion of "the type name" is
// independent of components/cqrs/name.go.

type TA struct {
	ID   string
	N    int64
	Tags []string
}

type TB struct {
	Flag bool
	Blob []byte
	M    map[string]int
}

// TC carries a custom name through a value-receiver Name() (cqrs.NamedStruct).
type TC struct {
	Inner TA
	P     *int
}

func (TC) Name() string { return "tc.custom-name" }

// TD carries a custom name through a pointer-receiver Name(); it is always sent as a pointer.
type TD struct {
	X float64
	S string
}

func (*TD) Name() string { return "td/by-pointer" }

type TE struct{}

type TF struct {
	V uint8
	W [2]int32
}

type hfn func(ctx context.Context, v any) error

// factory builds watermill's own generic handlers for one type.
type factory struct {
	cmd func(name string, f hfn) cqrs.CommandHandler
	evt func(name string, f hfn) cqrs.EventHandler
	grp func(f hfn) cqrs.GroupEventHandler
}

func mkFactory[T any]() factory {
	return factory{
		cmd: func(name string, f hfn) cqrs.CommandHandler {
			return cqrs.NewCommandHandler[T](name, func(ctx context.Context, v *T) error { return f(ctx, v) })
		},
		evt: func(name string, f hfn) cqrs.EventHandler {
			return cqrs.NewEventHandler[T](name, func(ctx context.Context, v *T) error { return f(ctx, v) })
		},
		grp: func(f hfn) cqrs.GroupEventHandler {
			return cqrs.NewGroupEventHandler[T](func(ctx context.Context, v *T) error { return f(ctx, v) })
		},
	}
}

// reflHandler is a hand-written CommandHandler / EventHandler / GroupEventHandler (the non-generic way).
type reflHandler struct {
	name string
	rt   reflect.Type
	f    hfn
}

func (h *reflHandler) HandlerName() string                     { return h.name }
func (h *reflHandler) NewCommand() any                         { return reflect.New(h.rt).Interface() }
func (h *reflHandler) NewEvent() any                           { return reflect.New(h.rt).Interface() }
func (h *reflHandler) Handle(ctx context.Context, v any) error { return h.f(ctx, v) }

type tdef struct {
	key     string
	codec   string // "json" | "std" | "gogo"
	rt      reflect.Type
	fq      string // expected FullyQualifiedStructName
	short   string // expected StructName
	named   string // value of Name() ("" = none)
	custom  string // name under the harness' own table-driven generator
	ptrOnly bool   // never send by value
	gen     func(r *vlib.Rand) any
	fac     factory
}

func def[T any](key, codec, fq, short, named, custom string, ptrOnly bool, gen func(r *vlib.Rand) any) *tdef {
	return &tdef{key: key, codec: codec, rt: reflect.TypeOf((*T)(nil)).Elem(), fq: fq, short: short, named: named, custom: custom, ptrOnly: ptrOnly, gen: gen, fac: mkFactory[T]()}
}

func rstrs(r *vlib.Rand) []string {
	switch r.Intn(4) {
	case 0:
		return nil
	case 1:
		return []string{}
	}
	n := r.Range(1, 3)
	o := make([]string, n)
	for i := range o {
		o[i] = r.UTF8(6)
	}
	return o
}

func genTA(r *vlib.Rand) TA { return TA{ID: r.UTF8(8), N: int64(r.Uint64()), Tags: rstrs(r)} }

var jsonTypes = []*tdef{
	def[TA]("TA", "json", "c15.TA", "TA", "", "alpha", false, func(r *vlib.Rand) any { v := genTA(r); return &v }),
	def[TB]("TB", "json", "c15.TB", "TB", "", "Beta Type", false, func(r *vlib.Rand) any {
		v := TB{Flag: r.Bool(), Blob: r.Payload(10)}
		switch r.Intn(3) {
		case 1:
			v.M = map[string]int{}
		case 2:
			v.M = map[string]int{}
			for i := r.Range(1, 3); i > 0; i-- {
				v.M[r.UTF8(4)] = r.Intn(1000) - 500
			}
		}
		return &v
	}),
	def[TC]("TC", "json", "c15.TC", "TC", "tc.custom-name", "gamma", false, func(r *vlib.Rand) any {
		v := TC{Inner: genTA(r)}
		if r.Bool() {
			p := r.Intn(100) - 50
			v.P = &p
		}
		return &v
	}),
	def[TD]("TD", "json", "c15.TD", "TD", "td/by-pointer", "c15.TA.not", true, func(r *vlib.Rand) any {
		return &TD{X: float64(r.Intn(4001)-2000) / 8, S: r.UTF8(5)}
	}),
	def[TE]("TE", "json", "c15.TE", "TE", "", "ε", false, func(r *vlib.Rand) any { return &TE{} }),
	def[TF]("TF", "json", "c15.TF", "TF", "", "tf", false, func(r *vlib.Rand) any {
		return &TF{V: uint8(r.Intn(256)), W: [2]int32{int32(r.Uint64()), int32(r.Intn(7))}}
	}),
}

func structMap(r *vlib.Rand) map[string]any {
	m := map[string]any{}
	for i := r.Intn(4); i > 0; i-- {
		var v any
		switch r.Intn(5) {
		case 0:
			v = nil
		case 1:
			v = float64(r.Intn(2000)-1000) / 4
		case 2:
			v = r.UTF8(5)
		case 3:
			v = r.Bool()
		case 4:
			v = []any{r.UTF8(3), float64(r.Intn(9)), r.Bool()}
		}
		m["k"+r.UTF8(3)] = v
	}
	return m
}

var stdTypes = []*tdef{
	def[wrapperspb.StringValue]("std.String", "std", "wrapperspb.StringValue", "StringValue", "", "s-string", true,
		func(r *vlib.Rand) any { return wrapperspb.String(r.UTF8(10)) }),
	def[wrapperspb.Int64Value]("std.Int64", "std", "wrapperspb.Int64Value", "Int64Value", "", "s-int64", true,
		func(r *vlib.Rand) any { return wrapperspb.Int64(int64(r.Uint64())) }),
	def[wrapperspb.BytesValue]("std.Bytes", "std", "wrapperspb.BytesValue", "BytesValue", "", "s-bytes", true,
		func(r *vlib.Rand) any { return wrapperspb.Bytes(r.Payload(10)) }),
	def[wrapperspb.BoolValue]("std.Bool", "std", "wrapperspb.BoolValue", "BoolValue", "", "s-bool", true,
		func(r *vlib.Rand) any { return wrapperspb.Bool(r.Bool()) }),
	def[timestamppb.Timestamp]("std.Timestamp", "std", "timestamppb.Timestamp", "Timestamp", "", "s-ts", true,
		func(r *vlib.Rand) any {
			return &timestamppb.Timestamp{Seconds: int64(r.Intn(2000000000)), Nanos: int32(r.Intn(1000000000))}
		}),
	def[durationpb.Duration]("std.Duration", "std", "durationpb.Duration", "Duration", "", "s-dur", true,
		func(r *vlib.Rand) any {
			return &durationpb.Duration{Seconds: int64(r.Intn(100000)) - 50000, Nanos: int32(r.Intn(1000))}
		}),
	def[structpb.Struct]("std.Struct", "std", "structpb.Struct", "Struct", "", "s-struct", true,
		func(r *vlib.Rand) any {
			s, err := structpb.NewStruct(structMap(r))
			if err != nil {
				panic(err)
			}
			return s
		}),
	def[structpb.Value]("std.Value", "std", "structpb.Value", "Value", "", "s-value", true,
		func(r *vlib.Rand) any {
			var in any
			switch r.Intn(4) {
			case 0:
				in = structMap(r)
			case 1:
				in = r.UTF8(6)
			case 2:
				in = float64(r.Intn(100)) / 2
			case 3:
				in = nil
			}
			v, err := structpb.NewValue(in)
			if err != nil {
				panic(err)
			}
			return v
		}),
}

func gogoValue(r *vlib.Rand, depth int) *gogotypes.Value {
	switch r.Intn(5 - depth) {
	case 0:
		return &gogotypes.Value{Kind: &gogotypes.Value_NumberValue{NumberValue: float64(r.Intn(2000)-1000) / 4}}
	case 1:
		return &gogotypes.Value{Kind: &gogotypes.Value_StringValue{StringValue: r.UTF8(5)}}
	case 2:
		return &gogotypes.Value{Kind: &gogotypes.Value_BoolValue{BoolValue: r.Bool()}}
	default:
		return &gogotypes.Value{Kind: &gogotypes.Value_StructValue{StructValue: gogoStruct(r, depth+1)}}
	}
}

func gogoStruct(r *vlib.Rand, depth int) *gogotypes.Struct {
	s := &gogotypes.Struct{Fields: map[string]*gogotypes.Value{}}
	for i := r.Intn(3); i > 0; i-- {
		s.Fields["k"+r.UTF8(3)] = gogoValue(r, depth)
	}
	return s
}

var gogoTypes = []*tdef{
	def[gogotypes.StringValue]("gogo.String", "gogo", "types.StringValue", "StringValue", "", "g-string", true,
		func(r *vlib.Rand) any { return &gogotypes.StringValue{Value: r.UTF8(10)} }),
	def[gogotypes.Int64Value]("gogo.Int64", "gogo", "types.Int64Value", "Int64Value", "", "g-int64", true,
		func(r *vlib.Rand) any { return &gogotypes.Int64Value{Value: int64(r.Uint64())} }),
	def[gogotypes.BytesValue]("gogo.Bytes", "gogo", "types.BytesValue", "BytesValue", "", "g-bytes", true,
		func(r *vlib.Rand) any { return &gogotypes.BytesValue{Value: r.Payload(10)} }),
	def[gogotypes.BoolValue]("gogo.Bool", "gogo", "types.BoolValue", "BoolValue", "", "g-bool", true,
		func(r *vlib.Rand) any { return &gogotypes.BoolValue{Value: r.Bool()} }),
	def[gogotypes.Timestamp]("gogo.Timestamp", "gogo", "types.Timestamp", "Timestamp", "", "g-ts", true,
		func(r *vlib.Rand) any {
			return &gogotypes.Timestamp{Seconds: int64(r.Intn(2000000000)), Nanos: int32(r.Intn(1000000000))}
		}),
	def[gogotypes.Duration]("gogo.Duration", "gogo", "types.Duration", "Duration", "", "g-dur", true,
		func(r *vlib.Rand) any {
			return &gogotypes.Duration{Seconds: int64(r.Intn(100000)) - 50000, Nanos: int32(r.Intn(1000))}
		}),
	def[gogotypes.Struct]("gogo.Struct", "gogo", "types.Struct", "Struct", "", "g-struct", true,
		func(r *vlib.Rand) any { return gogoStruct(r, 0) }),
}

var allTypes = func() map[reflect.Type]*tdef {
	m := map[reflect.Type]*tdef{}
	for _, l := range [][]*tdef{jsonTypes, stdTypes, gogoTypes} {
		for _, t := range l {
			m[t.rt] = t
		}
	}
	return m
}()

// customGen is the harness' own table-driven name generator ("custom name generators" of the quantifier).
func customGen(v any) string {
	rt := reflect.TypeOf(v)
	for rt != nil && rt.Kind() == reflect.Ptr {
		rt = rt.Elem()
	}
	if t, ok := allTypes[rt]; ok {
		return "x:" + t.custom
	}
	return fmt.Sprintf("?%v", rt)
}

// ---------------------------------------------------------------------------------------------
// Independent codecs (encoding/json, google.golang.org/protobuf, gogo/protobuf called directly).

var errNotProto = errors.New("not a proto.Message")

func gogoUnmarshal(b []byte, v any) (err error) {
	defer func() {
		if r := recover(); r != nil {
			err = fmt.Errorf("gogo panic: %v", r)
		}
	}()
	m, ok := v.(gogoproto.Message)
	if !ok {
		return errNotProto
	}
	return gogoproto.Unmarshal(b, m)
}

// decode is the reference "Unmarshal" of marshaler kind mk into a fresh value of type t.
func decode(mk string, payload []byte, t *tdef) (any, error) {
	v := reflect.New(t.rt).Interface()
	switch mk {
	case "json":
		return v, json.Unmarshal(payload, v)
	case "proto":
		m, ok := v.(stdproto.Message)
		if !ok {
			return v, errNotProto
		}
		return v, stdproto.Unmarshal(payload, m)
	default: // gogo, gogo-nofallback
		err := gogoUnmarshal(payload, v)
		if err != nil && mk == "gogo" {
			// documented fallback of the deprecated marshaler: retry with google.golang.org/protobuf
			m, ok := v.(stdproto.Message)
			if !ok {
				return v, errNotProto
			}
			err = stdproto.Unmarshal(payload, m)
		}
		return v, err
	}
}

// encode is the reference serialisation (used for harness-built messages that never saw a bus).
func encode(v any) ([]byte, error) {
	if m, ok := v.(stdproto.Message); ok {
		return stdproto.Marshal(m)
	}
	if m, ok := v.(gogoproto.Message); ok {
		return gogoproto.Marshal(m)
	}
	return json.Marshal(v)
}

// equal compares two decoded values (pointers) of the family.
func equal(a, b any) bool {
	if reflect.TypeOf(a) != reflect.TypeOf(b) {
		return false
	}
	if pa, ok := a.(stdproto.Message); ok {
		return stdproto.Equal(pa, b.(stdproto.Message))
	}
	if ga, ok := a.(gogoproto.Message); ok {
		return gogoproto.Equal(ga, b.(gogoproto.Message))
	}
	return reflect.DeepEqual(a, b)
}

func show(v any) string {
	var s string
	if b, err := json.Marshal(v); err == nil {
		s = fmt.Sprintf("%T%s", v, b)
	} else {
		s = fmt.Sprintf("%T%+v", v, v)
	}
	if len(s) > 160 {
		s = strings.ToValidUTF8(s[:160], "") + "..."
	}
	return s
}

func reflectElem(p any) any { return reflect.ValueOf(p).Elem().Interface() }

// normalise makes a JSON value a fixed point of the reference codec (nil vs empty containers etc.),
// so that "decodes to a value equal to the one sent" can be checked with reflect.DeepEqual.
func normalise(t *tdef, v any) any {
	if t.codec != "json" {
		return v
	}
	b, err := json.Marshal(v)
	if err != nil {
		panic(err)
	}
	o := reflect.New(t.rt).Interface()
	if err := json.Unmarshal(b, o); err != nil {
		panic(err)
	}
	return o
}
