// Package c15 checks property C15: CQRS buses and processors dispatch by type name with the
// configured ack policy.
//
// One case = one configuration (marshaler kind, name generator, flags, constructors, topic mode),
// one random registry of command / event / event-group handlers over a family of types, and one
// stream of messages (known, unknown, malformed, foreign). The real buses publish into a capturing
// vlib.Pub; the real processors run on a real message.Router behind scripted vlib.Sub ends that
// record the Ack/Nack of every delivered copy and redeliver a Nacked message at most R times. A
// reference dispatch function of (registry, flags, message) predicts, for every delivered copy, the
// exact sequence of handler invocations (with values) and the settlement; every execution is
// compared with it.
//
// Malformed payloads are drawn from structured corruption families (malformed.go); the context of every
// delivered copy is one of five kinds (subDef.incomingCtx), four of which already carry foreign values
// such as another message's "original message".
package c15

import (
	"bytes"
	"context"
	"errors"
	"fmt"
	"reflect"
	"strings"
	"sync"
	"sync/atomic"
	"time"

	"github.com/ThreeDotsLabs/watermill"
	"github.com/ThreeDotsLabs/watermill/components/cqrs"
	"github.com/ThreeDotsLabs/watermill/message"

	"verifharness/vlib"
)

func init() {
	vlib.Register(&vlib.Prop{
		ID:    "C15",
		Level: "exploration",
		Cases: func(tier string) int { return vlib.TierN(tier, 500, 120000) },
		Rule: "one case = one Router with a command processor, an event processor and an event-group processor (each built with a random constructor: " +
			"WithConfig or the deprecated one) plus a command bus and an event bus in front of a capturing publisher, under one random configuration: marshaler " +
			"JSON / Proto / Protobuf(gogo, std fallback on or off), name generator default / FullyQualifiedStructName / StructName / NamedStruct(fq|short) / table-driven custom, " +
			"AckCommandHandlingErrors, AckOnUnknownEvent (processor and group independently), OnHandle / OnSend / OnPublish hooks, generic or hand-written handlers. " +
			"The registry is a random subset of the type family (6 JSON structs, 8 google well-known types, 7 gogo types; duplicates allowed for events and inside groups). " +
			"The stream mixes typed messages (sent through the real bus or built with the reference codec), messages with names nobody handles, malformed payloads under a " +
			"handled name and foreign messages without name metadata; every handler has a scripted number of failures per message; a Nacked copy is redelivered at most R times. " +
			"Malformed payloads come from corruption families of the reference encoding: legacy (fixed garbage), trailing-data (a complete document followed by a second document / " +
			"garbage / a closing brace / NUL / BOM), truncated at a random byte, leading-junk (BOM, NUL, RS ...), trailing-comma, wrong-type (well-formed, member or top-level value of " +
			"another JSON type), control-byte inserted, syntax (single quotes, bare keys, comments, NaN, bad escapes ...), out-of-range numbers / bad base64, and legal-odd (duplicated keys, " +
			"surrounding white space, unknown members, case-folded keys: legal, must be handled); protobuf: legacy + a complete message followed by a broken tag / wire type 7 / end-group / " +
			"overlong varint / field 0, and concatenated messages (legal merge). Every candidate of a rejecting JSON family is kept only if encoding/json.Unmarshal itself refuses it for the target type. " +
			"Every delivered copy arrives with one of five incoming contexts: plain subscription context; foreign-value (harness key + look-alike string key \"original_message\"); " +
			"foreign-original (cqrs.CtxWithOriginalMessage of ANOTHER message: a different message of the case, another copy with the same UUID, or the previously delivered copy); " +
			"handler-ctx (the very context the previous handler invocation on that subscription received, i.e. publish-from-handler over a context-preserving transport); " +
			"bus-ctx (the context of the message as the real bus published it when Send/Publish was called with a context holding an outer message's original message). " +
			"Handlers own the value they receive: every invocation records a DEEP SNAPSHOT of its value at handler entry (the oracle judges snapshots only) and then, per handler, " +
			"leaves it alone or mutates it (scalar fields / slice and map elements and nested pointees in place / append-insert-delete-allocate / overwrite with another random value / zero / all of it) " +
			"and/or retains the pointer; retained pointers of a subscription are written through at its next boundaries (OnHandle entry, handler entry before the snapshot), i.e. after the retaining " +
			"invocation returned; OnHandle hooks do the same to params.Event after the wrapped handler returned. Groups draw their handlers from 3 types (several handlers of one type are the norm) and " +
			"may list the very same handler object twice; a Nacked copy is redelivered, so the same handler meets the same message again after having changed its previous value. " +
			"The oracle is a reference dispatch function of (registry, flags, message, failure script) that fixes per delivered copy the ordered handler invocations, their values " +
			"(independent decode with encoding/json / protobuf) and Ack vs Nack. " +
			"SENDING SIDE (burst.go; class = marshaler/generator/send mode): the publisher behind the two buses STORES the messages it is given (an outbox / persistent or batching publisher / a queue in " +
			"front of a busy handler). All sends of a case form one burst that completes before any stored message is handed to a processor: the stream's own bus sends plus 0/3/6/12/24 extra sends " +
			"(random types of the family, both buses, stored only) in a random order, either back to back from one goroutine (seq: each send judged as soon as it returned, topic tag changing between sends) " +
			"or from 2-4 goroutines started together that share the two buses, the marshaler and the publisher (conc: sends attributed to Publish calls afterwards by (topic, name, decoded value), " +
			"preferring the call whose message carries the send's context). In 40% of the cases 4-16 further sends run on their own goroutine WHILE the processors handle the stored messages (one send per " +
			"hand-over / handler entry). A delivered copy of a bus message is stored.Copy(): it shares the payload slice the marshaler produced, as with GoChannel. Clause published-value-kept: every stored " +
			"message is compared with the deep snapshot taken inside Publish (a) when the burst has returned, (b) each time a copy is handed to a processor, (c) after the run (deliveries settled, Router closed); " +
			"different bytes are accepted only if they still decode to the value sent, the name metadata must be unchanged; handler values and settlements are always judged against the Publish-time snapshot. " +
			"Data races with a watermill / codec frame fail the property (a payload written while a stored message is read). A case is non-trivial when it saw at least one handler invocation, one delivery whose name matched " +
			"no handler and one Nack; distinct = distinct (configuration, registry shape, per-delivery outcome) hashes.",
		Assumptions: []string{
			"handlers return errors only (panics are the Router's business, not the processors')",
			"bus hooks (GeneratePublishTopic, OnSend/OnPublish, modify func) and the publisher succeed; OnHandle, when set, is the documented pass-through calling params.Handler.Handle(params.Message.Context(), value)",
			"ProtobufMarshaler with DisableStdProtoFallback is only used with gogo types (it cannot decode google.golang.org/protobuf types by design)",
			"malformed is decided by the reference codec: decode error => expect Nack and no invocation; decodable garbage => expect an invocation with the decoded value",
			"never-settled / never-returning is decided by the quiescence detector, not by a time-out",
			"\"the handler's context exposes the original message\" = cqrs.OriginalMessageFromCtx(ctx) is the *message.Message being handled (pointer identity), whatever values the incoming message's context already carried; nothing is demanded about the other values of the context",
			"a handler (and an OnHandle hook, once the wrapped handler returned) may change and keep the value it was handed - it is a pointer to a value decoded for that invocation; \"a value equal to the one sent\" is judged on a deep copy taken at handler entry, so each invocation (next handler of the group, same handler on the redelivered copy, next message) must see the sent value whatever earlier invocations did to theirs. A write through a retained pointer is performed at the next handler/hook entry of the same subscription: for correct code it cannot alias the value of the new invocation",
			"a publisher may keep a message it was given for as long as it likes and hand it (or Copy()s of it, which share the payload by design) to consumers later, also while further messages are sent through the same bus / marshaler from any goroutine: \"published once ... carrying its type name and serialized value\" and \"a value equal to the one sent\" are judged on what the stored message carries when it is consumed; only the decoded value and the name metadata are demanded to be stable, not the bytes",
			"Send / Publish are called with a context carrying the number of the send; the buses' msg.SetContext(ctx) makes it visible on the stored message, where it is used only to prefer one of several interchangeable Publish calls (never demanded)",
			"the family label of a malformed payload is bookkeeping only (counters malformed_<family> / decodable_<family>); the expected outcome always comes from the reference decode of the delivered bytes",
		},
		RaceIsViolation: true,
		Run:             run,
	})
}

var errScripted = errors.New("c15: scripted handler failure")

// ---------------------------------------------------------------------------------------------
// plan

type cfg struct {
	MK            string `json:"marshaler"` // json | proto | gogo | gogo-nofallback
	Gen           string `json:"gen"`       // default | fq | short | named-fq | named-short | custom
	LegacyCmdBus  bool   `json:"legacy_cmd_bus,omitempty"`
	LegacyEvtBus  bool   `json:"legacy_evt_bus,omitempty"`
	LegacyCmdProc bool   `json:"legacy_cmd_proc,omitempty"`
	LegacyEvtProc bool   `json:"legacy_evt_proc,omitempty"`
	AckCmdErr     bool   `json:"ack_cmd_err"`
	AckUnkEvt     bool   `json:"ack_unknown_evt"`
	AckUnkGrp     bool   `json:"ack_unknown_grp"`
	OnHandleCmd   bool   `json:"on_handle_cmd,omitempty"`
	OnHandleEvt   bool   `json:"on_handle_evt,omitempty"`
	OnHandleGrp   bool   `json:"on_handle_grp,omitempty"`
	BusHooks      bool   `json:"bus_hooks,omitempty"`
	TopicByName   bool   `json:"topic_by_name"`
	OneByOne      bool   `json:"add_one_by_one,omitempty"`
	SendMode      string `json:"send_mode"`         // seq | conc (burst.go)
	Senders       int    `json:"senders,omitempty"` // goroutines sharing the two buses (conc)
	Extras        int    `json:"extra_sends"`       // further sends of the burst: only stored by the publisher, never consumed
	Overlap       int    `json:"overlap_sends"`     // sends planned for the time the processors are handling the stored messages
}

var generators = []string{"default", "fq", "short", "named-fq", "named-short", "custom"}

func (c *cfg) name(t *tdef) string {
	switch c.Gen {
	case "short":
		return t.short
	case "named-fq":
		if t.named != "" {
			return t.named
		}
		return t.fq
	case "named-short":
		if t.named != "" {
			return t.named
		}
		return t.short
	case "custom":
		return "x:" + t.custom
	}
	return t.fq
}

func (c *cfg) family() []*tdef {
	switch c.MK {
	case "json":
		return jsonTypes
	case "proto":
		return stdTypes
	case "gogo":
		return append(append([]*tdef(nil), gogoTypes...), stdTypes...)
	}
	return gogoTypes
}

func (c *cfg) marshaler(newUUID func() string) cqrs.CommandEventMarshaler {
	var g func(v interface{}) string
	switch c.Gen {
	case "fq":
		g = cqrs.FullyQualifiedStructName
	case "short":
		g = cqrs.StructName
	case "named-fq":
		g = cqrs.NamedStruct(cqrs.FullyQualifiedStructName)
	case "named-short":
		g = cqrs.NamedStruct(cqrs.StructName)
	case "custom":
		g = customGen
	}
	switch c.MK {
	case "json":
		return cqrs.JSONMarshaler{NewUUID: newUUID, GenerateName: g}
	case "proto":
		return cqrs.ProtoMarshaler{NewUUID: newUUID, GenerateName: g}
	case "gogo":
		return cqrs.ProtobufMarshaler{NewUUID: newUUID, GenerateName: g}
	}
	return cqrs.ProtobufMarshaler{NewUUID: newUUID, GenerateName: g, DisableStdProtoFallback: true}
}

// smsg is one message of the stream.
type smsg struct {
	No      int
	Stream  string // cmd | evt
	Kind    string // typed | randname | malformed | foreign
	T       *tdef  // type of the value / of the name carried (nil for foreign)
	Name    string // value of the "name" metadata ("" when absent)
	HasName bool
	ViaBus  bool
	ByValue bool
	Bad     string // family of the corruption (malformed only)
	sent    any
	orig    *message.Message // reference copy (harness-owned bytes): for a bus message, the snapshot taken inside Publish
	live    *message.Message // the very message the bus handed to the publisher (nil for harness-built messages)
	snap    *vlib.MsgSnap    // its value as snapshotted inside Publish
	busCtx  context.Context  // context of the message as the real bus published it (only when sent with a value-carrying context)
}

type hdef struct {
	Idx     int
	T       *tdef
	Name    string // expected type name under the case's generator
	HName   string
	Generic bool
	Mut     string // what the handler does to the value it received, after the entry snapshot: none | scalar | inplace | grow | replace | zero | all
	Retain  bool   // the handler keeps the pointer; the harness mutates it at the following boundaries of the subscription
	sub     *subDef
}

type inv struct {
	H       int
	V       any
	Fail    bool
	OrigOK  bool
	OrigNil bool
}

type copyObs struct {
	Settle string
	Ctx    string // what the context of the delivered copy carried (see incomingCtx)
	Invs   []inv
	Kept   string // "" or how the stored message differed from its Publish-time snapshot when this copy was handed over
	Live   bool   // the copy shares the payload of the stored message
}

type deliv struct {
	M   *smsg
	R   int
	Obs []copyObs // guarded by sub.mu
}

type subDef struct {
	Kind string // cmd | evt | grp
	Key  string // router handler name (handler name / group name)
	H    []*hdef
	D    []*deliv
	vsub *vlib.Sub

	r    *vlib.Rand         // the driver goroutine's own PRNG
	pool []*message.Message // messages of the case: candidates for a foreign "original message" (never delivered themselves)

	mu          sync.Mutex
	cur         *message.Message
	lastCtx     context.Context // the context the most recent handler invocation of this subscription received
	curInvs     []inv
	calls       map[string]int
	unsolicited []inv
	aborted     bool
	onHandle    int

	// handlers that own their value (mutate.go); all guarded by mu
	HookMut                              string         // what the OnHandle hook does to params.Event after the wrapped handler returned
	HookRetain                           bool           // the hook keeps params.Event (after the wrapped handler returned)
	hr                                   *vlib.Rand     // PRNG of the handler side (handlers of one subscription run one at a time)
	retained                             []retainedV    // pointers kept by earlier invocations (bounded)
	keptChecks, liveCopies, bytesChanged int            // hand-over comparisons of stored bus messages (burst.go)
	copySeq                              int            // number of the copy being delivered
	curMut                               map[*tdef]bool // types whose value an invocation of the current copy changed
	mutSeen                              map[string]int // "uuid|type" -> copySeq of the first effective mutation
	ms                                   mutStats
}

type retainedV struct {
	v any
	t *tdef
}

type mutStats struct {
	snapshots, mutEff, mutNoop, retainedN, retainedMut, retainedEff, hookMut, afterGroupMut, afterRedelivMut int
}

const maxRetained = 5

// touchRetained performs the "later" mutations through the pointers earlier invocations kept. Called with mu held at
// every boundary of the subscription (OnHandle entry, handler entry before the snapshot).
func (s *subDef) touchRetained() {
	for _, rv := range s.retained {
		s.ms.retainedMut++
		if mutate(s.hr, rv.v, rv.t, "all") {
			s.ms.retainedEff++
		}
	}
}

func (s *subDef) retain(v any, t *tdef) {
	for _, rv := range s.retained {
		if rv.v == v {
			return
		}
	}
	s.ms.retainedN++
	s.retained = append(s.retained, retainedV{v, t})
	if len(s.retained) > maxRetained {
		s.retained = s.retained[1:]
	}
}

// noteMutation records that the value of type t handed out for the current copy was changed by its receiver.
func (s *subDef) noteMutation(t *tdef) {
	if s.cur == nil {
		return
	}
	if s.curMut == nil {
		s.curMut = map[*tdef]bool{}
	}
	s.curMut[t] = true
	if s.mutSeen == nil {
		s.mutSeen = map[string]int{}
	}
	k := s.cur.UUID + "|" + t.key
	if _, ok := s.mutSeen[k]; !ok {
		s.mutSeen[k] = s.copySeq
	}
}

type caseState struct {
	topicTag atomic.Pointer[string]

	e     *vlib.Env
	c     cfg
	fam   []*tdef
	msgs  []*smsg
	subs  []*subDef
	hs    []*hdef
	failN map[string]int // "hidx|uuid" -> number of initial failing invocations (read-only while running)
	uuidN atomic.Int64

	// the sending side (burst.go)
	pub       *vlib.Pub
	cbus      *cqrs.CommandBus
	ebus      *cqrs.EventBus
	hookCalls atomic.Int32
	sends     []*bsend      // every Send/Publish of the case, in planning order
	tick      chan struct{} // poked at every hand-over / handler entry: paces the overlap sends (nil without overlap)
	ks        keptStats
}

func fkey(h int, uuid string) string { return fmt.Sprintf("%d|%s", h, uuid) }

func (cs *caseState) newUUID() string {
	return fmt.Sprintf("%s-b%d", cs.e.ID(), cs.uuidN.Add(1))
}

func badPayload(r *vlib.Rand, codec string, good []byte, t *tdef) (string, []byte) {
	if codec == "json" {
		return badJSON(r, good, t)
	}
	return badProto(r, good)
}

func mutateName(r *vlib.Rand, n string) string {
	switch r.Intn(7) {
	case 0:
		// flip the case of the first letter
		for i, c := range n {
			if c >= 'a' && c <= 'z' {
				return n[:i] + strings.ToUpper(string(c)) + n[i+1:]
			}
			if c >= 'A' && c <= 'Z' {
				return n[:i] + strings.ToLower(string(c)) + n[i+1:]
			}
		}
		return n + "!"
	case 1:
		return n + " "
	case 2:
		return "*" + n
	case 3:
		if i := strings.LastIndex(n, "."); i >= 0 {
			return n[i+1:] + "."
		}
		return n + "."
	case 4:
		return "nobody.Handles"
	case 5:
		return n + n
	}
	return " " + n
}

func plan(e *vlib.Env) *caseState {
	r := e.R
	cs := &caseState{e: e, failN: map[string]int{}}
	c := &cs.c
	c.MK = []string{"json", "json", "proto", "proto", "gogo", "gogo-nofallback"}[r.Intn(6)]
	c.Gen = generators[r.Intn(len(generators))]
	c.LegacyCmdBus, c.LegacyEvtBus = r.Chance(0.25), r.Chance(0.25)
	c.LegacyCmdProc, c.LegacyEvtProc = r.Chance(0.25), r.Chance(0.25)
	c.AckCmdErr, c.AckUnkEvt, c.AckUnkGrp = r.Bool(), r.Bool(), r.Bool()
	c.OnHandleCmd, c.OnHandleEvt, c.OnHandleGrp = r.Chance(0.3), r.Chance(0.3), r.Chance(0.3)
	c.BusHooks = r.Bool()
	c.TopicByName = r.Bool()
	c.OneByOne = r.Bool()
	c.SendMode = "seq"
	if r.Bool() {
		c.SendMode, c.Senders = "conc", r.Range(2, 4)
	}
	c.Extras = []int{0, 3, 6, 12, 24}[r.Intn(5)]
	if r.Chance(0.4) {
		c.Overlap = r.Range(4, 16)
	}
	cs.fam = c.family()
	fam := cs.fam

	// registry ---------------------------------------------------------------------------------
	addH := func(s *subDef, t *tdef, hname string) {
		h := &hdef{Idx: len(cs.hs), T: t, Name: c.name(t), HName: hname, Generic: r.Bool(), sub: s, Mut: "none"}
		if r.Chance(0.55) {
			h.Mut = mutModes[r.Intn(len(mutModes))]
		}
		h.Retain = r.Chance(0.3)
		cs.hs = append(cs.hs, h)
		s.H = append(s.H, h)
	}
	// commands: one handler per command name
	seen := map[string]bool{}
	perm := r.Perm(len(fam))
	nc := r.Range(1, 4)
	for _, ti := range perm {
		t := fam[ti]
		if seen[c.name(t)] {
			continue
		}
		seen[c.name(t)] = true
		key := fmt.Sprintf("%s.c%d", e.ID(), len(cs.subs))
		s := &subDef{Kind: "cmd", Key: key, calls: map[string]int{}}
		addH(s, t, key)
		cs.subs = append(cs.subs, s)
		if nc--; nc == 0 {
			break
		}
	}
	// events: any number of handlers per event type
	for i, n := 0, r.Range(1, 4); i < n; i++ {
		key := fmt.Sprintf("%s.e%d", e.ID(), len(cs.subs))
		s := &subDef{Kind: "evt", Key: key, calls: map[string]int{}}
		addH(s, fam[r.Intn(len(fam))], key)
		cs.subs = append(cs.subs, s)
	}
	// groups: ordered lists, duplicates welcome
	for i, n := 0, r.Range(1, 2); i < n; i++ {
		key := fmt.Sprintf("%s.g%d", e.ID(), len(cs.subs))
		s := &subDef{Kind: "grp", Key: key, calls: map[string]int{}}
		pool := []*tdef{fam[r.Intn(len(fam))], fam[r.Intn(len(fam))], fam[r.Intn(len(fam))]}
		for j, m := 0, r.Range(1, 5); j < m; j++ {
			if j > 0 && r.Chance(0.15) {
				// the very same handler object registered once more in the group
				s.H = append(s.H, s.H[r.Intn(len(s.H))])
				continue
			}
			addH(s, pool[r.Intn(len(pool))], "")
		}
		cs.subs = append(cs.subs, s)
	}

	for _, s := range cs.subs {
		s.HookMut = "none"
		if r.Chance(0.5) {
			s.HookMut = mutModes[r.Intn(len(mutModes))]
		}
		s.HookRetain = r.Chance(0.3)
	}

	// stream ------------------------------------------------------------------------------------
	handled := map[string][]*tdef{"cmd": nil, "evt": nil}
	for _, s := range cs.subs {
		st := "evt"
		if s.Kind == "cmd" {
			st = "cmd"
		}
		for _, h := range s.H {
			handled[st] = append(handled[st], h.T)
		}
	}
	for _, stream := range []string{"cmd", "evt"} {
		for i, n := 0, r.Range(4, 9); i < n; i++ {
			m := &smsg{No: len(cs.msgs), Stream: stream}
			// bias towards handled types so that handlers do get invoked
			var t *tdef
			if r.Chance(0.6) {
				t = handled[stream][r.Intn(len(handled[stream]))]
			} else {
				t = fam[r.Intn(len(fam))]
			}
			m.T = t
			m.sent = normalise(t, t.gen(r))
			switch x := r.Intn(100); {
			case x < 52:
				m.Kind, m.HasName, m.Name = "typed", true, c.name(t)
				m.ViaBus = r.Chance(0.75)
				m.ByValue = !t.ptrOnly && r.Bool()
			case x < 67:
				m.Kind, m.HasName, m.Name = "randname", true, mutateName(r, c.name(t))
			case x < 87:
				m.Kind, m.HasName, m.Name = "malformed", true, c.name(t)
			default:
				m.Kind = "foreign"
			}
			cs.msgs = append(cs.msgs, m)
		}
	}

	// deliveries and failure script -----------------------------------------------------------
	for _, s := range cs.subs {
		st := "evt"
		if s.Kind == "cmd" {
			st = "cmd"
		}
		var pool, match []*smsg
		for _, m := range cs.msgs {
			if m.Stream != st {
				continue
			}
			pool = append(pool, m)
			for _, h := range s.H {
				if m.HasName && m.Name == h.Name {
					match = append(match, m)
					break
				}
			}
		}
		for i, n := 0, r.Range(3, 8); i < n; i++ {
			var m *smsg
			if len(match) > 0 && r.Chance(0.55) {
				m = match[r.Intn(len(match))]
			} else {
				m = pool[r.Intn(len(pool))]
			}
			s.D = append(s.D, &deliv{M: m, R: r.Intn(4)})
		}
	}
	return cs
}

// scriptFailures is called once the UUIDs are known (after the bus phase).
func (cs *caseState) scriptFailures() {
	r := cs.e.R
	for _, s := range cs.subs {
		for _, d := range s.D {
			for _, h := range s.H {
				k := fkey(h.Idx, d.M.orig.UUID)
				if _, ok := cs.failN[k]; ok {
					continue
				}
				n := 0
				if r.Chance(0.3) {
					n = []int{1, 1, 2, 99}[r.Intn(4)]
				}
				cs.failN[k] = n
			}
		}
	}
}

// ---------------------------------------------------------------------------------------------
// bus phase

func (cs *caseState) topic(kind, name string) string {
	// the configured topic function may depend on more than the name (e.g. a per-tenant topic computed from the value):
	// cs.topicTag changes between sends of the same type, so the bus must ask the configuration every time
	tag := ""
	if t := cs.topicTag.Load(); t != nil {
		tag = *t
	}
	return cs.topicFor(kind, name, tag)
}

func (cs *caseState) topicFor(kind, name, tag string) string {
	if tag != "" {
		tag = "/" + tag
	}
	if cs.c.TopicByName {
		return cs.e.ID() + "/" + kind + "/" + name + tag
	}
	return cs.e.ID() + "/" + kind + tag
}

// ---------------------------------------------------------------------------------------------
// processor phase

func (cs *caseState) handlerFn(h *hdef) hfn {
	return func(ctx context.Context, v any) error {
		s := h.sub
		cs.poke()
		s.mu.Lock()
		defer s.mu.Unlock()
		// pointers kept by earlier invocations are written through now ("later" for them, "before" for this one) ...
		s.touchRetained()
		// ... and what this invocation received is recorded as a deep snapshot before the handler body touches it
		in := inv{H: h.Idx, V: clone(v)}
		s.ms.snapshots++
		s.lastCtx = ctx
		om := cqrs.OriginalMessageFromCtx(ctx)
		in.OrigNil = om == nil
		in.OrigOK = om != nil && om == s.cur
		if s.cur == nil {
			s.unsolicited = append(s.unsolicited, in)
			return nil
		}
		k := fkey(h.Idx, s.cur.UUID)
		n := s.calls[k]
		s.calls[k] = n + 1
		in.Fail = n < cs.failN[k]
		s.curInvs = append(s.curInvs, in)
		if s.curMut[h.T] {
			s.ms.afterGroupMut++
		}
		if seq, ok := s.mutSeen[s.cur.UUID+"|"+h.T.key]; ok && seq < s.copySeq {
			s.ms.afterRedelivMut++
		}
		// the handler body: the value is the handler's own
		if h.Mut != "none" {
			if mutate(s.hr, v, h.T, h.Mut) {
				s.ms.mutEff++
				s.noteMutation(h.T)
			} else {
				s.ms.mutNoop++
			}
		}
		if h.Retain {
			s.retain(v, h.T)
		}
		if in.Fail {
			return errScripted
		}
		return nil
	}
}

func (cs *caseState) subByKey(key string) *subDef {
	for _, s := range cs.subs {
		if s.Key == key {
			return s
		}
	}
	return nil
}

func (cs *caseState) newSub(key string) (message.Subscriber, error) {
	s := cs.subByKey(key)
	if s == nil {
		return nil, fmt.Errorf("c15: subscriber requested for unknown handler %q", key)
	}
	if s.vsub != nil {
		return nil, fmt.Errorf("c15: second subscriber requested for %q", key)
	}
	s.vsub = &vlib.Sub{Name: key}
	return s.vsub, nil
}

func (cs *caseState) build(router *message.Router) error {
	c := &cs.c
	mar := c.marshaler(cs.newUUID)
	var cmdH []cqrs.CommandHandler
	var evtH []cqrs.EventHandler
	for _, s := range cs.subs {
		switch s.Kind {
		case "cmd":
			h := s.H[0]
			if h.Generic {
				cmdH = append(cmdH, h.T.fac.cmd(h.HName, cs.handlerFn(h)))
			} else {
				cmdH = append(cmdH, &reflHandler{name: h.HName, rt: h.T.rt, f: cs.handlerFn(h)})
			}
		case "evt":
			h := s.H[0]
			if h.Generic {
				evtH = append(evtH, h.T.fac.evt(h.HName, cs.handlerFn(h)))
			} else {
				evtH = append(evtH, &reflHandler{name: h.HName, rt: h.T.rt, f: cs.handlerFn(h)})
			}
		}
	}
	// around is the OnHandle hook of all three processors: the documented pass-through, which - like a handler - may
	// change or keep the value AFTER the wrapped handler returned (never before: what the handler sees is watermill's doing).
	around := func(key string, ev any, call func() error) error {
		s := cs.subByKey(key)
		if s == nil {
			return call()
		}
		s.mu.Lock()
		s.onHandle++
		s.touchRetained()
		s.mu.Unlock()
		err := call()
		s.mu.Lock()
		defer s.mu.Unlock()
		var t *tdef
		if rt := reflect.TypeOf(ev); rt != nil && rt.Kind() == reflect.Ptr {
			t = allTypes[rt.Elem()]
		}
		if t == nil {
			return err
		}
		if s.HookMut != "none" {
			s.ms.hookMut++
			if mutate(s.hr, ev, t, s.HookMut) {
				s.noteMutation(t)
			}
		}
		if s.HookRetain {
			s.retain(ev, t)
		}
		return err
	}

	// command processor
	if c.LegacyCmdProc {
		cp, err := cqrs.NewCommandProcessor(cmdH,
			func(n string) string { return cs.topic("cmd", n) },
			func(handlerName string) (message.Subscriber, error) { return cs.newSub(handlerName) },
			mar, watermill.NopLogger{})
		if err != nil {
			return err
		}
		if err := cp.AddHandlersToRouter(router); err != nil {
			return err
		}
	} else {
		conf := cqrs.CommandProcessorConfig{
			GenerateSubscribeTopic: func(p cqrs.CommandProcessorGenerateSubscribeTopicParams) (string, error) {
				return cs.topic("cmd", p.CommandName), nil
			},
			SubscriberConstructor: func(p cqrs.CommandProcessorSubscriberConstructorParams) (message.Subscriber, error) {
				return cs.newSub(p.HandlerName)
			},
			Marshaler:                mar,
			AckCommandHandlingErrors: c.AckCmdErr,
		}
		if c.OnHandleCmd {
			conf.OnHandle = func(p cqrs.CommandProcessorOnHandleParams) error {
				return around(p.Handler.HandlerName(), p.Command, func() error { return p.Handler.Handle(p.Message.Context(), p.Command) })
			}
		}
		cp, err := cqrs.NewCommandProcessorWithConfig(router, conf)
		if err != nil {
			return err
		}
		if c.OneByOne {
			for _, h := range cmdH {
				if _, err := cp.AddHandler(h); err != nil {
					return err
				}
			}
		} else if err := cp.AddHandlers(cmdH...); err != nil {
			return err
		}
	}

	// event processor
	if c.LegacyEvtProc {
		ep, err := cqrs.NewEventProcessor(evtH,
			func(n string) string { return cs.topic("evt", n) },
			func(handlerName string) (message.Subscriber, error) { return cs.newSub(handlerName) },
			mar, watermill.NopLogger{})
		if err != nil {
			return err
		}
		if err := ep.AddHandlersToRouter(router); err != nil {
			return err
		}
	} else {
		conf := cqrs.EventProcessorConfig{
			GenerateSubscribeTopic: func(p cqrs.EventProcessorGenerateSubscribeTopicParams) (string, error) {
				return cs.topic("evt", p.EventName), nil
			},
			SubscriberConstructor: func(p cqrs.EventProcessorSubscriberConstructorParams) (message.Subscriber, error) {
				return cs.newSub(p.HandlerName)
			},
			Marshaler:         mar,
			AckOnUnknownEvent: c.AckUnkEvt,
		}
		if c.OnHandleEvt {
			conf.OnHandle = func(p cqrs.EventProcessorOnHandleParams) error {
				return around(p.Handler.HandlerName(), p.Event, func() error { return p.Handler.Handle(p.Message.Context(), p.Event) })
			}
		}
		ep, err := cqrs.NewEventProcessorWithConfig(router, conf)
		if err != nil {
			return err
		}
		if c.OneByOne {
			for _, h := range evtH {
				if _, err := ep.AddHandler(h); err != nil {
					return err
				}
			}
		} else if err := ep.AddHandlers(evtH...); err != nil {
			return err
		}
	}

	// event group processor
	gconf := cqrs.EventGroupProcessorConfig{
		GenerateSubscribeTopic: func(p cqrs.EventGroupProcessorGenerateSubscribeTopicParams) (string, error) {
			return cs.topic("grp", p.EventGroupName), nil
		},
		SubscriberConstructor: func(p cqrs.EventGroupProcessorSubscriberConstructorParams) (message.Subscriber, error) {
			return cs.newSub(p.EventGroupName)
		},
		Marshaler:         mar,
		AckOnUnknownEvent: c.AckUnkGrp,
	}
	if c.OnHandleGrp {
		gconf.OnHandle = func(p cqrs.EventGroupProcessorOnHandleParams) error {
			return around(p.GroupName, p.Event, func() error { return p.Handler.Handle(p.Message.Context(), p.Event) })
		}
	}
	gp, err := cqrs.NewEventGroupProcessorWithConfig(router, gconf)
	if err != nil {
		return err
	}
	for _, s := range cs.subs {
		if s.Kind != "grp" {
			continue
		}
		var hs []cqrs.GroupEventHandler
		objs := map[*hdef]cqrs.GroupEventHandler{} // an hdef listed twice is ONE handler object registered twice
		for _, h := range s.H {
			if o, ok := objs[h]; ok {
				hs = append(hs, o)
				continue
			}
			if h.Generic {
				objs[h] = h.T.fac.grp(cs.handlerFn(h))
			} else {
				objs[h] = &reflHandler{rt: h.T.rt, f: cs.handlerFn(h)}
			}
			hs = append(hs, objs[h])
		}
		if err := gp.AddHandlersGroup(s.Key, hs...); err != nil {
			return err
		}
	}
	for _, s := range cs.subs {
		if s.vsub == nil {
			return fmt.Errorf("c15: no subscriber was requested for %s", s.Key)
		}
	}
	return nil
}

// harnessKey is a context key of the harness' own ("foreign values" in an incoming message's context).
type harnessKey struct{}

// incomingCtx decides what the context of the next delivered copy carries. A consumed message's context is
// whatever the transport hands over: in-process / synchronous Pub/Subs and context-preserving transports pass the
// context of the PUBLISHED message along, and the documented idiom is to publish from a handler with the context the
// handler received (bus.Send(ctx, ...) / bus.Publish(ctx, ...) do msg.SetContext(ctx)) - so an incoming context may
// already hold values, including the "original message" of the message whose handler caused this one.
//
//	plain            the subscription's context
//	foreign-value    + values under the harness' own key and under the plain string key "original_message"
//	foreign-original + cqrs.CtxWithOriginalMessage(ctx, X), X another message of the case, another copy of the same
//	                 message (same UUID) or the previously delivered copy
//	handler-ctx      the very context the last handler invocation of this subscription received (built by the real
//	                 processor: original message = an earlier copy, plus the Router's handler values)
//	bus-ctx          the context of the message as the real bus published it when called with a context that
//	                 carries the original message of an outer message
//
// Whatever came in, the handler's context must expose the message being handled.
func (s *subDef) incomingCtx(base context.Context, d *deliv, prev *message.Message) (string, context.Context) {
	r := s.r
	foreign := func() *message.Message {
		switch x := r.Intn(4); {
		case x == 0 && prev != nil:
			return prev
		case x == 1:
			return d.M.orig.Copy()
		}
		return s.pool[r.Intn(len(s.pool))]
	}
	x := r.Intn(100)
	switch {
	case x < 30:
		return "plain", base
	case x < 45:
		ctx := context.WithValue(base, harnessKey{}, "incoming")
		return "foreign-value", context.WithValue(ctx, "original_message", foreign()) //nolint: a look-alike key on purpose
	case x < 60:
		s.mu.Lock()
		lc := s.lastCtx
		s.mu.Unlock()
		if lc != nil {
			return "handler-ctx", lc
		}
	case x < 72:
		if d.M.busCtx != nil {
			return "bus-ctx", d.M.busCtx
		}
	}
	ctx := cqrs.CtxWithOriginalMessage(context.WithValue(base, harnessKey{}, "incoming"), foreign())
	if r.Bool() {
		ctx = context.WithValue(ctx, harnessKey{}, "outer") // the original message is not the outermost value
	}
	return "foreign-original", ctx
}

func (s *subDef) drive(cs *caseState, sp *vlib.Subscription) {
	var prev *message.Message
	for _, d := range s.D {
		for n := 0; ; n++ {
			cp := d.M.orig.Copy()
			live, same, kept := d.M.live != nil, true, ""
			if live {
				// the stored message is handed over the way GoChannel (or any in-process transport) does it: Copy() shares
				// the payload slice the marshaler produced. (b) it must still carry what it was published with.
				cp = d.M.live.Copy()
				cp.UUID = d.M.orig.UUID
				name, has := cp.Metadata["name"]
				same, kept = cs.keptDiff(cp.Payload, name, has, d.M.snap, d.M.T, d.M.sent)
			}
			mode, ctx := s.incomingCtx(sp.Ctx, d, prev)
			cp.SetContext(ctx)
			prev = cp
			s.mu.Lock()
			s.cur, s.curInvs = cp, nil
			s.copySeq++
			s.curMut = nil
			if live {
				s.keptChecks++
				s.liveCopies++
				if !same && kept == "" {
					s.bytesChanged++
				}
			}
			s.mu.Unlock()
			cs.poke()
			if !sp.Send(cp) {
				s.mu.Lock()
				s.cur, s.aborted = nil, true
				s.mu.Unlock()
				return
			}
			st := ""
			select {
			case <-cp.Acked():
				st = "ack"
			case <-cp.Nacked():
				st = "nack"
			case <-sp.Ended():
			}
			s.mu.Lock()
			d.Obs = append(d.Obs, copyObs{Settle: st, Ctx: mode, Invs: s.curInvs, Kept: kept, Live: live})
			s.cur, s.curInvs = nil, nil
			if st == "" {
				s.aborted = true
			}
			s.mu.Unlock()
			if st == "" {
				return
			}
			if st == "ack" || n >= d.R {
				break
			}
		}
	}
}

// ---------------------------------------------------------------------------------------------
// reference dispatch

type expInv struct {
	h    *hdef
	v    any
	fail bool
}

type expCopy struct {
	invs   []expInv
	settle string
	cause  string // unknown | malformed | handler-error | success
}

func (cs *caseState) ackUnknown(s *subDef) bool {
	switch s.Kind {
	case "cmd":
		return true // "Messages of other types are acknowledged ... (commands: acknowledged)"
	case "evt":
		return cs.c.AckUnkEvt || cs.c.LegacyEvtProc // the deprecated constructor documents AckOnUnknownEvent=true
	}
	return cs.c.AckUnkGrp
}

func settleOf(ack bool) string {
	if ack {
		return "ack"
	}
	return "nack"
}

// ref predicts what one delivered copy of m must cause on subscription s.
func (cs *caseState) ref(s *subDef, m *smsg, calls map[string]int) expCopy {
	var x expCopy
	handled := false
	for _, h := range s.H {
		if !m.HasName || m.Name != h.Name {
			continue // a handler is invoked iff the message's type name matches the handler's type
		}
		v, err := decode(cs.c.MK, m.orig.Payload, h.T)
		if err != nil {
			x.settle, x.cause = "nack", "malformed"
			return x
		}
		k := fkey(h.Idx, m.orig.UUID)
		n := calls[k]
		calls[k] = n + 1
		fail := n < cs.failN[k]
		x.invs = append(x.invs, expInv{h, v, fail})
		if fail { // stop at the first error
			x.settle, x.cause = settleOf(s.Kind == "cmd" && cs.c.AckCmdErr && !cs.c.LegacyCmdProc), "handler-error"
			return x
		}
		handled = true
	}
	if handled {
		x.settle, x.cause = "ack", "success"
	} else {
		x.settle, x.cause = settleOf(cs.ackUnknown(s)), "unknown"
	}
	return x
}

func seqStr(hs []int) string { return fmt.Sprint(hs) }

func isPrefix(a, b []int) bool {
	if len(a) > len(b) {
		return false
	}
	for i := range a {
		if a[i] != b[i] {
			return false
		}
	}
	return true
}

func trunc(b []byte) string {
	if len(b) > 60 {
		return strings.ToValidUTF8(string(b[:60]), "?") + "..."
	}
	return string(b)
}

func (cs *caseState) describe(s *subDef, d *deliv) string {
	var hs []string
	for _, h := range s.H {
		hs = append(hs, fmt.Sprintf("h%d:%s(%s)", h.Idx, h.T.key, h.Name))
	}
	fl := ""
	switch s.Kind {
	case "cmd":
		fl = fmt.Sprintf("AckCommandHandlingErrors=%v legacy=%v", cs.c.AckCmdErr, cs.c.LegacyCmdProc)
	case "evt":
		fl = fmt.Sprintf("AckOnUnknownEvent=%v legacy=%v", cs.c.AckUnkEvt, cs.c.LegacyEvtProc)
	default:
		fl = fmt.Sprintf("AckOnUnknownEvent=%v", cs.c.AckUnkGrp)
	}
	return fmt.Sprintf("%s processor %s [%s] marshaler=%s/%s handlers=%v; message #%d kind=%s name=%q(present=%v) payload=%q uuid=%s",
		s.Kind, s.Key, fl, cs.c.MK, cs.c.Gen, hs, d.M.No, d.M.Kind, d.M.Name, d.M.HasName, trunc(d.M.orig.Payload), d.M.orig.UUID)
}

type outcome struct {
	Sub   string `json:"sub"`
	Msg   int    `json:"msg"`
	Kind  string `json:"kind"`
	Trace string `json:"trace"`
	Ctx   string `json:"ctx"`
}

// judge compares everything observed on s with the reference. It returns the outcome trace.
func (cs *caseState) judge(s *subDef, res *vlib.Result, st *stats) []outcome {
	s.mu.Lock()
	defer s.mu.Unlock()
	var out []outcome
	calls := map[string]int{}
	for _, d := range s.D {
		var trace, ctxs []string
		for n := 0; ; n++ {
			x := cs.ref(s, d.M, calls)
			if n >= len(d.Obs) {
				if !s.aborted {
					res.Verdict, res.Reason = vlib.HarnessError, "driver stopped early without abort: "+cs.describe(s, d)
				}
				return out
			}
			o := d.Obs[n]
			where := fmt.Sprintf("%s, copy %d (incoming context: %s)", cs.describe(s, d), n, o.Ctx)
			res.Events += 1 + len(o.Invs)
			st.copies++
			st.invocations += len(o.Invs)
			if o.Live {
				res.Events++
			}
			if o.Kept != "" {
				res.Fail("published-value-kept", "%s: the message the bus published no longer carried what it was published with when this copy (stored.Copy(): same payload slice) was handed to the processor: %s [handlers invoked %d, settlement %q; %d sends in the case, %d planned during handling]",
					where, o.Kept, len(o.Invs), o.Settle, len(cs.sends), cs.c.Overlap)
				return out
			}
			if o.Settle == "" {
				res.Fail("unsettled", "%s: the copy was neither acked nor nacked (invocations %d)", where, len(o.Invs))
				return out
			}
			var obsSeq, expSeq []int
			for _, in := range o.Invs {
				obsSeq = append(obsSeq, in.H)
				if h := cs.hs[in.H]; !d.M.HasName || h.Name != d.M.Name {
					res.Fail("invoked-nonmatching", "%s: handler h%d for type name %q was invoked with %s", where, h.Idx, h.Name, show(in.V))
					return out
				}
			}
			for _, ei := range x.invs {
				expSeq = append(expSeq, ei.h.Idx)
			}
			if seqStr(obsSeq) != seqStr(expSeq) {
				switch {
				case isPrefix(obsSeq, expSeq):
					res.Fail("not-invoked", "%s: matching handler h%d was not invoked (invoked %v, expected %v; settlement %s)", where, expSeq[len(obsSeq)], obsSeq, expSeq, o.Settle)
				case isPrefix(expSeq, obsSeq) && x.cause == "malformed":
					res.Fail("invoked-malformed", "%s: the payload does not unmarshal, yet handlers %v were invoked (expected %v)", where, obsSeq, expSeq)
				case isPrefix(expSeq, obsSeq) && x.cause == "handler-error":
					res.Fail("no-stop-at-error", "%s: handler h%d returned an error, yet the handlers after it ran: invoked %v, expected %v", where, expSeq[len(expSeq)-1], obsSeq, expSeq)
				case isPrefix(expSeq, obsSeq):
					res.Fail("invoked-extra", "%s: invoked %v, expected %v", where, obsSeq, expSeq)
				default:
					res.Fail("group-order", "%s: handlers ran in order %v, registration order demands %v", where, obsSeq, expSeq)
				}
				return out
			}
			for i, in := range o.Invs {
				if !equal(in.V, x.invs[i].v) {
					res.Fail("value", "%s: handler h%d (invocation %d of %v of this copy) received %s, the message carries %s [snapshot taken at handler entry; what the handlers / the hook do to their own values: %s]", where, in.H, i+1, obsSeq, show(in.V), show(x.invs[i].v), cs.behaviours(s))
					return out
				}
				if d.M.Kind == "typed" && cs.hs[in.H].T == d.M.T && !equal(in.V, d.M.sent) {
					res.Fail("value", "%s: handler h%d (invocation %d of %v of this copy) received %s, the value sent was %s [snapshot taken at handler entry; behaviours: %s]", where, in.H, i+1, obsSeq, show(in.V), show(d.M.sent), cs.behaviours(s))
					return out
				}
				if !in.OrigOK {
					res.Fail("ctx-original", "%s: OriginalMessageFromCtx in handler h%d is not the consumed message (nil=%v)", where, in.H, in.OrigNil)
					return out
				}
				if in.Fail != x.invs[i].fail {
					res.Verdict, res.Reason = vlib.HarnessError, "failure script diverged: "+where
					return out
				}
			}
			if o.Settle != x.settle {
				res.Fail("settle-"+x.cause, "%s: the copy was %sed, expected %s (cause: %s; invoked %v)", where, o.Settle, x.settle, x.cause, obsSeq)
				return out
			}
			// statistics
			switch x.cause {
			case "unknown":
				st.unknown++
				if !d.M.HasName {
					st.foreign++
				}
			case "malformed":
				st.malformed++
				if d.M.Bad != "" {
					st.by["malformed_"+d.M.Bad]++
				} else {
					st.by["malformed_other_"+d.M.Kind]++
				}
			case "handler-error":
				st.handlerErr++
				if len(x.invs) < cs.matching(s, d.M) {
					st.groupStops++
				}
			case "success":
				st.success++
				if len(x.invs) > 1 {
					st.groupMulti++
				}
				if d.M.Kind == "malformed" || d.M.Kind == "randname" {
					st.garbageOK++
				}
				if d.M.Kind == "malformed" {
					st.by["decodable_"+d.M.Bad]++
				}
			}
			if o.Settle == "ack" {
				st.acks++
			} else {
				st.nacks++
			}
			if n > 0 {
				st.redeliveries++
			}
			st.by["copies_ctx_"+o.Ctx]++
			st.by["invocations_ctx_"+o.Ctx] += len(o.Invs)
			ctxs = append(ctxs, o.Ctx)
			trace = append(trace, fmt.Sprintf("%v%s", obsSeq, o.Settle))
			if x.settle == "ack" || n >= d.R {
				if len(d.Obs) != n+1 {
					res.Verdict, res.Reason = vlib.HarnessError, "driver delivered more copies than the script: "+where
				}
				break
			}
		}
		out = append(out, outcome{Sub: s.Kind + strings.TrimPrefix(s.Key, cs.e.ID()), Msg: d.M.No, Kind: d.M.Kind, Trace: strings.Join(trace, " "), Ctx: strings.Join(ctxs, " ")})
	}
	if len(s.unsolicited) > 0 {
		in := s.unsolicited[0]
		res.Fail("invoked-unsolicited", "%s processor %s: handler h%d was invoked with %s while no delivery was in flight", s.Kind, s.Key, in.H, show(in.V))
	}
	return out
}

// behaviours lists what the handlers (and the hook) of s do to the values they receive.
func (cs *caseState) behaviours(s *subDef) string {
	var o []string
	for _, h := range s.H {
		b := h.Mut
		if h.Retain {
			b += "+keep"
		}
		o = append(o, fmt.Sprintf("h%d:%s", h.Idx, b))
	}
	hooked := (s.Kind == "cmd" && cs.c.OnHandleCmd && !cs.c.LegacyCmdProc) || (s.Kind == "evt" && cs.c.OnHandleEvt && !cs.c.LegacyEvtProc) || (s.Kind == "grp" && cs.c.OnHandleGrp)
	if hooked {
		b := "OnHandle(after Handle):" + s.HookMut
		if s.HookRetain {
			b += "+keep"
		}
		o = append(o, b)
	}
	return strings.Join(o, " ")
}

func (cs *caseState) matching(s *subDef, m *smsg) int {
	n := 0
	for _, h := range s.H {
		if m.HasName && h.Name == m.Name {
			n++
		}
	}
	return n
}

type stats struct {
	by map[string]int // per malformed family / per incoming-context kind

	copies, invocations, unknown, foreign, malformed, handlerErr, groupStops, success, groupMulti, garbageOK, acks, nacks, redeliveries int
}

// ---------------------------------------------------------------------------------------------

func derefValue(p any) any { return reflectElem(p) }

func run(e *vlib.Env) vlib.Result {
	cs := plan(e)
	res := vlib.Result{Class: cs.c.MK + "/" + cs.c.Gen + "/" + cs.c.SendMode}
	if cs.c.Overlap > 0 {
		cs.tick = make(chan struct{}, 1)
	}
	witness := func(extra any) {
		res.Witness = map[string]any{"config": cs.c, "registry": cs.registry(), "detail": extra}
	}

	cs.busPhase(&res)
	if res.Verdict != "" {
		witness(nil)
		return res
	}
	cs.scriptFailures()

	router, err := message.NewRouter(message.RouterConfig{CloseTimeout: time.Hour}, watermill.NopLogger{})
	if err != nil {
		res.Verdict, res.Reason = vlib.HarnessError, err.Error()
		return res
	}
	if err := cs.build(router); err != nil {
		res.Verdict, res.Reason = vlib.HarnessError, "building processors: "+err.Error()
		witness(nil)
		return res
	}
	runDone := make(chan struct{})
	var runErr error
	go func() { runErr = router.Run(context.Background()); close(runDone) }()
	closeWait := vlib.WaitOpts{Watchdog: 60 * time.Second, NoTimerCheck: []string{"pubsub/sync.WaitGroupTimeout"}}
	shutdown := func() {
		closeDone := make(chan struct{})
		go func() { router.Close(); close(closeDone) }()
		if oc, dump := vlib.WaitClosed(closeDone, closeWait); oc != vlib.Done {
			res.Inconclusive("Router.Close did not return (%v)", oc)
			if res.Witness == nil {
				res.Witness = dump
			}
			return
		}
		if oc, dump := vlib.WaitClosed(runDone, closeWait); oc != vlib.Done {
			res.Inconclusive("Router.Run did not return (%v)", oc)
			if res.Witness == nil {
				res.Witness = dump
			}
		}
	}
	if oc, dump := vlib.WaitClosed(router.Running(), vlib.WD); oc != vlib.Done {
		res.Inconclusive("router did not start (%v) runErr=%v", oc, runErr)
		res.Witness = dump
		shutdown()
		return res
	}

	var pool []*message.Message
	var payloads [][]byte // rule 8: nothing on the harness side (mutating handlers included) may write into payload bytes
	for _, m := range cs.msgs {
		pool = append(pool, m.orig)
		payloads = append(payloads, append([]byte(nil), m.orig.Payload...))
	}
	for _, s := range cs.subs {
		s.r, s.pool = e.R.Fork(), pool
		s.hr = e.R.Fork()
	}
	var wg sync.WaitGroup
	for _, s := range cs.subs {
		sps := s.vsub.Subs()
		if len(sps) != 1 {
			res.Verdict, res.Reason = vlib.HarnessError, fmt.Sprintf("%s: %d subscriptions", s.Key, len(sps))
			shutdown()
			return res
		}
		wg.Add(1)
		go func(s *subDef, sp *vlib.Subscription) { defer wg.Done(); s.drive(cs, sp) }(s, sps[0])
	}
	// further sends through the same buses while the processors are handling the stored messages
	overlap := cs.overlapSends()
	callsBefore := len(cs.pub.Calls())
	stopChat, chatDone := make(chan struct{}), make(chan struct{})
	go cs.chatter(overlap, stopChat, chatDone)
	drivers := make(chan struct{})
	go func() { wg.Wait(); close(drivers) }()
	oc, dump := vlib.WaitClosed(drivers, vlib.WD)
	close(stopChat)
	chatOC, chatDump := vlib.WaitClosed(chatDone, vlib.WD)

	st := stats{by: map[string]int{}}
	var outs []outcome
	if oc == vlib.Done {
		for i, m := range cs.msgs {
			if !bytes.Equal(payloads[i], m.orig.Payload) {
				res.Verdict, res.Reason = vlib.HarnessError, fmt.Sprintf("payload bytes of message #%d changed during the run (a decoded value aliases the payload and a handler wrote into it?)", m.No)
				shutdown()
				return res
			}
		}
	}
	for _, s := range cs.subs {
		outs = append(outs, cs.judge(s, &res, &st)...)
		if res.Verdict != "" {
			break
		}
	}
	switch oc {
	case vlib.Stuck:
		res.Fail("unsettled", "a delivered message was never acked nor nacked (process quiescent)")
		if res.Witness == nil {
			res.Witness = dump
		}
	case vlib.Inconclusive:
		res.Inconclusive("deliveries did not finish before the watchdog")
	}
	if res.Verdict != "" && res.Witness == nil {
		witness(outs)
	}
	shutdown()
	if chatOC != vlib.Done {
		res.Inconclusive("a Send/Publish made while the processors were handling did not return (%v)", chatOC)
		if res.Witness == nil {
			res.Witness = chatDump
		}
	} else if oc == vlib.Done && res.Verdict == "" {
		// the sends made during handling are judged like those of the burst ...
		var ran []*bsend
		for _, b := range overlap {
			if b.done {
				ran = append(ran, b)
			}
		}
		cs.ks.overlap, cs.ks.overlapPlanned = len(ran), len(overlap)
		if len(ran) == 0 || cs.attribute(&res, ran, cs.pub.Calls()[callsBefore:]) {
			// ... and (c) after the run every message the publisher stores still carries what it was published with
			cs.keptAll(&res, "after the run (every delivery settled, Router closed)", &cs.ks.afterRun)
		}
		if res.Verdict != "" && res.Witness == nil {
			witness(outs)
		}
	}
	if oc == vlib.Done && res.Verdict == "" {
		// after the Router is closed no handler may have been invoked outside a delivery
		for _, s := range cs.subs {
			s.mu.Lock()
			if len(s.unsolicited) > 0 {
				res.Fail("invoked-unsolicited", "%s processor %s: handler invoked while no delivery was in flight", s.Kind, s.Key)
			}
			s.mu.Unlock()
		}
	}

	onHandle := 0
	var ms mutStats
	sameObj, multiSame := 0, 0
	for _, s := range cs.subs {
		s.mu.Lock()
		onHandle += s.onHandle
		ms.snapshots += s.ms.snapshots
		ms.mutEff += s.ms.mutEff
		ms.mutNoop += s.ms.mutNoop
		ms.retainedN += s.ms.retainedN
		ms.retainedMut += s.ms.retainedMut
		ms.retainedEff += s.ms.retainedEff
		ms.hookMut += s.ms.hookMut
		ms.afterGroupMut += s.ms.afterGroupMut
		ms.afterRedelivMut += s.ms.afterRedelivMut
		cs.ks.delivery += s.keptChecks
		cs.ks.liveCopies += s.liveCopies
		cs.ks.bytesChangedSameValue += s.bytesChanged
		s.mu.Unlock()
		if s.Kind == "grp" {
			seenH, seenT := map[*hdef]bool{}, map[string]int{}
			dupObj := false
			for _, h := range s.H {
				if seenH[h] {
					dupObj = true
				}
				seenH[h] = true
				seenT[h.Name]++
			}
			if dupObj {
				sameObj++
			}
			for _, n := range seenT {
				if n > 1 {
					multiSame++
					break
				}
			}
		}
	}
	res.Count("value_snapshots_at_handler_entry", ms.snapshots)
	res.Count("handler_mutations_effective", ms.mutEff)
	res.Count("handler_mutations_noop", ms.mutNoop)
	res.Count("hook_mutations_after_handle", ms.hookMut)
	res.Count("values_retained", ms.retainedN)
	res.Count("retained_mutations", ms.retainedMut)
	res.Count("retained_mutations_effective", ms.retainedEff)
	res.Count("invocations_after_same_type_value_mutated_in_same_copy", ms.afterGroupMut)
	res.Count("invocations_after_value_mutated_in_earlier_copy", ms.afterRedelivMut)
	res.Count("groups_with_several_handlers_of_one_type", multiSame)
	res.Count("groups_with_same_handler_object_twice", sameObj)
	res.Count("copies", st.copies)
	res.Count("invocations", st.invocations)
	res.Count("acks", st.acks)
	res.Count("nacks", st.nacks)
	res.Count("redeliveries", st.redeliveries)
	res.Count("copies_no_handler_matched", st.unknown)
	res.Count("copies_foreign", st.foreign)
	res.Count("copies_malformed", st.malformed)
	res.Count("copies_handler_error", st.handlerErr)
	res.Count("copies_success", st.success)
	res.Count("group_stopped_before_later_match", st.groupStops)
	res.Count("group_multi_handler_success", st.groupMulti)
	res.Count("decodable_garbage_invoked", st.garbageOK)
	for k, n := range st.by {
		res.Count(k, n)
	}
	res.Count("bus_hook_calls", int(cs.hookCalls.Load()))
	res.Count("bus_sends_in_burst", cs.ks.burst)
	res.Count("bus_sends_extra_stored_only", cs.ks.extra)
	res.Count("bus_sends_during_handling", cs.ks.overlap)
	res.Count("bus_sends_during_handling_planned", cs.ks.overlapPlanned)
	res.Count("bus_sends_attributed_by_context", cs.ks.ctxAttributed)
	res.Count("kept_checks_after_burst", cs.ks.handover)
	res.Count("kept_checks_at_hand_over", cs.ks.delivery)
	res.Count("kept_checks_after_run", cs.ks.afterRun)
	res.Count("copies_sharing_stored_payload", cs.ks.liveCopies)
	res.Count("stored_payload_bytes_changed_same_value", cs.ks.bytesChangedSameValue)
	res.Count("cases_send_"+cs.c.SendMode, 1)
	if cs.c.SendMode == "conc" {
		res.Count("sender_goroutines", cs.c.Senders)
	}
	if cs.c.Overlap > 0 {
		res.Count("cases_with_sends_during_handling", 1)
	}
	res.Count("on_handle_calls", onHandle)
	res.Count("handlers", len(cs.hs))
	res.Count("cases_"+cs.c.MK, 1)
	res.Count("cases_gen_"+cs.c.Gen, 1)

	res.NonTrivial = st.invocations > 0 && st.unknown > 0 && st.nacks > 0
	var parts []any
	parts = append(parts, fmt.Sprintf("%+v", cs.c), cs.registry())
	for _, o := range outs {
		parts = append(parts, o.Sub, o.Kind, o.Trace)
	}
	res.Sig = vlib.Sig(parts...)
	if len(outs) > 12 {
		outs = outs[:12]
	}
	res.Sample = map[string]any{"config": cs.c, "registry": cs.registry(), "stream": cs.stream(), "outcomes": outs}
	return res
}

func (cs *caseState) registry() []string {
	var o []string
	for _, s := range cs.subs {
		var hs []string
		for _, h := range s.H {
			g := "r"
			if h.Generic {
				g = "g"
			}
			if h.Mut != "none" {
				g += "/" + h.Mut
			}
			if h.Retain {
				g += "/keep"
			}
			hs = append(hs, fmt.Sprintf("h%d:%s/%s", h.Idx, h.T.key, g))
		}
		hook := ""
		if s.HookMut != "none" {
			hook = " hook:" + s.HookMut
		}
		if s.HookRetain {
			hook += " hook:keep"
		}
		o = append(o, s.Kind+strings.TrimPrefix(s.Key, cs.e.ID())+"["+strings.Join(hs, ",")+"]"+hook)
	}
	return o
}

func (cs *caseState) stream() []string {
	var o []string
	for _, m := range cs.msgs {
		src := "built"
		if m.ViaBus {
			src = "bus"
		}
		o = append(o, fmt.Sprintf("#%d %s %s %s %s name=%q", m.No, m.Stream, m.Kind, m.T.key, src, m.Name))
	}
	if len(o) > 20 {
		o = o[:20]
	}
	return o
}
