// Package c05: GoChannel — one unsettled message per subscription; blocking publish waits.
package c05

import (
	"fmt"
	"strings"

	"github.com/ThreeDotsLabs/watermill/pubsub/gochannel"

	"verifharness/props/gcw"
	"verifharness/vlib"
)

var classNames = []string{"plain", "nested", "churn", "nested+churn", "hold"}

func baseCases(tier string) int { return vlib.TierN(tier, 960, 96000) }

// hold class: one message stays unsettled for seconds (longer than any plausible internal notice/retry timer)
func holdCases(tier string) int { return vlib.TierN(tier, 24, 96) }

func genHold(e *vlib.Env) (gcw.Program, int) {
	r := e.R
	j := e.Idx - baseCases(e.Tier)
	cfgI := j % 12
	p := gcw.Program{
		Cfg: gochannel.Config{
			OutputChannelBuffer:            []int64{0, 1, 4}[cfgI%3],
			Persistent:                     (cfgI/3)%2 == 1,
			BlockPublishUntilSubscriberAck: cfgI/6 == 1,
		},
		Topics:    2,
		MetaKeys:  1,
		PayloadSz: 8,
	}
	hold := 6500
	if e.Tier == "thorough" && (j/12)%2 == 1 {
		hold = 11000
	}
	for i, n := 0, r.Range(1, 2); i < n; i++ {
		p.Pubs = append(p.Pubs, gcw.PubSpec{Topic: 0, N: r.Range(2, 4), Batch: r.Range(1, 2)})
	}
	for i, n := 0, r.Range(1, 2); i < n; i++ {
		// two consumers: while one holds the first message the other one keeps receiving - nothing may arrive
		p.Subs = append(p.Subs, gcw.SubSpec{Topic: 0, Consumers: 2, HoldFirstMs: hold, NestedTo: -1, CancelAt: -1, StopAfter: -1})
	}
	return p, 4
}

func init() {
	vlib.Register(&vlib.Prop{
		ID:    "C05",
		Level: "exploration",
		Cases: func(tier string) int { return baseCases(tier) + holdCases(tier) },
		Rule: "case i = workload class i%4 {plain, nested publish from the receive loop, Subscribe/cancel churn while publishing, both} x config (i/4)%12 {buffer 0/1/4 x persistent x blocking}; " +
			"followed by a hold class (24 quick / 96 thorough cases, all 12 configs): every subscription is read by two consumers and the first message it receives is kept unsettled for 6.5 s (thorough also 11 s), longer than any plausible internal notice/retry timer, while the second consumer keeps receiving; " +
			"1..4 publishers, subscriptions read by 1..3 consumer goroutines with delayed acks, nack sequences, 'never ack' probes, nested Publish to another topic before acking; yield/delay injection at the gochannel hook points. " +
			"Monitors: online in-flight counter per subscription (+1 at receive, -1 immediately before the harness calls Ack/Nack; must never exceed 1); blocking mode: every returned Publish call had each active subscription start its Ack before the call returned (logical stamps), " +
			"per (publisher, pre-existing subscription) first-delivery order = publish order; progress: a Publish still blocked at quiescence must be explained by a never-acking subscription. " +
			"Non-trivial: deliveries judged and (a redelivery, a never-ack probe, a nested publish, churn or >=2 publishers) present. Distinct = (class, config, program shape, hook fingerprint).",
		Assumptions: []string{
			"the in-flight counter is decremented before the harness calls Ack/Nack, so a value above 1 proves two unsettled messages",
			"nested publishes go from topic 0 to topic 1 only (no user-made cycles)",
			"a Publish blocked at quiescence is legitimate only in blocking mode while some subscription of the Pub/Sub withholds its Ack (the Pub/Sub-wide lock lets one wedged topic block the others once a Subscribe is pending); the harness then cancels exactly those subscriptions and every Publish must return",
		},
		Run: run,
	})
}

func gen(e *vlib.Env) (gcw.Program, int) {
	if e.Idx >= baseCases(e.Tier) {
		return genHold(e)
	}
	r := e.R
	class := e.Idx % 4
	cfgI := (e.Idx / 4) % 12
	nested := class == 1 || class == 3
	churn := class == 2 || class == 3
	p := gcw.Program{
		Cfg: gochannel.Config{
			OutputChannelBuffer:            []int64{0, 1, 4}[cfgI%3],
			Persistent:                     (cfgI/3)%2 == 1,
			BlockPublishUntilSubscriberAck: cfgI/6 == 1,
		},
		Topics:    2,
		MetaKeys:  1,
		PayloadSz: 8,
		YieldP:    []float64{0, 0.3, 0.6}[r.Intn(3)],
		YieldUs:   []int{0, 40, 150}[r.Intn(3)],
	}
	// Message.UUID is not an identity: a quarter of the programs use empty or equal UUIDs (see gcw.Program.UUIDs)
	p.UUIDs = []string{"", "", "empty", "same"}[vlib.HashStr(e.ID())%4]
	p.MsgCtx = vlib.HashStr(e.ID()+"/msgctx")%3 == 0 // a third of the programs publish messages that carry (cancelled, soon cancelled, live) contexts
	for i, n := 0, r.Range(1, 4); i < n; i++ {
		t := 0
		if !nested && r.Chance(0.3) {
			t = 1
		}
		p.Pubs = append(p.Pubs, gcw.PubSpec{Topic: t, N: r.Range(1, 10), Batch: r.Range(1, 2)})
	}
	neverAck := r.Chance(0.15)
	for t := 0; t < 2; t++ {
		ns := r.Range(1, 3)
		if t == 1 && !nested && r.Chance(0.5) {
			ns = 0
		}
		for i := 0; i < ns; i++ {
			s := gcw.SubSpec{Topic: t, Consumers: r.Range(1, 3), NackPct: []int{0, 0, 30, 60}[r.Intn(4)], Slow: r.Intn(5), NestedTo: -1, CancelAt: -1, StopAfter: -1}
			if nested && t == 0 && (i == 0 || r.Chance(0.5)) {
				s.NestedTo = 1
				// half of the nesting subscriptions forward the received, still unsettled message object itself
				s.NestedForward = vlib.HashStr(fmt.Sprintf("%s/forward/%d", e.ID(), i))%2 == 0
			}
			if neverAck && i == ns-1 && r.Chance(0.5) {
				s.NeverAck = true
				neverAck = false
			}
			if churn {
				switch r.Intn(4) {
				case 0:
					s.During = true
				case 1:
					s.CancelFree = true
				case 2:
					s.During, s.CancelAt = true, r.Intn(3)
				}
			}
			p.Subs = append(p.Subs, s)
		}
	}
	if h := vlib.HashStr(e.ID() + "/idle-consumer"); h%5 == 0 {
		// a consumer that settles what it received and then stops reading (nothing unsettled, nobody receiving): the next
		// delivery stays parked on the channel send. Blocking mode: Publish legitimately waits; once the harness cancels
		// that subscription (or closes the Pub/Sub) every Publish has to return.
		p.Subs = append(p.Subs, gcw.SubSpec{Topic: int(h/5) % 2, Consumers: 1, StopAfter: int(h/10) % 3, NestedTo: -1, CancelAt: -1})
	}
	if churn {
		// extra short-lived subscriptions coming and going
		for i, n := 0, r.Range(1, 3); i < n; i++ {
			p.Subs = append(p.Subs, gcw.SubSpec{Topic: r.Intn(2), During: true, Consumers: 1, CancelFree: true, NestedTo: -1, CancelAt: -1, StopAfter: -1})
		}
	}
	return p, class
}

func shape(p gcw.Program) string {
	s := fmt.Sprintf("b%d/p%v/k%v", p.Cfg.OutputChannelBuffer, p.Cfg.Persistent, p.Cfg.BlockPublishUntilSubscriberAck)
	for _, pb := range p.Pubs {
		s += fmt.Sprintf("|P%d:%d:%d", pb.Topic, pb.N, pb.Batch)
	}
	for _, sb := range p.Subs {
		s += fmt.Sprintf("|S%d:c%d:n%d:s%d:na%v:nest%d:d%v:cf%v:ca%d", sb.Topic, sb.Consumers, sb.NackPct, sb.Slow, sb.NeverAck, sb.NestedTo, sb.During, sb.CancelFree, sb.CancelAt)
		if sb.NestedForward {
			s += ":fwd"
		}
		if sb.HoldFirstMs > 0 {
			s += fmt.Sprintf(":hold%dms", sb.HoldFirstMs)
		}
		if sb.StopAfter >= 0 {
			s += fmt.Sprintf(":stops-reading-after%d", sb.StopAfter)
		}
	}
	return s
}

func run(e *vlib.Env) vlib.Result {
	prog, class := gen(e)
	blocking := prog.Cfg.BlockPublishUntilSubscriberAck
	res := vlib.Result{Class: fmt.Sprintf("%s/blocking=%v/persistent=%v/buf%d", classNames[class], blocking, prog.Cfg.Persistent, prog.Cfg.OutputChannelBuffer), Spec: shape(prog)}
	ctl := vlib.NewCtl(e.R.Uint64(), prog.YieldP, prog.YieldUs)
	defer ctl.Uninstall()
	ctl.Filter(func(p, a, b string) bool { return a == "" || strings.HasPrefix(a, e.ID()) })
	rn := gcw.Start(e, prog)

	oc, dump := vlib.WaitClosed(rn.PubsDone(), vlib.WD)
	if oc == vlib.Inconclusive {
		res.Inconclusive("publishers neither finished nor quiescent before the watchdog")
	}
	released := false
	if oc == vlib.Stuck && blocking {
		// publishers are blocked at quiescence. If never-acking subscriptions explain it, cancel exactly those:
		// "Publish returns only after every active subscription acked it (or that subscription ... was closed)",
		// so now every Publish has to return.
		hasNever := false
		for _, sp := range prog.Subs {
			if withholds(sp) {
				hasNever = true
			}
		}
		// ... "(or that subscription or the Pub/Sub was closed)": in half of these cases the whole Pub/Sub is closed instead
		byClose := hasNever && vlib.HashStr(e.ID()+"/release-by-close")%2 == 0
		if hasNever && !byClose {
			// a withholding subscription whose Subscribe call was still waiting for the write lock does not exist yet when
			// the others are cancelled; it appears (and withholds) afterwards: cancel again until none is left uncancelled
			for round := 0; round <= len(prog.Subs); round++ {
				n := 0
				for _, s := range rn.SubRecs() {
					if withholds(s.Spec) && s.CancelStart.Load() == 0 {
						rn.CancelSub(s.ID)
						n++
						if s.Spec.StopAfter >= 0 {
							res.Count("idle_consumer_subscriptions_cancelled_to_release_publishers", 1)
						}
					}
				}
				if n == 0 && round > 0 {
					break
				}
				released = true
				oc, dump = vlib.WaitClosed(rn.PubsDone(), vlib.WD)
				if oc != vlib.Stuck {
					break
				}
			}
			res.Count("never_ack_subscriptions_cancelled_to_release_publishers", 1)
			if oc == vlib.Inconclusive {
				res.Inconclusive("publishers neither finished nor quiescent after the never-acking subscriptions were cancelled")
			}
		}
		if byClose {
			released = true
			res.Count("pubsub_closed_to_release_publishers", 1)
			closed := rn.Close(1)
			oc, dump = vlib.WaitClosed(rn.PubsDone(), vlib.WD)
			if oc == vlib.Inconclusive {
				res.Inconclusive("publishers neither finished nor quiescent after the Pub/Sub was closed")
			}
			if o, d := vlib.WaitClosed(closed, vlib.WD); o == vlib.Stuck {
				res.Fail("publish-stuck", "blocking mode: the Pub/Sub was closed while Publish calls were waiting for a never-acking subscription; Close never returned (process quiescent) - the blocked Publish calls cannot return either")
				res.Witness = vlib.Trunc(d, 60000)
			}
		}
	}
	if oc == vlib.Done {
		vlib.WaitClosed(rn.SubbersDone(), vlib.WD)
		vlib.WaitClosed(rn.CancelsDone(), vlib.WD)
		settle := func() string {
			o, d := vlib.Settle(vlib.WD)
			if o == vlib.Inconclusive {
				res.Inconclusive("not quiescent")
			}
			return d
		}
		qdump := settle()
		// after a release, a withholding subscription may still have come into being after the publishers finished (its Subscribe
		// call had been waiting for the write lock): a nested Publish made by a consumer that is fed by the replay would then
		// wait for it legitimately. Cancel those too before judging.
		for round := 0; released && round <= len(prog.Subs); round++ {
			n := 0
			for _, s := range rn.SubRecs() {
				if withholds(s.Spec) && s.CancelStart.Load() == 0 {
					rn.CancelSub(s.ID)
					n++
				}
			}
			if n == 0 {
				break
			}
			res.Count("withholding_subscriptions_cancelled_after_publishers_finished", n)
			qdump = settle()
		}
		if res.Verdict == "" {
			// quiescent: a nested Publish (made from a receive loop) that has not returned by now never will
			for _, p := range rn.PubRecs() {
				if p.End == 0 && p.Panic == "" {
					oc, dump = vlib.Stuck, qdump
					break
				}
			}
		}
	}
	if res.Verdict == "" {
		judge(rn, &res, oc == vlib.Stuck, dump, released)
	}
	for _, p := range rn.Panics() {
		res.Fail("panic", "%s", p)
	}
	res.Events = int(rn.Events.Load())
	res.Hooks = ctl.Counts()
	res.Sig = vlib.Sig(res.Class, shape(prog), ctl.Fingerprint())
	cd := rn.Close(1)
	if o, _ := vlib.WaitClosed(cd, vlib.WD); o == vlib.Done {
		vlib.WaitUntil(rn.ConsumersIdle, vlib.WD)
	} else {
		res.Count("teardown_close_not_returned", 1)
	}
	return res
}

// withholds: the subscription may legitimately keep a blocking Publish waiting for ever - it never settles its first
// message, or its only consumer stops reading (so a later delivery is never received, let alone acked)
func withholds(sp gcw.SubSpec) bool { return sp.NeverAck || sp.StopAfter >= 0 }

func judge(rn *gcw.Run, res *vlib.Result, stuck bool, dump string, released bool) {
	prog := rn.Prog
	blocking := prog.Cfg.BlockPublishUntilSubscriberAck
	pubs := rn.PubRecs()
	subs := rn.SubRecs()

	// poisoned topics: a never-acking subscription (directly, or behind a nested publish) legitimately blocks publishers
	poisoned := map[int]bool{}
	for _, s := range subs {
		if withholds(s.Spec) {
			poisoned[s.Spec.Topic] = true
		}
	}
	if released {
		// the never-acking subscriptions were cancelled: nothing explains a blocked Publish any more
		poisoned = map[int]bool{}
	}
	for changed := true; changed; {
		changed = false
		for _, s := range subs {
			if s.Spec.NestedTo >= 0 && poisoned[s.Spec.NestedTo] && !poisoned[s.Spec.Topic] {
				poisoned[s.Spec.Topic] = true
				changed = true
			}
		}
	}

	totalDel, redeliv, nestedPubs, ackWaitChecked, orderChecked := 0, 0, 0, 0, 0
	type key struct {
		sub  int
		uuid string
	}
	ackStart := map[key]uint64{} // stamp taken immediately before Ack of (sub, uuid)
	for _, s := range subs {
		if s.Err != "" {
			continue
		}
		if mx := s.MaxInflight.Load(); mx > 1 {
			res.Fail("two-unsettled", "subscription %d (buffer %d, %d consumers) had %d messages received and not yet settled at the same time", s.ID, prog.Cfg.OutputChannelBuffer, s.Spec.Consumers, mx)
		}
		if s.Runaway.Load() {
			res.Fail("runaway-redelivery", "subscription %d received more than %d deliveries", s.ID, gcw.RunawayCap)
		}
		dels := s.Dels()
		totalDel += len(dels)
		firstRecv := map[string]uint64{}
		for _, d := range dels {
			if d.No > 0 {
				redeliv++
			}
			if _, ok := firstRecv[d.UUID]; !ok {
				firstRecv[d.UUID] = d.RecvSeq
			}
			if d.Action == "ack" {
				if _, ok := ackStart[key{s.ID, d.UUID}]; !ok {
					ackStart[key{s.ID, d.UUID}] = d.SettleSeq
				}
			}
		}
		if s.Spec.NeverAck && len(dels) > 1 {
			res.Fail("received-while-unsettled", "subscription %d never settled its first message but received %d more (%s then %s)", s.ID, len(dels)-1, dels[0].UUID, dels[1].UUID)
		}
		// order of one publisher's messages on a pre-existing subscription (blocking mode)
		if blocking && !s.Spec.During && s.CancelStart.Load() == 0 {
			lastSeq := map[int]uint64{}
			lastUUID := map[int]string{}
			for _, p := range pubs { // pubs are in publish-call order per publisher (appended before each call)
				if p.Topic != s.Spec.Topic || p.Pub < 0 {
					continue
				}
				fr, ok := firstRecv[p.UUID]
				if cs := rn.CloseStart.Load(); ok && cs != 0 && fr > cs {
					// received after the harness had started closing the Pub/Sub: the ack waits that order the
					// deliveries are void from then on ("or the Pub/Sub was closed")
					ok = false
				}
				if !ok {
					continue
				}
				orderChecked++
				if fr < lastSeq[p.Pub] {
					res.Fail("publish-order", "blocking mode: subscription %d first received %s (stamp %d) before %s (stamp %d) although publisher %d published them in the opposite order", s.ID, p.UUID, fr, lastUUID[p.Pub], lastSeq[p.Pub], p.Pub)
				}
				lastSeq[p.Pub], lastUUID[p.Pub] = fr, p.UUID
			}
		}
	}
	closeStarted := rn.CloseStart.Load() != 0
	var stuckPubs []string
	for _, p := range pubs {
		if p.Pub < 0 {
			nestedPubs++
		}
		if p.Panic != "" {
			continue
		}
		if p.End == 0 {
			// GoChannel has one Pub/Sub-wide RWMutex: behind a Publish that legitimately waits for a never-acking
			// subscription, a pending Subscribe/unsubscribe (writer) blocks every later Publish of any topic. So in
			// blocking mode a never-acking subscription anywhere explains blocked publishers everywhere.
			if !(blocking && len(poisoned) > 0) {
				stuckPubs = append(stuckPubs, fmt.Sprintf("%s(topic %d)", p.UUID, p.Topic))
			}
			continue
		}
		if p.Err != "" {
			if cs := rn.CloseStart.Load(); cs != 0 && p.End > cs {
				continue // the harness had started closing the Pub/Sub before this call returned
			}
			res.Fail("publish-error", "Publish of %s failed on an open Pub/Sub: %s", p.UUID, p.Err)
			continue
		}
		if !blocking || closeStarted {
			continue
		}
		for _, s := range subs {
			if s.Err != "" || s.Spec.Topic != p.Topic || !(s.End < p.Start) || s.CancelStart.Load() != 0 {
				continue
			}
			ackWaitChecked++
			as, ok := ackStart[key{s.ID, p.UUID}]
			if !ok {
				res.Fail("publish-returned-before-ack", "blocking mode: Publish of %s returned (stamp %d) but subscription %d, active since %d and never cancelled, has not acked it", p.UUID, p.End, s.ID, s.End)
			} else if as > p.End {
				res.Fail("publish-returned-before-ack", "blocking mode: Publish of %s returned at %d before subscription %d started its Ack at %d", p.UUID, p.End, s.ID, as)
			}
		}
	}
	if len(stuckPubs) > 0 {
		if !stuck {
			// cannot happen: PubsDone was reached
			res.Fail("internal", "publish without end stamp although publishers finished: %v", stuckPubs)
		} else {
			// characterise the stuck state from the goroutine snapshot (stable ids, used to tell the known deadlock from anything else)
			var shape []string
			nested, writer, outer := false, false, false
			for _, g := range vlib.ParseDump(dump) {
				if g.State == "sync.RWMutex.RLock" && g.Has("gochannel.(*GoChannel).Publish") && g.Has("gcw.(*Run).consume") {
					nested = true
				}
				if g.Has("sync.(*RWMutex).Lock") && (g.Has("gochannel.(*GoChannel).Subscribe") || g.Has("gochannel.(*GoChannel).Subscribe.func1")) {
					writer = true
				}
				if g.Has("gochannel.(*GoChannel).waitForAckFromSubscribers") {
					outer = true
				}
			}
			if nested {
				shape = append(shape, "nested-publish-waits-for-read-lock")
			}
			if writer {
				shape = append(shape, "subscribe-or-unsubscribe-waits-for-write-lock")
			}
			if outer {
				shape = append(shape, "outer-publish-waits-for-ack")
			}
			res.Fail("publish-stuck", "Publish never returned although no subscription of its topic withholds an Ack (process quiescent); shape=%v; stuck: %v", shape, stuckPubs)
			res.Witness = vlib.Trunc(dump, 60000)
		}
	}
	res.Count("deliveries", totalDel)
	res.Count("redeliveries", redeliv)
	res.Count("nested_publishes", nestedPubs)
	res.Count("ack_wait_pairs_checked", ackWaitChecked)
	res.Count("order_pairs_checked", orderChecked)
	res.Count("publishes", len(pubs))
	if stuck {
		res.Count("publishers_blocked_at_quiescence", 1)
	}
	res.NonTrivial = totalDel > 0 && (redeliv > 0 || nestedPubs > 0 || len(prog.Pubs) >= 2 || len(poisoned) > 0 || strings.Contains(res.Class, "churn") || strings.HasPrefix(res.Class, "hold"))
	res.Sample = map[string]any{"program": shape(prog), "deliveries": totalDel, "redeliveries": redeliv, "nested_publishes": nestedPubs, "blocked_at_quiescence": stuck}
}
