// Package c11: persistent GoChannel replays the whole topic to every subscription exactly once.
package c11

import (
	"context"
	"fmt"
	"runtime"
	"sort"
	"strings"
	"sync"
	"sync/atomic"

	"github.com/ThreeDotsLabs/watermill"
	"github.com/ThreeDotsLabs/watermill/message"
	"github.com/ThreeDotsLabs/watermill/pubsub/gochannel"
	"github.com/ThreeDotsLabs/watermill/verifhook"

	"verifharness/props/gcw"
	"verifharness/vlib"
)

var forcedPoints = []string{
	"gochannel.publish.after_closed_check", "gochannel.publish.locked", "gochannel.publish.persisted",
	"gochannel.subscribe.after_closed_check", "gochannel.subscribe.locked", "gochannel.subscribe.replay", "gochannel.subscribe.before_add",
	"gochannel.send.locked", "gochannel.send.before_chan", "gochannel.send.wait_settle",
	// log#k: Publish A is parked inside the k-th call it makes (from its own goroutine) to the Pub/Sub's LoggerAdapter - the one
	// place inside Publish where user code runs and may take any amount of time, wherever the implementation happens to log
	"log#1", "log#2", "log#3", "log#4",
}

// hookLog is a LoggerAdapter that reports every call as hook point "log" (a = case id + calling goroutine, b = the text).
type hookLog struct{ id string }

func goid() string {
	var buf [64]byte
	f := strings.Fields(string(buf[:runtime.Stack(buf[:], false)]))
	if len(f) > 1 {
		return f[1]
	}
	return "?"
}

func (l hookLog) at(msg string)                                      { verifhook.At("log", l.id+"#g"+goid(), msg) }
func (l hookLog) Error(msg string, err error, _ watermill.LogFields) { l.at(msg) }
func (l hookLog) Info(msg string, _ watermill.LogFields)             { l.at(msg) }
func (l hookLog) Debug(msg string, _ watermill.LogFields)            { l.at(msg) }
func (l hookLog) Trace(msg string, _ watermill.LogFields)            { l.at(msg) }
func (l hookLog) With(watermill.LogFields) watermill.LoggerAdapter   { return l }

// forced grid: point x buffer{0,1,4} x blocking{f,t} x before{0,1,3} x otherSub{f,t}
func forcedCases() int { return len(forcedPoints) * 3 * 2 * 3 * 2 }

func init() {
	vlib.Register(&vlib.Prop{
		ID:    "C11",
		Level: "exploration",
		Cases: func(tier string) int {
			return forcedCases() + vlib.TierN(tier, 600, 120000) + longCases(tier) + pairCases(tier)
		},
		Rule: "forced part: for each hook point of Publish (after closed check, topic lock taken, persisted), Subscribe (registered in wait group, locks taken, before replay, before registration) and the send loop, " +
			"plus log#1..log#4 (Publish A parked inside the k-th call it makes to the Pub/Sub's LoggerAdapter from its own goroutine - user code running inside Publish, wherever the implementation logs; configurations in which Publish logs less often run A and B one after the other and are counted as log_call_not_made), " +
			"operation A is parked there while the opposite operation B (Subscribe resp. Publish) runs to completion or blocks behind A (decided by the quiescence detector), then A is released; grid x buffer {0,1,4} x blocking x {0,1,3} messages published before x {with/without an older subscription}, plus 1..2 messages after. " +
			"burst part (every third non-forced case): 24 fresh topics per case; on each, 3..8 publishers released by a barrier publish as the very first operations on that topic (first use of the per-topic lock and of the topic's log), optionally racing a first Subscribe, then a late subscription must be replayed every accepted message exactly once. " +
			"publish-pair part (last 36 / 360 cases): Publish A is parked at one of its three hook points on a topic that holds 0 or 1 messages, a second Publish B of the same topic runs to completion or blocks behind A (quiescence), A is released, then an early (subscribed before) and a late subscription must both have every accepted message exactly once; x buffer {0,1,4} x blocking. " +
			"long-log part (32 / 640 cases before those): a topic log of 1030..4200 messages (written in batches of up to 700, one batch Publish call of 1500..3000 messages in a third of the cases) is replayed to 1..3 subscriptions started together with 1..3 publishers that publish 20..80 more messages one by one and in small batches while the replays run; a late subscription afterwards; sizes chosen around powers of two (1024, 2048, 4096). " +
			"random part: persistent GoChannel, 1..2 topics, 1..4 publishers x 1..10 messages (batches 1..3), 1..5 always-acking subscriptions started at random moments, yield/delay injection at the hook points. " +
			"Oracle at quiescence: for every subscription the multiset of received messages equals the set of successfully published messages of its topic, every count exactly 1. " +
			"In the forced and burst classes messages are identified by their payload and the UUIDs are unique, all empty or all equal (Message.UUID is not an identity). " +
			"Non-trivial: a forced case reached its park point and both operations completed; a random case had a Subscribe call overlapping at least one Publish call in logical time. Distinct = (spec, hook-arrival fingerprint).",
		Assumptions: []string{
			"subscribers always Ack (the property's exactly-once clause); Close is called only after the judgement",
			"forced cases whose park point was not reached are reported as unreached, never as held",
		},
		Run: run,
	})
}

func longCases(tier string) int { return vlib.TierN(tier, 32, 640) }

func run(e *vlib.Env) vlib.Result {
	if e.Idx < forcedCases() {
		return forced(e)
	}
	if e.Idx >= forcedCases()+vlib.TierN(e.Tier, 600, 120000)+longCases(e.Tier) {
		return publishPair(e)
	}
	if e.Idx >= forcedCases()+vlib.TierN(e.Tier, 600, 120000) {
		return longLog(e)
	}
	if e.Idx%3 == 0 {
		return burst(e)
	}
	return random(e)
}

type rec struct {
	mu   sync.Mutex
	got  map[string]int
	n    int
	subs int
}

func (r *rec) add(u string) {
	r.mu.Lock()
	r.got[u]++
	r.n++
	r.mu.Unlock()
}

// uuidFn: Message.UUID is not an identity ("only used by Watermill for debugging. UUID can be empty"); the harness
// tells messages apart by their payload and lets the UUIDs be unique, all empty, or all the same.
func uuidFn(r *vlib.Rand, id string) (string, func(string) string) {
	switch r.Intn(4) {
	case 0:
		return "empty", func(string) string { return "" }
	case 1:
		return "same", func(string) string { return id + "/same-uuid" }
	}
	return "unique", func(u string) string { return u }
}

func forced(e *vlib.Env) vlib.Result {
	i := e.Idx
	point := forcedPoints[i%len(forcedPoints)]
	i /= len(forcedPoints)
	buf := []int64{0, 1, 4}[i%3]
	i /= 3
	blocking := i%2 == 1
	i /= 2
	before := []int{0, 1, 3}[i%3]
	i /= 3
	older := i%2 == 1
	uuidMode, uuidOf := uuidFn(e.R, e.ID())
	spec := fmt.Sprintf("park=%s buf=%d blocking=%v before=%d olderSub=%v uuids=%s", point, buf, blocking, before, older, uuidMode)
	res := vlib.Result{Class: "forced/" + strings.TrimPrefix(point, "gochannel."), Spec: spec}

	isLog := strings.HasPrefix(point, "log#")
	var logger watermill.LoggerAdapter = watermill.NopLogger{}
	if isLog {
		logger = hookLog{e.ID()}
	}
	ps := gochannel.NewGoChannel(gochannel.Config{OutputChannelBuffer: buf, Persistent: true, BlockPublishUntilSubscriberAck: blocking}, logger)
	topic := e.ID() + "/t"
	ctl := vlib.NewCtl(e.R.Uint64(), 0, 0)
	defer ctl.Uninstall()
	ctl.Filter(func(p, a, b string) bool { return a == "" || strings.HasPrefix(a, e.ID()) })

	var published []string
	var pubMu sync.Mutex
	var consumers sync.WaitGroup
	recs := []*rec{}
	var recsMu sync.Mutex
	var panics []string
	publish := func(u string) {
		defer func() {
			if v := recover(); v != nil {
				pubMu.Lock()
				panics = append(panics, fmt.Sprint("Publish: ", v))
				pubMu.Unlock()
			}
		}()
		if err := ps.Publish(topic, message.NewMessage(uuidOf(u), []byte(u))); err == nil {
			pubMu.Lock()
			published = append(published, u)
			pubMu.Unlock()
		}
	}
	subscribe := func() {
		r := &rec{got: map[string]int{}}
		recsMu.Lock()
		recs = append(recs, r)
		recsMu.Unlock()
		ch, err := ps.Subscribe(context.Background(), topic)
		if err != nil {
			pubMu.Lock()
			panics = append(panics, "Subscribe error: "+err.Error())
			pubMu.Unlock()
			return
		}
		consumers.Add(1)
		go func() {
			defer consumers.Done()
			for m := range ch {
				r.add(string(m.Payload))
				m.Ack()
			}
		}()
	}

	if older {
		subscribe()
	}
	for k := 0; k < before; k++ {
		publish(fmt.Sprintf("%s/before%d", e.ID(), k))
	}
	// let the deliveries of the "before" messages finish so that only the forced pair is in motion
	vlib.Settle(vlib.WD)

	aIsPublish := strings.Contains(point, ".publish.") || isLog
	aIsSend := strings.Contains(point, ".send.")
	during := e.ID() + "/during"
	var aTag atomic.Value
	park := ctl.ParkAt(point, func(a, b string) bool { return true }, 0)
	if isLog {
		park.Release() // unused rule
		park = ctl.ParkAt("log", func(a, b string) bool { t, _ := aTag.Load().(string); return a == t }, int(point[4]-'1'))
	}
	aDone, bDone := make(chan struct{}), make(chan struct{})
	// send points without an older subscription but with persisted messages: the replay of a new subscription runs the send loop
	sendViaReplay := aIsSend && !older && before > 0
	startB := func() {
		go func() {
			defer close(bDone)
			if (aIsPublish || aIsSend) && !sendViaReplay {
				subscribe()
			} else {
				publish(during)
			}
		}()
	}
	go func() {
		defer close(aDone)
		aTag.Store(e.ID() + "#g" + goid())
		if aIsPublish {
			publish(during)
		} else if sendViaReplay {
			subscribe()
		} else if aIsSend {
			// the send loop runs in goroutines started by Publish (needs a subscriber) or by the replay
			if !older && before == 0 {
				subscribe()
			}
			publish(during)
		} else {
			subscribe()
		}
	}()
	oc, _ := vlib.WaitUntil(func() bool { return park.HasArrived() }, vlib.WaitOpts{Watchdog: vlib.WD.Watchdog})
	reached := park.HasArrived()
	bBlocked := false
	if reached {
		startB()
		o2, _ := vlib.WaitClosed(bDone, vlib.WD)
		bBlocked = o2 == vlib.Stuck
		if o2 == vlib.Inconclusive {
			res.Inconclusive("operation B neither finished nor blocked before the watchdog")
		}
	} else if oc == vlib.Inconclusive {
		res.Inconclusive("operation A neither reached the park point nor finished")
	}
	park.Release()
	if !reached {
		startB()
	}
	for _, ch := range []chan struct{}{aDone, bDone} {
		if o, d := vlib.WaitClosed(ch, vlib.WD); o == vlib.Stuck {
			res.Fail("operation-stuck", "a Publish/Subscribe call of the forced pair never returned after the release (%s)", spec)
			res.Witness = d
		}
	}
	nafter := e.R.Range(1, 2)
	if !res.Failed() {
		for k := 0; k < nafter; k++ {
			publish(fmt.Sprintf("%s/after%d", e.ID(), k))
		}
	}
	if o, _ := vlib.Settle(vlib.WD); o == vlib.Inconclusive {
		res.Inconclusive("not quiescent")
	}
	judge(&res, recs, &recsMu, published, &pubMu)
	pubMu.Lock()
	for _, p := range panics {
		res.Fail("panic-or-error", "%s", p)
	}
	pubMu.Unlock()
	res.Hooks = ctl.Counts()
	res.Sig = vlib.Sig(spec, bBlocked, ctl.Fingerprint())
	res.NonTrivial = reached
	res.Count("forced_reached", b2i(reached))
	res.Count("uuids_"+uuidMode, 1)
	res.Count("b_blocked_behind_a", b2i(bBlocked))
	res.Count("b_completed_while_a_parked", b2i(reached && !bBlocked))
	if !reached && isLog {
		// Publish made fewer logger calls than that in this configuration: the case ran A and B one after the other
		res.Count("log_call_not_made", 1)
	} else if !reached && res.Verdict == "" {
		res.Verdict = vlib.Unreached
		res.Reason = "park point not reached: " + spec
	}
	res.Sample = map[string]any{"spec": spec, "reached": reached, "b_blocked_behind_a": bBlocked, "published": len(published), "subscriptions": len(recs)}
	closeDone := make(chan struct{})
	go func() { ps.Close(); close(closeDone) }()
	vlib.WaitClosed(closeDone, vlib.WD)
	cd := make(chan struct{})
	go func() { consumers.Wait(); close(cd) }()
	vlib.WaitClosed(cd, vlib.WD)
	return res
}

func b2i(b bool) int {
	if b {
		return 1
	}
	return 0
}

func judge(res *vlib.Result, recs []*rec, recsMu *sync.Mutex, published []string, pubMu *sync.Mutex) {
	pubMu.Lock()
	pub := append([]string(nil), published...)
	pubMu.Unlock()
	recsMu.Lock()
	rs := append([]*rec(nil), recs...)
	recsMu.Unlock()
	want := map[string]bool{}
	for _, u := range pub {
		want[u] = true
	}
	for si, r := range rs {
		r.mu.Lock()
		res.Events += r.n
		for u := range want {
			switch c := r.got[u]; {
			case c == 0:
				res.Fail("replay-lost", "subscription %d never received %s although its Publish succeeded (persistent mode, quiescent); received %d of %d", si, u, len(r.got), len(want))
			case c > 1:
				res.Fail("replay-duplicate", "subscription %d received %s %d times although it always Acks", si, u, c)
			}
		}
		for u := range r.got {
			if !want[u] {
				res.Fail("replay-foreign", "subscription %d received %s which was not successfully published to its topic", si, u)
			}
		}
		r.mu.Unlock()
	}
	res.Events += len(pub)
}

func random(e *vlib.Env) vlib.Result {
	r := e.R
	prog := gcw.Program{
		Cfg:       gochannel.Config{OutputChannelBuffer: []int64{0, 1, 4, 16}[r.Intn(4)], Persistent: true, BlockPublishUntilSubscriberAck: r.Chance(0.3)},
		Topics:    r.Range(1, 2),
		MetaKeys:  1,
		PayloadSz: 8,
		YieldP:    []float64{0, 0.3, 0.7}[r.Intn(3)],
		YieldUs:   []int{0, 30, 150}[r.Intn(3)],
	}
	// Message.UUID is not an identity: a quarter of the programs use empty or equal UUIDs (see gcw.Program.UUIDs)
	prog.UUIDs = []string{"", "", "empty", "same"}[vlib.HashStr(e.ID())%4]
	prog.MsgCtx = vlib.HashStr(e.ID()+"/msgctx")%3 == 0 // a third of the programs publish messages that carry (cancelled, soon cancelled, live) contexts
	for i, n := 0, r.Range(1, 4); i < n; i++ {
		prog.Pubs = append(prog.Pubs, gcw.PubSpec{Topic: r.Intn(prog.Topics), N: r.Range(1, 10), Batch: r.Range(1, 3)})
	}
	for i, n := 0, r.Range(1, 5); i < n; i++ {
		prog.Subs = append(prog.Subs, gcw.SubSpec{Topic: r.Intn(prog.Topics), During: r.Chance(0.75), Consumers: 1, Slow: r.Intn(3), NestedTo: -1, CancelAt: -1, StopAfter: -1})
	}
	// sibling subscriptions that come and go (cancelled at a random moment / after k receives): they are not judged
	// themselves, but their unsubscribing must not disturb the replay and delivery of the others
	for i, n := 0, r.Intn(3); i < n; i++ {
		sib := gcw.SubSpec{Topic: r.Intn(prog.Topics), During: r.Bool(), Consumers: 1, NestedTo: -1, CancelAt: -1, StopAfter: -1}
		if r.Bool() {
			sib.CancelFree = true
		} else {
			sib.CancelAt = r.Intn(3)
		}
		prog.Subs = append(prog.Subs, sib)
	}
	prog.EditAfterPublish = r.Chance(0.3)
	shape := fmt.Sprintf("b%d/k%v/T%d/%v/%v", prog.Cfg.OutputChannelBuffer, prog.Cfg.BlockPublishUntilSubscriberAck, prog.Topics, prog.Pubs, prog.Subs)
	res := vlib.Result{Class: fmt.Sprintf("random/buf%d/blocking=%v", prog.Cfg.OutputChannelBuffer, prog.Cfg.BlockPublishUntilSubscriberAck), Spec: shape}
	ctl := vlib.NewCtl(r.Uint64(), prog.YieldP, prog.YieldUs)
	defer ctl.Uninstall()
	ctl.Filter(func(p, a, b string) bool { return a == "" || strings.HasPrefix(a, e.ID()) })
	rn := gcw.Start(e, prog)
	if o, d := vlib.WaitClosed(rn.PubsDone(), vlib.WD); o == vlib.Stuck {
		res.Fail("publish-stuck", "a Publish never returned although all subscribers ack (quiescent)")
		res.Witness = d
	} else if o == vlib.Inconclusive {
		res.Inconclusive("publishers not finished")
	}
	if !res.Failed() && res.Verdict == "" {
		if o, d := vlib.WaitClosed(rn.SubbersDone(), vlib.WD); o == vlib.Stuck {
			res.Fail("subscribe-stuck", "a Subscribe never returned (quiescent)")
			res.Witness = d
		}
		if o, _ := vlib.Settle(vlib.WD); o == vlib.Inconclusive {
			res.Inconclusive("not quiescent")
		}
	}
	if res.Verdict == "" {
		pubs := rn.PubRecs()
		subs := rn.SubRecs()
		overlap := 0
		for _, s := range subs {
			if s.CancelStart.Load() != 0 {
				continue // a cancelled sibling: only "created before Close and left open" subscriptions are judged
			}
			want := map[string]bool{}
			for _, p := range pubs {
				if p.Topic == s.Spec.Topic && p.Err == "" && p.Panic == "" && p.End != 0 {
					want[p.UUID] = true
				}
				if p.Topic == s.Spec.Topic && s.Start < p.End && p.Start < s.End {
					overlap++
				}
			}
			got := map[string]int{}
			for _, d := range s.Dels() {
				got[d.UUID]++
				res.Events++
				for _, p := range pubs {
					if p.UUID == d.UUID {
						m := message.NewMessage(d.Snap.UUID, d.Snap.Payload)
						for k, v := range d.Snap.Metadata {
							m.Metadata[k] = v
						}
						if !p.OrigSnap.SameValue(m) {
							res.Fail("replay-differs", "subscription %d received %s with a value that differs from the message as it was published: got %+v, published %+v", s.ID, d.UUID, d.Snap, p.OrigSnap)
						}
					}
				}
			}
			var missing, dup []string
			for u := range want {
				if got[u] == 0 {
					missing = append(missing, u)
				} else if got[u] > 1 {
					dup = append(dup, fmt.Sprintf("%s x%d", u, got[u]))
				}
			}
			sort.Strings(missing)
			sort.Strings(dup)
			if len(missing) > 0 {
				res.Fail("replay-lost", "subscription %d (Subscribe call [%d,%d]) never received %v of %d published (persistent, quiescent)", s.ID, s.Start, s.End, missing, len(want))
			}
			if len(dup) > 0 {
				res.Fail("replay-duplicate", "subscription %d received %v although it always Acks", s.ID, dup)
			}
			for u := range got {
				if !want[u] {
					res.Fail("replay-foreign", "subscription %d of topic %d received %s", s.ID, s.Spec.Topic, u)
				}
			}
		}
		for _, p := range pubs {
			if p.Err != "" {
				res.Fail("publish-error", "Publish of %s failed on an open Pub/Sub: %s", p.UUID, p.Err)
			}
		}
		res.Events += len(pubs)
		res.Count("subscribe_publish_overlaps", overlap)
		res.NonTrivial = overlap > 0
		res.Sample = map[string]any{"program": shape, "overlapping_pairs": overlap, "publishes": len(pubs), "subscriptions": len(subs)}
	}
	for _, p := range rn.Panics() {
		res.Fail("panic", "%s", p)
	}
	res.Hooks = ctl.Counts()
	res.Sig = vlib.Sig(shape, ctl.Fingerprint())
	cd := rn.Close(1)
	if o, _ := vlib.WaitClosed(cd, vlib.WD); o == vlib.Done {
		vlib.WaitUntil(rn.ConsumersIdle, vlib.WD)
	}
	return res
}

// burst: the very first operations on a fresh topic happen concurrently.
func burst(e *vlib.Env) vlib.Result {
	r := e.R
	cfg := gochannel.Config{OutputChannelBuffer: []int64{0, 1, 8}[r.Intn(3)], Persistent: true, BlockPublishUntilSubscriberAck: false}
	uuidMode, uuidOf := uuidFn(r, e.ID())
	res := vlib.Result{Class: fmt.Sprintf("burst/buf%d", cfg.OutputChannelBuffer), Spec: "uuids=" + uuidMode}
	ps := gochannel.NewGoChannel(cfg, watermill.NopLogger{})
	const topics = 40
	type tstate struct {
		topic    string
		mu       sync.Mutex
		accepted []string
		early    *rec
	}
	var consumers sync.WaitGroup
	subscribe := func(topic string) *rec {
		rc := &rec{got: map[string]int{}}
		ch, err := ps.Subscribe(context.Background(), topic)
		if err != nil {
			return nil
		}
		consumers.Add(1)
		go func() {
			defer consumers.Done()
			for m := range ch {
				rc.add(string(m.Payload))
				m.Ack()
			}
		}()
		return rc
	}
	ts := make([]*tstate, topics)
	npubTotal := 0
	for t := range ts {
		st := &tstate{topic: fmt.Sprintf("%s/burst%d", e.ID(), t)}
		ts[t] = st
		npub := r.Range(3, 8)
		npubTotal += npub
		withSub := r.Chance(0.3)
		barrier := make(chan struct{})
		// behind the barrier a spin gate: the publishers make their first call on the topic at the same instant
		var ready atomic.Int32
		gate := func() {
			<-barrier
			ready.Add(1)
			for spin := 0; int(ready.Load()) < npub && spin < 100000; spin++ {
				if spin%128 == 127 {
					runtime.Gosched()
				}
			}
		}
		var wg sync.WaitGroup
		for p := 0; p < npub; p++ {
			wg.Add(1)
			go func(p int) {
				defer wg.Done()
				u := fmt.Sprintf("%s/m%d", st.topic, p)
				m := message.NewMessage(uuidOf(u), []byte(u))
				gate()
				if err := ps.Publish(st.topic, m); err == nil {
					st.mu.Lock()
					st.accepted = append(st.accepted, u)
					st.mu.Unlock()
				}
			}(p)
		}
		if withSub {
			wg.Add(1)
			go func() {
				defer wg.Done()
				<-barrier
				st.early = subscribe(st.topic)
			}()
		}
		close(barrier)
		done := make(chan struct{})
		go func() { wg.Wait(); close(done) }()
		if oc, d := vlib.WaitClosed(done, vlib.WD); oc == vlib.Stuck {
			res.Fail("publish-stuck", "concurrent first Publish/Subscribe calls on a fresh topic never returned (quiescent)")
			res.Witness = d
			break
		}
	}
	var lates []*rec
	if !res.Failed() {
		for _, st := range ts {
			lates = append(lates, subscribe(st.topic))
		}
		if oc, _ := vlib.Settle(vlib.WD); oc == vlib.Inconclusive {
			res.Inconclusive("not quiescent")
		}
	}
	if res.Verdict == "" {
		for t, st := range ts {
			for which, rc := range map[string]*rec{"late subscription": lates[t], "subscription racing the first publishes": st.early} {
				if rc == nil {
					continue
				}
				rc.mu.Lock()
				for _, u := range st.accepted {
					res.Events++
					switch c := rc.got[u]; {
					case c == 0:
						res.Fail("replay-lost", "%s of fresh topic %d never received %s although its Publish succeeded (%d publishers started together as the first operations on the topic; received %d of %d)", which, t, u, len(st.accepted), len(rc.got), len(st.accepted))
					case c > 1:
						res.Fail("replay-duplicate", "%s of fresh topic %d received %s %d times", which, t, u, c)
					}
				}
				rc.mu.Unlock()
			}
		}
	}
	res.Count("fresh_topics", topics)
	res.Count("uuids_"+uuidMode, 1)
	res.Count("concurrent_first_publishes", npubTotal)
	res.NonTrivial = true
	res.Sig = vlib.Sig("burst", cfg.OutputChannelBuffer, npubTotal, e.Idx)
	res.Sample = map[string]any{"fresh_topics": topics, "publishers": npubTotal}
	cd := make(chan struct{})
	go func() { ps.Close(); close(cd) }()
	vlib.WaitClosed(cd, vlib.WD)
	cdone := make(chan struct{})
	go func() { consumers.Wait(); close(cdone) }()
	vlib.WaitClosed(cdone, vlib.WD)
	return res
}

// longLog: replays that take long (logs beyond 1024 / 2048 / 4096 messages) overlapping live publishing.
func longLog(e *vlib.Env) vlib.Result {
	r := e.R
	cfg := gochannel.Config{OutputChannelBuffer: []int64{0, 1, 64}[r.Intn(3)], Persistent: true}
	res := vlib.Result{Class: fmt.Sprintf("long-log/buf%d", cfg.OutputChannelBuffer)}
	ps := gochannel.NewGoChannel(cfg, watermill.NopLogger{})
	topic := e.ID() + "/long"
	uuidMode, uuidOf := uuidFn(r, e.ID())
	nOld := []int{1030, 1100, 2050, 2100, 3000, 4100, 4200}[r.Intn(7)]
	oneCall := r.Chance(0.33)
	var accepted []string
	var accMu sync.Mutex
	publish := func(ids ...string) {
		msgs := make([]*message.Message, len(ids))
		for i, u := range ids {
			msgs[i] = message.NewMessage(uuidOf(u), []byte(u))
		}
		if err := ps.Publish(topic, msgs...); err == nil {
			accMu.Lock()
			accepted = append(accepted, ids...)
			accMu.Unlock()
		}
	}
	for n := 0; n < nOld; {
		k := r.Range(200, 700)
		if oneCall {
			k = nOld
		}
		if k > nOld-n {
			k = nOld - n
		}
		ids := make([]string, k)
		for i := range ids {
			ids[i] = fmt.Sprintf("%s/old%d", e.ID(), n+i)
		}
		publish(ids...)
		n += k
	}
	var consumers sync.WaitGroup
	var recs []*rec
	var recsMu sync.Mutex
	subscribe := func() {
		rc := &rec{got: map[string]int{}}
		ch, err := ps.Subscribe(context.Background(), topic)
		if err != nil {
			return
		}
		recsMu.Lock()
		recs = append(recs, rc)
		recsMu.Unlock()
		consumers.Add(1)
		go func() {
			defer consumers.Done()
			for m := range ch {
				rc.add(string(m.Payload))
				m.Ack()
			}
		}()
	}
	nsub, npub := r.Range(1, 3), r.Range(1, 3)
	live := 0
	barrier := make(chan struct{})
	var wg sync.WaitGroup
	for i := 0; i < nsub; i++ {
		wg.Add(1)
		go func() { defer wg.Done(); <-barrier; subscribe() }()
	}
	for p := 0; p < npub; p++ {
		n := r.Range(20, 80)
		live += n
		rr := r.Fork()
		wg.Add(1)
		go func(p, n int) {
			defer wg.Done()
			<-barrier
			for i := 0; i < n; {
				k := 1
				if rr.Chance(0.2) {
					k = rr.Range(2, 4)
				}
				if k > n-i {
					k = n - i
				}
				ids := make([]string, k)
				for j := range ids {
					ids[j] = fmt.Sprintf("%s/live%d.%d", e.ID(), p, i+j)
				}
				publish(ids...)
				i += k
				for y := rr.Intn(4); y > 0; y-- {
					runtime.Gosched()
				}
			}
		}(p, n)
	}
	close(barrier)
	done := make(chan struct{})
	go func() { wg.Wait(); close(done) }()
	if oc, d := vlib.WaitClosed(done, vlib.WD); oc == vlib.Stuck {
		res.Fail("publish-stuck", "Publish/Subscribe calls overlapping a long replay never returned (quiescent)")
		res.Witness = d
	} else if oc == vlib.Inconclusive {
		res.Inconclusive("publishers/subscribers not finished")
	}
	if res.Verdict == "" {
		subscribe() // late subscription: everything from the log
		if oc, _ := vlib.Settle(vlib.WD); oc == vlib.Inconclusive {
			res.Inconclusive("not quiescent")
		}
	}
	if res.Verdict == "" {
		judge(&res, recs, &recsMu, accepted, &accMu)
	}
	res.Count("long_log_messages_before", nOld)
	res.Count("long_log_live_messages", live)
	res.Count("long_log_subscriptions", len(recs))
	res.Count("uuids_"+uuidMode, 1)
	res.NonTrivial = true
	res.Spec = fmt.Sprintf("old=%d oneCall=%v subs=%d pubs=%d live=%d uuids=%s", nOld, oneCall, nsub, npub, live, uuidMode)
	res.Sig = vlib.Sig("long-log", cfg.OutputChannelBuffer, nOld, oneCall, nsub, npub, live, e.Idx)
	res.Sample = map[string]any{"spec": res.Spec}
	cd := make(chan struct{})
	go func() { ps.Close(); close(cd) }()
	vlib.WaitClosed(cd, vlib.WD)
	cdone := make(chan struct{})
	go func() { consumers.Wait(); close(cdone) }()
	vlib.WaitClosed(cdone, vlib.WD)
	return res
}

func pairCases(tier string) int { return vlib.TierN(tier, 36, 360) }

// publishPair: two Publish calls on one topic, the first parked inside; whatever serialises publishers of a topic (and
// the read-modify-write of its log) is exercised with the topic fresh or nearly fresh.
func publishPair(e *vlib.Env) vlib.Result {
	j := e.Idx - (forcedCases() + vlib.TierN(e.Tier, 600, 120000) + longCases(e.Tier))
	point := forcedPoints[j%3]
	j /= 3
	buf := []int64{0, 1, 4}[j%3]
	j /= 3
	blocking := j%2 == 1
	j /= 2
	before := j % 2
	withEarly := e.R.Bool()
	spec := fmt.Sprintf("pair park=%s buf=%d blocking=%v before=%d earlySub=%v", point, buf, blocking, before, withEarly)
	res := vlib.Result{Class: "publish-pair/" + strings.TrimPrefix(point, "gochannel."), Spec: spec}
	ps := gochannel.NewGoChannel(gochannel.Config{OutputChannelBuffer: buf, Persistent: true, BlockPublishUntilSubscriberAck: blocking}, watermill.NopLogger{})
	topic := e.ID() + "/pair"
	ctl := vlib.NewCtl(e.R.Uint64(), 0, 0)
	defer ctl.Uninstall()
	ctl.Filter(func(p, a, b string) bool { return a == "" || strings.HasPrefix(a, e.ID()) })
	var accepted []string
	var accMu sync.Mutex
	publish := func(u string) {
		if err := ps.Publish(topic, message.NewMessage(u, []byte(u))); err == nil {
			accMu.Lock()
			accepted = append(accepted, u)
			accMu.Unlock()
		}
	}
	var consumers sync.WaitGroup
	var recs []*rec
	var recsMu sync.Mutex
	subscribe := func() {
		rc := &rec{got: map[string]int{}}
		ch, err := ps.Subscribe(context.Background(), topic)
		if err != nil {
			return
		}
		recsMu.Lock()
		recs = append(recs, rc)
		recsMu.Unlock()
		consumers.Add(1)
		go func() {
			defer consumers.Done()
			for m := range ch {
				rc.add(string(m.Payload))
				m.Ack()
			}
		}()
	}
	if withEarly {
		subscribe()
	}
	for k := 0; k < before; k++ {
		publish(fmt.Sprintf("%s/before%d", e.ID(), k))
	}
	vlib.Settle(vlib.WD)
	park := ctl.ParkAt(point, func(a, b string) bool { return true }, 0)
	aDone, bDone := make(chan struct{}), make(chan struct{})
	go func() { defer close(aDone); publish(e.ID() + "/A") }()
	vlib.WaitUntil(func() bool { return park.HasArrived() || vlib.IsClosed(aDone) }, vlib.WD)
	reached := park.HasArrived()
	go func() { defer close(bDone); publish(e.ID() + "/B") }()
	o2, _ := vlib.WaitClosed(bDone, vlib.WD)
	bBlocked := o2 == vlib.Stuck
	park.Release()
	for _, ch := range []chan struct{}{aDone, bDone} {
		if o, d := vlib.WaitClosed(ch, vlib.WD); o == vlib.Stuck {
			res.Fail("operation-stuck", "a Publish call of the pair never returned after the release (%s)", spec)
			res.Witness = d
		} else if o == vlib.Inconclusive {
			res.Inconclusive("a Publish call of the pair did not finish")
		}
	}
	if res.Verdict == "" {
		subscribe() // late subscription: the whole log
		if o, _ := vlib.Settle(vlib.WD); o == vlib.Inconclusive {
			res.Inconclusive("not quiescent")
		}
	}
	if res.Verdict == "" {
		judge(&res, recs, &recsMu, accepted, &accMu)
	}
	res.Hooks = ctl.Counts()
	res.NonTrivial = reached
	res.Sig = vlib.Sig(spec, bBlocked, ctl.Fingerprint())
	res.Count("pair_reached", b2i(reached))
	res.Count("pair_second_publish_blocked_behind_first", b2i(bBlocked))
	res.Count("pair_second_publish_completed_while_first_parked", b2i(reached && !bBlocked))
	if !reached && res.Verdict == "" {
		res.Verdict = vlib.Unreached
		res.Reason = "park point not reached: " + spec
	}
	res.Sample = map[string]any{"spec": spec, "reached": reached, "second_blocked": bBlocked}
	cd := make(chan struct{})
	go func() { ps.Close(); close(cd) }()
	vlib.WaitClosed(cd, vlib.WD)
	cdone := make(chan struct{})
	go func() { consumers.Wait(); close(cdone) }()
	vlib.WaitClosed(cdone, vlib.WD)
	return res
}
