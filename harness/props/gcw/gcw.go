// Package gcw is the shared GoChannel workload engine of C04, C05, C07 and C11: it runs a generated
// concurrent program (publishers, subscriptions with scripted consumer behaviour, cancels, Close) against a
// real gochannel.GoChannel and records the boundary history the oracles judge.
package gcw

import (
	"context"
	"fmt"
	"runtime"
	"sync"
	"sync/atomic"
	"time"

	"github.com/ThreeDotsLabs/watermill"
	"github.com/ThreeDotsLabs/watermill/message"
	"github.com/ThreeDotsLabs/watermill/pubsub/gochannel"

	"verifharness/vlib"
)

type ctxKey struct{}

// RunawayCap bounds the deliveries one subscription accepts (programs publish far fewer messages).
const RunawayCap = 3000

// SubSpec describes one subscription of a program.
type SubSpec struct {
	Topic     int
	During    bool // created concurrently with the publishers (else before them)
	Consumers int  // goroutines reading the output channel (>=1)
	NackPct   int  // percentage of (uuid) that get 1..3 nacks before the ack
	Slow      int  // max Gosched calls before settling
	Mutate    bool // edit the received copy's metadata / re-assign its payload before settling
	// NestedForward: the nested publish (NestedTo) hands the RECEIVED message object itself, still unsettled, to Publish
	// (what a pass-through handler does) instead of a fresh message
	NestedForward bool
	// HoldFirstMs: the consumer that receives the subscription's first delivery keeps it unsettled for that long
	// (a timer the quiescence detector knows about) - anything the Pub/Sub does on a timer while a message is held shows up
	HoldFirstMs int
	NeverAck    bool // leave the first received message unsettled forever
	NestedTo    int  // >=0: publish a fresh message to this topic before settling (blocking-mode nesting)
	CancelAt    int  // >=0: cancel the subscription context after this many receives (from the consumer)
	CancelFree  bool // cancel from a separate goroutine at a random moment
	Decorators  int  // number of MessageTransformSubscriberDecorators in front (C07)
	StopAfter   int  // >=0: the consumer stops reading after this many receives (without cancelling)
}

// PubSpec describes one publisher goroutine.
type PubSpec struct {
	Topic int
	N     int
	Batch int // messages per Publish call (>=1)
}

// Program is one generated workload.
type Program struct {
	Cfg       gochannel.Config
	Topics    int
	Pubs      []PubSpec
	Subs      []SubSpec
	CloseMid  bool // call Close concurrently with the publishers
	Closers   int  // number of concurrent Close callers at the end (>=1)
	YieldP    float64
	YieldUs   int
	MetaKeys  int
	PayloadSz int
	// EditAfterPublish: after a Publish call returned, the publisher edits the metadata of the message objects it
	// passed (it may, the call is over); deliveries must still equal the message as it was when Publish was called.
	EditAfterPublish bool
	// UUIDs: "" unique UUIDs; "empty" every message has UUID ""; "same" every message has one and the same UUID.
	// Message.UUID is not an identity for Watermill ("only used for debugging. UUID can be empty"): in the latter
	// two modes the harness identifies a message by the reserved metadata key IDKey; Delivery.UUID and PubRec.UUID
	// always hold that identity, the snapshots hold the real UUID.
	UUIDs string
	// MsgCtx: published messages carry a context of their own: already cancelled, cancelled a few scheduling steps after
	// Publish was called, or live. GoChannel documents no dependence on it: deliveries get the subscription's context.
	MsgCtx bool
	// NilMetadata: messages for which no metadata was drawn are built as struct literals with a nil Metadata map
	// (legal: "&message.Message{}" is supported) instead of with NewMessage
	NilMetadata bool
	// SharedDecorator: all decorated subscriptions of the run (and all levels of one stack) are made by ONE
	// SubscriberDecorator value instead of a fresh one per subscriber
	SharedDecorator bool
}

type pubCtxKey struct{}

// IDKey is the metadata key carrying the harness identity of a message when Program.UUIDs is not unique.
const IDKey = "gcw-id"

func (r *Run) newMessage(id string, payload []byte) *message.Message {
	switch r.Prog.UUIDs {
	case "empty":
		m := message.NewMessage("", payload)
		m.Metadata.Set(IDKey, id)
		return m
	case "same":
		m := message.NewMessage(r.ID+"/same-uuid", payload)
		m.Metadata.Set(IDKey, id)
		return m
	}
	if r.Prog.NilMetadata {
		return &message.Message{UUID: id, Payload: payload}
	}
	return message.NewMessage(id, payload)
}

func identity(m *message.Message) string {
	if id, ok := m.Metadata[IDKey]; ok {
		return id
	}
	return m.UUID
}

// Delivery is one message received by a subscription.
type Delivery struct {
	Sub        int
	UUID       string
	No         int // index among this subscription's deliveries of that UUID
	RecvSeq    uint64
	Msg        *message.Message
	Snap       vlib.MsgSnap
	CtxErrRecv string
	CtxVal     any
	CancelSeen bool // the harness had started cancelling this subscription (or closing the Pub/Sub) when the context was sampled
	Action     string
	SettleSeq  uint64 // stamp taken immediately before calling Ack/Nack
	SettleEnd  uint64
	SettleOK   bool
}

// PubRec is one message handed to Publish.
type PubRec struct {
	Pub      int // -1-sub for nested publishes made by subscription sub
	Topic    int
	UUID     string
	Orig     *message.Message
	OrigSnap vlib.MsgSnap
	Start    uint64
	End      uint64 // 0 while the call has not returned
	Err      string
	Panic    string
	CallNo   int
	// EditedAfter: the harness itself edited Orig after the Publish call returned (OrigSnap is the value as published)
	EditedAfter bool
}

// SubRec is one subscription.
type SubRec struct {
	ID          int
	Spec        SubSpec
	Start, End  uint64
	Err         string
	Cancel      context.CancelFunc
	CancelStart atomic.Uint64
	ClosedSeq   atomic.Uint64 // stamp when a consumer saw the channel closed
	Inflight    atomic.Int32
	MaxInflight atomic.Int32
	Received    atomic.Int32
	Runaway     atomic.Bool
	mu          sync.Mutex
	Deliveries  []*Delivery
	ch          <-chan *message.Message
	consumers   sync.WaitGroup
	CtxVal      string
}

// Dels returns value copies of the deliveries (taken under the lock the consumers write them under).
func (s *SubRec) Dels() []Delivery {
	s.mu.Lock()
	defer s.mu.Unlock()
	out := make([]Delivery, len(s.Deliveries))
	for i, d := range s.Deliveries {
		out[i] = *d
	}
	return out
}

// Run is the recorded execution.
type Run struct {
	NilMetaPublished atomic.Int64 // messages handed to Publish with a nil Metadata map
	NilMetaDelivered atomic.Int64 // received copies whose Metadata map was nil
	sharedDec        message.SubscriberDecorator
	Prog             Program
	ID               string
	PS               *gochannel.GoChannel
	Sub              message.Subscriber // PS possibly wrapped per subscription

	mu                sync.Mutex
	Pubs              []*PubRec
	Subs              []*SubRec
	CloseStart        atomic.Uint64
	CloseEnds         []uint64
	ClosePanic        []string
	OpenAtCloseReturn []string
	APIPanics         []string
	Events            atomic.Int64

	pubsDone        chan struct{}
	consumersActive atomic.Int32
	closersDone     chan struct{}
	subbersDone     chan struct{}
	cancelsDone     chan struct{}
	closeOnce       sync.Once
	decorated       []message.Subscriber
}

func (r *Run) topicName(t int) string {
	// the salt varies the names between cases (a lock-striping scheme keyed by a hash of the name must not matter)
	return fmt.Sprintf("%s/t%d-%x", r.ID, t, vlib.HashStr(fmt.Sprintf("%s/%d", r.ID, t))&0xffff)
}

// TopicName is the name of topic t of this run.
func (r *Run) TopicName(t int) string { return r.topicName(t) }

// PubRecs returns value copies of the publish records.
func (r *Run) PubRecs() []PubRec {
	r.mu.Lock()
	defer r.mu.Unlock()
	out := make([]PubRec, len(r.Pubs))
	for i, p := range r.Pubs {
		out[i] = *p
	}
	return out
}

// SubRecs returns a copy of the subscription records.
func (r *Run) SubRecs() []*SubRec {
	r.mu.Lock()
	defer r.mu.Unlock()
	return append([]*SubRec(nil), r.Subs...)
}

func (r *Run) panicked(where string, v any) {
	r.mu.Lock()
	r.APIPanics = append(r.APIPanics, fmt.Sprintf("%s: %v", where, v))
	r.mu.Unlock()
}

// OpenAtClose returns the observations of output channels still open when a Close call returned.
func (r *Run) OpenAtClose() []string {
	r.mu.Lock()
	defer r.mu.Unlock()
	return append([]string(nil), r.OpenAtCloseReturn...)
}

// Panics returns recovered panics of API calls.
func (r *Run) Panics() []string {
	r.mu.Lock()
	defer r.mu.Unlock()
	return append([]string(nil), r.APIPanics...)
}

func nacksFor(seed uint64, sub int, uuid string, pct int) int {
	h := vlib.HashStr(fmt.Sprintf("%d/%d/%s", seed, sub, uuid))
	if int(h%100) >= pct {
		return 0
	}
	return int((h>>8)%3) + 1
}

// Start creates the Pub/Sub, the "before" subscriptions, and launches publishers, "during"
// subscriptions and free cancellers behind a barrier. It returns immediately after releasing the barrier.
func Start(e *vlib.Env, prog Program) *Run {
	r := &Run{Prog: prog, ID: e.ID(), pubsDone: make(chan struct{}), closersDone: make(chan struct{}), subbersDone: make(chan struct{}), cancelsDone: make(chan struct{})}
	r.PS = gochannel.NewGoChannel(prog.Cfg, watermill.NopLogger{})
	seed := e.R.Uint64()

	for i, sp := range prog.Subs {
		if !sp.During {
			r.subscribe(i, sp, seed)
		}
	}

	barrier := make(chan struct{})
	var pubWg, subWg, cancelWg sync.WaitGroup
	for pi, ps := range prog.Pubs {
		pubWg.Add(1)
		rr := e.R.Fork()
		go func(pi int, ps PubSpec) {
			defer pubWg.Done()
			<-barrier
			r.publisher(pi, ps, rr)
		}(pi, ps)
	}
	for i, sp := range prog.Subs {
		if sp.During {
			subWg.Add(1)
			rr := e.R.Fork()
			go func(i int, sp SubSpec) {
				defer subWg.Done()
				<-barrier
				for y := rr.Intn(6); y > 0; y-- {
					runtime.Gosched()
				}
				r.subscribe(i, sp, seed)
			}(i, sp)
		}
	}
	for i, sp := range prog.Subs {
		if sp.CancelFree {
			cancelWg.Add(1)
			rr := e.R.Fork()
			go func(i int) {
				defer cancelWg.Done()
				<-barrier
				for y := rr.Intn(40); y > 0; y-- {
					runtime.Gosched()
				}
				r.CancelSub(i)
			}(i)
		}
	}
	if prog.CloseMid {
		rr := e.R.Fork()
		cancelWg.Add(1)
		go func() {
			defer cancelWg.Done()
			<-barrier
			for y := rr.Intn(60); y > 0; y-- {
				runtime.Gosched()
			}
			r.Close(1)
		}()
	}
	go func() { pubWg.Wait(); close(r.pubsDone) }()
	go func() { subWg.Wait(); close(r.subbersDone) }()
	go func() { cancelWg.Wait(); close(r.cancelsDone) }()
	close(barrier)
	return r
}

// PubsDone is closed when every publisher goroutine returned.
func (r *Run) PubsDone() <-chan struct{} { return r.pubsDone }

// SubbersDone is closed when every "during" Subscribe call returned.
func (r *Run) SubbersDone() <-chan struct{} { return r.subbersDone }

// CancelsDone is closed when the free cancellers (and the mid-run closer) returned.
func (r *Run) CancelsDone() <-chan struct{} { return r.cancelsDone }

// CancelSub cancels subscription i's context (if it exists yet).
func (r *Run) CancelSub(i int) {
	for _, s := range r.SubRecs() {
		if s.ID == i && s.Cancel != nil {
			s.CancelStart.CompareAndSwap(0, vlib.Now())
			s.Cancel()
		}
	}
}

func (r *Run) subscribe(i int, sp SubSpec, seed uint64) {
	s := &SubRec{ID: i, Spec: sp, CtxVal: fmt.Sprintf("%s/sub%d", r.ID, i)}
	ctx, cancel := context.WithCancel(context.WithValue(context.Background(), ctxKey{}, s.CtxVal))
	s.Cancel = cancel
	var sub message.Subscriber = r.PS
	for d := 0; d < sp.Decorators; d++ {
		mk := message.MessageTransformSubscriberDecorator(func(m *message.Message) {})
		if r.Prog.SharedDecorator {
			r.mu.Lock()
			if r.sharedDec == nil {
				r.sharedDec = mk
			}
			mk = r.sharedDec
			r.mu.Unlock()
		}
		dec, _ := mk(sub)
		sub = dec
	}
	if sp.Decorators > 0 {
		r.mu.Lock()
		r.decorated = append(r.decorated, sub)
		r.mu.Unlock()
	}
	s.Start = vlib.Now()
	func() {
		defer func() {
			if v := recover(); v != nil {
				r.panicked("Subscribe", v)
				s.Err = fmt.Sprintf("panic: %v", v)
			}
		}()
		ch, err := sub.Subscribe(ctx, r.topicName(sp.Topic))
		if err != nil {
			s.Err = err.Error()
		}
		s.ch = ch
	}()
	s.End = vlib.Now()
	r.Events.Add(2)
	r.mu.Lock()
	r.Subs = append(r.Subs, s)
	r.mu.Unlock()
	if s.ch == nil {
		cancel()
		return
	}
	n := sp.Consumers
	if n < 1 {
		n = 1
	}
	for c := 0; c < n; c++ {
		s.consumers.Add(1)
		r.consumersActive.Add(1)
		go r.consume(s, seed)
	}
}

func (r *Run) consume(s *SubRec, seed uint64) {
	defer r.consumersActive.Add(-1)
	defer s.consumers.Done()
	sp := s.Spec
	for msg := range s.ch {
		if msg.Metadata == nil {
			r.NilMetaDelivered.Add(1)
		}
		d := &Delivery{Sub: s.ID, UUID: identity(msg), Msg: msg}
		s.mu.Lock()
		// sample the context first, then the cancel flags (sound direction: a flag set before cancel() is seen here)
		if err := msg.Context().Err(); err != nil {
			d.CtxErrRecv = err.Error()
		}
		d.CtxVal = msg.Context().Value(ctxKey{})
		d.CancelSeen = s.CancelStart.Load() != 0 || r.CloseStart.Load() != 0
		d.Snap = vlib.Snap(msg)
		in := s.Inflight.Add(1)
		for {
			mx := s.MaxInflight.Load()
			if in <= mx || s.MaxInflight.CompareAndSwap(mx, in) {
				break
			}
		}
		d.RecvSeq = vlib.Now()
		for _, o := range s.Deliveries {
			if o.UUID == d.UUID {
				d.No++
			}
		}
		s.Deliveries = append(s.Deliveries, d)
		s.mu.Unlock()
		r.Events.Add(1)
		nrecv := int(s.Received.Add(1))
		if nrecv > RunawayCap {
			// a redelivery loop that never ends would otherwise eat memory until the stall watchdog
			s.Runaway.Store(true)
			return
		}
		first := d.No == 0

		if sp.NeverAck {
			// leave it unsettled forever; keep reading: nothing else may become receivable
			continue
		}
		for y := 0; y < sp.Slow; y++ {
			runtime.Gosched()
		}
		if sp.HoldFirstMs > 0 && nrecv == 1 {
			vlib.TimerWait(time.Duration(sp.HoldFirstMs) * time.Millisecond)
		}
		if sp.NestedTo >= 0 && first {
			if sp.NestedForward {
				r.forwardOne(-1-s.ID, sp.NestedTo, msg, d.UUID)
			} else {
				r.publishOne(-1-s.ID, sp.NestedTo, fmt.Sprintf("%s/nested/s%d/%s", r.ID, s.ID, d.UUID))
			}
		}
		if sp.Mutate {
			mutated := false
			func() {
				defer func() {
					if v := recover(); v != nil {
						r.panicked("editing the metadata of a received copy", v)
					}
				}()
				msg.Metadata.Set("mutated-by", s.CtxVal)
				mutated = true
			}()
			if !mutated {
				msg.Metadata = message.Metadata{}
			}
			for k := range msg.Metadata {
				if k != "mutated-by" {
					delete(msg.Metadata, k)
					break
				}
			}
			msg.Payload = []byte("replaced-by-" + s.CtxVal)
		}
		nack := d.No < nacksFor(seed, s.ID, d.UUID, sp.NackPct)
		s.Inflight.Add(-1)
		s.mu.Lock()
		d.SettleSeq = vlib.Now()
		if nack {
			d.Action = "nack"
		} else {
			d.Action = "ack"
		}
		s.mu.Unlock()
		var ok bool
		if nack {
			ok = msg.Nack()
		} else {
			ok = msg.Ack()
		}
		s.mu.Lock()
		d.SettleOK = ok
		d.SettleEnd = vlib.Now()
		s.mu.Unlock()
		r.Events.Add(1)
		if sp.CancelAt >= 0 && nrecv == sp.CancelAt+1 {
			r.CancelSub(s.ID)
		}
		if sp.StopAfter >= 0 && nrecv >= sp.StopAfter+1 {
			return
		}
	}
	s.ClosedSeq.CompareAndSwap(0, vlib.Now())
}

func (r *Run) publisher(pi int, ps PubSpec, rr *vlib.Rand) {
	batch := ps.Batch
	if batch < 1 {
		batch = 1
	}
	call := 0
	for n := 0; n < ps.N; {
		var recs []*PubRec
		var msgs []*message.Message
		for b := 0; b < batch && n < ps.N; b++ {
			uuid := fmt.Sprintf("%s/t%d/p%d/%d", r.ID, ps.Topic, pi, n)
			m := r.newMessage(uuid, rr.Payload(r.Prog.PayloadSz))
			for k := rr.Intn(r.Prog.MetaKeys + 1); k > 0; k-- {
				if m.Metadata == nil {
					m.Metadata = message.Metadata{}
				}
				m.Metadata.Set(fmt.Sprintf("k%d", rr.Intn(4)), rr.UTF8(6))
			}
			if r.Prog.MsgCtx {
				ctx, cancel := context.WithCancel(context.WithValue(context.Background(), pubCtxKey{}, uuid))
				m.SetContext(ctx)
				switch k := rr.Intn(10); {
				case k < 3:
					cancel()
				case k < 6:
					steps := rr.Intn(6)
					go func() {
						for y := 0; y < steps; y++ {
							runtime.Gosched()
						}
						cancel()
					}()
				default:
					_ = cancel // stays live
				}
			}
			if m.Metadata == nil {
				r.NilMetaPublished.Add(1)
			}
			rec := &PubRec{Pub: pi, Topic: ps.Topic, UUID: uuid, Orig: m, OrigSnap: vlib.Snap(m), CallNo: call}
			recs = append(recs, rec)
			msgs = append(msgs, m)
			n++
		}
		r.doPublish(ps.Topic, recs, msgs)
		if r.Prog.EditAfterPublish {
			for _, m := range msgs {
				if m.Metadata == nil {
					m.Metadata = message.Metadata{}
				}
				m.Metadata.Set("edited-after-publish", "yes")
				delete(m.Metadata, "k0")
			}
			r.mu.Lock()
			for _, rec := range recs {
				rec.EditedAfter = true
			}
			r.mu.Unlock()
		}
		call++
		for y := rr.Intn(3); y > 0; y-- {
			runtime.Gosched()
		}
	}
}

func (r *Run) publishOne(pub, topic int, uuid string) {
	m := r.newMessage(uuid, []byte("n"))
	rec := &PubRec{Pub: pub, Topic: topic, UUID: uuid, Orig: m, OrigSnap: vlib.Snap(m)}
	r.doPublish(topic, []*PubRec{rec}, []*message.Message{m})
}

// forwardOne publishes a received message object as it is (same UUID, same identity, whatever ack state it has).
func (r *Run) forwardOne(pub, topic int, m *message.Message, id string) {
	rec := &PubRec{Pub: pub, Topic: topic, UUID: id, Orig: m, OrigSnap: vlib.Snap(m)}
	r.doPublish(topic, []*PubRec{rec}, []*message.Message{m})
}

func (r *Run) doPublish(topic int, recs []*PubRec, msgs []*message.Message) {
	start := vlib.Now()
	r.mu.Lock()
	for _, rec := range recs {
		rec.Start = start
		r.Pubs = append(r.Pubs, rec)
	}
	r.mu.Unlock()
	var errS, panS string
	func() {
		defer func() {
			if v := recover(); v != nil {
				panS = fmt.Sprint(v)
				r.panicked("Publish", v)
			}
		}()
		if err := r.PS.Publish(r.topicName(topic), msgs...); err != nil {
			errS = err.Error()
		}
	}()
	end := vlib.Now()
	r.mu.Lock()
	for _, rec := range recs {
		rec.End, rec.Err, rec.Panic = end, errS, panS
	}
	r.mu.Unlock()
	r.Events.Add(int64(2 * len(recs)))
}

// Close calls Close on the Pub/Sub (and on every decorator in front of it) from n concurrent goroutines; it
// returns a channel closed when all of them returned.
func (r *Run) Close(n int) <-chan struct{} {
	if n < 1 {
		n = 1
	}
	r.CloseStart.CompareAndSwap(0, vlib.Now())
	r.mu.Lock()
	decs := append([]message.Subscriber(nil), r.decorated...)
	r.mu.Unlock()
	var wg sync.WaitGroup
	var ready atomic.Int32
	for i := 0; i < n; i++ {
		wg.Add(1)
		go func(i int) {
			defer wg.Done()
			func() {
				defer func() {
					if v := recover(); v != nil {
						r.panicked("Close", v)
					}
				}()
				// the callers start together (spin gate, bounded): check-then-act slips in Close need calls that overlap from their first instruction
				ready.Add(1)
				for spin := 0; int(ready.Load()) < n && spin < 200000; spin++ {
					if spin%64 == 63 {
						runtime.Gosched()
					}
				}
				if i%2 == 1 && len(decs) > 0 {
					decs[i%len(decs)].Close()
				}
				if err := r.PS.Close(); err == nil {
					// every bare (undecorated) output channel handed out so far must be closed when Close returns to this caller
					open := 0
					for _, s := range r.SubRecs() {
						if s.Spec.Decorators == 0 && s.ch != nil {
							select {
							case <-s.ch:
							default:
								open++
							}
						}
					}
					if open > 0 {
						r.mu.Lock()
						r.OpenAtCloseReturn = append(r.OpenAtCloseReturn, fmt.Sprintf("%d output channel(s) were still open when Close call #%d returned", open, i))
						r.mu.Unlock()
					}
				}
			}()
			end := vlib.Now()
			r.mu.Lock()
			r.CloseEnds = append(r.CloseEnds, end)
			r.mu.Unlock()
		}(i)
	}
	done := make(chan struct{})
	go func() {
		wg.Wait()
		// decorators wait for their pumps; close them all once the Pub/Sub is closed
		for _, d := range decs {
			func() {
				defer func() {
					if v := recover(); v != nil {
						r.panicked("decorator Close", v)
					}
				}()
				d.Close()
			}()
		}
		close(done)
	}()
	return done
}

// ConsumersIdle reports whether every consumer goroutine has returned (its channel was closed, or it stopped reading).
// Use it with vlib.WaitUntil: subscriptions may still be created concurrently, so a WaitGroup cannot be used.
func (r *Run) ConsumersIdle() bool { return r.consumersActive.Load() == 0 }

// Drain reads and acks whatever is still receivable on every subscription whose consumers have stopped
// (used after Close to observe that the channels are closed).
func (r *Run) ChannelClosed(s *SubRec) bool {
	if s.ch == nil {
		return true
	}
	select {
	case _, ok := <-s.ch:
		return !ok
	default:
		return false
	}
}
