// Package c01: end-to-end at-least-once through Router pipelines under faults.
package c01

import (
	"context"
	"errors"
	"fmt"
	"sort"
	"strings"
	"sync"
	"sync/atomic"
	"time"

	"github.com/ThreeDotsLabs/watermill"
	"github.com/ThreeDotsLabs/watermill/message"
	"github.com/ThreeDotsLabs/watermill/pubsub/gochannel"

	"verifharness/vlib"
)

const wgtFrame = "pubsub/sync.WaitGroupTimeout"

var wo = vlib.WaitOpts{Watchdog: 40 * time.Second, NoTimerCheck: []string{wgtFrame}}

// runawayAfter: a stage stops processing (returns no output, no error) after that many deliveries; a context-aware stage gives up failing after that many deliveries with an ended context (the faults
// of a case are at most 26, the messages at most 8 x 81: a correct Pub/Sub cannot cause that many).
const runawayAfter = 20000

var kinds = []string{"handler-error", "handler-panic", "publisher-error", "publisher-panic"}

type fault struct {
	Stage int    `json:"stage"`
	Kind  string `json:"kind"`
	Call  int    `json:"call"` // 0-based call number of that stage's handler (handler-*) or publisher (publisher-*)
}

type shape struct {
	Stages     int     `json:"stages"`
	FanOut     int     `json:"fan_out_stage"`                   // stage returning 2 outputs (-1 none)
	Outs       []int   `json:"outputs_per_stage,omitempty"`     // when set: number of outputs of every stage (batch Publish calls on consecutive topics)
	EmptyTopic int     `json:"empty_topic,omitempty"`           // k>0: the topic between stage k-1 and stage k (or the final topic) is the empty string, a legal topic name
	CtxAware   []bool  `json:"context_aware_stage,omitempty"`   // the stage's handler works under the consumed message's context: a delivery whose context has ended fails at once
	Modes      []int   `json:"output_mode_per_stage,omitempty"` // 0 fresh messages; 1 fresh messages carrying the consumed message's context; 2 the handler returns the consumed message itself (passthrough)
	DupStage   int     `json:"dup_handler_stage"`               // stage with two handlers on its topic (-1 none)
	FanIn      bool    `json:"fan_in"`                          // two first stages (t0a, t0b) publishing into t1
	Msgs       int     `json:"messages"`
	Cfg        int     `json:"config"`
	Faults     []fault `json:"faults"`
	YieldP     float64 `json:"yield"`
	// Scribble: every stage handler edits the copy it received (UUID, metadata, payload re-assigned) once it has derived its outputs from it, or right before it fails. The copy is the
	// handler's own: what a failed attempt did to it must not show up in the redelivery, which has to be the published message again.
	Scribble bool `json:"handler_edits_received_copy,omitempty"`
}

// outs is the number of messages a stage's handler returns per input.
func (sh shape) outs(stage int) int {
	if stage < len(sh.Outs) {
		return sh.Outs[stage]
	}
	if stage == sh.FanOut {
		return 2
	}
	return 1
}

func (sh shape) ctxAware(stage int) bool { return stage < len(sh.CtxAware) && sh.CtxAware[stage] }

func (sh shape) mode(stage int) int {
	if stage < len(sh.Modes) {
		return sh.Modes[stage]
	}
	return 0
}

// the exhaustive sub-space: stages<=2, msgs<=2, faults<=maxFaults with call<=2
func enumFaults(stages, maxFaults int) [][]fault {
	var all []fault
	for s := 0; s < stages; s++ {
		for _, k := range kinds {
			for c := 0; c < 3; c++ {
				all = append(all, fault{s, k, c})
			}
		}
	}
	out := [][]fault{nil}
	if maxFaults >= 1 {
		for _, f := range all {
			out = append(out, []fault{f})
		}
	}
	if maxFaults >= 2 {
		for i := range all {
			for j := i + 1; j < len(all); j++ {
				out = append(out, []fault{all[i], all[j]})
			}
		}
	}
	return out
}

var enumCache = map[int][]shape{}
var enumMu sync.Mutex

func enumShapes(maxFaults int) []shape {
	enumMu.Lock()
	defer enumMu.Unlock()
	if s, ok := enumCache[maxFaults]; ok {
		return s
	}
	var out []shape
	for stages := 1; stages <= 2; stages++ {
		for _, fs := range enumFaults(stages, maxFaults) {
			for msgs := 1; msgs <= 2; msgs++ {
				for cfg := 0; cfg < 12; cfg++ {
					out = append(out, shape{Stages: stages, FanOut: -1, DupStage: -1, Msgs: msgs, Cfg: cfg, Faults: fs})
				}
			}
		}
	}
	// batch block: two consecutive stages that both return 2 messages (one Publish call carrying a batch per stage,
	// overlapping batch Publish calls on different topics of one GoChannel), every single fault placement
	for _, fs := range enumFaults(2, 1) {
		for msgs := 1; msgs <= 2; msgs++ {
			for cfg := 0; cfg < 12; cfg++ {
				out = append(out, shape{Stages: 2, FanOut: -1, DupStage: -1, Outs: []int{2, 2}, Msgs: msgs, Cfg: cfg, Faults: fs})
			}
		}
	}
	// context block: the outputs of stage 0 carry the context of the consumed message (what the Router's passthrough
	// and many real handlers do); that context ends as soon as stage 0 acks its input, i.e. while stage 1 may still be
	// nacking and waiting for redeliveries. Mode 1 = fresh message with that context, mode 2 = the consumed message itself.
	for mode := 1; mode <= 2; mode++ {
		for _, fs := range enumFaults(2, 1) {
			for cfg := 0; cfg < 12; cfg++ {
				out = append(out, shape{Stages: 2, FanOut: -1, DupStage: -1, Modes: []int{mode, 0}, Msgs: 1 + cfg%2, Cfg: cfg, Faults: fs})
			}
		}
	}
	// context-aware block: both stages do their work under the consumed message's context (as a handler behind
	// middleware.Timeout, or one that passes msg.Context() to a client, does): a redelivery that arrives with an ended
	// context can never be processed.
	for _, fs := range enumFaults(2, 1) {
		for cfg := 0; cfg < 12; cfg++ {
			out = append(out, shape{Stages: 2, FanOut: -1, DupStage: -1, CtxAware: []bool{true, true}, Msgs: 1 + cfg%2, Cfg: cfg, Faults: fs})
		}
	}
	// run block: the same stage fails on 4 or 7 consecutive calls (one kind, or handler and publisher panics mixed):
	// anything that counts consecutive failures (back-off, circuit breaking, log throttling) would show here
	for stage := 0; stage < 2; stage++ {
		for ki := 0; ki <= len(kinds); ki++ {
			for _, n := range []int{4, 7} {
				for cfg := 0; cfg < 12; cfg++ {
					var fs []fault
					for c := 0; c < n; c++ {
						k := "handler-panic"
						if ki < len(kinds) {
							k = kinds[ki]
						} else if c%2 == 1 {
							k = "publisher-panic" // mixed: a publisher panic follows each handler panic
						}
						call := c
						if ki == len(kinds) {
							call = c / 2 // handler calls 0,1,2.. and publisher calls 0,1,2.. alternate in time
						}
						fs = append(fs, fault{stage, k, call})
					}
					out = append(out, shape{Stages: 2, FanOut: -1, DupStage: -1, Msgs: 1 + cfg%2, Cfg: cfg, Faults: fs})
				}
			}
		}
	}
	// empty-topic block: a middle or the final topic is "" (legal for GoChannel and AddHandler)
	for et := 1; et <= 2; et++ {
		for _, fs := range [][]fault{nil, {{0, "handler-error", 0}}, {{1, "handler-panic", 0}}, {{0, "publisher-error", 0}}, {{1, "publisher-panic", 0}}} {
			for cfg := 0; cfg < 12; cfg++ {
				out = append(out, shape{Stages: 2, FanOut: -1, DupStage: -1, EmptyTopic: et, Msgs: 1 + cfg%2, Cfg: cfg, Faults: fs})
			}
		}
	}
	enumCache[maxFaults] = out
	return out
}

func enumCount(tier string) int {
	if tier == "thorough" {
		return len(enumShapes(2))
	}
	return len(enumShapes(1))
}

func init() {
	vlib.Register(&vlib.Prop{
		ID:    "C01",
		Level: "fault_enumeration",
		Cases: func(tier string) int { return enumCount(tier) + vlib.TierN(tier, 400, 64000) },
		Rule: "enumerated part: pipelines of 1..2 Router stages connected by GoChannel topics, 1..2 source messages, all 12 GoChannel configs {buffer 0/1/4 x persistent x blocking}, and EVERY placement of up to 1 (quick) / 2 (thorough) faults {handler error, handler panic, publisher error, publisher panic} on call 0..2 of any stage (exhaustive within these bounds: " + fmt.Sprint(len(enumShapes(1))) + " / " + fmt.Sprint(len(enumShapes(2))) + " cases); " +
			"plus a batch block: 2 stages that both return 2 messages (batch Publish calls overlapping on consecutive topics) x 1..2 messages x 12 configs x every single fault; " +
			"plus a context block: 2 stages where the outputs of stage 0 carry the consumed message's context (fresh message with that context / the consumed message itself) x 12 configs x every single fault; " +
			"plus an empty-topic block: the middle or the final topic is the empty string x {no fault, 4 single faults} x 12 configs; " +
			"plus a run block: one stage fails on 4 or 7 consecutive calls (each fault kind, and handler/publisher panics alternating) x 2 stages x 12 configs; " +
			"plus a context-aware block: 2 stages whose handlers fail at once when the consumed message's context has ended x 12 configs x every single fault; " +
			"random part: 1..4 stages, in 15% of the cases one non-source topic is the empty string, up to 12 faults on random calls plus (30%) a run of 3..10 consecutive failing calls of one stage, context-aware handlers on half of the stages of 40% of the cases, per-stage output mode {fresh, fresh with the consumed message's context, passthrough of the consumed message}, optional fan-out stage (2 outputs) or 1..3 outputs on every stage, optional stage with two handlers on its topic, optional fan-in (two first stages into one topic), 1..8 messages from 1..2 publisher goroutines, up to 12 faults on random calls, yield injection at the router/gochannel hook points. " +
			"in half of all cases (by case id) every stage handler edits the copy it received (UUID, metadata, payload re-assigned) after deriving its outputs or right before failing - a redelivery has to be the published message again, not what a failed attempt left behind; " +
			"Oracle at quiescence: every accepted source message has >=1 arrival per expected lineage at the sink subscription; every arrival's lineage is one the pipeline can produce from an accepted source message and its payload is intact; the consumed message of a stage is still unsettled when the Publish of its output returns nil; a source Publish never hangs; the process does not crash. " +
			"Non-trivial: >=1 injected fault actually fired. Distinct = (shape, faults fired, hook fingerprint).",
		Assumptions: []string{
			"fault scripts are finite, so the faults stop; redelivery is GoChannel's Nack loop (no timers), hence quiescence means nothing more will arrive",
			"a failing publisher fails before handing anything to the next topic",
		},
		Run: run,
	})
}

func genRandom(e *vlib.Env) shape {
	r := e.R
	s := shape{Stages: r.Range(1, 4), FanOut: -1, DupStage: -1, Msgs: r.Range(1, 8), Cfg: r.Intn(12), YieldP: []float64{0, 0.3, 0.6}[r.Intn(3)]}
	if r.Chance(0.35) {
		s.FanOut = r.Intn(s.Stages)
	}
	if r.Chance(0.3) {
		// every stage returns 1..3 messages: batch publishes on consecutive topics
		s.FanOut = -1
		for i := 0; i < s.Stages; i++ {
			s.Outs = append(s.Outs, r.Range(1, 3))
		}
		if s.Stages > 2 {
			s.Msgs = r.Range(1, 4) // up to 3^4 lineages per source message
		}
	}
	if r.Chance(0.3) {
		s.DupStage = r.Intn(s.Stages)
	}
	if r.Chance(0.4) {
		for i := 0; i < s.Stages; i++ {
			s.CtxAware = append(s.CtxAware, r.Chance(0.5))
		}
	}
	if r.Chance(0.15) {
		s.EmptyTopic = r.Range(1, s.Stages)
	}
	if r.Chance(0.35) {
		for i := 0; i < s.Stages; i++ {
			m := r.Intn(3)
			if m == 2 && (s.outs(i) != 1 || i == s.DupStage) {
				m = 1 // passthrough returns exactly the one consumed message and keeps its UUID
			}
			s.Modes = append(s.Modes, m)
		}
	}
	if r.Chance(0.3) {
		s.FanIn = true
	}
	for i, n := 0, r.Intn(13); i < n; i++ {
		s.Faults = append(s.Faults, fault{r.Intn(s.Stages), kinds[r.Intn(4)], r.Intn(10)})
	}
	if r.Chance(0.3) {
		// a run of 3..10 consecutive failing calls of one stage
		st, k, from := r.Intn(s.Stages), kinds[r.Intn(4)], r.Intn(3)
		for i, n := 0, r.Range(3, 10); i < n; i++ {
			s.Faults = append(s.Faults, fault{st, k, from + i})
		}
	}
	return s
}

type world struct {
	mu         sync.Mutex
	hCalls     map[int]int // stage -> handler calls so far
	pCalls     map[int]int
	fired      []string
	consumed   map[*message.Message]*message.Message // output -> consumed
	ackedEarly []string
	arrivals   map[string]int
	badPayload []string
	deadCtx    int  // deliveries to a context-aware stage whose context had already ended
	runaway    bool // the redeliveries of such a message did not stop
	events     atomic.Int64
}

func (w *world) faultAt(sh shape, stage int, handler bool, call int) string {
	for _, f := range sh.Faults {
		if f.Stage != stage || f.Call != call {
			continue
		}
		if handler == strings.HasPrefix(f.Kind, "handler-") {
			return f.Kind
		}
	}
	return ""
}

type stagePub struct {
	w     *world
	sh    shape
	stage int
	inner message.Publisher
}

func (p *stagePub) Publish(topic string, msgs ...*message.Message) error {
	w := p.w
	w.mu.Lock()
	call := w.pCalls[p.stage]
	w.pCalls[p.stage]++
	k := w.faultAt(p.sh, p.stage, false, call)
	if k != "" {
		w.fired = append(w.fired, fmt.Sprintf("s%d:%s@%d", p.stage, k, call))
	}
	w.mu.Unlock()
	w.events.Add(1)
	switch k {
	case "publisher-error":
		switch (p.stage + call) % 3 { // the error value must not matter
		case 1:
			return context.Canceled
		case 2:
			return fmt.Errorf("injected publisher error: %w", context.Canceled)
		}
		return errors.New("injected publisher error")
	case "publisher-panic":
		panic("injected publisher panic")
	}
	err := p.inner.Publish(topic, msgs...)
	if err == nil {
		w.mu.Lock()
		for _, m := range msgs {
			if c := w.consumed[m]; c != nil {
				if st := vlib.Settled(c); st != "" {
					w.ackedEarly = append(w.ackedEarly, fmt.Sprintf("stage %d: consumed %s was already %sed when the Publish of its output %s returned nil", p.stage, c.UUID, st, m.UUID))
				}
			}
		}
		w.mu.Unlock()
	}
	return err
}

func (p *stagePub) Close() error { return nil }

func run(e *vlib.Env) vlib.Result {
	var sh shape
	class := "enumerated"
	ne := enumCount(e.Tier)
	if e.Idx < ne {
		if e.Tier == "thorough" {
			sh = enumShapes(2)[e.Idx]
		} else {
			sh = enumShapes(1)[e.Idx]
		}
	} else {
		sh = genRandom(e)
		class = "random"
	}
	sh.Scribble = vlib.HashStr(e.ID()+"/scribble")%2 == 0
	cfg := gochannel.Config{OutputChannelBuffer: []int64{0, 1, 4}[sh.Cfg%3], Persistent: (sh.Cfg/3)%2 == 1, BlockPublishUntilSubscriberAck: sh.Cfg/6 == 1}
	res := vlib.Result{Class: fmt.Sprintf("%s/stages=%d/faults=%d", class, sh.Stages, len(sh.Faults)), Spec: sh}
	id := e.ID()
	w := &world{hCalls: map[int]int{}, pCalls: map[int]int{}, consumed: map[*message.Message]*message.Message{}, arrivals: map[string]int{}}
	ctl := vlib.NewCtl(e.R.Uint64(), sh.YieldP, 60)
	defer ctl.Uninstall()
	ps := gochannel.NewGoChannel(cfg, watermill.NopLogger{})
	r, _ := message.NewRouter(message.RouterConfig{CloseTimeout: time.Hour}, watermill.NopLogger{})
	topic := func(s int) string {
		if sh.EmptyTopic > 0 && s == sh.EmptyTopic {
			return ""
		}
		return fmt.Sprintf("%s/t%d", id, s)
	}
	srcTopics := []string{topic(0)}
	if sh.FanIn {
		srcTopics = append(srcTopics, id+"/t0b")
	}
	mkHandler := func(stage int, tag string) message.HandlerFunc {
		return func(in *message.Message) ([]*message.Message, error) {
			w.mu.Lock()
			call := w.hCalls[stage]
			w.hCalls[stage]++
			k := w.faultAt(sh, stage, true, call)
			if k != "" {
				w.fired = append(w.fired, fmt.Sprintf("s%d:%s@%d", stage, k, call))
			}
			over := w.hCalls[stage] > runawayAfter
			if over {
				w.runaway = true
			}
			dead := 0
			if k == "" && sh.ctxAware(stage) && in.Context().Err() != nil {
				w.deadCtx++
				dead = w.deadCtx
			}
			w.mu.Unlock()
			w.events.Add(1)
			if over {
				// the faults of a case are finite, yet this stage keeps getting deliveries: end the loop so that the case can be judged
				return nil, nil
			}
			if dead > 0 {
				if dead > runawayAfter {
					// the Pub/Sub keeps redelivering copies that cannot be processed: end the loop so that the case can be judged
					w.mu.Lock()
					w.runaway = true
					w.mu.Unlock()
					return nil, nil
				}
				return nil, in.Context().Err()
			}
			scribble := func() {
				if sh.Scribble {
					in.UUID += "/edited-by-an-attempt"
					in.Metadata.Set("attempt_of_stage", fmt.Sprint(stage))
					in.Payload = []byte("edited-by-an-attempt")
				}
			}
			if k != "" {
				scribble()
			}
			switch k {
			case "handler-error":
				switch (stage + call) % 3 {
				case 1:
					return nil, context.Canceled
				case 2:
					return nil, fmt.Errorf("injected handler error: %w", context.DeadlineExceeded)
				}
				return nil, errors.New("injected handler error")
			case "handler-panic":
				panic("injected handler panic")
			}
			if sh.mode(stage) == 2 {
				w.mu.Lock()
				w.consumed[in] = in
				w.mu.Unlock()
				return []*message.Message{in}, nil
			}
			n := sh.outs(stage)
			var outs []*message.Message
			for i := 0; i < n; i++ {
				u := fmt.Sprintf("%s/s%d%s", in.UUID, stage, tag)
				if n >= 2 {
					u += fmt.Sprintf("#%d", i)
				}
				o := message.NewMessage(u, in.Payload)
				if sh.mode(stage) == 1 {
					o.SetContext(in.Context())
				}
				outs = append(outs, o)
			}
			w.mu.Lock()
			for _, o := range outs {
				w.consumed[o] = in
			}
			w.mu.Unlock()
			scribble()
			return outs, nil
		}
	}
	for s := 0; s < sh.Stages; s++ {
		tags := []string{""}
		if s == sh.DupStage {
			tags = []string{"a", "b"}
		}
		for _, tg := range tags {
			r.AddHandler(fmt.Sprintf("%s/h%d%s", id, s, tg), topic(s), ps, topic(s+1), &stagePub{w, sh, s, ps}, mkHandler(s, tg))
		}
		if s == 0 && sh.FanIn {
			r.AddHandler(fmt.Sprintf("%s/h0in", id), id+"/t0b", ps, topic(1), &stagePub{w, sh, 0, ps}, mkHandler(0, "in"))
		}
	}
	// sink
	sinkCh, err := ps.Subscribe(context.Background(), topic(sh.Stages))
	if err != nil {
		res.Verdict, res.Reason = vlib.HarnessError, err.Error()
		return res
	}
	payloadOf := map[string]string{}
	sinkDone := make(chan struct{})
	go func() {
		defer close(sinkDone)
		for m := range sinkCh {
			w.mu.Lock()
			w.arrivals[m.UUID]++
			root := m.UUID
			if i := strings.Index(root[len(id):], "/s"); i >= 0 {
				root = root[:len(id)+i]
			}
			if want, ok := payloadOf[root]; ok && want != string(m.Payload) {
				w.badPayload = append(w.badPayload, fmt.Sprintf("%s arrived with payload %q, source payload was %q", m.UUID, m.Payload, want))
			}
			w.mu.Unlock()
			w.events.Add(1)
			m.Ack()
		}
	}()
	runDone := make(chan struct{})
	go func() { defer close(runDone); r.Run(context.Background()) }()
	if oc, d := vlib.WaitClosed(r.Running(), wo); oc != vlib.Done {
		res.Inconclusive("router did not start")
		res.Witness = d
		return res
	}
	// source
	type src struct {
		uuid, topic string
		err         string
	}
	srcs := make([]*src, sh.Msgs)
	w.mu.Lock()
	for i := range srcs {
		srcs[i] = &src{uuid: fmt.Sprintf("%s/m%d", id, i), topic: srcTopics[i%len(srcTopics)]}
		payloadOf[srcs[i].uuid] = "payload-of-" + srcs[i].uuid
	}
	w.mu.Unlock()
	npub := 1
	if sh.Msgs > 1 && e.R.Bool() {
		npub = 2
	}
	var pwg sync.WaitGroup
	for p := 0; p < npub; p++ {
		pwg.Add(1)
		go func(p int) {
			defer pwg.Done()
			for i := p; i < len(srcs); i += npub {
				m := message.NewMessage(srcs[i].uuid, []byte("payload-of-"+srcs[i].uuid))
				if err := ps.Publish(srcs[i].topic, m); err != nil {
					srcs[i].err = err.Error()
				}
				if sh.Scribble {
					// the caller's object belongs to the caller again once Publish has returned (GoChannel publishes copies):
					// re-filling it for something else must not change what was published
					m.UUID = "not-published/" + srcs[i].uuid
					m.Metadata.Set("edited-after-publish", "1")
					m.Payload = []byte("edited-after-publish")
				}
				w.events.Add(1)
			}
		}(p)
	}
	pubsDone := make(chan struct{})
	go func() { pwg.Wait(); close(pubsDone) }()
	if oc, d := vlib.WaitClosed(pubsDone, wo); oc == vlib.Stuck {
		res.Fail("source-publish-stuck", "a source Publish never returned although the faults are finite (process quiescent)")
		res.Witness = d
	} else if oc == vlib.Inconclusive {
		res.Inconclusive("source publishers neither finished nor quiescent")
	}
	if res.Verdict == "" {
		if oc, _ := vlib.Settle(wo); oc == vlib.Inconclusive {
			res.Inconclusive("pipeline did not become quiescent")
		}
	}
	if res.Verdict == "" {
		// expected lineages
		expand := func(u string, stage int, first string) []string {
			tags := []string{""}
			if stage == sh.DupStage {
				tags = []string{"a", "b"}
			}
			if first != "" {
				tags = []string{first}
			}
			var out []string
			if sh.mode(stage) == 2 {
				return []string{u}
			}
			for _, tg := range tags {
				b := fmt.Sprintf("%s/s%d%s", u, stage, tg)
				if n := sh.outs(stage); n >= 2 {
					for i := 0; i < n; i++ {
						out = append(out, fmt.Sprintf("%s#%d", b, i))
					}
				} else {
					out = append(out, b)
				}
			}
			return out
		}
		expected := map[string]bool{}
		w.mu.Lock()
		for _, s := range srcs {
			if s.err != "" {
				res.Fail("source-publish-error", "Publish of %s failed on an open Pub/Sub: %s", s.uuid, s.err)
				continue
			}
			cur := []string{s.uuid}
			for st := 0; st < sh.Stages; st++ {
				var next []string
				for _, u := range cur {
					first := ""
					if st == 0 && s.topic != topic(0) {
						first = "in"
					}
					next = append(next, expand(u, st, first)...)
				}
				cur = next
			}
			for _, u := range cur {
				expected[u] = true
			}
		}
		var missing, foreign []string
		for u := range expected {
			if w.arrivals[u] == 0 {
				missing = append(missing, u)
			}
		}
		dups := 0
		for u, n := range w.arrivals {
			if !expected[u] {
				foreign = append(foreign, u)
			}
			if n > 1 {
				dups += n - 1
			}
		}
		sort.Strings(missing)
		sort.Strings(foreign)
		if len(missing) > 0 {
			res.Fail("message-lost", "%d of %d expected lineages never reached the final topic although the faults stopped (quiescent): %v; faults fired: %v", len(missing), len(expected), missing, w.fired)
		}
		if len(foreign) > 0 {
			res.Fail("invented-message", "the final topic received messages that derive from no accepted source message: %v", foreign)
		}
		for _, b := range w.badPayload {
			res.Fail("payload-changed", "%s", b)
		}
		if w.runaway {
			res.Fail("message-lost", "a stage was handed more than %d deliveries although the faults of the case are finite (%d deliveries had an already ended context): the message is redelivered for ever and never reaches the final topic; faults fired: %v", runawayAfter, w.deadCtx, w.fired)
		}
		res.Count("deliveries_with_ended_context_to_context_aware_stage", w.deadCtx)
		for _, a := range w.ackedEarly {
			res.Fail("ack-before-publish", "%s", a)
		}
		res.Count("faults_fired", len(w.fired))
		res.Count("redeliveries_duplicates_at_sink", dups)
		res.Count("expected_lineages", len(expected))
		res.NonTrivial = len(w.fired) > 0
		fired := append([]string(nil), w.fired...)
		sort.Strings(fired)
		res.Sig = vlib.Sig(fmt.Sprintf("%+v", sh), fired, ctl.Fingerprint())
		res.Sample = map[string]any{"shape": sh, "faults_fired": fired, "arrivals": len(w.arrivals), "expected": len(expected)}
		w.mu.Unlock()
	}
	res.Events = int(w.events.Load())
	res.Hooks = ctl.Counts()
	// teardown
	cd := make(chan struct{})
	go func() { r.Close(); ps.Close(); close(cd) }()
	vlib.WaitClosed(cd, wo)
	vlib.WaitClosed(runDone, wo)
	vlib.WaitClosed(sinkDone, wo)
	return res
}
