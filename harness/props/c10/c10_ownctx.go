package c10

import (
	"context"
	"fmt"
	"sync"

	"verifharness/vlib"
)

// ---------------------------------------------------------------------------------------------
// own-context class: handlers added to the running router are started by RunHandlers calls whose context is the
// caller's own, not Run's

// ownctxKinds: the context handed to the (first) RunHandlers call for handlers added after Run.
var ownctxKinds = []string{
	"background",                // context.Background(), as in the library's own tests and examples
	"values",                    // an application context that carries values, never cancelled
	"own-never-cancelled",       // a cancelable context of the caller's, alive for the whole program
	"own-cancelled-after-start", // ... cancelled once its handlers run and have handled a message
	"own-cancelled-before-call", // ... cancelled already when RunHandlers is called
	"own-cancelled-with-ending", // ... cancelled together with the ending of the program
	"without-cancel-of-run",     // context.WithoutCancel(Run's context): Run's values, not Run's cancellation
}

// ownctxPer is one full enumeration of the own-context class (context kind x ending x subscriber kind).
const ownctxPer = 7 * 4 * 2

func ownctxN(tier string) int { return vlib.TierN(tier, 4*ownctxPer, 60*ownctxPer) }

type ctxKey string

type ownWave struct {
	kind      string
	ctx       context.Context
	cancel    context.CancelFunc // nil: the context cannot be cancelled by the caller
	cancelled bool
	foreign   bool // not cancelled together with Run's context
	hs        []*hrec
}

// mkOwnCtx makes the context of one RunHandlers call.
func (w *world) mkOwnCtx(kind string, n int) *ownWave {
	wv := &ownWave{kind: kind, foreign: true}
	switch kind {
	case "background":
		wv.ctx = context.Background()
	case "values":
		wv.ctx = context.WithValue(context.WithValue(context.Background(), ctxKey("application"), w.id), ctxKey("call"), n)
	case "without-cancel-of-run":
		wv.ctx = context.WithoutCancel(w.ctx)
	case "run-ctx":
		wv.ctx, wv.foreign = w.ctx, false
	default: // own-*
		base := context.Background()
		if n%2 == 1 {
			base = context.WithValue(base, ctxKey("call"), n)
		}
		wv.ctx, wv.cancel = context.WithCancel(base)
		if kind == "own-cancelled-before-call" {
			wv.cancel()
			wv.cancelled = true
		}
		w.releases = append(w.releases, func() { wv.cancel() })
	}
	return wv
}

// runHandlersCtx calls RunHandlers(ctx) on a goroutine of its own and waits for it. done=false: it did not return (verdict set).
func (w *world) runHandlersCtx(ctx context.Context, what string) (err error, done bool) {
	ch := make(chan struct{})
	go func() { defer close(ch); err = w.r.RunHandlers(ctx) }()
	w.events++
	switch oc, d := vlib.WaitClosed(ch, w.wo); oc {
	case vlib.Stuck:
		w.res.Fail("runhandlers-stuck", "%s: RunHandlers never returned (quiescent): %s", what, w.spec)
		w.res.Witness = d
		return nil, false
	case vlib.Inconclusive:
		w.res.Inconclusive("RunHandlers: neither returned nor quiescent")
		return nil, false
	}
	return err, true
}

// endedWithContext: the context under which these handlers were started has been cancelled; their subscriptions end with
// it (Subscriber contract) and so do the handlers. The statement does not put this into words, so a handler that stays
// is not reported: the case just cannot be judged any further (false). Stop() and Stopped() stay usable in any case.
func (w *world) endedWithContext(hs []*hrec, what string) bool {
	for _, h := range hs {
		if !w.ok() {
			return false
		}
		w.events++
		var st chan struct{}
		safely(func() { st = h.h.Stopped() })
		if st == nil {
			w.res.Fail("stopped-nil-after-started", "%s: Stopped() of %s is nil after Started() closed: %s", what, h.name, w.spec)
			return false
		}
		if oc, _ := vlib.WaitClosed(st, w.wo); oc != vlib.Done {
			w.res.Inconclusive("%s: handler %s did not end with the context it was started under: outside the programs this class judges (%s)", what, h.name, w.spec)
			return false
		}
		h.stopped = true
		// "once a handler's Started() is closed its Stop() ... [is] usable": also after it has ended by itself
		if p := safely(func() { h.h.Stop() }); p != nil {
			w.res.Fail("stop-panics-after-started", "%s: Stop() of %s, which had ended with its context, panicked: %v (%s)", what, h.name, p, w.spec)
			return false
		}
		w.res.Count("ownctx_handlers_ended_with_their_context", 1)
	}
	return true
}

// ownctx: "If handler is added while router is already running, you need to explicitly call RunHandlers()" - and the
// context of that call is the caller's: context.Background() in the library's own tests, an application context, a
// context that is cancelled at some point of its own. Such a handler's subscription does not descend from Run's
// context. What the property promises does not depend on that: the handler is started once and processes, Stop ends
// one handler only, and the router closes itself and Run returns nil when the last handler ends / when the Run context
// is cancelled (also when that cancel reaches none of the handlers that are still alive), and on Close.
func ownctx(e *vlib.Env, j int) vlib.Result {
	rnd := e.R
	rep := j / ownctxPer
	kind := ownctxKinds[j%len(ownctxKinds)]
	j /= len(ownctxKinds)
	ending := endings[j%len(endings)]
	j /= len(endings)
	useGC := j%2 == 1
	n0 := []int{0, 1, 1, 2, 3}[rnd.Intn(5)] // handlers added before Run: they run under Run's context
	kinds := []string{kind}
	if rnd.Chance(0.4) {
		kinds = append(kinds, append([]string{"run-ctx"}, ownctxKinds...)[rnd.Intn(len(ownctxKinds)+1)])
	}
	sizes := []int{rnd.Range(1, 2), rnd.Range(1, 2)}
	extraCalls := rnd.Range(0, 2) // further RunHandlers calls with yet another context: nothing left to start
	extraKinds := make([]string, extraCalls)
	for i := range extraKinds {
		extraKinds[i] = append([]string{"run-ctx"}, ownctxKinds...)[rnd.Intn(len(ownctxKinds)+1)]
		if extraKinds[i] == "own-cancelled-after-start" || extraKinds[i] == "own-cancelled-with-ending" {
			extraKinds[i] = "own-never-cancelled"
		}
	}
	stops := []string{"none", "none", "one", "one-started-by-runhandlers", "all-started-by-run"}[rnd.Intn(5)]
	busy := rnd.Chance(0.3)
	yieldP := []float64{0, 0.3, 0.6}[rnd.Intn(3)]
	spec := fmt.Sprintf("runHandlersContext=%v handlersPerCall=%v handlersBeforeRun=%d furtherRunHandlersCalls=%v stopBeforeTheEnding=%s aHandlerFunctionIsBusyAtTheEnding=%v ending=%s gochannel=%v yield=%.1f",
		kinds, sizes[:len(kinds)], n0, extraKinds, stops, busy, ending, useGC, yieldP)
	res := vlib.Result{Class: fmt.Sprintf("ownctx/%s/%s", kind, ending), Spec: spec}
	w := newWorld(e, &res, spec, useGC)
	ctl := vlib.NewCtl(rnd.Uint64(), yieldP, 80)
	defer ctl.Uninstall()
	var gateOnce sync.Once
	gate := make(chan struct{})
	openGate := func() { gateOnce.Do(func() { close(gate) }) }
	foreignStarted, foreignAlive := 0, 0
	var waves []*ownWave
	finish := func() vlib.Result {
		openGate()
		if !w.abandoned {
			w.teardown()
		}
		res.Events = w.events
		res.Hooks = ctl.Counts()
		res.Sig = vlib.Sig(spec, rep, res.Verdict, ctl.Fingerprint())
		res.Sample = map[string]any{"program": spec}
		res.Count("ownctx_handlers_started_under_a_context_independent_of_run", foreignStarted)
		res.Count("ownctx_such_handlers_alive_at_the_ending", foreignAlive)
		res.Count("ownctx_context_"+kind, 1)
		return res
	}
	alive := func() []*hrec { return w.running() }

	// the router and the handlers of Run's own start-up
	for k := 0; k < n0; k++ {
		w.add(k, 0)
	}
	w.startRun()
	if !w.waitRunning("") {
		return finish()
	}
	for _, h := range w.hs {
		w.events++
		if !useGC && len(h.sub.Subs()) == 0 && !res.Failed() {
			res.Fail("running-before-subscribed", "Running() is closed but handler %s has no subscription yet: %s", h.name, spec)
		}
	}
	for _, h := range w.hs {
		if w.ok() {
			w.emitAndExpect(h, "at-running", "message-lost-after-running", "message emitted the instant Running() closed")
		}
	}
	if !w.ok() {
		return finish()
	}

	// handlers added to the running router, started with the caller's context
	lastEnded := false // the last handler has ended already: the router closes itself, nothing may be added any more
	next := n0
	for wi, kd := range kinds {
		wv := w.mkOwnCtx(kd, wi)
		waves = append(waves, wv)
		what := fmt.Sprintf("%d handler(s) added after Run, RunHandlers(%s)", sizes[wi], kd)
		for c := 0; c < sizes[wi]; c++ {
			h, _ := w.add(next, 0)
			h.late = true
			wv.hs = append(wv.hs, h)
			next++
		}
		err, done := w.runHandlersCtx(wv.ctx, what)
		if !done {
			return finish()
		}
		if err != nil {
			if wv.cancelled {
				res.Inconclusive("RunHandlers refused a context that is cancelled (%v): outside the programs this class judges (%s)", err, spec)
			} else {
				res.Fail("runhandlers-error", "%s: RunHandlers returned %v: %s", what, err, spec)
			}
			return finish()
		}
		// "however often it is called": with whatever context
		if wi == 0 {
			for i, xk := range extraKinds {
				xv := w.mkOwnCtx(xk, 10+i)
				err, done := w.runHandlersCtx(xv.ctx, what+fmt.Sprintf("; a further RunHandlers(%s) call with nothing left to start", xk))
				if !done {
					return finish()
				}
				if err != nil && !xv.cancelled {
					res.Fail("runhandlers-error", "%s: a further RunHandlers(%s) call with nothing left to start returned %v: %s", what, xk, err, spec)
					return finish()
				}
			}
		}
		for _, h := range wv.hs {
			if !w.ok() {
				return finish()
			}
			if wv.cancelled {
				// started and ended at once; whether a router starts a handler under a dead context at all is not promised
				if oc, _ := vlib.WaitClosed(h.h.Started(), w.wo); oc != vlib.Done {
					res.Inconclusive("%s: Started() of %s did not close: outside the programs this class judges (%s)", what, h.name, spec)
					return finish()
				}
				continue
			}
			if w.waitStarted(h, what+" returned nil") {
				w.emitAndExpect(h, "late", "late-handler-not-processing", what+" returned nil; message for that handler")
			}
		}
		if !w.ok() {
			return finish()
		}
		if wv.foreign {
			foreignStarted += len(wv.hs)
		}
		if kd == "own-cancelled-after-start" {
			wv.cancel()
			wv.cancelled = true
		}
		if wv.cancelled {
			if !w.endedWithContext(wv.hs, what+"; that context is cancelled") {
				return finish()
			}
			if len(alive()) == 0 {
				lastEnded = true
				break
			}
			if !w.stillOpen(false, what+"; that context is cancelled and its handlers have ended, others still run") {
				return finish()
			}
		}
	}

	// Stop ends that handler only - whichever context it was started under
	if !lastEnded {
		var victims []*hrec
		rs := alive()
		switch stops {
		case "one":
			if len(rs) > 0 {
				victims = []*hrec{rs[rnd.Intn(len(rs))]}
			}
		case "one-started-by-runhandlers":
			for _, h := range rs {
				if h.late {
					victims = []*hrec{h}
				}
			}
		case "all-started-by-run":
			for _, h := range rs {
				if !h.late {
					victims = append(victims, h)
				}
			}
		}
		if len(rs) == 0 {
			victims = nil
		} else if len(victims) >= len(rs) {
			victims = victims[:len(rs)-1] // the ending of the program is the ending chosen above
		}
		for _, v := range victims {
			what := fmt.Sprintf("handler h%d was stopped (started by RunHandlers with a context of the caller's: %v)", v.k, v.late)
			st := w.stop(v, what)
			w.waitStopped(v, st, what)
			res.Count("ownctx_stops_before_the_ending", 1)
			if !w.stillOpen(false, what+", others still run") {
				return finish()
			}
			for _, h := range alive() {
				if w.ok() {
					w.emitAndExpect(h, fmt.Sprintf("after-stop-of-h%d", v.k), "others-broken-after-stop", what+"; message for a handler that was not stopped")
				}
			}
		}
		if !w.ok() {
			return finish()
		}
	}

	// the ending
	for _, wv := range waves {
		if wv.foreign && !wv.cancelled {
			for _, h := range wv.hs {
				if !h.stopped {
					foreignAlive++
				}
			}
		}
	}
	res.NonTrivial = foreignStarted > 0
	what := fmt.Sprintf("%d handler(s) run under Run's context, %d under a RunHandlers context that is independent of it %v", len(alive())-foreignAlive, foreignAlive, kinds)
	if lastEnded {
		w.end("none", what+"; the context of the last handlers alive was cancelled (the last handler ended)")
		w.subscribeCounts()
		return finish()
	}
	held := 0
	if busy {
		// one handler function is busy with a message when the ending comes, and returns afterwards (CloseTimeout is 1 h)
		rs := alive()
		h := rs[rnd.Intn(len(rs))]
		for _, c := range rs {
			if c.late && rnd.Bool() {
				h = c
			}
		}
		h.gate.Store(&gate)
		if w.emit(h, "held") {
			if oc, _ := vlib.WaitUntil(func() bool { return h.heldNow.Load() >= 1 }, w.wo); oc == vlib.Done {
				held = 1
			}
		}
		if held == 0 {
			h.gate.Store(nil)
		}
		res.Count("ownctx_handler_function_busy_at_the_ending", held)
	}
	desc, closeDone := w.doEnding(ending, what)
	for _, wv := range waves {
		if wv.kind == "own-cancelled-with-ending" && !wv.cancelled {
			wv.cancel()
			wv.cancelled = true
			desc += "; the context of a RunHandlers call was cancelled at the same time"
		}
	}
	if held > 0 {
		vlib.Settle(w.wo) // the ending gets as far as it can while the handler function is busy
		desc += "; a handler function was busy with a message meanwhile and returned afterwards"
	}
	openGate()
	w.judgeEnd(desc, closeDone)
	if w.ok() {
		// not promised in so many words (a close may time out), but worth a number: handlers still alive, at quiescence, after the router closed
		vlib.Settle(w.wo)
		left := 0
		for _, h := range w.hs {
			if st := h.h.Stopped(); vlib.IsClosed(h.h.Started()) && (st == nil || !vlib.IsClosed(st)) {
				left++
			}
		}
		res.Count("ownctx_handlers_alive_after_the_router_closed", left)
	}
	w.subscribeCounts()
	return finish()
}
