// Package c10: Router lifecycle — Running, RunHandlers, Stop and self-close behave as documented.
package c10

import (
	"context"
	"fmt"
	"runtime"
	"sync"
	"sync/atomic"
	"time"

	"github.com/ThreeDotsLabs/watermill"
	"github.com/ThreeDotsLabs/watermill/message"
	"github.com/ThreeDotsLabs/watermill/pubsub/gochannel"

	"verifharness/vlib"
)

const wgtFrame = "pubsub/sync.WaitGroupTimeout"

var wo = vlib.WaitOpts{Watchdog: 40 * time.Second, NoTimerCheck: []string{wgtFrame}}

const forcedCases = 96

// inflightPer is one full enumeration of the in-flight class (6 stages x 5 actions x 2 subscriber kinds x 1..3 handlers).
const inflightPer = 6 * 5 * 2 * 3

func inflightN(tier string) int { return vlib.TierN(tier, 3*inflightPer, 36*inflightPer) }

func randomN(tier string) int { return vlib.TierN(tier, 600, 320000) }

// startupPer is one full enumeration of the start-up class ((who, hold) x event x subscriber kind).
const startupPer = 7 * 4 * 2

func startupN(tier string) int { return vlib.TierN(tier, 4*startupPer, 80*startupPer) }

// rejectedPer is one full enumeration of the rejected-call class (call x position x ending x subscriber kind).
const rejectedPer = 3 * 6 * 4 * 2

func rejectedN(tier string) int { return vlib.TierN(tier, 2*rejectedPer, 40*rejectedPer) }

func init() {
	vlib.Register(&vlib.Prop{
		ID:    "C10",
		Level: "exploration",
		// the classes added later come last, so that the case indices (and per-case PRNGs) of the earlier classes never move
		Cases: func(tier string) int {
			return forcedCases + inflightN(tier) + randomN(tier) + startupN(tier) + rejectedN(tier) + retryN(tier) + closetoN(tier) + ownctxN(tier) + reactN(tier)
		},
		Rule: "forced part: the RunHandlers goroutine is parked right after a handler's Started() channel closed; the goroutine that waited on Started() then calls Stop() and Stopped() (must not panic, Stopped() must be non-nil) and, after the release, Stopped() must close; " +
			"while still parked, a second Run is issued (must be refused with an error); optionally the Run context is cancelled during the start-up (Run must still return nil); x {handler added before Run, added after Run and started by RunHandlers} x {1..3 handlers} x {scripted, GoChannel subscriber} x repeats. " +
			"in-flight part: one message of the target handler is parked at a stage of the pipeline {held by the router's subscriber decorator before it is handed to the handler loop (with the handler loop free, or itself parked with an earlier message so that only the cancel branch is ready), " +
			"taken by the handler loop but not dispatched, handler function about to start, before publish, before settle}; with the message held there the harness performs {Stop of that handler, Stop of all handlers, cancel of the Run context, Close, the subscriber closing the subscription followed by Stop of the others}, then releases the park(s): " +
			"x {scripted, GoChannel subscriber} x {1..3 handlers} x repeats. Stopped() must close, the other handlers keep handling, the router closes itself / Close returns and Run returns nil. " +
			"random part: lifecycle programs over {AddHandler before/after Run, Run, RunHandlers x1..4 sequentially or concurrently, wait Started, emit a message the instant Running() closes, Stop a subset, emit again, end by stopping all handlers / cancelling the Run context / Close / the subscribers closing every subscription, second Run} with 1..5 handlers, " +
			"scripted subscribers that count Subscribe calls or one GoChannel, private or shared publishers, yield injection at the router hook points; " +
			"0..3 redundant Run calls on the running router (each must be refused with an error, with a context of its own that is cancelled afterwards) placed at random points of the program {right after Running(), after late AddHandler, after RunHandlers, after the Stops}, after which the program simply continues (RunHandlers must still start the late handlers, Stop/self-close must still work, a further Run is refused again); " +
			"optionally background traffic: 1..2 publisher goroutines per handler keep emitting while handlers are stopped and the router is ended (Stop / cancel / Close race with messages on their way through the subscriber decorator and the handler loop); optionally a repeated Stop() of an already stopped handler; optionally a RunHandlers call before Run (refused, the program goes on); " +
			"optionally (30%) one AddHandler / AddNoPublisherHandler call with the name of a handler that is still registered at one of {before Run, after Running(), after the late AddHandler calls, after RunHandlers, after the Stops}: it panics with DuplicateHandlerNameError, the harness recovers and the program goes on as if the call had not been made. " +
			"start-up part: a RunHandlers call that has 2..5 handlers to start - Run's own start-up, or an explicit RunHandlers call for 2..4 handlers added after Run with 0..2 handlers running already - is held in the middle {parked at the hook right after the Started() channel of the k-th handler closed with >= 1 handler left to start, held inside the Subscribe call of a scripted subscriber with >= 1 more handler to follow, " +
			"parked between RunHandlers returning and Running() closing, or not held at all but slowed down by yield injection and scripted Subscribe calls that take 0..300 us, the event being issued by the goroutine that sees the k-th Started() close}; in that window the harness issues one event {Close (1 or 2 concurrent calls), cancel of the Run context, Stop of every handler that runs already (incl. optionally the earlier ones: the last running handler ends while others are still to be started), " +
			"the subscribers closing the subscriptions made so far (scripted) / Close and cancel together (GoChannel)}, lets the event get as far as it can (quiescence) and releases the hold: x {scripted, GoChannel subscriber} x repeats. After Close / cancel: the RunHandlers call returns, Close returns, the router closes and Run returns nil, a second Run is refused (whether the handlers not yet started are still started is not judged). " +
			"After Stop / subscriptions closed: the start-up completes (Running() closes with every handler subscribed, resp. RunHandlers returns and every Started() closes), Stopped() of the stopped handlers closes, the others handle a new message, then the rest is ended {Stop all, cancel, Close, subscriptions closed} and the router closes itself, Run returns nil; one Subscribe per started handler. " +
			"rejected-call part: {AddHandler, AddNoPublisherHandler, both} with a name still in use (refused: panics with DuplicateHandlerNameError, recovered by the harness) at {before Run, while Run is parked in the middle of starting handlers, after Running(), after late AddHandler calls (the name may be that of a registered handler not started yet), after RunHandlers, after a Stop} x ending {Stop all, cancel of the Run context, Close, subscriptions closed} x {scripted, GoChannel} x repeats, 1..3 handlers before Run + 1..2 late; " +
			"optionally the name of a handler that has stopped is used again (accepted: RunHandlers must start the new handler once and it handles a message; refused: not judged). The whole remaining program is judged as if the refused call had not been made: Running() and the message emitted at that instant, RunHandlers starting the late handlers once, Stop ending one handler while the others keep handling, the router closing itself when the last handler ends / the Run context is cancelled / Close, Run returning nil, no Subscribe on the subscriber of a refused call. " +
			"retry part: a start-up call made inside RunHandlers fails for a while {Subscribe of chosen handlers returns an error on its first 1..2 calls, a subscriber decorator / a publisher decorator returns an error on 1..3 chosen invocations} x whose start-up {an explicit RunHandlers call for 1..3 handlers added after Run with 0..2 handlers running already (0: Run was started without handlers), Run's own start-up of 2..4 handlers (Run returns the error; what it returns is not judged)} " +
			"x ending x {scripted, GoChannel} x repeats; the caller calls RunHandlers again (one call, or two concurrent calls per attempt) until it returns nil; between the attempts optionally {a running handler is stopped, a second Run (refused), one more AddHandler}. A RunHandlers call may only return an error if a start-up call failed during it. " +
			"From then on the program is judged as if the handlers had simply been started later: every Started() closes and the handler handles a message, further RunHandlers calls return nil and subscribe nothing, exactly one Subscribe that succeeded per started handler (and no call beyond the refused ones and that one), " +
			"1..(running-1) handlers are stopped one by one {the ones whose start-up had failed, the others}: Stopped() closes, the others handle a new message, and at quiescence after every refused RunHandlers call and after every Stop the router has not closed and Run has not returned as long as a registered handler has not ended (clause closed-before-last-handler-ended); " +
			"then the ending {Stop all, cancel, Close, subscriptions closed}: the router closes itself and Run returns nil (start-up of Run failed: IsClosed() becomes true), a second Run is refused. Scripted subscribers of this class end a subscription (context cancelled / Close) only once the harness has allowed that handler to end, " +
			"which it does before every step that is meant to end it: a handler torn down by the router without being asked to stays observable. " +
			"close-timeout part: CloseTimeout 20..50 ms; 1..3 handlers (optionally one of them added after Run and started by RunHandlers), each has handled a message; then {1..3 handler functions are busy with a message - held inside the handler function or inside Publish of the handler's publisher - when {the Run context is cancelled, every handler is stopped, Close is called (1..2 concurrent calls), the subscribers close every subscription, cancel and Close together}; " +
			"1..2 handlers were added after Run and never started - no RunHandlers call, or one whose Subscribe was refused - optionally after 1..all of the started handlers were stopped - when {Close is called, the Run context is cancelled}} x release {after the close has run into CloseTimeout (quiescence with the CloseTimeout timer counted as a pending timer), 0..2xCloseTimeout after the event} x {scripted, GoChannel} x repeats. " +
			"Whatever Close returned: once the busy handler functions have returned, Close has returned, the router is closed, Run has returned nil, a second Run is refused, and optionally a further Close call returns. (Run context cancelled with a handler added after Run and never started: clause cancel-not-honoured-with-unstarted-handler when Run never returns.) " +
			"own-context part: 0..3 handlers are added before Run (they run under Run's context); then 1..2 times {1..2 handlers are added to the running router and started by RunHandlers(ctx)} where ctx is the caller's own and independent of Run's context: " +
			"{context.Background(), a context that carries values, a cancelable context of the caller's that is never cancelled / cancelled once its handlers have handled a message / cancelled already when RunHandlers is called / cancelled together with the ending, context.WithoutCancel(Run's context)} (a second such call may also use Run's context), " +
			"0..2 further RunHandlers calls with yet another context (nothing left to start: they return nil and subscribe nothing); every handler started under a live context handles a message; handlers whose context is cancelled end with it (Stop() afterwards must not panic), " +
			"and as long as another handler runs the router has not closed and Run has not returned (closed-before-last-handler-ended); if they were the last ones alive the router closes itself and Run returns nil. " +
			"Then {no Stop, Stop of one handler, Stop of one started by RunHandlers, Stop of every handler started by Run - only handlers under a context of the caller's are left}: Stopped() closes, the others handle a new message, the router stays open; " +
			"optionally one handler function is busy with a message when the ending comes (released at quiescence); ending x {Stop all, cancel of the Run context - which reaches none of the handlers started under the caller's context -, Close, subscriptions closed} x context kind x {scripted, GoChannel} x repeats: " +
			"the router closes itself, Run returns nil, a second Run is refused, one Subscribe per handler. " +
			"react part: every case builds 32 small routers one after the other (1..3 handlers before Run; or 0..2 before Run and 1..2 added after Run and started by one RunHandlers call); 1..2 observer goroutines per observed handler (a random non-empty subset of the handlers of Run's own start-up, resp. of the handlers added after Run; busy-looping observers: one per handler, at most two handlers) wait for its Started() " +
			"{in a busy loop over a non-blocking receive on another P (bounded, then a blocking receive), the same with runtime.Gosched() between the polls, in a plain blocking receive} and, the moment they see it closed, call {Stop() then Stopped(), Stopped() then Stop()}: neither may panic, Stopped() is non-nil and closes; " +
			"one more goroutine waits for Running() the same way and, the moment it sees it closed, looks whether every handler added before Run holds its subscription (scripted subscribers); then the handlers that were not observed handle a new message, the rest is ended {Stop all, cancel, Close, subscriptions closed; nothing, if every handler was observed: the last handler has ended} " +
			"and the router closes itself, Run returns nil, a second Run is refused, one Subscribe per handler: x way of waiting x {Run's start-up, RunHandlers} x {scripted, GoChannel} x repeats. " +
			"Oracle: when Running() is observed closed every handler added before Run holds a subscription and a message emitted at that instant is handled; exactly one Subscribe per handler whatever the number of RunHandlers calls; after Started(): Stop() does not panic, Stopped() is non-nil and closes; " +
			"after stopping a handler, handlers that do not share its publisher still handle new messages; when the last handler ends or the Run context is cancelled Run returns nil (quiescence detector); a second Run returns an error. " +
			"Non-trivial: forced point reached / in-flight stage reached / program contained RunHandlers repetition, a Stop or a post-Running emission / the start-up event was issued with >= 1 handler still to start (or before Running() closed) / >= 1 call was refused / >= 1 RunHandlers (or Run) call returned an injected start-up error and was retried / >= 1 close ran into CloseTimeout (Close returned an error or the router logged that its own close failed) / >= 1 handler was started by a RunHandlers call whose context is independent of Run's / >= 1 polling observer saw Started() open before it saw it closed (blocking observers: were waiting before the start-up began). Distinct = (program, hook fingerprint).",
		Assumptions: []string{
			"handlers are not added while the router is shutting down; subscribers honour their context (message.Subscriber contract)",
			"start-up part: RunHandlers is called with the Run context; after Close / cancel during a start-up nothing is demanded about the handlers that were not started yet (started and torn down, or never started: both accepted)",
			"rejected-call part: a refused call is one that panics with a value the caller recovers; should AddHandler accept a name that is still registered the case is inconclusive (no model of two handlers under one name), never a violation",
			"retry part: a start-up fault is a Subscribe / decorator call that returns an error and leaves nothing behind; after a start-up fault inside Run itself nothing is demanded of that Run call, and the handlers it had started already may end with it (both accepted)",
			"close-timeout part: nothing is demanded of what Close returns, nor of the instant at which Run returns relative to the busy handler functions; the verdict is taken after they have returned, by the quiescence detector with CloseTimeout timers counted as pending timers (no wall-clock bound)",
			"own-context part: subscribers honour their context, so handlers started under a context that is cancelled are expected to end with it; should one not end, should its Started() not close, or should RunHandlers refuse a cancelled context with an error, the case is inconclusive, never a violation (the statement does not speak about the RunHandlers context)",
			"data races are recorded in the evidence but only panics/wrong outcomes fail this property",
		},
		Run: run,
	})
}

func run(e *vlib.Env) vlib.Result {
	if e.Idx < forcedCases {
		return forced(e)
	}
	j := e.Idx - forcedCases
	if j < inflightN(e.Tier) {
		return inflight(e, j)
	}
	if j -= inflightN(e.Tier); j < randomN(e.Tier) {
		return random(e)
	}
	if j -= randomN(e.Tier); j < startupN(e.Tier) {
		return startup(e, j)
	}
	if j -= startupN(e.Tier); j < rejectedN(e.Tier) {
		return rejected(e, j)
	}
	if j -= rejectedN(e.Tier); j < retryN(e.Tier) {
		return retry(e, j)
	}
	if j -= retryN(e.Tier); j < closetoN(e.Tier) {
		return closeto(e, j)
	}
	if j -= closetoN(e.Tier); j < ownctxN(e.Tier) {
		return ownctx(e, j)
	}
	return react(e, j-ownctxN(e.Tier))
}

type hrec struct {
	k       int
	name    string
	topic   string
	sub     *vlib.Sub
	pub     *vlib.Pub
	h       *message.Handler
	handled atomic.Int32
	gate    atomic.Pointer[chan struct{}]
	late    bool
	stopped bool
	shared  int
	pubGate atomic.Pointer[chan struct{}] // close-timeout class: Publish of the handler's publisher is held while set
	heldNow atomic.Int32                  // messages that have been held at gate / pubGate (world.add handlers)
	ss      *startSub                     // fault / retry and close-timeout classes: the subscriber handed to the router
	faults  int                           // Subscribe calls of this handler that are made to fail
}

// redundantRun calls Run on a router whose first Run was accepted earlier and judges "a second Run returns an error".
// The call is made on a goroutine of its own: a Run that is (wrongly) accepted blocks until the router closes, or panics.
func redundantRun(res *vlib.Result, r *message.Router, what, spec string) {
	redundantRunO(res, r, what, spec, wo)
}

func redundantRunO(res *vlib.Result, r *message.Router, what, spec string, wo vlib.WaitOpts) {
	type run2 struct {
		err   error
		panic any
	}
	ch := make(chan run2, 1)
	rctx, rcancel := context.WithCancel(context.Background())
	defer rcancel() // the context of a refused Run means nothing to the router
	go func() {
		var r2 run2
		r2.panic = safely(func() { r2.err = r.Run(rctx) })
		ch <- r2
	}()
	oc, d := vlib.WaitUntil(func() bool { return len(ch) > 0 }, wo)
	switch {
	case oc == vlib.Stuck:
		res.Fail("second-run-accepted", "%s did not return an error (still running at quiescence): %s", what, spec)
		res.Witness = d
	case oc == vlib.Inconclusive:
		res.Inconclusive("%s: neither returned nor quiescent", what)
	default:
		if r2 := <-ch; r2.panic != nil {
			res.Fail("second-run-panics", "%s panicked: %v (%s)", what, r2.panic, spec)
		} else if r2.err == nil {
			res.Fail("second-run-no-error", "%s returned nil: %s", what, spec)
		}
	}
}

func safely(f func()) (p any) {
	defer func() { p = recover() }()
	f()
	return nil
}

func forced(e *vlib.Env) vlib.Result {
	i := e.Idx
	late := i%2 == 1
	i /= 2
	nh := i%3 + 1
	i /= 3
	useGC := i%2 == 1
	i /= 2
	cancelDuringStartup := i%2 == 1
	spec := fmt.Sprintf("handlerAddedAfterRun=%v handlers=%d gochannel=%v cancelRunContextDuringStartup=%v", late, nh, useGC, cancelDuringStartup)
	res := vlib.Result{Class: fmt.Sprintf("forced/late=%v/gochannel=%v", late, useGC), Spec: spec}
	id := e.ID()
	r, _ := message.NewRouter(message.RouterConfig{CloseTimeout: time.Hour}, watermill.NopLogger{})
	ctl := vlib.NewCtl(e.R.Uint64(), 0, 0)
	defer ctl.Uninstall()
	var ps *gochannel.GoChannel
	if useGC {
		ps = gochannel.NewGoChannel(gochannel.Config{}, watermill.NopLogger{})
	}
	mk := func(k int) *message.Handler {
		var sub message.Subscriber = &vlib.Sub{Name: fmt.Sprintf("%s-%d", id, k)}
		if useGC {
			sub = ps
		}
		return r.AddHandler(fmt.Sprintf("%s/h%d", id, k), fmt.Sprintf("%s/t%d", id, k), sub, fmt.Sprintf("%s/o%d", id, k), &vlib.Pub{Name: fmt.Sprintf("%s-%d", id, k)},
			func(m *message.Message) ([]*message.Message, error) { return nil, nil })
	}
	target := fmt.Sprintf("%s/h%d", id, nh-1)
	park := ctl.ParkAt("router.runhandlers.started", func(a, b string) bool { return a == target }, 0)
	var hs []*message.Handler
	n0 := nh
	if late {
		n0 = nh - 1
	}
	for k := 0; k < n0; k++ {
		hs = append(hs, mk(k))
	}
	ctx, cancel := context.WithCancel(context.Background())
	defer cancel()
	runDone := make(chan struct{})
	var runErr error
	go func() { defer close(runDone); runErr = r.Run(ctx) }()
	rhDone := make(chan struct{})
	if late {
		vlib.WaitClosed(r.Running(), wo)
		hs = append(hs, mk(nh-1))
		go func() { defer close(rhDone); r.RunHandlers(ctx) }()
	} else {
		close(rhDone)
	}
	th := hs[nh-1]
	// the user goroutine: waits for Started(), then uses Stop()/Stopped() at once
	type obs struct {
		stopPanic any
		stoppedCh chan struct{}
	}
	obsCh := make(chan obs, 1)
	go func() {
		<-th.Started()
		var o obs
		o.stopPanic = safely(func() { th.Stop() })
		safely(func() { o.stoppedCh = th.Stopped() })
		obsCh <- o
	}()
	var o obs
	got := false
	oc, _ := vlib.WaitUntil(func() bool {
		select {
		case o = <-obsCh:
			got = true
			return true
		default:
			return false
		}
	}, wo)
	// the hook call follows the close of Started() in the RunHandlers goroutine: the user goroutine may have been quicker
	vlib.WaitUntil(park.HasArrived, wo)
	reached := park.HasArrived()
	// a second Run arriving while the first one is still starting handlers must be refused with an error
	type run2 struct {
		err   error
		panic any
	}
	run2Ch := make(chan run2, 1)
	if reached {
		go func() {
			var r2 run2
			r2.panic = safely(func() { r2.err = r.Run(context.Background()) })
			run2Ch <- r2
		}()
		// it returns at once (refused) or blocks behind the parked start-up
		vlib.WaitUntil(func() bool { return len(run2Ch) > 0 }, wo)
	}
	if cancelDuringStartup && reached {
		cancel() // the Run context ends while RunHandlers is in the middle of starting the handlers
	}
	park.Release()
	if reached {
		var r2 run2
		gotR2 := false
		if oc, d := vlib.WaitUntil(func() bool {
			select {
			case r2 = <-run2Ch:
				gotR2 = true
				return true
			default:
				return false
			}
		}, wo); oc == vlib.Stuck && !gotR2 {
			// a Run that was accepted keeps running until the router closes: that is the violation
			res.Fail("second-run-accepted", "a second Run called while the first was starting handlers did not return an error (it is still running at quiescence): %s", spec)
			res.Witness = d
		}
		if gotR2 {
			if r2.panic != nil {
				res.Fail("second-run-panics", "a second Run called while the first was starting handlers panicked: %v (%s)", r2.panic, spec)
			} else if r2.err == nil {
				res.Fail("second-run-no-error", "a second Run called while the first was starting handlers returned nil (%s)", spec)
			}
		}
	}
	if !got {
		if oc == vlib.Stuck {
			res.Fail("started-never-closed", "Started() of a running handler never closed (quiescent): %s", spec)
		} else {
			res.Inconclusive("user goroutine did not finish")
		}
	} else {
		if o.stopPanic != nil {
			res.Fail("stop-panics-after-started", "Stop() called right after Started() closed panicked: %v (%s)", o.stopPanic, spec)
		}
		if o.stoppedCh == nil {
			res.Fail("stopped-nil-after-started", "Stopped() returned a nil channel right after Started() closed (%s)", spec)
		} else if !res.Failed() {
			if oc, d := vlib.WaitClosed(o.stoppedCh, wo); oc == vlib.Stuck {
				res.Fail("stopped-never-closes", "Stop() was called after Started() but Stopped() never closed (quiescent): %s", spec)
				res.Witness = d
			}
		}
	}
	vlib.WaitClosed(rhDone, wo)
	if cancelDuringStartup && reached && !res.Failed() {
		// "when ... the Run context is cancelled the router closes itself and Run returns nil" - also when that happens during start-up
		if oc, d := vlib.WaitClosed(runDone, wo); oc == vlib.Stuck {
			res.Fail("run-never-returned", "the Run context was cancelled while handlers were being started and Run never returned (quiescent): %s", spec)
			res.Witness = d
		} else if oc == vlib.Done && runErr != nil {
			res.Fail("run-error", "the Run context was cancelled while handlers were being started and Run returned %v instead of nil: %s", runErr, spec)
		}
	}
	// end: close the router, Run must return nil
	cd := make(chan struct{})
	go func() { r.Close(); close(cd) }()
	for name, ch := range map[string]chan struct{}{"Close": cd, "Run": runDone} {
		if oc, d := vlib.WaitClosed(ch, wo); oc == vlib.Stuck && !res.Failed() {
			res.Fail("never-returned", "%s never returned (quiescent): %s", name, spec)
			res.Witness = d
		}
	}
	if vlib.IsClosed(runDone) && runErr != nil && !res.Failed() {
		res.Fail("run-error", "Run returned %v", runErr)
	}
	if ps != nil {
		ps.Close()
	}
	res.Hooks = ctl.Counts()
	res.Events = 6
	res.NonTrivial = reached
	res.Sig = vlib.Sig(spec, e.Idx/24, ctl.Fingerprint())
	res.Count("forced_reached", b2i(reached))
	if !reached && res.Verdict == "" {
		res.Verdict = vlib.Unreached
		res.Reason = "park point not reached: " + spec
	}
	res.Sample = map[string]any{"spec": spec, "reached": reached, "stop_panic": fmt.Sprint(o.stopPanic), "stopped_nil": got && o.stoppedCh == nil}
	return res
}

var inflightStages = []struct {
	id, point string
	holdLoop  bool
}{
	{"decorator", "decorator.sub.before_out", false},
	{"decorator+loop-parked", "decorator.sub.before_out", true},
	{"loop-received", "router.run.received", false},
	{"handle-start", "router.handle.start", false},
	{"before-publish", "router.handle.before_publish", false},
	{"before-settle", "router.handle.before_settle", false},
}

// inflight: a message of the target handler is parked at one stage of the pipeline subscriber -> decorator -> handler
// loop -> handler function while the handler is stopped / the Run context is cancelled / the router is closed.
// The property's promises do not depend on where a message happens to be at that moment: Stop ends the handler
// (Stopped() closes), the others keep processing, the router closes itself and Run returns nil.
func inflight(e *vlib.Env, j int) vlib.Result {
	rnd := e.R
	st := inflightStages[j%len(inflightStages)]
	j /= len(inflightStages)
	action := []string{"stop", "stop-all", "cancel-ctx", "close", "sub-close"}[j%5]
	j /= 5
	useGC := j%2 == 1
	j /= 2
	nh := j%3 + 1
	if st.holdLoop {
		// a GoChannel subscription has one message in flight at a time: it cannot hand out the next message while the
		// handler loop holds the previous one un-settled. This stage exists only with the scripted subscriber.
		useGC = false
	}
	ti := rnd.Intn(nh)
	spec := fmt.Sprintf("stage=%s action=%s gochannel=%v handlers=%d target=h%d", st.id, action, useGC, nh, ti)
	res := vlib.Result{Class: fmt.Sprintf("inflight/%s/%s", st.id, action), Spec: spec}
	id := e.ID()
	r, _ := message.NewRouter(message.RouterConfig{CloseTimeout: time.Hour}, watermill.NopLogger{})
	ctl := vlib.NewCtl(rnd.Uint64(), 0, 0)
	defer ctl.Uninstall()
	var ps *gochannel.GoChannel
	if useGC {
		ps = gochannel.NewGoChannel(gochannel.Config{}, watermill.NopLogger{})
		defer ps.Close()
	}
	hrs := make([]*hrec, nh)
	for k := range hrs {
		h := &hrec{name: fmt.Sprintf("%s/h%d", id, k), topic: fmt.Sprintf("%s/t%d", id, k)}
		h.sub = &vlib.Sub{Name: fmt.Sprintf("%s-%d", id, k)}
		h.pub = &vlib.Pub{Name: fmt.Sprintf("%s-%d", id, k)}
		var sub message.Subscriber = h.sub
		if useGC {
			sub = ps
		}
		h.h = r.AddHandler(h.name, h.topic, sub, h.topic+"/out", h.pub, func(m *message.Message) ([]*message.Message, error) {
			h.handled.Add(1)
			return []*message.Message{message.NewMessage(m.UUID+"/o", nil)}, nil
		})
		hrs[k] = h
	}
	T := hrs[ti]
	ctx, cancel := context.WithCancel(context.Background())
	defer cancel()
	runDone := make(chan struct{})
	var runErr error
	go func() { defer close(runDone); runErr = r.Run(ctx) }()

	var emitWg sync.WaitGroup
	var sent []*message.Message // scripted only: the very messages handed to the router (their settlement is visible)
	emit := func(h *hrec, n string) bool {
		uuid := fmt.Sprintf("%s/%s", h.name, n)
		if useGC {
			return ps.Publish(h.topic, message.NewMessage(uuid, nil)) == nil
		}
		sp := h.sub.SubFor(h.topic)
		if sp == nil {
			return false
		}
		m := message.NewMessage(uuid, nil)
		m.SetContext(sp.Ctx)
		sent = append(sent, m)
		emitWg.Add(1)
		go func() { defer emitWg.Done(); sp.Send(m) }()
		return true
	}
	var parks []*vlib.Park
	releaseAll := func() {
		for _, p := range parks {
			p.Release()
		}
	}
	teardown := func() {
		releaseAll()
		cancel()
		done := make(chan struct{})
		go func() { r.Close(); close(done) }()
		vlib.WaitClosed(done, wo)
		for _, h := range hrs {
			h.sub.Close()
		}
		ed := make(chan struct{})
		go func() { emitWg.Wait(); close(ed) }()
		vlib.WaitClosed(ed, wo)
		res.Hooks = ctl.Counts()
	}
	unreached := func(why string) vlib.Result {
		teardown()
		if res.Verdict == "" {
			res.Verdict = vlib.Unreached
			res.Reason = why + ": " + spec
		}
		res.Sig = vlib.Sig(spec, "unreached")
		return res
	}
	if oc, d := vlib.WaitClosed(r.Running(), wo); oc != vlib.Done {
		if oc == vlib.Stuck {
			res.Fail("running-never-closed", "Running() never closed (quiescent): %s", spec)
			res.Witness = d
		} else {
			res.Inconclusive("Running(): neither closed nor quiescent")
		}
		teardown()
		return res
	}
	// put the message(s) in place
	parkMsg := func(point, n string) *vlib.Park {
		uuid := fmt.Sprintf("%s/%s", T.name, n)
		p := ctl.ParkAt(point, func(a, b string) bool { return b == uuid }, 0)
		parks = append(parks, p)
		if !emit(T, n) {
			return nil
		}
		if oc, _ := vlib.WaitUntil(p.HasArrived, wo); oc != vlib.Done {
			return nil
		}
		return p
	}
	var loopPark *vlib.Park
	if st.holdLoop {
		// the handler loop is parked with an earlier message: it cannot take the next one from the decorator
		if loopPark = parkMsg("router.run.received", "m0"); loopPark == nil {
			return unreached("handler loop did not reach router.run.received")
		}
	}
	held := parkMsg(st.point, "m1")
	if held == nil {
		return unreached("message did not reach " + st.point)
	}
	res.Count("inflight_reached", 1)
	res.Count("inflight_"+st.id, 1)

	// the action, with the message still held
	events := 0
	closeDone := make(chan struct{})
	subClosed := make(chan struct{})
	var stopOrder []int
	switch action {
	case "stop":
		stopOrder = []int{ti}
	case "stop-all":
		stopOrder = rnd.Perm(nh)
	case "cancel-ctx":
		cancel()
	case "close":
		go func() { r.Close(); close(closeDone) }()
		// Close is asynchronous: let it get as far as it can while the message is held
		if !useGC {
			if sp := T.sub.SubFor(T.topic); sp != nil {
				done := sp.Ctx.Done()
				vlib.WaitUntil(func() bool {
					select {
					case <-done:
						return true
					default:
						return false
					}
				}, wo)
			}
		}
		vlib.Settle(wo)
	case "sub-close":
		// the subscriber side ends the target's subscription (connection lost, broker client closed)
		go func() {
			if useGC {
				ps.Close()
			} else {
				T.sub.Close()
			}
			close(subClosed)
		}()
		vlib.Settle(wo)
	}
	for _, k := range stopOrder {
		events++
		if p := safely(func() { hrs[k].h.Stop() }); p != nil {
			res.Fail("stop-panics-after-started", "Stop() panicked: %v (%s)", p, spec)
		}
		hrs[k].stopped = true
	}
	// let the held message go on
	held.Release()
	if loopPark != nil {
		// the decorator now sees only the cancelled context / its own closing; it gives the message back (Nack) and ends.
		// Only then may the handler loop continue.
		m1 := (*message.Message)(nil)
		if !useGC && len(sent) > 0 {
			m1 = sent[len(sent)-1]
		}
		vlib.WaitUntil(func() bool { return m1 != nil && vlib.Settled(m1) != "" }, wo)
		if m1 != nil {
			res.Count("inflight_held_message_"+orNone(vlib.Settled(m1)), 1)
		}
		loopPark.Release()
	}

	// what the property promises, wherever the message was
	for _, k := range stopOrder {
		h := hrs[k]
		events++
		stc := h.h.Stopped()
		if stc == nil {
			res.Fail("stopped-nil-after-started", "Stopped() is nil after Started() closed: %s", spec)
			continue
		}
		if oc, d := vlib.WaitClosed(stc, wo); oc == vlib.Stuck && !res.Failed() {
			res.Fail("stopped-never-closes", "Stop() was called while a message of handler %s was in flight at stage %s; Stopped() of %s never closed (quiescent): %s", T.name, st.id, h.name, spec)
			res.Witness = d
		} else if oc == vlib.Inconclusive {
			res.Inconclusive("Stopped(): neither closed nor quiescent")
		}
	}
	if action == "stop" && !res.Failed() {
		for _, h := range hrs {
			if h.stopped {
				continue
			}
			events++
			want := h.handled.Load() + 1
			if !emit(h, "after-stop") {
				res.Fail("others-broken-after-stop", "handler %s lost its subscription after another handler was stopped: %s", h.name, spec)
				continue
			}
			if oc, d := vlib.WaitUntil(func() bool { return h.handled.Load() >= want }, wo); oc == vlib.Stuck {
				res.Fail("others-broken-after-stop", "handler %s (not stopped, own publisher) did not handle a new message after %s was stopped with a message in flight at %s (quiescent): %s", h.name, T.name, st.id, spec)
				res.Witness = d
			} else if oc == vlib.Inconclusive {
				res.Inconclusive("after-stop message: neither handled nor quiescent")
			}
		}
	}
	if (action == "stop" || action == "sub-close") && !res.Failed() {
		// end the program: the remaining handlers are stopped (or, with a single handler, the last one has ended already)
		if action == "sub-close" {
			vlib.WaitClosed(subClosed, wo)
			T.stopped = true
		}
		for _, h := range hrs {
			if !h.stopped {
				h.h.Stop()
				h.stopped = true
			}
		}
	}
	if !res.Failed() && res.Verdict == "" {
		events++
		what := map[string]string{"stop": "the last handler ended", "stop-all": "the last handler ended", "cancel-ctx": "the Run context was cancelled", "close": "Close was called",
			"sub-close": "the last handler ended (subscription closed by the subscriber, the others stopped)"}[action]
		if action == "close" {
			if oc, d := vlib.WaitClosed(closeDone, wo); oc == vlib.Stuck {
				res.Fail("never-returned", "Close never returned (quiescent); a message was in flight at stage %s when it was called: %s", st.id, spec)
				res.Witness = d
			}
		}
		if !res.Failed() {
			if oc, d := vlib.WaitClosed(runDone, wo); oc == vlib.Stuck {
				res.Fail("run-never-returned", "%s while a message was in flight at stage %s: Run never returned (quiescent): %s", what, st.id, spec)
				res.Witness = d
			} else if oc == vlib.Inconclusive {
				res.Inconclusive("Run: neither returned nor quiescent")
			} else if runErr != nil {
				res.Fail("run-error", "%s while a message was in flight at stage %s: Run returned %v instead of nil: %s", what, st.id, runErr, spec)
			}
		}
		if !res.Failed() && res.Verdict == "" {
			if oc, _ := vlib.WaitUntil(func() bool { return r.IsClosed() }, wo); oc == vlib.Stuck {
				res.Fail("router-not-closed", "Run returned but the router is not closed: %s", spec)
			}
			redundantRun(&res, r, "a second Run after the router closed", spec)
		}
	}
	teardown()
	res.Events = events
	res.NonTrivial = true
	res.Sig = vlib.Sig(spec, e.Idx/inflightPer, ctl.Fingerprint())
	res.Sample = map[string]any{"program": spec}
	return res
}

func orNone(s string) string {
	if s == "" {
		return "unsettled"
	}
	return s
}

var refusedPoints = []string{"after-running", "after-add", "after-runhandlers", "after-stops"}

var dupPoints = []string{"before-run", "after-running", "after-add", "after-runhandlers", "after-stops"}

func b2i(b bool) int {
	if b {
		return 1
	}
	return 0
}

func random(e *vlib.Env) vlib.Result {
	rnd := e.R
	id := e.ID()
	nh := rnd.Range(1, 5)
	nlate := 0
	if nh > 1 {
		nlate = rnd.Intn(nh)
	}
	useGC := rnd.Chance(0.3)
	rhCalls := rnd.Range(1, 4)
	rhConcurrent := rnd.Bool()
	sharePub := rnd.Chance(0.3)
	ending := []string{"stop-all", "cancel-ctx", "close", "subs-closed"}[rnd.Intn(4)]
	nstop := 0
	if nh > 1 {
		nstop = rnd.Intn(nh)
	}
	yieldP := []float64{0, 0.3, 0.6}[rnd.Intn(3)]
	// redundant Run calls on the running router, each at one of the points of the program; the program goes on afterwards
	refusedAt := map[string]int{}
	refusedSpec := ""
	if rnd.Chance(0.6) {
		for n := rnd.Range(1, 3); n > 0; n-- {
			w := refusedPoints[rnd.Intn(len(refusedPoints))]
			refusedAt[w]++
		}
		for _, w := range refusedPoints {
			if refusedAt[w] > 0 {
				refusedSpec += fmt.Sprintf("%s:%d,", w, refusedAt[w])
			}
		}
	}
	// background traffic: publishers keep emitting while handlers are stopped / the router is ended
	traffic := 0
	if rnd.Chance(0.4) {
		traffic = rnd.Range(1, 2)
	}
	trafficN := rnd.Range(10, 60)
	stopTwice := rnd.Chance(0.3)
	earlyRH := rnd.Chance(0.15)
	// an AddHandler / AddNoPublisherHandler call with a name that is still registered, at one point of the program: it is
	// refused (panics with DuplicateHandlerNameError), the caller recovers, the program goes on as if it had not been made.
	// (Drawn from a PRNG of its own so that the programs of earlier rounds stay what they were.)
	x := vlib.NewRand(e.Seed, "C10/refused-addhandler", e.Idx)
	dupAt, dupNoPub := "", x.Bool()
	if x.Chance(0.3) {
		dupAt = dupPoints[x.Intn(len(dupPoints))]
	}
	spec := fmt.Sprintf("handlers=%d late=%d gochannel=%v runHandlersCalls=%d concurrent=%v sharedPublisher=%v stop=%d ending=%s yield=%.1f refusedRun=[%s] traffic=%dx%d stopTwice=%v runHandlersBeforeRun=%v", nh, nlate, useGC, rhCalls, rhConcurrent, sharePub, nstop, ending, yieldP, refusedSpec, traffic, trafficN, stopTwice, earlyRH)
	if dupAt != "" {
		spec += fmt.Sprintf(" refusedAddHandler=%s noPublisher=%v", dupAt, dupNoPub)
	}
	res := vlib.Result{Class: fmt.Sprintf("random/gochannel=%v/%s", useGC, ending), Spec: spec}
	r, _ := message.NewRouter(message.RouterConfig{CloseTimeout: time.Hour}, watermill.NopLogger{})
	ctl := vlib.NewCtl(rnd.Uint64(), yieldP, 80)
	defer ctl.Uninstall()
	var ps *gochannel.GoChannel
	if useGC {
		// with background traffic a publisher waits for the ack before it sends its next message (bounded in-flight set)
		ps = gochannel.NewGoChannel(gochannel.Config{BlockPublishUntilSubscriberAck: traffic > 0}, watermill.NopLogger{})
		defer ps.Close()
	}
	shared := &vlib.Pub{Name: id + "-shared"}
	hrs := make([]*hrec, nh)
	add := func(k int) {
		h := &hrec{name: fmt.Sprintf("%s/h%d", id, k), topic: fmt.Sprintf("%s/t%d", id, k), late: k >= nh-nlate}
		h.sub = &vlib.Sub{Name: fmt.Sprintf("%s-%d", id, k)}
		h.pub = &vlib.Pub{Name: fmt.Sprintf("%s-%d", id, k)}
		h.shared = -1
		if sharePub && k%2 == 0 {
			h.pub = shared
			h.shared = 0
		}
		var sub message.Subscriber = h.sub
		if useGC {
			sub = ps
		}
		h.h = r.AddHandler(h.name, h.topic, sub, h.topic+"/out", h.pub, func(m *message.Message) ([]*message.Message, error) {
			h.handled.Add(1)
			if g := h.gate.Load(); g != nil {
				<-*g // the handler function is busy until the harness opens the gate
			}
			return []*message.Message{message.NewMessage(m.UUID+"/o", nil)}, nil
		})
		hrs[k] = h
	}
	for k := 0; k < nh-nlate; k++ {
		add(k)
	}
	var rejSubs []*vlib.Sub
	refusedAdds := 0
	dup := func(where string) {
		if dupAt != where || res.Failed() {
			return
		}
		var cands []*hrec
		for _, h := range hrs {
			if h != nil && !h.stopped {
				cands = append(cands, h)
			}
		}
		if len(cands) == 0 {
			return
		}
		t := cands[x.Intn(len(cands))]
		sub := &vlib.Sub{Name: id + "-refused"}
		rejSubs = append(rejSubs, sub)
		var p any
		if dupNoPub {
			p = safely(func() {
				r.AddNoPublisherHandler(t.name, id+"/refused", sub, func(*message.Message) error { return nil })
			})
		} else {
			p = safely(func() {
				r.AddHandler(t.name, id+"/refused", sub, id+"/refused/out", &vlib.Pub{Name: id + "-refused"}, func(*message.Message) ([]*message.Message, error) { return nil, nil })
			})
		}
		if p == nil {
			res.Inconclusive("AddHandler accepted a name that is still registered: outside the programs this check judges (%s)", spec)
			return
		}
		refusedAdds++
	}
	defer func() {
		for _, s := range rejSubs {
			s.Close()
		}
	}()
	dup("before-run")
	ctx, cancel := context.WithCancel(context.Background())
	defer cancel()
	if rnd.Chance(0.08) {
		// the Run context is already cancelled when Run is called: the router starts, finds nothing to do, closes itself, Run returns nil
		res.Class = "random/cancelled-before-run"
		cancel()
		done := make(chan struct{})
		var err error
		go func() { defer close(done); err = r.Run(ctx) }()
		if oc, d := vlib.WaitClosed(done, wo); oc == vlib.Stuck {
			res.Fail("run-never-returned", "Run was called with an already cancelled context and never returned (quiescent): %s", spec)
			res.Witness = d
			cl := make(chan struct{})
			go func() { r.Close(); close(cl) }()
			vlib.WaitClosed(cl, wo)
		} else if oc == vlib.Done && err != nil {
			res.Fail("run-error", "Run was called with an already cancelled context and returned %v instead of nil: %s", err, spec)
		}
		for _, h := range hrs {
			if h != nil {
				h.sub.Close()
			}
		}
		res.Events = 2
		res.Count("refused_addhandler_calls", refusedAdds)
		res.NonTrivial = true
		res.Sig = vlib.Sig("cancelled-before-run", spec)
		res.Sample = map[string]any{"program": "cancel the context, then Run: " + spec}
		return res
	}
	if earlyRH {
		// RunHandlers on a router that is not running yet is documented to be refused; whatever it answers, the
		// program goes on and Run must still start every handler exactly once
		safely(func() { r.RunHandlers(ctx) })
		res.Count("runhandlers_before_run", 1)
	}
	runDone := make(chan struct{})
	var runErr error
	go func() { defer close(runDone); runErr = r.Run(ctx) }()

	events := 0
	emitWg := sync.WaitGroup{}
	var trafficSent atomic.Int64
	emit := func(h *hrec, n string) bool {
		uuid := fmt.Sprintf("%s/%s", h.name, n)
		if useGC && traffic > 0 {
			// Publish blocks until the ack: never from the harness' main goroutine
			emitWg.Add(1)
			go func() { defer emitWg.Done(); ps.Publish(h.topic, message.NewMessage(uuid, nil)) }()
			return true
		}
		if useGC {
			return ps.Publish(h.topic, message.NewMessage(uuid, nil)) == nil
		}
		sp := h.sub.SubFor(h.topic)
		if sp == nil {
			return false
		}
		emitWg.Add(1)
		go func() { defer emitWg.Done(); sp.Deliver(message.NewMessage(uuid, nil), 0) }()
		return true
	}
	// a Run on the running router: refused with an error, and nothing else changes (the rest of the program is the check of that)
	refusedRuns := 0
	refused := func(where string) {
		for n := refusedAt[where]; n > 0 && !res.Failed(); n-- {
			refusedRuns++
			events++
			redundantRun(&res, r, fmt.Sprintf("Run call #%d on the running router (%s)", refusedRuns+1, where), spec)
		}
	}
	expectHandled := func(h *hrec, want int32, clause, what string) {
		events++
		if oc, d := vlib.WaitUntil(func() bool { return h.handled.Load() >= want }, wo); oc == vlib.Stuck {
			res.Fail(clause, "%s: handler %s handled %d message(s), want %d (quiescent): %s", what, h.name, h.handled.Load(), want, spec)
			res.Witness = d
		} else if oc == vlib.Inconclusive {
			res.Inconclusive("%s: neither handled nor quiescent", what)
		}
	}

	// Running(): every handler added before Run holds its subscription; a message emitted at that instant is handled
	if oc, d := vlib.WaitClosed(r.Running(), wo); oc != vlib.Done {
		if oc == vlib.Stuck {
			res.Fail("running-never-closed", "Running() never closed (quiescent): %s", spec)
			res.Witness = d
		} else {
			res.Inconclusive("Running(): neither closed nor quiescent")
		}
		return res
	}
	for k := 0; k < nh-nlate; k++ {
		h := hrs[k]
		events++
		if !useGC && len(h.sub.Subs()) == 0 {
			res.Fail("running-before-subscribed", "Running() is closed but handler %s has no subscription yet: %s", h.name, spec)
		}
		if !emit(h, "at-running") && !res.Failed() {
			res.Fail("running-before-subscribed", "Running() is closed but a message for handler %s could not be emitted: %s", h.name, spec)
		}
	}
	for k := 0; k < nh-nlate && !res.Failed(); k++ {
		expectHandled(hrs[k], 1, "message-lost-after-running", "message emitted the instant Running() closed")
	}

	refused("after-running")
	dup("after-running")
	// late handlers + RunHandlers xN
	for k := nh - nlate; k < nh; k++ {
		add(k)
	}
	refused("after-add")
	dup("after-add")
	if nlate > 0 && !res.Failed() {
		var wg sync.WaitGroup
		var rhErr atomic.Value
		call := func() {
			defer wg.Done()
			if err := r.RunHandlers(ctx); err != nil {
				rhErr.Store(err.Error())
			}
		}
		for c := 0; c < rhCalls; c++ {
			wg.Add(1)
			if rhConcurrent {
				go call()
			} else {
				call()
			}
		}
		d := make(chan struct{})
		go func() { wg.Wait(); close(d) }()
		if oc, dump := vlib.WaitClosed(d, wo); oc == vlib.Stuck {
			res.Fail("runhandlers-stuck", "RunHandlers never returned (quiescent): %s", spec)
			res.Witness = dump
		}
		if v := rhErr.Load(); v != nil {
			res.Fail("runhandlers-error", "RunHandlers returned %v: %s", v, spec)
		}
		for k := nh - nlate; k < nh && !res.Failed(); k++ {
			if oc, _ := vlib.WaitClosed(hrs[k].h.Started(), wo); oc == vlib.Stuck {
				res.Fail("started-never-closed", "handler %s added after Run was not started by RunHandlers (Started() never closed): %s", hrs[k].name, spec)
				continue
			}
			if emit(hrs[k], "late") {
				expectHandled(hrs[k], 1, "late-handler-not-processing", "message for a handler started by RunHandlers")
			} else {
				res.Fail("late-handler-not-processing", "handler %s was started by RunHandlers but has no subscription: %s", hrs[k].name, spec)
			}
		}
	}
	// a few more RunHandlers calls must not re-subscribe anything
	if !res.Failed() {
		for c := 0; c < rhCalls; c++ {
			r.RunHandlers(ctx)
		}
	}
	refused("after-runhandlers")
	dup("after-runhandlers")
	// background traffic from here on
	if traffic > 0 && !res.Failed() {
		for _, h := range hrs {
			h := h
			var sp *vlib.Subscription
			if !useGC {
				if sp = h.sub.SubFor(h.topic); sp == nil {
					continue
				}
			}
			for t := 0; t < traffic; t++ {
				t := t
				emitWg.Add(1)
				go func() {
					defer emitWg.Done()
					for n := 0; n < trafficN; n++ {
						m := message.NewMessage(fmt.Sprintf("%s/bg%d.%d", h.name, t, n), nil)
						if useGC {
							// blocks until acked, or until the topic has no subscriber any more
							if ps.Publish(h.topic, m) != nil {
								return
							}
						} else if copies, _ := sp.Deliver(m, 0); len(copies) == 0 {
							return // the subscription has ended
						}
						trafficSent.Add(1)
					}
				}()
			}
		}
	}
	// Stop a subset right away; the others keep working
	perm := rnd.Perm(nh)
	stoppedPubs := map[*vlib.Pub]bool{}
	// optionally another handler's function is busy (blocked) while handlers are stopped: Stop must still end the
	// stopped handler, and the remaining ones keep processing
	var busy *hrec
	var busyGate chan struct{}
	if nstop > 0 && nstop < nh && !useGC && !res.Failed() && rnd.Chance(0.5) {
		cand := hrs[perm[nstop]]
		sharesWithStopped := false
		for _, k := range perm[:nstop] {
			if hrs[k].pub == cand.pub {
				sharesWithStopped = true
			}
		}
		if !sharesWithStopped {
			busy = cand
			busyGate = make(chan struct{})
			busy.gate.Store(&busyGate)
			before := busy.handled.Load()
			if emit(busy, "busy") {
				vlib.WaitUntil(func() bool { return busy.handled.Load() > before }, wo)
			} else {
				busy.gate.Store(nil)
				busy = nil
			}
		}
	}
	defer func() {
		if busy != nil {
			busy.gate.Store(nil)
			close(busyGate)
		}
	}()
	for _, k := range perm[:nstop] {
		if res.Failed() {
			break
		}
		h := hrs[k]
		<-h.h.Started()
		events++
		if p := safely(func() { h.h.Stop() }); p != nil {
			res.Fail("stop-panics-after-started", "Stop() panicked: %v (%s)", p, spec)
			break
		}
		st := h.h.Stopped()
		if st == nil {
			res.Fail("stopped-nil-after-started", "Stopped() is nil after Started() closed: %s", spec)
			break
		}
		if oc, d := vlib.WaitClosed(st, wo); oc == vlib.Stuck {
			res.Fail("stopped-never-closes", "Stopped() of %s never closed after Stop() (quiescent): %s", h.name, spec)
			res.Witness = d
		}
		h.stopped = true
		stoppedPubs[h.pub] = true
		if stopTwice && !res.Failed() {
			// "once Started() is closed Stop() and Stopped() are usable": also a second time
			if p := safely(func() { h.h.Stop() }); p != nil {
				res.Fail("stop-panics-after-started", "a repeated Stop() of a stopped handler panicked: %v (%s)", p, spec)
			}
			res.Count("repeated_stop", 1)
		}
	}
	refused("after-stops")
	dup("after-stops")
	for _, h := range hrs {
		if res.Failed() || h.stopped || stoppedPubs[h.pub] || h == busy {
			continue
		}
		want := h.handled.Load() + 1
		if emit(h, "after-stop") {
			expectHandled(h, want, "others-broken-after-stop", "message for a handler that was not stopped and does not share a stopped handler's publisher")
		} else {
			res.Fail("others-broken-after-stop", "handler %s lost its subscription after another handler was stopped: %s", h.name, spec)
		}
	}
	if busy != nil {
		res.Count("stopped_while_another_handler_was_busy", 1)
		busy.gate.Store(nil)
		close(busyGate)
		busy = nil
	}
	// ending
	if !res.Failed() {
		switch ending {
		case "stop-all":
			for _, h := range hrs {
				if !h.stopped {
					<-h.h.Started()
					h.h.Stop()
				}
			}
		case "cancel-ctx":
			cancel()
		case "close":
			go r.Close()
		case "subs-closed":
			// every remaining handler ends because its subscription is closed by the subscriber side
			if useGC {
				emitWg.Add(1)
				go func() { defer emitWg.Done(); ps.Close() }()
			} else {
				for _, h := range hrs {
					if !h.stopped {
						h.sub.Close()
					}
				}
			}
		}
		if oc, d := vlib.WaitClosed(runDone, wo); oc == vlib.Stuck {
			res.Fail("run-never-returned", "Run never returned after ending=%s (quiescent): %s", ending, spec)
			res.Witness = d
		} else if oc == vlib.Done && runErr != nil {
			res.Fail("run-error", "Run returned %v after ending=%s: %s", runErr, ending, spec)
		}
		if !res.Failed() {
			if oc, _ := vlib.WaitUntil(func() bool { return r.IsClosed() }, wo); oc == vlib.Stuck {
				res.Fail("router-not-closed", "Run returned but the router is not closed: %s", spec)
			}
			redundantRun(&res, r, "a second Run after the router closed", spec)
			events++
		}
	}
	// exactly one Subscribe per handler
	if !useGC {
		for _, h := range hrs {
			events++
			if n := h.sub.SubCalls.Load(); n != 1 && !res.Failed() {
				res.Fail("subscribe-count", "handler %s: Subscribe was called %d times (RunHandlers called %d+%d times, concurrent=%v): %s", h.name, n, rhCalls, rhCalls, rhConcurrent, spec)
			}
		}
	}
	for _, s := range rejSubs {
		events++
		if n := s.SubCalls.Load(); n != 0 && !res.Failed() {
			res.Fail("rejected-handler-subscribed", "an AddHandler call was rejected (duplicate name) but its subscriber got %d Subscribe call(s): %s", n, spec)
		}
	}
	// teardown
	cancel()
	done := make(chan struct{})
	go func() { r.Close(); close(done) }()
	vlib.WaitClosed(done, wo)
	for _, h := range hrs {
		h.sub.Close()
	}
	ed := make(chan struct{})
	go func() { emitWg.Wait(); close(ed) }()
	vlib.WaitClosed(ed, wo)
	res.Count("refused_addhandler_calls", refusedAdds)
	for k := 0; k < 3; k++ {
		runtime.Gosched()
	}
	res.Events = events
	res.Hooks = ctl.Counts()
	res.Count("refused_run_calls", refusedRuns)
	if refusedRuns > 0 {
		res.Count("programs_continued_after_refused_run", 1)
	}
	if traffic > 0 {
		res.Count("programs_with_background_traffic", 1)
		res.Count("background_messages_sent", int(trafficSent.Load()))
	}
	res.NonTrivial = nlate > 0 || nstop > 0 || nh-nlate > 0
	res.Sig = vlib.Sig(spec, ctl.Fingerprint())
	res.Sample = map[string]any{"program": spec}
	return res
}

// ---------------------------------------------------------------------------------------------
// scaffolding shared by the start-up class and the rejected-call class

type world struct {
	res     *vlib.Result
	spec    string
	id      string
	r       *message.Router
	useGC   bool
	ps      *gochannel.GoChannel
	ctx     context.Context
	cancel  context.CancelFunc
	runDone chan struct{}
	runErr  error
	emitWg  sync.WaitGroup
	hs      []*hrec     // accepted handlers, in the order of registration
	rejSubs []*vlib.Sub // subscribers handed to AddHandler calls that were rejected
	events  int
	// onSubscribe runs inside Subscribe of a scripted subscriber (RunHandlers holds the router's handlersLock there)
	onSubscribe func(h *hrec)
	// releases of everything the case may still hold (parks, held Subscribe calls); idempotent functions
	releases []func()
	// wo: how the quiescence detector treats the router's CloseTimeout timer (1 h: not a timer; short: a visible timer)
	wo vlib.WaitOpts
	// runNeverClause, if set, is the clause reported when Run never returns (default run-never-returned)
	runNeverClause string
	// abandoned: the case ends without teardown (see stillOpen)
	abandoned bool
	// mkSub, if set, supplies the subscriber handed to the router for a handler (default: the scripted subscriber / the GoChannel)
	mkSub func(h *hrec) message.Subscriber
}

func newWorld(e *vlib.Env, res *vlib.Result, spec string, useGC bool) *world {
	return newWorldCfg(e, res, spec, useGC, time.Hour, watermill.NopLogger{}, wo)
}

func newWorldCfg(e *vlib.Env, res *vlib.Result, spec string, useGC bool, closeTimeout time.Duration, logger watermill.LoggerAdapter, o vlib.WaitOpts) *world {
	w := &world{res: res, spec: spec, id: e.ID(), useGC: useGC, runDone: make(chan struct{}), wo: o}
	w.r, _ = message.NewRouter(message.RouterConfig{CloseTimeout: closeTimeout}, logger)
	if useGC {
		w.ps = gochannel.NewGoChannel(gochannel.Config{}, watermill.NopLogger{})
	}
	w.ctx, w.cancel = context.WithCancel(context.Background())
	return w
}

// add registers handler number k (generation gen > 0: the name of a handler that has ended is used again).
// It returns the value AddHandler panicked with, if it did.
func (w *world) add(k, gen int) (*hrec, any) {
	h := &hrec{k: k, name: fmt.Sprintf("%s/h%d", w.id, k), topic: fmt.Sprintf("%s/t%d.%d", w.id, k, gen)}
	h.sub = &vlib.Sub{Name: fmt.Sprintf("%s-%d.%d", w.id, k, gen)}
	h.sub.OnSubscribe = func(string) {
		if f := w.onSubscribe; f != nil {
			f(h)
		}
	}
	h.pub = &vlib.Pub{Name: fmt.Sprintf("%s-%d.%d", w.id, k, gen)}
	h.pub.Script = func(int, string, []*message.Message) error {
		if g := h.pubGate.Load(); g != nil {
			h.heldNow.Add(1)
			<-*g // the broker takes its time to confirm the publish
		}
		return nil
	}
	var sub message.Subscriber = h.sub
	if w.useGC {
		sub = w.ps
	}
	if w.mkSub != nil {
		sub = w.mkSub(h)
	}
	p := safely(func() {
		h.h = w.r.AddHandler(h.name, h.topic, sub, h.topic+"/out", h.pub, func(m *message.Message) ([]*message.Message, error) {
			h.handled.Add(1)
			if g := h.gate.Load(); g != nil {
				h.heldNow.Add(1)
				<-*g // the handler function is busy until the harness opens the gate
			}
			return []*message.Message{message.NewMessage(m.UUID+"/o", nil)}, nil
		})
	})
	if p == nil {
		w.hs = append(w.hs, h)
	}
	return h, p
}

func (w *world) emit(h *hrec, tag string) bool {
	uuid := fmt.Sprintf("%s/%s", h.topic, tag)
	if w.useGC {
		return w.ps.Publish(h.topic, message.NewMessage(uuid, nil)) == nil
	}
	sp := h.sub.SubFor(h.topic)
	if sp == nil {
		return false
	}
	w.emitWg.Add(1)
	go func() { defer w.emitWg.Done(); sp.Deliver(message.NewMessage(uuid, nil), 0) }()
	return true
}

func (w *world) expectHandled(h *hrec, want int32, clause, what string) {
	w.events++
	if oc, d := vlib.WaitUntil(func() bool { return h.handled.Load() >= want }, w.wo); oc == vlib.Stuck {
		w.res.Fail(clause, "%s: handler %s handled %d message(s), want %d (quiescent): %s", what, h.name, h.handled.Load(), want, w.spec)
		w.res.Witness = d
	} else if oc == vlib.Inconclusive {
		w.res.Inconclusive("%s: neither handled nor quiescent", what)
	}
}

// emitAndExpect sends one new message to a started handler and demands that it is handled.
func (w *world) emitAndExpect(h *hrec, tag, clause, what string) {
	want := h.handled.Load() + 1
	if w.emit(h, tag) {
		w.expectHandled(h, want, clause, what)
	} else {
		w.events++
		w.res.Fail(clause, "%s: handler %s has no subscription: %s", what, h.name, w.spec)
	}
}

func (w *world) startRun() {
	go func() { defer close(w.runDone); w.runErr = w.r.Run(w.ctx) }()
}

func (w *world) waitRunning(what string) bool {
	w.events++
	oc, d := vlib.WaitClosed(w.r.Running(), w.wo)
	if oc == vlib.Stuck {
		w.res.Fail("running-never-closed", "%sRunning() never closed (quiescent): %s", what, w.spec)
		w.res.Witness = d
	} else if oc == vlib.Inconclusive {
		w.res.Inconclusive("Running(): neither closed nor quiescent")
	}
	return oc == vlib.Done
}

// runHandlers calls RunHandlers and waits for it (the call is made on a goroutine of its own: it may never return).
func (w *world) runHandlers(what string) bool {
	done := make(chan struct{})
	var err error
	go func() { defer close(done); err = w.r.RunHandlers(w.ctx) }()
	w.events++
	oc, d := vlib.WaitClosed(done, w.wo)
	switch {
	case oc == vlib.Stuck:
		w.res.Fail("runhandlers-stuck", "%s: RunHandlers never returned (quiescent): %s", what, w.spec)
		w.res.Witness = d
	case oc == vlib.Inconclusive:
		w.res.Inconclusive("RunHandlers: neither returned nor quiescent")
	case err != nil:
		w.res.Fail("runhandlers-error", "%s: RunHandlers returned %v: %s", what, err, w.spec)
	}
	return oc == vlib.Done && err == nil
}

func (w *world) waitStarted(h *hrec, what string) bool {
	w.events++
	oc, d := vlib.WaitClosed(h.h.Started(), w.wo)
	if oc == vlib.Stuck {
		w.res.Fail("started-never-closed", "%s: Started() of handler %s never closed (quiescent): %s", what, h.name, w.spec)
		w.res.Witness = d
	} else if oc == vlib.Inconclusive {
		w.res.Inconclusive("Started(): neither closed nor quiescent")
	}
	return oc == vlib.Done
}

// stop calls Stop() on a started handler and returns its Stopped() channel (nil after a failure).
func (w *world) stop(h *hrec, what string) chan struct{} {
	w.events++
	h.stopped = true
	if p := safely(func() { h.h.Stop() }); p != nil {
		w.res.Fail("stop-panics-after-started", "%s: Stop() of %s panicked after Started() closed: %v (%s)", what, h.name, p, w.spec)
		return nil
	}
	var st chan struct{}
	safely(func() { st = h.h.Stopped() })
	if st == nil {
		w.res.Fail("stopped-nil-after-started", "%s: Stopped() of %s is nil after Started() closed: %s", what, h.name, w.spec)
	}
	return st
}

func (w *world) waitStopped(h *hrec, st chan struct{}, what string) {
	if st == nil {
		return
	}
	w.events++
	if oc, d := vlib.WaitClosed(st, w.wo); oc == vlib.Stuck && !w.res.Failed() {
		w.res.Fail("stopped-never-closes", "%s: Stop() of %s was called after Started() closed but Stopped() never closed (quiescent): %s", what, h.name, w.spec)
		w.res.Witness = d
	} else if oc == vlib.Inconclusive {
		w.res.Inconclusive("Stopped(): neither closed nor quiescent")
	}
}

// end performs the ending of the program on the handlers that are still running and judges the router's own end.
func (w *world) end(ending, what string) {
	what, closeDone := w.doEnding(ending, what)
	w.judgeEnd(what, closeDone)
}

// doEnding issues the ending; it returns the description of what was done and, for Close, the channel that closes when Close returned.
func (w *world) doEnding(ending, what string) (string, chan struct{}) {
	var closeDone chan struct{}
	switch ending {
	case "stop-all":
		for _, h := range w.hs {
			if !h.stopped && vlib.IsClosed(h.h.Started()) {
				h.stopped = true
				h.h.Stop()
			}
		}
		what += "; then every remaining handler was stopped (the last handler ended)"
	case "cancel-ctx":
		w.cancel()
		what += "; then the Run context was cancelled"
	case "close":
		closeDone = make(chan struct{})
		go func() { w.r.Close(); close(closeDone) }()
		what += "; then Close was called"
	case "subs-closed":
		if w.useGC {
			w.emitWg.Add(1)
			go func() { defer w.emitWg.Done(); w.ps.Close() }()
		} else {
			for _, h := range w.hs {
				if !h.stopped {
					h.stopped = true
					h.sub.Close()
				}
			}
		}
		what += "; then the subscribers closed every remaining subscription (the last handler ended)"
	case "none":
		// nothing is left to end: the last handler has ended already
	}
	return what, closeDone
}

// judgeEnd: "when the last handler ends or the Run context is cancelled the router closes itself and Run returns nil;
// a second Run returns an error" (and a Close that was called returns).
func (w *world) judgeEnd(what string, closeDone chan struct{}) {
	res := w.res
	if res.Failed() || res.Verdict != "" {
		return
	}
	w.events++
	if closeDone != nil {
		if oc, d := vlib.WaitClosed(closeDone, w.wo); oc == vlib.Stuck {
			res.Fail("never-returned", "%s: Close never returned (quiescent): %s", what, w.spec)
			res.Witness = d
			return
		} else if oc == vlib.Inconclusive {
			res.Inconclusive("Close: neither returned nor quiescent")
			return
		}
	}
	oc, d := vlib.WaitClosed(w.runDone, w.wo)
	switch {
	case oc == vlib.Stuck:
		clause := "run-never-returned"
		if w.runNeverClause != "" {
			clause = w.runNeverClause
		}
		res.Fail(clause, "%s: Run never returned (quiescent): %s", what, w.spec)
		res.Witness = d
	case oc == vlib.Inconclusive:
		res.Inconclusive("Run: neither returned nor quiescent")
	case w.runErr != nil:
		res.Fail("run-error", "%s: Run returned %v instead of nil: %s", what, w.runErr, w.spec)
	default:
		if oc, _ := vlib.WaitUntil(func() bool { return w.r.IsClosed() }, w.wo); oc == vlib.Stuck {
			res.Fail("router-not-closed", "%s: Run returned but the router is not closed: %s", what, w.spec)
			return
		}
		w.events++
		redundantRunO(res, w.r, "a second Run after the router closed", w.spec, w.wo)
	}
}

// subscribeCounts: exactly one Subscribe for every handler that was started, none for a handler that was never
// registered (its AddHandler call was rejected).
func (w *world) subscribeCounts() {
	res := w.res
	for _, s := range w.rejSubs {
		w.events++
		if n := s.SubCalls.Load(); n != 0 && !res.Failed() {
			res.Fail("rejected-handler-subscribed", "an AddHandler call was rejected (duplicate name) but its subscriber %s got %d Subscribe call(s): %s", s.Name, n, w.spec)
		}
	}
	if w.useGC {
		return
	}
	for _, h := range w.hs {
		w.events++
		n := h.sub.SubCalls.Load()
		if started := vlib.IsClosed(h.h.Started()); (n > 1 || (started && n != 1)) && !res.Failed() {
			res.Fail("subscribe-count", "handler %s (Started() closed: %v): Subscribe was called %d times: %s", h.name, started, n, w.spec)
		}
	}
}

func (w *world) teardown() {
	for _, f := range w.releases {
		f()
	}
	w.cancel()
	done := make(chan struct{})
	go func() { w.r.Close(); close(done) }()
	vlib.WaitClosed(done, w.wo)
	for _, h := range w.hs {
		h.sub.Close()
	}
	for _, s := range w.rejSubs {
		s.Close()
	}
	ed := make(chan struct{})
	go func() {
		if w.ps != nil {
			w.ps.Close()
		}
		w.emitWg.Wait()
		close(ed)
	}()
	vlib.WaitClosed(ed, w.wo)
}

// ---------------------------------------------------------------------------------------------
// start-up class: a lifecycle event arrives while a RunHandlers call is in the middle of starting handlers

var startupCombos = [][2]string{
	{"run", "started-park"}, {"run", "subscribe-hold"}, {"run", "before-running"}, {"run", "free"},
	{"late", "started-park"}, {"late", "subscribe-hold"}, {"late", "free"},
}

var startupActions = []string{"close", "cancel-ctx", "stop-started", "subs-closed"}

var endings = []string{"stop-all", "cancel-ctx", "close", "subs-closed"}

// startup: Run's own start-up loop (who=run) or an explicit RunHandlers call for several late handlers (who=late) is
// held in the middle - parked right after a handler's Started() closed, held inside a scripted subscriber's Subscribe,
// parked between RunHandlers returning and Running() closing - or merely slowed down (free: yield injection and
// subscribers that take a while), and in that window Close is called / the Run context is cancelled / every handler
// that runs already is stopped / the subscribers end the subscriptions made so far. What the property promises does
// not depend on how far the start-up has got.
func startup(e *vlib.Env, j int) vlib.Result {
	rnd := e.R
	rep := j / startupPer
	combo := startupCombos[j%len(startupCombos)]
	j /= len(startupCombos)
	action := startupActions[j%len(startupActions)]
	j /= len(startupActions)
	useGC := j%2 == 1
	who, hold := combo[0], combo[1]
	if useGC && hold == "subscribe-hold" {
		hold = "started-park" // the Subscribe call of a GoChannel cannot be held from outside
	}
	if useGC && action == "subs-closed" {
		action = "close+cancel" // a GoChannel cannot end single subscriptions; both shutdown events at once instead
	}
	// n handlers are started by the RunHandlers call under test; early handlers (who=late) run already
	n, early := rnd.Range(2, 5), 0
	if who == "late" {
		n, early = rnd.Range(2, 4), rnd.Range(0, 2)
	}
	pos := 0 // how many handlers of the group have been dealt with before the hold
	switch hold {
	case "started-park":
		pos = rnd.Range(0, n-2)
	case "subscribe-hold":
		if n < 3 {
			n = 3
		}
		pos = rnd.Range(1, n-2)
	case "before-running":
		n = rnd.Range(1, 4)
	case "free":
		pos = rnd.Range(1, n-1) // the event is issued when this many Started() channels have closed
	}
	yieldP := []float64{0, 0.3}[rnd.Intn(2)]
	if hold == "free" {
		yieldP = []float64{0.3, 0.6, 0.9}[rnd.Intn(3)]
	}
	delays := make([]int, early+n) // free: microseconds a scripted Subscribe takes (a broker round trip)
	for k := range delays {
		if hold == "free" {
			delays[k] = rnd.Intn(300)
		}
	}
	stopEarly := rnd.Bool()
	closers := rnd.Range(1, 2)
	ending := endings[rnd.Intn(len(endings))]
	spec := fmt.Sprintf("startUpOf=%s hold=%s event=%s gochannel=%v handlers=%d runningBefore=%d position=%d yield=%.1f includeEarlierHandlers=%v concurrentCloseCalls=%d endingOfTheRest=%s",
		who, hold, action, useGC, n, early, pos, yieldP, stopEarly, closers, ending)
	res := vlib.Result{Class: fmt.Sprintf("startup/%s/%s/%s", who, hold, action), Spec: spec}
	w := newWorld(e, &res, spec, useGC)
	ctl := vlib.NewCtl(rnd.Uint64(), yieldP, 120)
	defer ctl.Uninstall()

	var group []*hrec
	inGroup := map[string]bool{}
	for k := early; k < early+n; k++ {
		inGroup[fmt.Sprintf("%s/h%d", w.id, k)] = true
	}
	// holds
	var park *vlib.Park
	heldCh, holdRelease := make(chan struct{}), make(chan struct{})
	var relOnce sync.Once
	w.releases = append(w.releases, func() { relOnce.Do(func() { close(holdRelease) }) })
	var subSeen atomic.Int32
	switch hold {
	case "started-park":
		park = ctl.ParkAt("router.runhandlers.started", func(a, b string) bool { return inGroup[a] }, pos)
	case "before-running":
		park = ctl.ParkAt("router.run.before_running", nil, 0)
	case "subscribe-hold":
		w.onSubscribe = func(h *hrec) {
			if inGroup[h.name] && int(subSeen.Add(1))-1 == pos {
				close(heldCh)
				<-holdRelease
			}
		}
	case "free":
		w.onSubscribe = func(h *hrec) {
			if d := delays[h.k]; d > 0 {
				vlib.TimerWait(time.Duration(d) * time.Microsecond)
			}
		}
	}
	if park != nil {
		w.releases = append(w.releases, park.Release)
	}
	caseDone := make(chan struct{})
	defer close(caseDone)
	finish := func() vlib.Result {
		w.teardown()
		res.Events = w.events
		res.Hooks = ctl.Counts()
		res.Sig = vlib.Sig(spec, rep, res.Verdict, ctl.Fingerprint())
		res.Sample = map[string]any{"program": spec}
		return res
	}

	// the event, issued with the start-up in the state the hold describes
	var (
		closeDone    chan struct{}
		stoppedChs   = map[*hrec]chan struct{}{}
		unstarted    int
		eventTargets int
	)
	doAction := func() {
		var started []*hrec
		for _, h := range group {
			if vlib.IsClosed(h.h.Started()) {
				started = append(started, h)
			}
		}
		unstarted = n - len(started)
		if who == "late" && stopEarly {
			started = append(started, w.hs[:early]...)
		}
		switch action {
		case "close", "close+cancel":
			if action == "close+cancel" {
				w.cancel()
			}
			closeDone = make(chan struct{})
			var cwg sync.WaitGroup
			for c := 0; c < closers; c++ {
				cwg.Add(1)
				go func() { defer cwg.Done(); w.r.Close() }()
			}
			go func() { cwg.Wait(); close(closeDone) }()
		case "cancel-ctx":
			w.cancel()
		case "stop-started":
			for _, h := range started {
				stoppedChs[h] = w.stop(h, "during the start-up")
				eventTargets++
			}
		case "subs-closed":
			for _, h := range started {
				h := h
				h.stopped = true
				eventTargets++
				w.emitWg.Add(1)
				go func() { defer w.emitWg.Done(); h.sub.Close() }()
			}
		}
	}

	// the program up to the start-up under test
	addGroup := func() {
		for k := early; k < early+n; k++ {
			h, _ := w.add(k, 0)
			group = append(group, h)
		}
	}
	rhDone := make(chan struct{})
	actionDone := make(chan struct{})
	var startedSeen atomic.Int32
	watch := func() {
		// free: the event is issued by the goroutine that sees the pos-th Started() close, at once
		for _, h := range group {
			h := h
			go func() {
				select {
				case <-h.h.Started():
					if int(startedSeen.Add(1)) == pos {
						doAction()
						close(actionDone)
					}
				case <-caseDone:
				}
			}()
		}
	}
	if who == "run" {
		addGroup()
		if hold == "free" {
			watch()
		}
		w.startRun()
		close(rhDone)
	} else {
		for k := 0; k < early; k++ {
			w.add(k, 0)
		}
		w.startRun()
		if !w.waitRunning("") {
			return finish()
		}
		for _, h := range w.hs {
			w.emitAndExpect(h, "at-running", "message-lost-after-running", "message emitted the instant Running() closed")
		}
		if res.Failed() {
			return finish()
		}
		addGroup()
		if hold == "free" {
			watch()
		}
		go func() { defer close(rhDone); w.r.RunHandlers(w.ctx) }()
	}

	// reach the window
	reached := false
	if hold == "free" {
		oc, d := vlib.WaitClosed(actionDone, wo)
		if oc == vlib.Stuck {
			res.Fail("started-never-closed", "%d handlers were to be started, no lifecycle event had been issued yet, and only %d Started() channel(s) closed (quiescent): %s", n, startedSeen.Load(), spec)
			res.Witness = d
			return finish()
		} else if oc == vlib.Inconclusive {
			res.Inconclusive("start-up: neither progressing nor quiescent")
			return finish()
		}
		reached = true
	} else {
		oc, _ := vlib.WaitUntil(func() bool {
			if park != nil {
				return park.HasArrived()
			}
			return vlib.IsClosed(heldCh)
		}, wo)
		if oc != vlib.Done {
			res.Verdict = vlib.Unreached
			res.Reason = "the start-up did not reach the hold: " + spec
			return finish()
		}
		reached = true
		doAction()
		vlib.Settle(wo) // the event gets as far as it can while the start-up is held
		for _, f := range w.releases {
			f()
		}
	}
	duringLoop := unstarted > 0 || hold == "before-running"
	res.NonTrivial = reached && duringLoop
	res.Count("startup_window_reached", b2i(reached))
	res.Count("startup_event_during_startup", b2i(duringLoop))
	res.Count("startup_handlers_left_to_start_at_event", unstarted)
	res.Count("startup_hold_"+hold, 1)
	res.Count("startup_event_"+action, 1)

	where := fmt.Sprintf("event %s arrived while %s was starting handlers (%d of %d left to start, hold=%s)", action, map[string]string{"run": "Run", "late": "a RunHandlers call for handlers added after Run"}[who], unstarted, n, hold)
	switch action {
	case "close", "close+cancel", "cancel-ctx":
		// the RunHandlers call under test returns (whatever it returns), Close returns, the router closes, Run returns nil.
		// Whether the handlers that were not started yet are still started is not promised either way.
		w.events++
		if oc, d := vlib.WaitClosed(rhDone, wo); oc == vlib.Stuck {
			res.Fail("runhandlers-stuck", "%s: RunHandlers never returned (quiescent): %s", where, spec)
			res.Witness = d
		} else if oc == vlib.Inconclusive {
			res.Inconclusive("RunHandlers: neither returned nor quiescent")
		}
		w.judgeEnd(where, closeDone)
	case "stop-started", "subs-closed":
		// the router lives on: the start-up completes, the stopped handlers end, the others work; then the rest is ended
		if who == "run" {
			if w.waitRunning(where+": ") && !useGC {
				for _, h := range group {
					w.events++
					if h.sub.SubCalls.Load() == 0 && !res.Failed() {
						res.Fail("running-before-subscribed", "%s: Running() is closed but handler %s has no subscription: %s", where, h.name, spec)
					}
				}
			}
		} else {
			w.events++
			if oc, d := vlib.WaitClosed(rhDone, wo); oc == vlib.Stuck {
				res.Fail("runhandlers-stuck", "%s: RunHandlers never returned (quiescent): %s", where, spec)
				res.Witness = d
			} else if oc == vlib.Inconclusive {
				res.Inconclusive("RunHandlers: neither returned nor quiescent")
			}
		}
		for _, h := range group {
			if !res.Failed() && res.Verdict == "" && !h.stopped {
				w.waitStarted(h, where)
			}
		}
		if action == "stop-started" {
			for _, h := range w.hs {
				if st, ok := stoppedChs[h]; ok && !res.Failed() && res.Verdict == "" {
					w.waitStopped(h, st, where)
				}
			}
			// "Stop ends that handler only, while handlers that do not share its publisher keep processing" (no publisher is shared here)
			for _, h := range w.hs {
				if !h.stopped && !res.Failed() && res.Verdict == "" {
					w.emitAndExpect(h, "after-event", "others-broken-after-stop", where+"; message for a handler that was not stopped")
				}
			}
		}
		left := 0
		for _, h := range w.hs {
			if !h.stopped {
				left++
			}
		}
		res.Count("startup_handlers_running_after_event", left)
		if left == 0 {
			w.end("none", where+"; that ended the last handler")
		} else {
			w.end(ending, where)
		}
	}
	w.subscribeCounts()
	return finish()
}

// ---------------------------------------------------------------------------------------------
// rejected-call class: a call that the API refuses as documented, then the rest of the lifecycle

var rejectedCalls = []string{"dup-add", "dup-nopub", "dup-x2"}

var rejectedWhens = []string{"before-run", "during-startup", "after-running", "after-late-add", "after-runhandlers", "after-stops"}

// rejected: AddHandler / AddNoPublisherHandler with a name that is still registered panics with DuplicateHandlerNameError
// ("handlerName must be unique"; the error type is exported so that callers can recover it). The caller recovers and the
// program goes on: everything the property promises must hold as if the refused call had not been made - Running(),
// late handlers started exactly once by RunHandlers, Stop ending one handler only, and above all the router closing
// itself when the last handler ends / the Run context is cancelled, with Run returning nil.
// Using the name of a handler that has ended again is not a duplicate; whichever way the router answers, the oracle
// follows (accepted: a newly added handler that RunHandlers must start once; refused: one more refused call).
func rejected(e *vlib.Env, j int) vlib.Result {
	rnd := e.R
	rep := j / rejectedPer
	call := rejectedCalls[j%len(rejectedCalls)]
	j /= len(rejectedCalls)
	when := rejectedWhens[j%len(rejectedWhens)]
	j /= len(rejectedWhens)
	ending := endings[j%len(endings)]
	j /= len(endings)
	useGC := j%2 == 1
	n, late := rnd.Range(1, 3), rnd.Range(1, 2)
	readd := rnd.Chance(0.4)
	yieldP := []float64{0, 0.3, 0.6}[rnd.Intn(3)]
	spec := fmt.Sprintf("refusedCall=%s at=%s ending=%s gochannel=%v handlers=%d+%d late reuseNameOfStoppedHandler=%v yield=%.1f", call, when, ending, useGC, n, late, readd, yieldP)
	res := vlib.Result{Class: fmt.Sprintf("rejected/%s/%s/%s", call, when, ending), Spec: spec}
	w := newWorld(e, &res, spec, useGC)
	ctl := vlib.NewCtl(rnd.Uint64(), yieldP, 80)
	defer ctl.Uninstall()
	finish := func() vlib.Result {
		w.teardown()
		res.Events = w.events
		res.Hooks = ctl.Counts()
		res.Sig = vlib.Sig(spec, rep, res.Verdict, ctl.Fingerprint())
		res.Sample = map[string]any{"program": spec}
		return res
	}
	refusedCalls := 0
	// refused makes the call(s) with the name of one of the candidates; false: the router accepted a duplicate name
	refused := func(cands []*hrec) bool {
		calls := 1
		if call == "dup-x2" {
			calls = 2
		}
		for c := 0; c < calls; c++ {
			t := cands[rnd.Intn(len(cands))]
			sub := &vlib.Sub{Name: fmt.Sprintf("%s-refused%d", w.id, len(w.rejSubs))}
			topic := fmt.Sprintf("%s/refused%d", w.id, len(w.rejSubs))
			w.rejSubs = append(w.rejSubs, sub)
			var p any
			if call == "dup-nopub" || (call == "dup-x2" && c == 1) {
				p = safely(func() {
					w.r.AddNoPublisherHandler(t.name, topic, sub, func(*message.Message) error { return nil })
				})
			} else {
				p = safely(func() {
					w.r.AddHandler(t.name, topic, sub, topic+"/out", &vlib.Pub{Name: sub.Name}, func(*message.Message) ([]*message.Message, error) { return nil, nil })
				})
			}
			if p == nil {
				return false
			}
			refusedCalls++
			if _, ok := p.(message.DuplicateHandlerNameError); ok {
				res.Count("refused_with_DuplicateHandlerNameError", 1)
			}
		}
		return true
	}
	outside := func() vlib.Result {
		res.Inconclusive("AddHandler accepted a name that is still registered: outside the programs this class judges (%s)", spec)
		return finish()
	}
	running := func() []*hrec {
		var out []*hrec
		for _, h := range w.hs {
			if !h.stopped {
				out = append(out, h)
			}
		}
		return out
	}
	what := fmt.Sprintf("an AddHandler call with a name still in use was refused (%s, %s) and recovered", call, when)

	for k := 0; k < n; k++ {
		w.add(k, 0)
	}
	if when == "before-run" && !refused(w.hs) {
		return outside()
	}
	if when == "during-startup" {
		// Run is in the middle of starting the handlers when the call is made
		names := map[string]bool{}
		for _, h := range w.hs {
			names[h.name] = true
		}
		park := ctl.ParkAt("router.runhandlers.started", func(a, b string) bool { return names[a] }, 0)
		w.releases = append(w.releases, park.Release)
		w.startRun()
		if oc, _ := vlib.WaitUntil(park.HasArrived, wo); oc != vlib.Done {
			res.Verdict = vlib.Unreached
			res.Reason = "the start-up did not reach the park: " + spec
			return finish()
		}
		done := make(chan bool, 1)
		go func() { done <- refused(w.hs) }()
		vlib.Settle(wo)
		park.Release()
		ok, got := false, false
		if oc, _ := vlib.WaitUntil(func() bool {
			select {
			case ok = <-done:
				got = true
				return true
			default:
				return false
			}
		}, wo); oc != vlib.Done || !got {
			res.Inconclusive("the AddHandler call made during the start-up did not return")
			return finish()
		}
		if !ok {
			return outside()
		}
	} else {
		w.startRun()
	}
	if !w.waitRunning(what + ": ") {
		return finish()
	}
	for _, h := range w.hs {
		w.events++
		if !useGC && len(h.sub.Subs()) == 0 && !res.Failed() {
			res.Fail("running-before-subscribed", "%s: Running() is closed but handler %s has no subscription yet: %s", what, h.name, spec)
		}
	}
	for _, h := range w.hs {
		if !res.Failed() && res.Verdict == "" {
			w.emitAndExpect(h, "at-running", "message-lost-after-running", what+"; message emitted the instant Running() closed")
		}
	}
	if res.Failed() || res.Verdict != "" {
		return finish()
	}
	if when == "after-running" && !refused(w.hs) {
		return outside()
	}
	for k := n; k < n+late; k++ {
		w.add(k, 0)
	}
	if when == "after-late-add" && !refused(w.hs) { // the name may be that of a handler that is registered but not started yet
		return outside()
	}
	if !w.runHandlers(what) {
		return finish()
	}
	for _, h := range w.hs[n:] {
		if w.waitStarted(h, what+"; handler added after Run, RunHandlers returned") {
			w.emitAndExpect(h, "late", "late-handler-not-processing", what+"; message for a handler started by RunHandlers")
		}
	}
	if res.Failed() || res.Verdict != "" {
		return finish()
	}
	if when == "after-runhandlers" {
		if !refused(w.hs) {
			return outside()
		}
		// RunHandlers once more: nothing new to start
		if !w.runHandlers(what) {
			return finish()
		}
	}
	// stop one handler; the others keep working
	victim := w.hs[rnd.Intn(len(w.hs))]
	st := w.stop(victim, what)
	w.waitStopped(victim, st, what)
	if res.Failed() || res.Verdict != "" {
		return finish()
	}
	if when == "after-stops" && !refused(running()) {
		return outside()
	}
	if readd {
		h2, p := w.add(victim.k, 1)
		if p != nil {
			res.Count("reused_name_refused", 1)
		} else {
			res.Count("reused_name_accepted", 1)
			if !w.runHandlers(what + "; the name of the stopped handler was used again") {
				return finish()
			}
			if w.waitStarted(h2, what+"; handler added under the name of a stopped handler, RunHandlers returned") {
				w.emitAndExpect(h2, "reused", "late-handler-not-processing", what+"; message for the handler added under the name of a stopped handler")
			}
		}
	}
	for _, h := range running() {
		if !res.Failed() && res.Verdict == "" {
			w.emitAndExpect(h, "after-stop", "others-broken-after-stop", what+"; message for a handler that was not stopped")
		}
	}
	if !res.Failed() && res.Verdict == "" {
		w.end(ending, what)
	}
	w.subscribeCounts()
	res.NonTrivial = refusedCalls > 0
	res.Count("refused_addhandler_calls", refusedCalls)
	res.Count("refused_at_"+when, 1)
	return finish()
}
