package c10

import (
	"fmt"
	"runtime"
	"sync/atomic"

	"verifharness/vlib"
)

// ---------------------------------------------------------------------------------------------
// react class: user goroutines that react to Started() / Running() the very instant the channel closes
//
// "Once a handler's Started() is closed its Stop() and Stopped() are usable" and "Running() is closed only after every
// registered handler holds its subscription" are promises about the instant of the close. A goroutine that is blocked
// in a receive needs a wake-up (microseconds) before it looks; one that polls the channel on another P (a select with a
// default branch in a busy loop, a health check, a test helper) looks within nanoseconds of the close. The forced class
// parks the router *after* the hook that follows the close, i.e. after whatever the router still does between closing
// the channel and reaching the hook; this class looks into exactly that stretch, by massed repetition: every case
// builds a series of small routers and lets 1..2 observers per handler poll / wait on Started() while Run's own
// start-up (or an explicit RunHandlers call for handlers added after Run) is on its way, one more polls Running().

var reactWaits = []string{
	"spin",    // busy loop over a non-blocking receive (bounded, then a blocking receive)
	"gosched", // the same with runtime.Gosched() between the polls
	"block",   // a plain blocking receive
}

// reactPer is one full enumeration of the react class (how the observers wait x whose start-up x subscriber kind).
const reactPer = 3 * 2 * 2

// reactRounds routers are built and judged one after the other by every case of the class.
const reactRounds = 32

// reactSpinBudget bounds the busy loop of an observer: after that many polls that found the channel open it falls back
// to a blocking receive (so that a channel that never closes leaves a quiescent process, not a spinning one).
const reactSpinBudget = 200000

func reactN(tier string) int { return vlib.TierN(tier, 40*reactPer, 400*reactPer) }

type reactObs struct {
	h         *hrec
	wait      string
	stopFirst bool
	// written by the observer goroutine, read by the case after done was incremented
	openPolls    int
	fellBack     bool
	stopPanic    any
	stoppedPanic any
	st           chan struct{}
}

// await returns once ch is closed, by the observer's way of waiting; it reports the number of polls that found it open.
func reactAwait(wait string, ch chan struct{}) (openPolls int, fellBack bool) {
	if wait == "block" {
		<-ch
		return 0, false
	}
	for !vlib.IsClosed(ch) {
		openPolls++
		if openPolls >= reactSpinBudget {
			<-ch
			return openPolls, true
		}
		if wait == "gosched" {
			runtime.Gosched()
		}
	}
	return openPolls, false
}

func (o *reactObs) run(done *atomic.Int32) {
	defer done.Add(1)
	o.openPolls, o.fellBack = reactAwait(o.wait, o.h.h.Started())
	// Started() is closed: Stop() and Stopped() are usable now
	if o.stopFirst {
		o.stopPanic = safely(func() { o.h.h.Stop() })
		o.stoppedPanic = safely(func() { o.st = o.h.h.Stopped() })
	} else {
		o.stoppedPanic = safely(func() { o.st = o.h.h.Stopped() })
		o.stopPanic = safely(func() { o.h.h.Stop() })
	}
}

func react(e *vlib.Env, j int) vlib.Result {
	rnd := e.R
	rep := j / reactPer
	wait := reactWaits[j%len(reactWaits)]
	j /= len(reactWaits)
	late := j%2 == 1
	j /= 2
	useGC := j%2 == 1
	spec := fmt.Sprintf("observersWaitBy=%s observedHandlersAddedAfterRun=%v gochannel=%v routers=%d", wait, late, useGC, reactRounds)
	res := vlib.Result{Class: fmt.Sprintf("react/wait=%s/late=%v/gochannel=%v", wait, late, useGC), Spec: spec}
	events := 0
	observers, reacted, runningReacted, stops, bystanders := 0, 0, 0, 0, 0
	var shapes []string
	for round := 0; round < reactRounds && res.Verdict == ""; round++ {
		n0 := rnd.Range(1, 3) // handlers added before Run
		nl := 0               // handlers added after Run, started by RunHandlers
		if late {
			n0, nl = rnd.Range(0, 2), rnd.Range(1, 2)
		}
		perHandler := rnd.Range(1, 2)
		if wait == "spin" {
			perHandler = 1
		}
		ending := endings[rnd.Intn(len(endings))]
		rspec := fmt.Sprintf("%s; router %d: handlersBeforeRun=%d handlersAfterRun=%d observersPerHandler=%d ending=%s", spec, round, n0, nl, perHandler, ending)
		shapes = append(shapes, fmt.Sprintf("%d+%d/%d/%s", n0, nl, perHandler, ending))
		w := newWorld(e, &res, rspec, useGC)
		w.id = fmt.Sprintf("%s.r%d", e.ID(), round)
		reactRound(w, rnd, wait, n0, nl, perHandler, ending, &observers, &reacted, &runningReacted, &stops, &bystanders)
		w.teardown()
		events += w.events
	}
	res.Events = events
	res.Count("react_observers", observers)
	res.Count("react_observers_that_saw_started_open_first", reacted)
	res.Count("react_running_observers_that_saw_running_open_first", runningReacted)
	res.Count("react_handlers_stopped_by_an_observer", stops)
	res.Count("react_bystanders_that_handled_a_message_afterwards", bystanders)
	// non-trivial: at least one polling observer watched the channel change from open to closed (it did not arrive late);
	// blocking observers were all parked in the receive before the start-up began
	res.NonTrivial = reacted > 0 || (wait == "block" && observers > 0)
	res.Sig = vlib.Sig(spec, rep, shapes)
	res.Sample = map[string]any{"program": spec, "routers": shapes, "observers": observers, "saw_open_first": reacted}
	return res
}

func reactRound(w *world, rnd *vlib.Rand, wait string, n0, nl, perHandler int, ending string, observers, reacted, runningReacted, stops, bystanders *int) {
	res := w.res
	for k := 0; k < n0; k++ {
		w.add(k, 0)
	}
	var done atomic.Int32
	var obs []*reactObs
	observe := func(hs []*hrec) {
		for _, h := range hs {
			for n := 0; n < perHandler; n++ {
				o := &reactObs{h: h, wait: wait, stopFirst: rnd.Bool()}
				obs = append(obs, o)
				go o.run(&done)
			}
		}
	}
	// the goroutine that polls Running(): when it sees it closed, every handler registered before Run holds its subscription
	type runningObs struct {
		openPolls int
		missing   string
	}
	runningCh := make(chan runningObs, 1)
	pre := append([]*hrec(nil), w.hs...)
	var observed []*hrec
	// a random non-empty subset of the candidates is observed, the others are bystanders; busy-looping observers are
	// kept few (<= 2 per router, one per handler): a P each, next to the one the start-up runs on
	pick := func(cands []*hrec) {
		for _, h := range cands {
			if rnd.Bool() {
				observed = append(observed, h)
			}
		}
		if len(observed) == 0 {
			observed = append(observed, cands[rnd.Intn(len(cands))])
		}
		if wait == "spin" && len(observed) > 2 {
			observed = observed[:2]
		}
	}
	if nl == 0 {
		pick(pre) // Run's own start-up
		observe(observed)
	}
	go func() {
		var ro runningObs
		ro.openPolls, _ = reactAwait(wait, w.r.Running())
		if !w.useGC {
			for _, h := range pre {
				if h.sub.SubFor(h.topic) == nil {
					ro.missing = h.name
					break
				}
			}
		}
		runningCh <- ro
	}()
	w.startRun()
	if !w.waitRunning("") {
		return
	}
	w.events++
	if oc, _ := vlib.WaitUntil(func() bool { return len(runningCh) > 0 }, w.wo); oc != vlib.Done {
		res.Inconclusive("the goroutine polling Running() did not finish")
		return
	}
	if ro := <-runningCh; ro.missing != "" {
		res.Fail("running-before-subscribed", "a goroutine polling Running() (%s) saw it closed while handler %s, added before Run, had no subscription yet: %s", wait, ro.missing, w.spec)
		return
	} else if ro.openPolls > 0 {
		*runningReacted++
	}
	if nl > 0 {
		var lates []*hrec
		for k := n0; k < n0+nl; k++ {
			h, _ := w.add(k, 0)
			h.late = true
			lates = append(lates, h)
		}
		pick(lates)
		observe(observed)
		if !w.runHandlers("RunHandlers for the handlers added after Run") {
			return
		}
	}
	// every observer gets past Started() (it closes for every registered handler) and has used Stop() / Stopped()
	*observers += len(obs)
	want := int32(len(obs))
	w.events++
	if oc, d := vlib.WaitUntil(func() bool { return done.Load() >= want }, w.wo); oc == vlib.Stuck {
		res.Fail("started-never-closed", "%d of %d goroutines waiting for Started() of handlers that were started never got past it (quiescent): %s", want-done.Load(), want, w.spec)
		res.Witness = d
		return
	} else if oc != vlib.Done {
		res.Inconclusive("the goroutines waiting for Started() did not finish")
		return
	}
	for _, o := range obs {
		w.events += 2
		if o.openPolls > 0 && !o.fellBack {
			*reacted++
		}
		how := fmt.Sprintf("a goroutine waiting for Started() of %s (%s, saw it open %d times first, Stop() before Stopped(): %v)", o.h.name, o.wait, o.openPolls, o.stopFirst)
		switch {
		case o.stopPanic != nil:
			res.Fail("stop-panics-after-started", "%s called Stop() the moment Started() was closed and it panicked: %v (%s)", how, o.stopPanic, w.spec)
		case o.stoppedPanic != nil:
			res.Fail("stopped-nil-after-started", "%s called Stopped() the moment Started() was closed and it panicked: %v (%s)", how, o.stoppedPanic, w.spec)
		case o.st == nil:
			res.Fail("stopped-nil-after-started", "%s called Stopped() the moment Started() was closed and got a nil channel (%s)", how, w.spec)
		}
		if res.Failed() {
			return
		}
	}
	// Stop ends that handler ...
	for _, h := range observed {
		h.stopped = true
		*stops++
	}
	for _, o := range obs {
		w.waitStopped(o.h, o.st, "Stop() called the moment Started() closed")
		if !w.ok() {
			return
		}
	}
	// ... only: the others (each has a publisher of its own) keep processing
	for _, h := range w.hs {
		if !h.stopped {
			w.emitAndExpect(h, "after-stop", "others-broken-after-stop", "message for a handler that was not stopped, after the observed handlers were stopped the moment they started")
			if !w.ok() {
				return
			}
			*bystanders++
		}
	}
	if len(w.running()) == 0 {
		ending = "none" // the last handler has ended: the router closes itself
	}
	w.end(ending, "the observed handlers were stopped the moment Started() closed")
	w.subscribeCounts()
}
