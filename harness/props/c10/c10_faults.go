package c10

import (
	"context"
	"errors"
	"fmt"
	"strings"
	"sync"
	"sync/atomic"
	"time"

	"github.com/ThreeDotsLabs/watermill"
	"github.com/ThreeDotsLabs/watermill/message"

	"verifharness/vlib"
)

// wt: waits of the classes that use a short CloseTimeout. The timer of a close that is waiting for its CloseTimeout is a
// visible frame (pubsub/sync.WaitGroupTimeout): the process is never called quiescent while such a close is pending.
var wt = vlib.WaitOpts{Watchdog: 40 * time.Second}

var errTransient = errors.New("c10: injected transient start-up fault (broker not reachable)")

// startSub is the subscriber handed to the router in the retry and close-timeout classes.
//   - Its first failFirst Subscribe calls fail (a broker that is not reachable for a while); the others go to the real
//     subscriber (scripted vlib.Sub or the GoChannel).
//   - Scripted kind only: a subscription ends - on context cancel or Close, as the Subscriber contract demands - but the
//     client takes its time about it: it ends only once the harness has opened the handler's gate. The harness opens the
//     gate of a handler before it does anything that is meant to end that handler, so on a router that ends handlers only
//     when it is told to the gate is never felt. Should the router tear a handler down that nobody asked to end, that
//     handler stays alive a little longer and the harness can look at the router's state while it does.
type startSub struct {
	name      string
	inner     message.Subscriber
	vs        *vlib.Sub // scripted kind (IgnoreCtx: the subscription is ended by this wrapper); nil for the GoChannel
	failFirst int32
	fired     *atomic.Int32 // all faults of the case that fired
	calls, ok atomic.Int32

	gate        chan struct{}
	gateOnce    sync.Once
	closeCalled chan struct{}
	closeOnce   sync.Once
}

func newStartSub(name string, inner message.Subscriber, vs *vlib.Sub, failFirst int, fired *atomic.Int32) *startSub {
	return &startSub{name: name, inner: inner, vs: vs, failFirst: int32(failFirst), fired: fired, gate: make(chan struct{}), closeCalled: make(chan struct{})}
}

// String: the router derives the subscriber's name from it (it must not format the wrapped Pub/Sub: that reads its fields).
func (s *startSub) String() string { return "c10sub:" + s.name }

// open: from now on the subscriber ends its subscriptions at once when asked to.
func (s *startSub) open() { s.gateOnce.Do(func() { close(s.gate) }) }

func (s *startSub) Subscribe(ctx context.Context, topic string) (<-chan *message.Message, error) {
	if n := s.calls.Add(1); n <= s.failFirst {
		s.fired.Add(1)
		return nil, errTransient
	}
	ch, err := s.inner.Subscribe(ctx, topic)
	if err != nil {
		return nil, err
	}
	s.ok.Add(1)
	if s.vs != nil {
		go func() {
			select {
			case <-ctx.Done():
			case <-s.closeCalled:
			}
			<-s.gate
			s.vs.Close()
		}()
	}
	return ch, nil
}

func (s *startSub) Close() error {
	if s.vs == nil {
		return s.inner.Close()
	}
	s.closeOnce.Do(func() { close(s.closeCalled) })
	<-s.gate
	return s.vs.Close()
}

// faultPlan: decorator calls that fail. Decorators are applied per handler inside RunHandlers, before Subscribe.
type faultPlan struct {
	fired    atomic.Int32
	armed    atomic.Bool
	decCalls atomic.Int32
	decSkip  int32
	decFail  int32
}

func (f *faultPlan) decorate() error {
	if !f.armed.Load() {
		return nil
	}
	n := f.decCalls.Add(1) - 1
	if n >= f.decSkip && n < f.decSkip+f.decFail {
		f.fired.Add(1)
		return errTransient
	}
	return nil
}

// useStartSubs makes every handler added from now on use a startSub; faults(k) = Subscribe calls of handler k that fail.
func (w *world) useStartSubs(fired *atomic.Int32, faults func(k int) int) {
	w.mkSub = func(h *hrec) message.Subscriber {
		h.faults = faults(h.k)
		if w.useGC {
			h.ss = newStartSub(h.name, w.ps, nil, h.faults, fired)
		} else {
			h.sub.IgnoreCtx = true
			h.ss = newStartSub(h.name, h.sub, h.sub, h.faults, fired)
		}
		w.releases = append(w.releases, h.ss.open)
		return h.ss
	}
}

// callRunHandlers makes n concurrent RunHandlers calls and waits for them; it returns the errors of the calls that
// failed. ok=false: a call did not return (verdict set).
func (w *world) callRunHandlers(what string, n int) (errs []error, ok bool) {
	done := make(chan struct{})
	var mu sync.Mutex
	var wg sync.WaitGroup
	for c := 0; c < n; c++ {
		wg.Add(1)
		go func() {
			defer wg.Done()
			if err := w.r.RunHandlers(w.ctx); err != nil {
				mu.Lock()
				errs = append(errs, err)
				mu.Unlock()
			}
		}()
	}
	go func() { wg.Wait(); close(done) }()
	w.events++
	oc, d := vlib.WaitClosed(done, w.wo)
	switch oc {
	case vlib.Stuck:
		w.res.Fail("runhandlers-stuck", "%s: RunHandlers never returned (quiescent): %s", what, w.spec)
		w.res.Witness = d
		return nil, false
	case vlib.Inconclusive:
		w.res.Inconclusive("RunHandlers: neither returned nor quiescent")
		return nil, false
	}
	return errs, true
}

// probeClosed asks IsClosed() from a goroutine of its own (IsClosed waits for a Close that is in progress).
// closing=true: the call did not come back at quiescence, i.e. a Close is in progress and waits for handlers.
func (w *world) probeClosed() (closed, closing, known bool) {
	ch := make(chan bool, 1)
	go func() { ch <- w.r.IsClosed() }()
	oc, _ := vlib.WaitUntil(func() bool { return len(ch) > 0 }, w.wo)
	switch oc {
	case vlib.Done:
		return <-ch, false, true
	case vlib.Stuck:
		return false, true, true
	}
	return false, false, false
}

func (w *world) ok() bool { return !w.res.Failed() && w.res.Verdict == "" }

func (w *world) running() []*hrec {
	var out []*hrec
	for _, h := range w.hs {
		if !h.stopped && vlib.IsClosed(h.h.Started()) {
			out = append(out, h)
		}
	}
	return out
}

func names(hs []*hrec) string {
	s := ""
	for i, h := range hs {
		if i > 0 {
			s += ","
		}
		s += fmt.Sprintf("h%d", h.k)
	}
	return s
}

// stillOpen: nothing has been done yet that ends the router - the Run context is alive, Close was not called, and at
// least one registered handler has not ended (it runs, or it is registered and waits for the RunHandlers call that
// starts it). "When the LAST handler ends ... the router closes itself": it must not have closed itself, and Run must
// not have returned. Judged at quiescence: whatever the previous step set in motion has happened.
// On a violation the case is abandoned without teardown: ending the surviving handlers of a router whose handler count
// went wrong is what takes the process down (negative WaitGroup counter); the witness is worth more than the crash.
func (w *world) stillOpen(runReturned bool, what string) bool {
	if !w.ok() {
		return false
	}
	w.events++
	if oc, _ := vlib.Settle(w.wo); oc == vlib.Inconclusive {
		w.res.Inconclusive("%s: the process did not become quiescent", what)
		return false
	}
	var alive, waiting []*hrec
	for _, h := range w.hs {
		switch {
		case !vlib.IsClosed(h.h.Started()):
			waiting = append(waiting, h)
		case !h.stopped:
			alive = append(alive, h)
		}
	}
	if len(alive)+len(waiting) == 0 {
		return true
	}
	state := ""
	if !runReturned && vlib.IsClosed(w.runDone) {
		state = fmt.Sprintf("Run has returned (%v)", w.runErr)
	} else if closed, closing, known := w.probeClosed(); known && closed {
		state = "the router is closed (IsClosed() == true)"
	} else if known && closing {
		state = "the router is closing itself (a Close is in progress)"
	}
	if state == "" {
		return true
	}
	w.res.Fail("closed-before-last-handler-ended", "%s: %s although the Run context is alive, Close was not called and not every handler has ended (running, never asked to end: [%s]; registered, not started yet: [%s]): %s",
		what, state, names(alive), names(waiting), w.spec)
	_, w.res.Witness = vlib.CountGoroutines(func(g vlib.Goroutine) bool { return g.Has("message.(*Router)") || g.Has("message.(*handler)") })
	w.abandoned = true
	return false
}

// judgeClosedOnly is judgeEnd for a router whose Run call has returned already (it failed during its own start-up):
// "when the last handler ends or the Run context is cancelled the router closes itself" is all that is left to demand.
func (w *world) judgeClosedOnly(what string, closeDone chan struct{}) {
	res := w.res
	if !w.ok() {
		return
	}
	w.events++
	if closeDone != nil {
		if oc, d := vlib.WaitClosed(closeDone, w.wo); oc == vlib.Stuck {
			res.Fail("never-returned", "%s: Close never returned (quiescent): %s", what, w.spec)
			res.Witness = d
			return
		} else if oc == vlib.Inconclusive {
			res.Inconclusive("Close: neither returned nor quiescent")
			return
		}
	}
	oc, d := vlib.WaitUntil(func() bool { return w.r.IsClosed() }, w.wo)
	switch oc {
	case vlib.Stuck:
		res.Fail("router-not-closed", "%s: the router did not close itself (quiescent, IsClosed() == false): %s", what, w.spec)
		res.Witness = d
	case vlib.Inconclusive:
		res.Inconclusive("IsClosed(): neither true nor quiescent")
	default:
		w.events++
		redundantRunO(res, w.r, "a second Run after the router closed", w.spec, w.wo)
	}
}

// ---------------------------------------------------------------------------------------------
// retry class: transient faults in the start-up calls, RunHandlers retried, then the rest of the lifecycle

var retryFaults = []string{"subscribe", "subscriber-decorator", "publisher-decorator"}

// retryPer is one full enumeration of the retry class (fault x ending x subscriber kind x whose start-up).
const retryPer = 3 * 4 * 2 * 2

func retryN(tier string) int { return vlib.TierN(tier, 3*retryPer, 40*retryPer) }

// retry: a start-up call made by RunHandlers fails for a while - Subscribe of chosen handlers returns an error on its
// first 1..2 calls, or a subscriber / publisher decorator returns an error on chosen invocations - so the RunHandlers
// call (an explicit one for handlers added after Run, or the one inside Run) returns an error. The caller does what
// the documentation of RunHandlers invites ("idempotent, can be called multiple times safely"): it calls RunHandlers
// again until it succeeds. From then on the program is judged as if those handlers had simply been started later.
func retry(e *vlib.Env, j int) vlib.Result {
	rnd := e.R
	rep := j / retryPer
	fault := retryFaults[j%len(retryFaults)]
	j /= len(retryFaults)
	ending := endings[j%len(endings)]
	j /= len(endings)
	useGC := j%2 == 1
	j /= 2
	who := []string{"late", "run"}[j%2]
	early, n := rnd.Range(0, 2), rnd.Range(1, 3)
	if who == "run" {
		early, n = 0, rnd.Range(2, 4)
	}
	// the plan of faults
	fp := &faultPlan{}
	subFaults := make([]int, early+n+8)
	total := 0
	if fault == "subscribe" {
		for total == 0 {
			for k := early; k < early+n; k++ {
				subFaults[k] = 0
				if rnd.Chance(0.6) {
					subFaults[k] = rnd.Range(1, 2)
				}
				total += subFaults[k]
			}
		}
	} else {
		fp.decSkip, fp.decFail = int32(rnd.Intn(n)), int32(rnd.Range(1, 3))
		total = int(fp.decFail)
	}
	between := []string{"none", "stop-one", "second-run", "add-one-more"}[rnd.Intn(4)]
	conc := 1
	if rnd.Chance(0.3) {
		conc = 2 // every attempt is two RunHandlers calls at once
	}
	yieldP := []float64{0, 0.3, 0.6}[rnd.Intn(3)]
	extraRH := rnd.Range(0, 2)
	plan := fmt.Sprint(subFaults[early : early+n])
	if fault != "subscribe" {
		plan = fmt.Sprintf("invocations %d..%d", fp.decSkip, fp.decSkip+fp.decFail-1)
	}
	spec := fmt.Sprintf("startUpOf=%s fault=%s failing=%s gochannel=%v runningBefore=%d handlers=%d concurrentCallsPerAttempt=%d betweenAttempts=%s furtherRunHandlersCalls=%d ending=%s yield=%.1f", who, fault, plan, useGC, early, n, conc, between, extraRH, ending, yieldP)
	res := vlib.Result{Class: fmt.Sprintf("retry/%s/%s/%s", who, fault, ending), Spec: spec}
	w := newWorld(e, &res, spec, useGC)
	ctl := vlib.NewCtl(rnd.Uint64(), yieldP, 80)
	defer ctl.Uninstall()
	w.useStartSubs(&fp.fired, func(k int) int { return subFaults[k] })
	switch fault {
	case "subscriber-decorator":
		w.r.AddSubscriberDecorators(func(s message.Subscriber) (message.Subscriber, error) {
			if err := fp.decorate(); err != nil {
				return nil, err
			}
			return s, nil
		})
	case "publisher-decorator":
		w.r.AddPublisherDecorators(func(p message.Publisher) (message.Publisher, error) {
			if err := fp.decorate(); err != nil {
				return nil, err
			}
			return p, nil
		})
	}
	failedCalls, calls, stops := 0, 0, 0
	finish := func() vlib.Result {
		if !w.abandoned {
			w.teardown()
		}
		res.Events = w.events
		res.Hooks = ctl.Counts()
		res.Sig = vlib.Sig(spec, rep, res.Verdict, ctl.Fingerprint())
		res.Sample = map[string]any{"program": spec, "runhandlers_calls": calls, "refused": failedCalls}
		res.Count("retry_faults_fired", int(fp.fired.Load()))
		res.Count("retry_runhandlers_calls", calls)
		res.Count("retry_runhandlers_calls_refused", failedCalls)
		res.Count("retry_stops_after_the_retry", stops)
		res.Count("retry_startup_of_"+who, 1)
		res.Count("retry_fault_"+fault, 1)
		return res
	}
	runReturned := who == "run"
	what := fmt.Sprintf("a %s call failed inside %s and RunHandlers was called again", fault, map[string]string{"late": "a RunHandlers call for handlers added after Run", "run": "Run's own start-up"}[who])

	for k := 0; k < early; k++ {
		w.add(k, 0)
	}
	var group []*hrec
	if who == "late" {
		w.startRun()
		if !w.waitRunning("") {
			return finish()
		}
		for _, h := range w.hs {
			w.emitAndExpect(h, "at-running", "message-lost-after-running", "message emitted the instant Running() closed")
		}
		if !w.ok() {
			return finish()
		}
		for k := early; k < early+n; k++ {
			h, _ := w.add(k, 0)
			group = append(group, h)
		}
		fp.armed.Store(true)
	} else {
		for k := 0; k < n; k++ {
			h, _ := w.add(k, 0)
			group = append(group, h)
		}
		fp.armed.Store(true)
		w.startRun()
		// Run's own RunHandlers call meets the fault: Run gives up (what it returns is not a matter of this property)
		w.events++
		if oc, _ := vlib.WaitClosed(w.runDone, w.wo); oc != vlib.Done {
			res.Inconclusive("a start-up call failed inside Run and Run did not return: outside the programs this class judges (%s)", spec)
			return finish()
		}
		if w.runErr == nil || fp.fired.Load() == 0 {
			res.Inconclusive("Run returned %v with %d injected fault(s) fired: outside the programs this class judges (%s)", w.runErr, fp.fired.Load(), spec)
			return finish()
		}
		failedCalls++
		// the handlers Run had started before the fault go down with it (their context is Run's): let them, and see which are left
		for _, h := range group {
			if vlib.IsClosed(h.h.Started()) {
				h.ss.open()
			}
		}
		vlib.Settle(w.wo)
		for _, h := range group {
			if vlib.IsClosed(h.h.Started()) && h.h.Stopped() != nil && vlib.IsClosed(h.h.Stopped()) {
				h.stopped = true
				res.Count("retry_handlers_ended_with_the_failed_run", 1)
			}
		}
	}

	// RunHandlers until it succeeds
	allStarted := func() bool {
		for _, h := range group {
			if !vlib.IsClosed(h.h.Started()) {
				return false
			}
		}
		return true
	}
	betweenDone := false
	for attempt := 0; attempt < total+3 && w.ok(); attempt++ {
		before := fp.fired.Load()
		errs, ok := w.callRunHandlers(what, conc)
		if !ok {
			return finish()
		}
		calls += conc
		if len(errs) == 0 {
			if allStarted() || fp.fired.Load() >= int32(total) {
				break
			}
			continue // "however often it is called": a handler that is still not started gets another call
		}
		if d := int(fp.fired.Load() - before); len(errs) > d {
			res.Fail("runhandlers-error", "%s: %d RunHandlers call(s) returned an error (%v) although only %d start-up call(s) failed meanwhile: %s", what, len(errs), errs[0], d, spec)
			break
		}
		failedCalls += len(errs)
		if !w.stillOpen(runReturned, fmt.Sprintf("RunHandlers call #%d was refused (%v)", calls, errs[0])) {
			return finish()
		}
		if betweenDone {
			continue
		}
		betweenDone = true
		switch between {
		case "stop-one":
			// a handler that runs already is stopped while others wait for the retry
			if rs := w.running(); len(rs) >= 2 {
				v := rs[rnd.Intn(len(rs))]
				v.ss.open()
				st := w.stop(v, what+" (between the attempts)")
				w.waitStopped(v, st, what+" (between the attempts)")
				stops++
				if !w.stillOpen(runReturned, fmt.Sprintf("handler h%d was stopped between the RunHandlers attempts", v.k)) {
					return finish()
				}
				for _, h := range w.running() {
					if w.ok() {
						w.emitAndExpect(h, "between", "others-broken-after-stop", what+"; message for a handler that was not stopped")
					}
				}
			}
		case "second-run":
			w.events++
			redundantRunO(&res, w.r, "a Run call between the RunHandlers attempts", spec, w.wo)
		case "add-one-more":
			h, _ := w.add(early+n, 0)
			group = append(group, h)
		}
	}
	if !w.ok() {
		return finish()
	}
	res.NonTrivial = failedCalls > 0
	// as if the handlers had simply been started later
	for _, h := range group {
		if h.stopped {
			continue
		}
		if w.ok() && w.waitStarted(h, what+"; RunHandlers returned nil") {
			w.emitAndExpect(h, "retried", "late-handler-not-processing", what+"; message for a handler started by the repeated RunHandlers call")
		}
	}
	for c := 0; c < extraRH && w.ok(); c++ {
		calls++
		w.runHandlers(what + "; one more RunHandlers call with nothing left to start")
	}
	if !w.stillOpen(runReturned, "every handler was started by the repeated RunHandlers call") {
		return finish()
	}
	// Stop ends that handler only; the router stays open until the last one ends
	rs := w.running()
	nstop := 0
	if len(rs) >= 2 {
		nstop = rnd.Range(1, len(rs)-1)
	}
	for _, i := range rnd.Perm(len(rs))[:nstop] {
		v := rs[i]
		v.ss.open()
		st := w.stop(v, what)
		w.waitStopped(v, st, what)
		stops++
		if !w.stillOpen(runReturned, fmt.Sprintf("handler h%d (Subscribe calls refused before it started: %d) was stopped, others still run", v.k, v.faults)) {
			return finish()
		}
		for _, h := range w.running() {
			if w.ok() {
				w.emitAndExpect(h, fmt.Sprintf("after-stop%d", stops), "others-broken-after-stop", what+fmt.Sprintf("; handler h%d was stopped; message for a handler that was not stopped", v.k))
			}
		}
	}
	if !w.ok() {
		return finish()
	}
	// the end: from here on every handler may go
	for _, h := range w.hs {
		h.ss.open()
	}
	if len(w.running()) == 0 {
		ending = "none"
	}
	desc, closeDone := w.doEnding(ending, what)
	if runReturned {
		w.judgeClosedOnly(desc, closeDone)
	} else {
		w.judgeEnd(desc, closeDone)
	}
	// exactly one Subscribe that succeeded per started handler; no call beyond the refused ones and that one
	for _, h := range w.hs {
		w.events++
		started := vlib.IsClosed(h.h.Started())
		okN, callsN := int(h.ss.ok.Load()), int(h.ss.calls.Load())
		if (okN > 1 || (started && okN != 1) || callsN > h.faults+1) && !res.Failed() {
			res.Fail("subscribe-count", "handler %s (Started() closed: %v): %d Subscribe call(s), %d of them refused by the subscriber, %d succeeded; want exactly one that succeeded: %s", h.name, started, callsN, min(callsN, h.faults), okN, spec)
		}
	}
	return finish()
}

// ---------------------------------------------------------------------------------------------
// close-timeout class: the close of the router runs into CloseTimeout

type closeLog struct{ closeErrors *atomic.Int32 }

func (l closeLog) Error(msg string, err error, _ watermill.LogFields) {
	if msg == "Cannot close router" {
		l.closeErrors.Add(1)
	}
}
func (l closeLog) Info(string, watermill.LogFields)                 {}
func (l closeLog) Debug(string, watermill.LogFields)                {}
func (l closeLog) Trace(string, watermill.LogFields)                {}
func (l closeLog) With(watermill.LogFields) watermill.LoggerAdapter { return l }

var closetoHows = []string{"held/cancel-ctx", "held/stop-all", "held/close", "held/subs-closed", "held/close+cancel", "never-started/close", "start-failed/close", "never-started/cancel-ctx", "start-failed/cancel-ctx"}

// closetoPer is one full enumeration of the close-timeout class (scenario x release x subscriber kind).
const closetoPer = 9 * 2 * 2

func closetoN(tier string) int { return vlib.TierN(tier, 4*closetoPer, 60*closetoPer) }

// closeto: CloseTimeout is short (20..50 ms) and the close of the router - its own, after the last handler ended or the
// Run context was cancelled, or a Close call - finds something it has to wait for longer than that: a handler function
// that is still busy with a message (held at a gate by the harness, released afterwards), or a handler that was added
// to the running router and never started (no RunHandlers call, or one whose Subscribe was refused). What Close returns
// then is not a matter of this property; what it promises about the router closing and Run returning nil is.
func closeto(e *vlib.Env, j int) vlib.Result {
	rnd := e.R
	rep := j / closetoPer
	how := closetoHows[j%len(closetoHows)]
	j /= len(closetoHows)
	release := []string{"after-the-timeout", "racing"}[j%2]
	j /= 2
	useGC := j%2 == 1
	scenario, event, _ := strings.Cut(how, "/")
	ct := time.Duration(rnd.Range(20, 50)) * time.Millisecond
	nh := rnd.Range(1, 3)
	nheld, nlate := 0, 0
	lateStarted := false
	switch scenario {
	case "held":
		nheld = rnd.Range(1, nh)
		lateStarted = rnd.Chance(0.3)
	default:
		nlate = rnd.Range(1, 2)
		if rnd.Chance(0.3) {
			nheld = 1
		}
	}
	closers := rnd.Range(1, 2)
	raceUs := rnd.Intn(2 * int(ct/time.Microsecond))
	yieldP := []float64{0, 0.3}[rnd.Intn(2)]
	closeAgain := rnd.Bool()
	heldAt := []string{"handler-function", "publish"}[rnd.Intn(2)]
	stopBefore := 0 // never-started / start-failed: this many of the started handlers are stopped before the event (all: only the handler(s) never started are left)
	if scenario != "held" && rnd.Chance(0.5) {
		stopBefore = rnd.Range(1, nh)
	}
	spec := fmt.Sprintf("scenario=%s event=%s release=%s gochannel=%v closeTimeout=%v handlers=%d stoppedBeforeTheEvent=%d heldHandlerFunctions=%d heldIn=%s oneStartedByRunHandlers=%v addedAfterRunNeverStarted=%d closeCalls=%d closeAgainAfterwards=%v yield=%.1f",
		scenario, event, release, useGC, ct, nh, stopBefore, nheld, heldAt, lateStarted, nlate, closers, closeAgain, yieldP)
	res := vlib.Result{Class: fmt.Sprintf("closeto/%s/%s", how, release), Spec: spec}
	var closeErrors, fired atomic.Int32
	leaked, _ := vlib.CountGoroutines(func(g vlib.Goroutine) bool { return g.Has("pubsub/sync.WaitGroupTimeout$") })
	res.Count("closeto_close_timers_of_earlier_cases_at_start", leaked)
	w := newWorldCfg(e, &res, spec, useGC, ct, closeLog{&closeErrors}, wt)
	ctl := vlib.NewCtl(rnd.Uint64(), yieldP, 80)
	defer ctl.Uninstall()
	var gates []func()
	finish := func() vlib.Result {
		for _, g := range gates {
			g()
		}
		w.teardown()
		res.Events = w.events
		res.Hooks = ctl.Counts()
		res.Sig = vlib.Sig(spec, rep, res.Verdict, ctl.Fingerprint())
		res.Sample = map[string]any{"program": spec, "close_errors_logged_by_the_router": closeErrors.Load()}
		res.Count("closeto_"+scenario, 1)
		res.Count("closeto_event_"+event, 1)
		return res
	}
	what := fmt.Sprintf("CloseTimeout=%v", ct)

	n0 := nh
	if lateStarted {
		n0 = nh - 1
	}
	for k := 0; k < n0; k++ {
		w.add(k, 0)
	}
	w.startRun()
	if !w.waitRunning("") {
		return finish()
	}
	if lateStarted {
		w.add(nh-1, 0)
		if !w.runHandlers("a handler added after Run") {
			return finish()
		}
		w.waitStarted(w.hs[nh-1], "a handler added after Run, RunHandlers returned")
	}
	for _, h := range w.hs {
		if w.ok() {
			w.emitAndExpect(h, "first", "message-lost-after-running", "message emitted after Running() closed / Started() closed")
		}
	}
	if !w.ok() {
		return finish()
	}
	// handlers that are added to the running router and are not started when the close comes
	if scenario == "start-failed" {
		w.useStartSubs(&fired, func(int) int { return 1 })
	}
	for k := nh; k < nh+nlate; k++ {
		w.add(k, 0)
	}
	if scenario == "start-failed" {
		// the broker refuses the subscription; the caller gives up and closes the router
		errs, ok := w.callRunHandlers("RunHandlers for the handlers added after Run", 1)
		if !ok {
			return finish()
		}
		if len(errs) == 0 || fired.Load() == 0 {
			res.Verdict = vlib.Unreached
			res.Reason = fmt.Sprintf("RunHandlers returned %v with %d injected fault(s) fired: %s", errs, fired.Load(), spec)
			return finish()
		}
		for _, h := range w.hs[nh:] {
			h.ss.open()
		}
	}
	// some of the started handlers are stopped while the added ones wait: the router stays open for those
	for _, i := range rnd.Perm(nh)[:stopBefore] {
		if w.ok() {
			st := w.stop(w.hs[i], what)
			w.waitStopped(w.hs[i], st, what)
		}
	}
	if !w.ok() {
		return finish()
	}
	started := w.running()
	if nheld > len(started) {
		nheld = len(started)
	}
	// handler functions that are busy when the close comes
	for _, i := range rnd.Perm(len(started))[:nheld] {
		h := started[i]
		g := make(chan struct{})
		var once sync.Once
		if heldAt == "publish" {
			// the handler function has returned; the router publishes what it produced and the publisher does not come back
			h.pubGate.Store(&g)
			gates = append(gates, func() { once.Do(func() { h.pubGate.Store(nil); close(g) }) })
		} else {
			h.gate.Store(&g)
			gates = append(gates, func() { once.Do(func() { h.gate.Store(nil); close(g) }) })
		}
		if !w.emit(h, "held") {
			res.Verdict = vlib.Unreached
			res.Reason = "no subscription to emit the held message on: " + spec
			return finish()
		}
		// (the message that ends up held may be the previous one, if that was still on its way through the handler)
		if oc, _ := vlib.WaitUntil(func() bool { return h.heldNow.Load() >= 1 }, w.wo); oc != vlib.Done {
			res.Verdict = vlib.Unreached
			res.Reason = "the handler function was not entered: " + spec
			return finish()
		}
	}
	// the event
	var closeDone chan struct{}
	var closeErrs atomic.Int32
	doClose := func(calls int) chan struct{} {
		done := make(chan struct{})
		var cwg sync.WaitGroup
		for c := 0; c < calls; c++ {
			cwg.Add(1)
			go func() {
				defer cwg.Done()
				if w.r.Close() != nil {
					closeErrs.Add(1)
				}
			}()
		}
		go func() { cwg.Wait(); close(done) }()
		return done
	}
	w.events++
	switch event {
	case "cancel-ctx":
		w.cancel()
		what += "; the Run context was cancelled"
		if nlate > 0 {
			// "When ... the Run context is cancelled the router closes itself and Run returns nil" - also when a handler was
			// added to the running router and never started: the started ones end with the context, the router must not wait
			// for the one that never ran for longer than its CloseTimeout.
			w.runNeverClause = "cancel-not-honoured-with-unstarted-handler"
			res.Count("closeto_cancel_with_a_handler_never_started", 1)
		}
	case "stop-all":
		for _, i := range rnd.Perm(len(started)) {
			w.stop(started[i], what)
		}
		what += "; every handler was stopped (the last handler ended)"
	case "subs-closed":
		what, _ = w.doEnding("subs-closed", what)
	case "close":
		closeDone = doClose(closers)
		what += "; Close was called"
	case "close+cancel":
		w.cancel()
		closeDone = doClose(closers)
		what += "; the Run context was cancelled and Close was called"
	}
	if nheld > 0 {
		what += fmt.Sprintf(" while %d handler function(s) were busy with a message", nheld)
	}
	if nlate > 0 {
		what += fmt.Sprintf(" while %d handler(s) added after Run had not been started (%s)", nlate, scenario)
	}
	// the close meets its timeout (or, racing, maybe not); then the handler functions come back
	if release == "after-the-timeout" {
		vlib.Settle(wt) // not quiescent while a CloseTimeout timer is pending
		what += "; the busy handler function(s) returned after the close had run into CloseTimeout"
	} else {
		vlib.TimerWait(time.Duration(raceUs) * time.Microsecond)
		what += fmt.Sprintf("; the busy handler function(s) returned %d us later", raceUs)
	}
	for _, g := range gates {
		g()
	}
	w.judgeEnd(what, closeDone)
	timeouts := int(closeErrors.Load() + closeErrs.Load())
	res.Count("closeto_closes_that_ran_into_the_timeout", timeouts)
	res.NonTrivial = timeouts > 0
	if closeAgain && w.ok() {
		// Close on the closed router: nothing is left to wait for, except handlers that were never started
		w.events++
		again := doClose(1)
		if oc, d := vlib.WaitClosed(again, w.wo); oc == vlib.Stuck {
			res.Fail("never-returned", "%s; a further Close call never returned (quiescent): %s", what, spec)
			res.Witness = d
		}
		res.Count("closeto_close_called_again", 1)
	}
	return finish()
}
