package c06

// Life-cycle corners: Close does not arrive inside a message's path of a router that is up and running, but
//   - while Run (or an explicit RunHandlers for handlers added at run time) is still starting handlers,
//   - after a Run that failed half-way (one handler's Subscribe returned an error, others were started already),
//   - before Run, with Run called afterwards.
// The oracle is the same as everywhere in this package (judge): a Close call that returned nil promises that no handler
// invocation is in progress and none starts afterwards; every Close call returns. Nothing else is demanded in these
// corners: a Close that reports the time-out error (what the unchanged router does after a failed Run / before Run,
// because the never-started handlers are still counted) promises nothing about handlers.

import (
	"context"
	"errors"
	"fmt"
	"strings"
	"sync"
	"sync/atomic"
	"time"

	"github.com/ThreeDotsLabs/watermill"
	"github.com/ThreeDotsLabs/watermill/message"
	"github.com/ThreeDotsLabs/watermill/pubsub/gochannel"

	"verifharness/vlib"
)

var lcScenarios = []string{"startup-in-subscribe", "startup-at-started-hook", "runtime-added-handlers", "failed-run", "close-before-run", "startup-before-running"}

func lifecycleRound() int { return len(lcScenarios) * len(closerCounts) * 2 * 2 }

func lifecycleCells(tier string) int { return lifecycleRound() * vlib.TierN(tier, 1, 4) }

// hookSub wraps a subscriber: before runs inside Subscribe before the wrapped Subscribe (an error makes Subscribe fail),
// after runs inside Subscribe once the wrapped Subscribe succeeded. Close calls are counted.
type hookSub struct {
	inner      message.Subscriber
	before     func(topic string) error
	after      func(topic string)
	closeCalls atomic.Int32
}

func (h *hookSub) String() string { return "c06-hooksub" }

func (h *hookSub) Subscribe(ctx context.Context, topic string) (<-chan *message.Message, error) {
	if h.before != nil {
		if err := h.before(topic); err != nil {
			return nil, err
		}
	}
	ch, err := h.inner.Subscribe(ctx, topic)
	if err == nil && h.after != nil {
		h.after(topic)
	}
	return ch, err
}

func (h *hookSub) Close() error {
	h.closeCalls.Add(1)
	return h.inner.Close()
}

type lcHandler struct {
	name, topic string
	out         string
	sub         *hookSub
	ssub        *vlib.Sub // nil with GoChannel
	pub         *vlib.Pub
}

// lc is the world of one life-cycle case (one router).
type lc struct {
	id     string
	w      *world
	r      *message.Router
	useGC  bool
	ps     *gochannel.GoChannel
	gate   chan struct{}
	once   sync.Once
	emitWg sync.WaitGroup
	mu     sync.Mutex
	hs     []*lcHandler
	order  []*lcHandler // in the order their Subscribe succeeded (= the order in which the router started them)
	nsub   atomic.Int32 // Subscribe calls seen by before()
}

func newLC(id string, w *world, timeout time.Duration, useGC bool) (*lc, error) {
	r, err := message.NewRouter(message.RouterConfig{CloseTimeout: timeout}, watermill.NopLogger{})
	if err != nil {
		return nil, err
	}
	l := &lc{id: id, w: w, r: r, useGC: useGC, gate: make(chan struct{})}
	if useGC {
		l.ps = gochannel.NewGoChannel(gochannel.Config{}, watermill.NopLogger{})
	}
	return l, nil
}

func (l *lc) openGate() { l.once.Do(func() { close(l.gate) }) }

// mk builds the ends of handler number n without registering it. before/after may be nil; the order of successful
// Subscribe calls is always recorded.
func (l *lc) mk(n int, before func(h *lcHandler, call int) error, after func(h *lcHandler)) *lcHandler {
	h := &lcHandler{name: fmt.Sprintf("%s/h%d", l.id, n), topic: fmt.Sprintf("%s/in%d", l.id, n), out: fmt.Sprintf("%s/out%d", l.id, n), pub: &vlib.Pub{Name: fmt.Sprintf("%s-%d", l.id, n)}}
	var inner message.Subscriber
	if l.useGC {
		inner = l.ps
	} else {
		h.ssub = &vlib.Sub{Name: fmt.Sprintf("%s-%d", l.id, n)}
		inner = h.ssub
	}
	h.sub = &hookSub{inner: inner}
	h.sub.before = func(string) error {
		call := int(l.nsub.Add(1)) - 1
		if before != nil {
			return before(h, call)
		}
		return nil
	}
	h.sub.after = func(string) {
		l.mu.Lock()
		l.order = append(l.order, h)
		l.mu.Unlock()
		if after != nil {
			after(h)
		}
	}
	l.mu.Lock()
	l.hs = append(l.hs, h)
	l.mu.Unlock()
	return h
}

// add builds handler number n (mk) and registers it with the router.
func (l *lc) add(n int, before func(h *lcHandler, call int) error, after func(h *lcHandler)) *lcHandler {
	h := l.mk(n, before, after)
	l.r.AddHandler(h.name, h.topic, h.sub, h.out, h.pub, l.w.handler(l.gate, nil))
	return h
}

func (l *lc) started() []*lcHandler {
	l.mu.Lock()
	defer l.mu.Unlock()
	return append([]*lcHandler(nil), l.order...)
}

// emit lets the subscriber of h hand out one message (asynchronously, like a broker would).
func (l *lc) emit(h *lcHandler, uuid string) *tracked {
	orig := message.NewMessage(uuid, []byte("p"))
	if h.ssub != nil {
		sp := h.ssub.SubFor(h.topic)
		if sp == nil {
			t := l.w.track(uuid, nil)
			t.refused.Store(true)
			return t
		}
		c := orig.Copy()
		c.SetContext(sp.Ctx)
		t := l.w.track(uuid, c)
		l.emitWg.Add(1)
		go func() {
			defer l.emitWg.Done()
			if sp.Send(c) {
				t.delivered.Store(true)
			} else {
				t.refused.Store(true)
			}
		}()
		return t
	}
	t := l.w.track(uuid, nil)
	l.emitWg.Add(1)
	go func() {
		defer l.emitWg.Done()
		if err := l.ps.Publish(h.topic, orig); err != nil {
			t.refused.Store(true)
		}
	}()
	return t
}

func (l *lc) emitsDone() chan struct{} {
	ed := make(chan struct{})
	go func() { l.emitWg.Wait(); close(ed) }()
	return ed
}

func (l *lc) closers(n int) chan struct{} {
	var cwg sync.WaitGroup
	for k := 0; k < n; k++ {
		cwg.Add(1)
		go l.w.closer(l.r, &cwg)
	}
	done := make(chan struct{})
	go func() { cwg.Wait(); close(done) }()
	return done
}

func (l *lc) goRun(ctx context.Context) chan struct{} {
	runDone := make(chan struct{})
	w := l.w
	go func() {
		defer close(runDone)
		err := l.r.Run(ctx)
		w.runEnd.Store(vlib.Now())
		ip := w.sampleInProgress()
		w.mu.Lock()
		if err != nil {
			w.runErr = err.Error()
		}
		w.runInProgress = ip
		w.mu.Unlock()
	}()
	return runDone
}

// lateProbes: every subscription that was handed out gets one more message after everything returned. With a closed
// router the subscriptions have ended and the message is refused; if it is handled although a Close call had returned nil,
// judge reports handler-started-after-close.
func (l *lc) lateProbes(res *vlib.Result, wo vlib.WaitOpts) {
	var ts []*tracked
	for i, h := range l.started() {
		ts = append(ts, l.emit(h, fmt.Sprintf("%s/late%d", l.id, i)))
	}
	vlib.WaitClosed(l.emitsDone(), wo)
	vlib.Settle(wo)
	for _, t := range ts {
		if t.entered.Load() != 0 {
			res.Count("late_probe_handled", 1)
		} else {
			res.Count("late_probe_not_handled", 1)
		}
	}
}

func (l *lc) teardown(wo vlib.WaitOpts) {
	l.openGate()
	l.mu.Lock()
	hs := append([]*lcHandler(nil), l.hs...)
	l.mu.Unlock()
	for _, h := range hs {
		if h.ssub != nil {
			h.ssub.Close()
		}
	}
	if l.ps != nil {
		l.ps.Close()
	}
	vlib.WaitClosed(l.emitsDone(), wo)
}

// closedEnds: Close() must have been called on the subscriber and the publisher of every handler the router had started.
func (l *lc) closedEnds(res *vlib.Result, spec string) {
	for _, h := range l.started() {
		if h.sub.closeCalls.Load() == 0 {
			res.Fail("subscriber-not-closed", "Router.Close returned nil but Close() was never called on the subscriber of started handler %s: %s", h.name, spec)
		}
		if h.pub.CloseCalls.Load() == 0 {
			res.Fail("publisher-not-closed", "Router.Close returned nil but Close() was never called on the publisher of started handler %s: %s", h.name, spec)
		}
	}
}

// shortWO: wait options for the 30ms-CloseTimeout scenarios. Timer-aware (the CloseTimeout must be able to fire), but the
// helper goroutine that WaitGroupTimeout leaves behind after a time-out is not timer-driven: it sits in WaitGroup.Wait
// (for ever, when a never-started handler is still counted) and can only be woken by another goroutine.
// Those left-behind goroutines stay in the process; the cases that follow in a shard (further life-cycle cells, the random
// part) either use shortWO or take WaitGroupTimeout out of the timer check, the forced cells run before.
func shortWO() vlib.WaitOpts {
	return vlib.WaitOpts{Watchdog: vlib.WD.Watchdog, IgnoreFrames: []string{wgtFrame + ".func1"}}
}

func waitReturn(res *vlib.Result, name string, ch chan struct{}, wo vlib.WaitOpts, spec string) bool {
	o, d := vlib.WaitClosed(ch, wo)
	switch o {
	case vlib.Stuck:
		res.Fail(strings.ToLower(name)+"-never-returned", "%s never returned (process quiescent) in cell: %s", name, spec)
		if res.Witness == nil {
			res.Witness = vlib.Trunc(d, 60000)
		}
	case vlib.Inconclusive:
		res.Inconclusive("%s neither returned nor quiescent", name)
	}
	return o == vlib.Done
}

func lifecycle(e *vlib.Env, li int) vlib.Result {
	i := li
	scen := lcScenarios[i%len(lcScenarios)]
	i /= len(lcScenarios)
	nclosers := closerCounts[i%len(closerCounts)]
	i /= len(closerCounts)
	variant := i % 2
	i /= 2
	useGC := i%2 == 1
	switch scen {
	case "failed-run":
		return lcFailedRun(e, nclosers, variant, useGC)
	case "close-before-run":
		return lcCloseBeforeRun(e, nclosers, variant, useGC)
	}
	// rounds after the first one (thorough tier) also let Close arrive at the last handler of the start-up loop
	return lcStartup(e, scen, nclosers, variant == 1, useGC, li >= lifecycleRound())
}

func subKindName(useGC bool) string {
	if useGC {
		return "gochannel-shared"
	}
	return "scripted"
}

// lcStartup: Close arrives while RunHandlers (called by Run, or explicitly for handlers added to a running router) holds
// the start-up loop at its k-th handler, with at least one more handler still to be started (first round; later rounds
// sometimes take the last handler).
func lcStartup(e *vlib.Env, scen string, nclosers int, busy bool, useGC bool, lastToo bool) vlib.Result {
	r := e.R
	id := e.ID()
	runtimeAdded := scen == "runtime-added-handlers"
	lo := 0
	if busy && !runtimeAdded {
		lo = 1 // an already started handler is needed to be busy
	}
	nh := r.Range(lo+2, 4)
	k := r.Range(lo, nh-2)
	if lastToo && r.Chance(0.25) {
		k = nh - 1 // no further handler to start: Close arrives right at the end of the start-up
	}
	inSubscribe := scen == "startup-in-subscribe" || (runtimeAdded && r.Bool())
	// every handler is started and consuming, but Run has not closed Running() yet (hook between RunHandlers and close(r.running))
	beforeRunning := scen == "startup-before-running"
	if beforeRunning {
		k = nh - 1
	}
	spec := fmt.Sprintf("lifecycle=%s closers=%d sub=%s handlers=%d closeArrivesAtHandlerNo=%d park=%s startedHandlerBusy=%v closeTimeout=1h", scen, nclosers, subKindName(useGC), nh, k,
		map[bool]string{true: "inside Subscribe", false: map[bool]string{true: "router.run.before_running", false: "router.runhandlers.started"}[beforeRunning]}[inSubscribe], busy)
	res := vlib.Result{Class: "lifecycle/" + scen + "/" + subKindName(useGC), Spec: spec}
	wo := vlib.WaitOpts{Watchdog: vlib.WD.Watchdog, NoTimerCheck: []string{wgtFrame}}
	w := &world{msgs: map[string]*tracked{}}
	l, err := newLC(id, w, time.Hour, useGC)
	if err != nil {
		res.Verdict, res.Reason = vlib.HarnessError, err.Error()
		return res
	}
	ctl := vlib.NewCtl(r.Uint64(), 0, 0)
	defer ctl.Uninstall()
	defer l.openGate()

	var base *lcHandler
	var runDone chan struct{}
	if runtimeAdded {
		base = l.add(100, nil, nil)
		runDone = l.goRun(context.Background())
		if oc, d := vlib.WaitClosed(l.r.Running(), wo); oc != vlib.Done {
			res.Inconclusive("router did not start: %v", oc)
			res.Witness = vlib.Trunc(d, 60000)
			return res
		}
		l.nsub.Store(0)
	}
	subArrived, subRelease := make(chan struct{}), make(chan struct{})
	var relOnce sync.Once
	release := func() { relOnce.Do(func() { close(subRelease) }) }
	defer release()
	var before func(h *lcHandler, call int) error
	var park *vlib.Park
	if inSubscribe {
		before = func(h *lcHandler, call int) error {
			if call == k {
				close(subArrived)
				<-subRelease
			}
			return nil
		}
	}
	for n := 0; n < nh; n++ {
		l.add(n, before, nil)
	}
	if beforeRunning {
		park = ctl.ParkAt("router.run.before_running", func(a, b string) bool { return true }, 0)
	} else if !inSubscribe {
		park = ctl.ParkAt("router.runhandlers.started", func(a, b string) bool { return strings.HasPrefix(a, id+"/h") && a != id+"/h100" }, k)
	}
	startDone := make(chan struct{})
	if runtimeAdded {
		go func() { defer close(startDone); l.r.RunHandlers(context.Background()) }()
	} else {
		runDone = l.goRun(context.Background())
		startDone = runDone
	}
	arrived := func() bool {
		if park != nil {
			return park.HasArrived()
		}
		return vlib.IsClosed(subArrived)
	}
	oc, _ := vlib.WaitUntil(func() bool { return arrived() || vlib.IsClosed(startDone) }, wo)
	reached := arrived()
	if !reached && oc == vlib.Inconclusive {
		res.Inconclusive("start-up neither reached the park point nor quiescent")
	}
	// an already started handler is inside an invocation when Close arrives
	var t1 *tracked
	if busy && reached {
		target := base
		if target == nil {
			if st := l.started(); len(st) > 0 {
				target = st[0]
			}
		}
		if target != nil {
			t1 = l.emit(target, id+"/m1")
			vlib.WaitUntil(func() bool { return t1.entered.Load() != 0 }, wo)
		}
	}
	// Close arrives during the start-up
	closersDone := l.closers(nclosers)
	vlib.WaitClosed(closersDone, wo) // returned, or blocked behind the start-up
	closeBehindStartup := reached && !vlib.IsClosed(closersDone)
	release()
	if park != nil {
		park.Release()
	}
	vlib.WaitUntil(func() bool { return vlib.IsClosed(closersDone) && vlib.IsClosed(runDone) }, wo)
	heldAtGate := t1 != nil && t1.entered.Load() != 0 && t1.exited.Load() == 0
	l.openGate()
	waitReturn(&res, "Close", closersDone, wo, spec)
	waitReturn(&res, "Run", runDone, wo, spec)
	vlib.WaitClosed(startDone, wo)
	if o, d := vlib.Settle(wo); o == vlib.Inconclusive {
		res.Inconclusive("not quiescent at the end")
		res.Witness = vlib.Trunc(d, 60000)
	}
	nStarted := len(l.started())
	if !res.Failed() && res.Verdict == "" {
		// repeated Close on the closed router: has to return as well
		waitReturn(&res, "Close", l.closers(1), wo, spec)
	}
	if !res.Failed() && res.Verdict == "" {
		l.lateProbes(&res, wo)
	}
	judge(w, &res, spec, true)
	if !res.Failed() && res.Verdict == "" {
		l.closedEnds(&res, spec)
	}
	l.teardown(wo)

	res.Hooks = ctl.Counts()
	res.NonTrivial = reached && (closeBehindStartup || beforeRunning)
	res.Sig = vlib.Sig(spec, nStarted, heldAtGate, ctl.Fingerprint())
	res.Count("lifecycle_reached", b2i(reached))
	res.Count("close_blocked_behind_startup", b2i(closeBehindStartup))
	res.Count("handlers_started_in_all", nStarted)
	res.Count("handler_held_while_close_pending", b2i(heldAtGate))
	if !reached && res.Verdict == "" {
		res.Verdict = vlib.Unreached
		res.Reason = "start-up park point not reached: " + spec
	}
	res.Sample = map[string]any{"cell": spec, "reached": reached, "close_blocked_behind_startup": closeBehindStartup, "handlers_started": nStarted, "held_at_gate_during_close": heldAtGate, "closes": closeSummary(w)}
	return res
}

var errScriptedSubscribe = errors.New("c06: scripted Subscribe failure")

// lcFailedRun: one handler's Subscribe fails when other handlers are already started and one of them has a message in
// (variant 0) or right in front of (variant 1) its handler function; Run returns the error; the application cleans up with Close.
func lcFailedRun(e *vlib.Env, nclosers, variant int, useGC bool) vlib.Result {
	r := e.R
	nGood := r.Range(1, 3)
	point := []string{"in-handler", "router.handle.start"}[variant]
	spec := fmt.Sprintf("lifecycle=failed-run closers=%d sub=%s goodHandlers=%d messageAt=%s closeTimeout=30ms", nclosers, subKindName(useGC), nGood, point)
	res := vlib.Result{Class: "lifecycle/failed-run/" + subKindName(useGC), Spec: spec}
	wo := shortWO()
	ctl := vlib.NewCtl(r.Uint64(), 0, 0)
	defer ctl.Uninstall()
	const maxAttempts = 10
	attempts := 0
	productive := false
	var w *world
	var heldAtClose bool
	for attempts < maxAttempts && !productive && res.Verdict == "" {
		id := fmt.Sprintf("%s/a%d", e.ID(), attempts)
		attempts++
		w = &world{msgs: map[string]*tracked{}, lenientRun: true}
		l, err := newLC(id, w, 30*time.Millisecond, useGC)
		if err != nil {
			res.Verdict, res.Reason = vlib.HarnessError, err.Error()
			return res
		}
		for n := 0; n < nGood; n++ {
			l.add(n, nil, nil)
		}
		badArrived, badRelease := make(chan struct{}), make(chan struct{})
		var relOnce sync.Once
		release := func() { relOnce.Do(func() { close(badRelease) }) }
		l.add(99, func(h *lcHandler, call int) error {
			close(badArrived)
			<-badRelease
			return errScriptedSubscribe
		}, nil)
		runDone := l.goRun(context.Background())
		vlib.WaitUntil(func() bool { return vlib.IsClosed(badArrived) || vlib.IsClosed(runDone) }, wo)
		st := l.started()
		if !vlib.IsClosed(badArrived) || len(st) == 0 {
			// the failing handler came first in the router's map iteration: nothing was started, try again
			release()
			vlib.WaitClosed(runDone, wo)
			l.teardown(wo)
			continue
		}
		productive = true
		m1 := id + "/m1"
		var park *vlib.Park
		if point != "in-handler" {
			park = ctl.ParkAt(point, func(a, b string) bool { return b == m1 }, 0)
		}
		t1 := l.emit(st[0], m1)
		arrived := func() bool {
			if park != nil {
				return park.HasArrived()
			}
			return t1.entered.Load() != 0
		}
		vlib.WaitUntil(arrived, wo)
		reached := arrived()
		release() // Subscribe fails now, Run returns the error
		if o, d := vlib.WaitClosed(runDone, wo); o != vlib.Done {
			res.Inconclusive("Run did not return after a Subscribe error: %v", o)
			res.Witness = vlib.Trunc(d, 60000)
		}
		// the clean-up: Close, while the invocation is still parked / held at the gate
		closersDone := l.closers(nclosers)
		waitReturn(&res, "Close", closersDone, wo, spec) // CloseTimeout is 30ms: every call has to return on its own
		heldAtClose = reached && t1.exited.Load() == 0
		if park != nil {
			park.Release()
		}
		l.openGate()
		if o, d := vlib.Settle(wo); o == vlib.Inconclusive {
			res.Inconclusive("not quiescent at the end")
			res.Witness = vlib.Trunc(d, 60000)
		}
		if !res.Failed() && res.Verdict == "" {
			waitReturn(&res, "Close", l.closers(1), wo, spec) // repeated Close
		}
		if !res.Failed() && res.Verdict == "" {
			l.lateProbes(&res, wo)
		}
		judge(w, &res, spec, false)
		l.teardown(wo)
		res.NonTrivial = reached
		res.Count("lifecycle_reached", b2i(reached))
		res.Count("invocation_pending_when_close_called", b2i(heldAtClose))
		res.Count("message_handled", b2i(t1.entered.Load() != 0))
		res.Sample = map[string]any{"cell": spec, "attempts": attempts, "reached": reached, "invocation_pending_when_close_called": heldAtClose, "closes": closeSummary(w)}
	}
	res.Hooks = ctl.Counts()
	res.Count("failed_run_setup_attempts", attempts)
	res.Sig = vlib.Sig(spec, productive, heldAtClose, closeShape(w))
	if !productive && res.Verdict == "" {
		res.Verdict = vlib.Unreached
		res.Reason = fmt.Sprintf("the failing handler was visited first by the start-up in all %d attempts: %s", attempts, spec)
	}
	return res
}

// closeShape: how many Close calls returned nil / an error.
func closeShape(w *world) string {
	if w == nil {
		return ""
	}
	w.mu.Lock()
	defer w.mu.Unlock()
	n, e := 0, 0
	for _, c := range w.closes {
		if c.err == "" {
			n++
		} else {
			e++
		}
	}
	return fmt.Sprintf("nil=%d err=%d", n, e)
}

// lcCloseBeforeRun: Close is called before Run (e.g. a shutdown signal during start-up), Run is called nevertheless.
// variant 0: Run is parked in its start-up loop after the second handler was marked started and the handleClose goroutines are
// parked, so a message is forced into the first started handler. variant 1: no parks, every subscriber emits a message
// right after Subscribe, the schedule is only perturbed.
func lcCloseBeforeRun(e *vlib.Env, nclosers, variant int, useGC bool) vlib.Result {
	r := e.R
	id := e.ID()
	forcedDelivery := variant == 0
	nh := r.Range(2, 4)
	spec := fmt.Sprintf("lifecycle=close-before-run closers=%d sub=%s handlers=%d delivery=%s closeTimeout=30ms", nclosers, subKindName(useGC), nh,
		map[bool]string{true: "forced(Run parked in start-up, handleClose parked)", false: "natural(message emitted right after Subscribe, perturbed schedule)"}[forcedDelivery])
	res := vlib.Result{Class: "lifecycle/close-before-run/" + subKindName(useGC), Spec: spec}
	wo := shortWO()
	w := &world{msgs: map[string]*tracked{}, lenientRun: true}
	l, err := newLC(id, w, 30*time.Millisecond, useGC)
	if err != nil {
		res.Verdict, res.Reason = vlib.HarnessError, err.Error()
		return res
	}
	yield := 0.0
	if !forcedDelivery {
		yield = 0.5
	}
	ctl := vlib.NewCtl(r.Uint64(), yield, 100)
	ctl.Filter(func(point, a, b string) bool {
		return strings.HasPrefix(a, id+"/") || strings.HasPrefix(b, id+"/") || (a == "" && b == "")
	})
	defer ctl.Uninstall()
	defer l.openGate()
	var after func(h *lcHandler)
	if !forcedDelivery {
		l.openGate()
		var n atomic.Int32
		after = func(h *lcHandler) { l.emit(h, fmt.Sprintf("%s/pre%d", id, n.Add(1))) }
	}
	var hcParks []*vlib.Park
	for n := 0; n < nh; n++ {
		h := l.add(n, nil, after)
		if forcedDelivery {
			name := h.name
			hcParks = append(hcParks, ctl.ParkAt("router.handleclose.enter", func(a, b string) bool { return a == name }, 0))
		}
	}
	// Close before Run
	closersDone := l.closers(nclosers)
	waitReturn(&res, "Close", closersDone, wo, spec)
	var startPark *vlib.Park
	if forcedDelivery {
		startPark = ctl.ParkAt("router.runhandlers.started", func(a, b string) bool { return strings.HasPrefix(a, id+"/h") }, 1)
	}
	runDone := l.goRun(context.Background())
	reached := true
	var t1 *tracked
	if forcedDelivery {
		vlib.WaitUntil(func() bool { return startPark.HasArrived() || vlib.IsClosed(runDone) }, wo)
		reached = startPark.HasArrived()
		if st := l.started(); reached && len(st) > 0 {
			t1 = l.emit(st[0], id+"/m1")
			vlib.WaitUntil(func() bool { return t1.entered.Load() != 0 || t1.refused.Load() }, wo) // or quiescent: dropped on its way
		}
		startPark.Release()
		for _, p := range hcParks {
			p.Release()
		}
	}
	// nothing is demanded of Run after Close; it is only waited for
	if o, d := vlib.WaitClosed(runDone, wo); o != vlib.Done {
		res.Inconclusive("Run after Close did not return: %v", o)
		res.Witness = vlib.Trunc(d, 60000)
	}
	l.openGate()
	if o, d := vlib.Settle(wo); o == vlib.Inconclusive {
		res.Inconclusive("not quiescent at the end")
		res.Witness = vlib.Trunc(d, 60000)
	}
	if !res.Failed() && res.Verdict == "" {
		waitReturn(&res, "Close", l.closers(1), wo, spec) // repeated Close, after Run
	}
	if !res.Failed() && res.Verdict == "" {
		l.lateProbes(&res, wo)
	}
	judge(w, &res, spec, false)
	l.teardown(wo)
	handled := 0
	w.mu.Lock()
	for _, t := range w.order {
		if t.entered.Load() != 0 {
			handled++
		}
	}
	w.mu.Unlock()
	nStarted := len(l.started())
	res.Hooks = ctl.Counts()
	res.NonTrivial = reached && nStarted > 0
	res.Sig = vlib.Sig(spec, nStarted, handled, closeShape(w), ctl.Fingerprint())
	res.Count("lifecycle_reached", b2i(reached))
	res.Count("handlers_started_by_run_after_close", nStarted)
	res.Count("messages_handled_after_close_before_run", handled)
	if !reached && res.Verdict == "" {
		res.Verdict = vlib.Unreached
		res.Reason = "Run after Close did not reach the start-up park point: " + spec
	}
	res.Sample = map[string]any{"cell": spec, "reached": reached, "handlers_started": nStarted, "messages_handled": handled, "closes": closeSummary(w)}
	return res
}

// ---------------------------------------------------------------------------------------------
// Refused API calls: a call that fails as documented must leave the close protocol untouched.
//
//   - AddHandler / AddNoPublisherHandler under a name that is taken: "DuplicateHandlerNameError is sent in a panic when you
//     try to add a second handler with the same name" (the caller recovers it),
//   - a second Run: returns the error "router is already running",
//   - RunHandlers before Run: returns the error "you can't call RunHandlers on non-running router".
//
// The refused call is made before Run, while Run's start-up loop is parked (AddHandler then waits behind the start-up and is
// refused afterwards), on the running idle router, or right before Close with a handler inside an invocation; then 1/2/8
// Close callers follow. The oracle is the one of the whole package (every Close call and Run return, nil only when nothing
// runs or starts later, subscribers and publishers closed): the statement has to hold as if the refused call had not been
// made. A call that was accepted instead of refused makes the case 'unreached' (nothing is demanded of the refusal itself).

var refusedCombos = []struct{ call, phase string }{
	{"dup-AddHandler", "before-run"}, {"dup-AddNoPublisherHandler", "before-run"}, {"RunHandlers-before-Run", "before-run"},
	{"dup-AddHandler", "never-run"}, {"dup-AddNoPublisherHandler", "never-run"}, {"RunHandlers-before-Run", "never-run"},
	{"dup-AddHandler", "startup"}, {"dup-AddNoPublisherHandler", "startup"}, {"second-Run", "startup"},
	{"dup-AddHandler", "running"}, {"dup-AddNoPublisherHandler", "running"}, {"second-Run", "running"},
	{"dup-AddHandler", "before-close"}, {"dup-AddNoPublisherHandler", "before-close"}, {"second-Run", "before-close"},
}

func refusedRound() int { return len(refusedCombos) * len(closerCounts) * 2 }

func refusedCells(tier string) int { return refusedRound() * vlib.TierN(tier, 1, 3) }

// refusal is the record of one call that is expected to be refused. The fields are written by the calling goroutine before
// its done channel is closed and read only after that.
type refusal struct {
	call    string
	refused bool // failed the documented way
	outcome string
}

// refusedCall makes one call in its own goroutine (a harness wait is never unconditional: the call may block, legitimately
// behind the start-up loop, or for ever on a broken router).
func (l *lc) refusedCall(call, taken string, j int) (*refusal, chan struct{}) {
	rf := &refusal{call: call}
	done := make(chan struct{})
	var h *lcHandler
	if strings.HasPrefix(call, "dup-") {
		// own ends: should the router start this handler after all, it is in l.started() and gets a late probe like the others
		h = l.mk(200+j, nil, nil)
		h.name = taken + "(refused duplicate)"
	}
	fn := l.w.handler(l.gate, nil)
	go func() {
		defer close(done)
		switch call {
		case "dup-AddHandler", "dup-AddNoPublisherHandler":
			func() {
				defer func() {
					v := recover()
					if d, ok := v.(message.DuplicateHandlerNameError); ok && d.HandlerName == taken {
						rf.refused = true
					}
					if v == nil {
						rf.outcome = "returned normally"
					} else {
						rf.outcome = fmt.Sprintf("panic(%T: %v)", v, v)
					}
				}()
				if call == "dup-AddHandler" {
					l.r.AddHandler(taken, h.topic, h.sub, h.out, h.pub, fn)
				} else {
					l.r.AddNoPublisherHandler(taken, h.topic, h.sub, func(m *message.Message) error { _, err := fn(m); return err })
				}
			}()
		case "second-Run":
			err := l.r.Run(context.Background())
			rf.refused = err != nil
			rf.outcome = fmt.Sprintf("returned %v", err)
		case "RunHandlers-before-Run":
			err := l.r.RunHandlers(context.Background())
			rf.refused = err != nil
			rf.outcome = fmt.Sprintf("returned %v", err)
		}
	}()
	return rf, done
}

type refusedCalls struct {
	rfs   []*refusal
	dones []chan struct{}
}

// tally: refused = returned the documented way, accepted = returned otherwise, pending = not returned.
func (c *refusedCalls) tally() (refused, accepted, pending int, outcomes []string) {
	for i, rf := range c.rfs {
		if !vlib.IsClosed(c.dones[i]) {
			pending++
			outcomes = append(outcomes, rf.call+": not returned")
			continue
		}
		if rf.refused {
			refused++
		} else {
			accepted++
		}
		outcomes = append(outcomes, rf.call+": "+rf.outcome)
	}
	return
}

func lcRefused(e *vlib.Env, ri int) vlib.Result {
	i := ri
	combo := refusedCombos[i%len(refusedCombos)]
	i /= len(refusedCombos)
	nclosers := closerCounts[i%len(closerCounts)]
	i /= len(closerCounts)
	useGC := i%2 == 1
	round := ri / refusedRound()
	call, phase := combo.call, combo.phase

	r := e.R
	id := e.ID()
	nh := r.Range(1, 3)
	ncalls := 1
	if round > 0 {
		ncalls = r.Range(1, 2)
	}
	neverRun := phase == "never-run"
	busy := phase == "before-close" || (!neverRun && r.Bool())
	k := r.Intn(nh)
	inSubscribe := r.Bool()
	where := ""
	if phase == "startup" {
		where = fmt.Sprintf(" startUpParkedAtHandlerNo=%d park=%s", k, map[bool]string{true: "inside Subscribe", false: "router.runhandlers.started"}[inSubscribe])
	}
	timeout, tname := time.Hour, "1h"
	wo := vlib.WaitOpts{Watchdog: vlib.WD.Watchdog, NoTimerCheck: []string{wgtFrame}}
	if neverRun {
		// the registered handlers are never started: the unchanged router reports the time-out, every call has to return
		timeout, tname = 30*time.Millisecond, "30ms"
		wo = shortWO()
	}
	spec := fmt.Sprintf("lifecycle=refused-call call=%s x%d phase=%s%s closers=%d sub=%s handlers=%d handlerBusyAtClose=%v closeTimeout=%s", call, ncalls, phase, where, nclosers, subKindName(useGC), nh, busy, tname)
	res := vlib.Result{Class: "refused-call/" + phase + "/" + call, Spec: spec}
	w := &world{msgs: map[string]*tracked{}, lenientRun: neverRun}
	l, err := newLC(id, w, timeout, useGC)
	if err != nil {
		res.Verdict, res.Reason = vlib.HarnessError, err.Error()
		return res
	}
	ctl := vlib.NewCtl(r.Uint64(), 0, 0)
	defer ctl.Uninstall()
	defer l.openGate()

	subArrived, subRelease := make(chan struct{}), make(chan struct{})
	var relOnce sync.Once
	release := func() { relOnce.Do(func() { close(subRelease) }) }
	defer release()
	var before func(h *lcHandler, call int) error
	var park *vlib.Park
	if phase == "startup" {
		if inSubscribe {
			before = func(h *lcHandler, call int) error {
				if call == k {
					close(subArrived)
					<-subRelease
				}
				return nil
			}
		} else {
			park = ctl.ParkAt("router.runhandlers.started", func(a, b string) bool { return strings.HasPrefix(a, id+"/h") }, k)
		}
	}
	var names []string
	for n := 0; n < nh; n++ {
		names = append(names, l.add(n, before, nil).name)
	}
	calls := &refusedCalls{}
	makeCalls := func() {
		for j := 0; j < ncalls; j++ {
			rf, d := l.refusedCall(call, names[r.Intn(len(names))], j)
			calls.rfs, calls.dones = append(calls.rfs, rf), append(calls.dones, d)
			vlib.WaitClosed(d, wo) // returned, or blocked (behind the start-up / for ever)
		}
	}
	finish := func(reached bool, blockedBehindStartup bool, t1 *tracked, closeCalled bool) vlib.Result {
		refused, accepted, pending, outcomes := calls.tally()
		nStarted := len(l.started())
		res.Hooks = ctl.Counts()
		res.NonTrivial = reached && refused > 0 && accepted == 0 && closeCalled
		heldAtGate := t1 != nil && t1.entered.Load() != 0
		res.Sig = vlib.Sig(spec, nStarted, refused, accepted, pending, blockedBehindStartup, heldAtGate, closeShape(w), ctl.Fingerprint())
		res.Count("lifecycle_reached", b2i(reached))
		res.Count("refused_calls_refused_as_documented", refused)
		res.Count("refused_calls_accepted", accepted)
		res.Count("refused_calls_not_returned", pending)
		res.Count("refused_call_waited_behind_startup", b2i(blockedBehindStartup))
		res.Count("handlers_started_in_all", nStarted)
		res.Sample = map[string]any{"cell": spec, "reached": reached, "refused_calls": outcomes, "waited_behind_startup": blockedBehindStartup, "handlers_started": nStarted, "closes": closeSummary(w)}
		if res.Verdict == "" && accepted > 0 {
			res.Verdict = vlib.Unreached
			res.Reason = fmt.Sprintf("the call was not refused the documented way (%v): %s", outcomes, spec)
		} else if res.Verdict == "" && !reached {
			res.Verdict = vlib.Unreached
			res.Reason = "start-up park point not reached: " + spec
		}
		return res
	}
	accepted := func() bool { _, a, _, _ := calls.tally(); return a > 0 }

	if neverRun {
		makeCalls()
		if accepted() {
			l.teardown(wo)
			return finish(true, false, nil, false)
		}
		waitReturn(&res, "Close", l.closers(nclosers), wo, spec) // CloseTimeout is 30ms: every call has to return on its own
		if o, d := vlib.Settle(wo); o == vlib.Inconclusive {
			res.Inconclusive("not quiescent at the end")
			res.Witness = vlib.Trunc(d, 60000)
		}
		if !res.Failed() && res.Verdict == "" {
			waitReturn(&res, "Close", l.closers(1), wo, spec) // repeated Close
		}
		judge(w, &res, spec, false)
		l.teardown(wo)
		return finish(true, false, nil, true)
	}

	if phase == "before-run" {
		makeCalls()
	}
	runDone := l.goRun(context.Background())
	reached, blockedBehindStartup := true, false
	if phase == "startup" {
		arrived := func() bool {
			if park != nil {
				return park.HasArrived()
			}
			return vlib.IsClosed(subArrived)
		}
		oc, _ := vlib.WaitUntil(func() bool { return arrived() || vlib.IsClosed(runDone) }, wo)
		reached = arrived()
		if !reached && oc == vlib.Inconclusive {
			res.Inconclusive("start-up neither reached the park point nor quiescent")
		}
		if reached {
			makeCalls()
			_, _, pending, _ := calls.tally()
			blockedBehindStartup = pending > 0
		}
		release()
		if park != nil {
			park.Release()
		}
		for _, d := range calls.dones {
			vlib.WaitClosed(d, wo)
		}
	}
	// on the unchanged router Run is up now; if it is not, the Close calls below still have to return
	running, _ := vlib.WaitClosed(l.r.Running(), wo)
	if phase == "running" {
		makeCalls()
	}
	var t1 *tracked
	emit := func() {
		if st := l.started(); len(st) > 0 {
			t1 = l.emit(st[r.Intn(len(st))], id+"/m1")
			vlib.WaitUntil(func() bool { return t1.entered.Load() != 0 }, wo)
		}
	}
	if phase == "before-close" {
		emit()
		makeCalls()
	} else if busy && running == vlib.Done {
		emit()
	}
	if accepted() {
		// an accepted extra handler is never started: a Close with CloseTimeout 1h would legitimately wait for it
		l.teardown(wo)
		return finish(reached, blockedBehindStartup, t1, false)
	}
	closersDone := l.closers(nclosers)
	vlib.WaitClosed(closersDone, wo) // returned, or waiting for the handler held at the gate
	heldAtGate := t1 != nil && t1.entered.Load() != 0 && t1.exited.Load() == 0
	closeWaited := heldAtGate && !vlib.IsClosed(closersDone)
	l.openGate()
	waitReturn(&res, "Close", closersDone, wo, spec)
	waitReturn(&res, "Run", runDone, wo, spec)
	if o, d := vlib.Settle(wo); o == vlib.Inconclusive {
		res.Inconclusive("not quiescent at the end")
		res.Witness = vlib.Trunc(d, 60000)
	}
	if !res.Failed() && res.Verdict == "" {
		waitReturn(&res, "Close", l.closers(1), wo, spec) // repeated Close on the closed router
	}
	if !res.Failed() && res.Verdict == "" {
		l.lateProbes(&res, wo)
	}
	judge(w, &res, spec, true)
	if !res.Failed() && res.Verdict == "" {
		l.closedEnds(&res, spec)
	}
	l.teardown(wo)
	res.Count("handler_held_while_close_pending", b2i(heldAtGate))
	res.Count("close_waited_for_held_handler", b2i(closeWaited))
	return finish(reached, blockedBehindStartup, t1, true)
}
