// Package c06: Router.Close is graceful — returns nil only when no handler runs or can start.
package c06

import (
	"context"
	"fmt"
	"runtime"
	"strings"
	"sync"
	"sync/atomic"
	"time"

	"github.com/ThreeDotsLabs/watermill"
	"github.com/ThreeDotsLabs/watermill/message"
	"github.com/ThreeDotsLabs/watermill/pubsub/gochannel"

	"verifharness/vlib"
)

var points = []string{"decorator.sub.before_out", "router.run.received", "router.handle.start", "in-handler", "router.handle.before_publish", "router.handle.before_settle"}
var closerCounts = []int{1, 2, 8}
var subKinds = []string{"scripted", "scripted-emit-on-close", "scripted-ignore-ctx", "scripted-drains-on-close", "gochannel-buf0", "gochannel-buf4"}

const wgtFrame = "pubsub/sync.WaitGroupTimeout"

func forcedCells() int { return len(points) * len(closerCounts) * len(subKinds) * 2 * 2 }

func init() {
	vlib.Register(&vlib.Prop{
		ID:    "C06",
		Level: "fault_enumeration",
		Cases: func(tier string) int {
			return forcedCells() + lifecycleCells(tier) + refusedCells(tier) + randomCells(tier) + elapsedCells() + dynCells(tier)
		},
		Rule: "forced part (all 432 cells in both tiers): a message is parked at one of 6 points of its path {inside the subscriber decorator, received but not dispatched, dispatched but not started, inside the handler (gate), before publishing, before settlement} " +
			"x {1,2,8} concurrent Close callers x subscriber {scripted, scripted that emits one more message from its Close(), scripted that ignores the context, scripted whose Close() waits until every delivered message is settled (like a broker client draining in-flight messages), GoChannel buffer 0, GoChannel buffer 4} x CloseTimeout {1 h, 30 ms with the handler held longer} " +
			"x {handleClose goroutine parked until Close signalled and Run cancelled the context, not parked}; Close is called while the message is parked, then the park is released, the handler is held at a gate until every Close call returned or the process is quiescent, then the gate opens. " +
			"life-cycle part (72 cells per round, 1 round quick / 4 rounds thorough with other handler counts and park positions): Close arrives at a corner of the router's life cycle instead of inside a message's path: " +
			"{while Run's start-up is inside the Subscribe call of the k-th of 2..4 handlers (at least one more handler still to be started; in later rounds sometimes the last one), while it is parked right after the k-th handler was marked started, while an explicit RunHandlers call starts handlers added to a running router (parked the same two ways), " +
			"after a Run that failed half-way because one handler's Subscribe returned an error when other handlers were already started, before Run (Run is called afterwards)} x {1,2,8} concurrent Close callers x {scripted subscribers, one shared GoChannel} x a scenario variant: " +
			"start-up scenarios {an already started handler is inside an invocation (held at a gate) when Close arrives, idle}; failed Run {message inside the handler, message dispatched but parked before the handler function}; " +
			"Close before Run {Run parked in its start-up and the handleClose goroutines parked so that a message is forced into an already started handler, no parks: every subscriber emits one message right after Subscribe and the schedule is only perturbed}, " +
			"Run parked between RunHandlers returning and Running() closing (all handlers consuming, router 'not running' yet) {a handler held inside an invocation, idle}. " +
			"CloseTimeout is 1 h in the start-up scenarios (Close has to succeed) and 30 ms after a failed Run / before Run (there the unchanged router reports a time-out, which the oracle accepts: it only forbids nil while an invocation is in progress or before a later start). " +
			"After everything returned, one more Close call is made (repeated Close) and every handler's subscription gets one late message: it must not be handled if any Close call had returned nil. " +
			"refused-call part (90 cells per round, 1 round quick / 3 rounds thorough; later rounds make the call once or twice): an API call that fails as documented is made on the router and recovered/ignored by the caller, then Close follows; the statement has to hold as if the call had not been made: " +
			"{AddHandler under a taken name (panics with DuplicateHandlerNameError, recovered), AddNoPublisherHandler under a taken name (same), a second Run (error), RunHandlers before Run (error)} x " +
			"{before Run (Run, then Close), on a router that is never run (CloseTimeout 30 ms: every Close call has to return, the unchanged router reports the time-out), while Run's start-up is parked inside a Subscribe call or right after a handler was marked started (AddHandler waits behind the start-up and is refused afterwards), " +
			"on the running idle router, right before Close with a handler inside an invocation (held at a gate)} (15 combinations that exist) x {1,2,8} concurrent Close callers x {scripted subscribers, one shared GoChannel}; 1..3 handlers, the duplicated name and the busy/idle state at Close are drawn per case; " +
			"then the repeated Close and the late messages as above (a handler the router started for a refused registration gets one too). A call that is accepted instead of refused makes the case 'unreached'. " +
			"random part: routers of 1..3 handlers, 1..10 messages, handlers of random duration, Close (1..3 callers) or Run-context cancel at a random moment, scripted or GoChannel subscribers. " +
			"elapsed-timeout part (60 cells in both tiers, behind the random part): CloseTimeout {-1h, -1s, -1ns, 1ns, 1ms} (a negative value is accepted by RouterConfig.Validate and not replaced by setDefaults: the time-out has elapsed before Close is called) x {1,2,8} concurrent Close callers x {scripted subscribers, one shared GoChannel} x " +
			"{an invocation held inside the handler function, an invocation parked before settlement} on a router of 1..3 handlers; Close is called while the invocation is held: every call has to return on its own (the invocation outlives CloseTimeout) and none may return nil while it is in progress; then the invocation is let go, Close is repeated and every subscription gets a late message. " +
			"dynamic-handlers part (36 cells per round, 2 rounds quick / 8 rounds thorough): the set of handlers changes at run time: next to one long-lived handler, 3..8 bursts of 2..6 handlers are added to the running router (AddHandler + RunHandlers with a context of their own), half of them get a message, and all handlers of a burst end together " +
			"{Handler.Stop on each, their subscriptions closed by the subscriber (scripted: Close() of each subscriber; GoChannel: Close() of the burst's own GoChannel), the context of their RunHandlers call cancelled} while 1..3 goroutines call Handler.AddMiddleware (bounded number of calls) on the long-lived and on the coming and going handlers, " +
			"the long-lived handler carrying {0,50,400,1500} handler-level middlewares from before Run; x {1,2,8} concurrent Close callers x {scripted subscribers, GoChannel} x {the AddMiddleware goroutines have finished before Close, they keep calling while Close runs}; the long-lived handler is held inside an invocation at Close in about half of the cases; " +
			"then the repeated Close and a late message for the long-lived handler. If the churn itself gets stuck (a handler that was told to end never reports Stopped()), the Close calls are made nevertheless and have to return. " +
			"Oracle: each Close caller samples, right after Close returned nil, every emitted message: a message whose handler was entered must have left the handler and be settled; no handler entry stamp may be later than a nil-returning Close's return stamp; " +
			"never-handled messages are never acked; every Close call and Run return (quiescence detector); with a handler held beyond CloseTimeout every call returns and none returns nil while it runs; Run does not return while a handler runs unless Close timed out; each handler's subscriber and publisher saw Close(). " +
			"Non-trivial: the park point was reached and Close overlapped the parked message (forced) / Close overlapped at least one message in the pipeline (random). Distinct = (cell, outcome shape, hook fingerprint).",
		Assumptions: []string{
			"'in progress' is observed as: handler function entered and (not yet left, or the consumed message not yet settled) at the sampling instant taken by the Close caller after Close returned",
			"for GoChannel subscribers the consumed copy is visible only once the handler saw it; 'never handled => never acked' is checked for scripted subscribers only",
			"30 ms CloseTimeout cases are judged only by what they must not do (return nil while a handler runs; hang): no upper bound on the measured duration",
			"refused calls: what 'fails as documented' means is taken from the godoc (DuplicateHandlerNameError: 'is sent in a panic when you try to add a second handler with the same name') and from the errors Run ('router is already running') and RunHandlers ('you can't call RunHandlers on non-running router') return; the refusal itself is a precondition of the case, not a demand of the oracle; a refused call that has not returned when Close is called (AddHandler waiting for the router's lock) does not excuse a Close call that never returns",
			"life-cycle corners: after a failed Run and for Close before Run nothing is demanded of Run's own result, and Close() on the subscribers/publishers is demanded only where Close found a router whose start-up succeeded (a Close that reports the time-out error promises nothing about handlers); which handler a failing start-up reaches first is decided by Go's map iteration, so the failed-Run set-up is repeated (at most 10 times) until a handler was started before the failing one",
			"elapsed-timeout part: a negative CloseTimeout is a legal configuration (Validate accepts it, setDefaults replaces only 0) whose time-out has elapsed when Close is called; 'a Close call never returned' is concluded there only when the process is quiescent apart from the Close calls for the whole of a span in which five harness timers, armed later and due later than the CloseTimeout timer, have fired (bracketing by timers of the same runtime; anything else is inconclusive)",
			"dynamic-handlers part: subscribers and publishers of handlers that ended before Close are not the router's any more, Close() is demanded on the ends of the long-lived handler only; Router.AddMiddleware (router level, documented for set-up time) is not called at run time, only Handler.AddMiddleware; nothing is demanded about whether a middleware added at run time takes effect",
		},
		Run: run,
	})
}

func run(e *vlib.Env) vlib.Result {
	if e.Idx < forcedCells() {
		return forced(e)
	}
	if e.Idx < forcedCells()+lifecycleCells(e.Tier) {
		return lifecycle(e, e.Idx-forcedCells())
	}
	if e.Idx < forcedCells()+lifecycleCells(e.Tier)+refusedCells(e.Tier) {
		return lcRefused(e, e.Idx-forcedCells()-lifecycleCells(e.Tier))
	}
	base := forcedCells() + lifecycleCells(e.Tier) + refusedCells(e.Tier)
	if e.Idx < base+randomCells(e.Tier) {
		return random(e)
	}
	base += randomCells(e.Tier)
	if e.Idx < base+elapsedCells() {
		return elapsedTimeout(e, e.Idx-base)
	}
	return dynamicHandlers(e, e.Idx-base-elapsedCells())
}

func randomCells(tier string) int { return vlib.TierN(tier, 480, 120000) }

type tracked struct {
	uuid    string
	emitted *message.Message // the copy handed to the router (scripted subscribers)
	seen    atomic.Pointer[message.Message]
	entered atomic.Uint64
	exited  atomic.Uint64
	entries atomic.Int32
	// delivered is set when the scripted subscriber handed the message to its consumer (the router side)
	delivered atomic.Bool
	// refused is set when the subscriber side could not hand the message out (subscription ended / pub-sub closed)
	refused atomic.Bool
}

type closeRec struct {
	start, end uint64
	err        string
	// sample taken right after the call returned
	inProgress []string
}

type world struct {
	mu     sync.Mutex
	msgs   map[string]*tracked
	order  []*tracked
	closes []closeRec
	runEnd atomic.Uint64
	runErr string
	// sample at Run's return
	runInProgress []string
	// lenientRun: life-cycle corners in which the statement says nothing about Run's result (failed Run, Run after Close)
	lenientRun bool
}

func (w *world) track(uuid string, emitted *message.Message) *tracked {
	w.mu.Lock()
	defer w.mu.Unlock()
	t := &tracked{uuid: uuid, emitted: emitted}
	w.msgs[uuid] = t
	w.order = append(w.order, t)
	return t
}

func (w *world) get(uuid string) *tracked {
	w.mu.Lock()
	defer w.mu.Unlock()
	return w.msgs[uuid]
}

// sampleInProgress lists messages whose handler invocation is in progress right now.
func (w *world) sampleInProgress() []string {
	w.mu.Lock()
	ts := append([]*tracked(nil), w.order...)
	w.mu.Unlock()
	var out []string
	for _, t := range ts {
		if t.entered.Load() == 0 {
			continue
		}
		m := t.seen.Load()
		st := ""
		if m != nil {
			st = vlib.Settled(m)
		}
		if t.exited.Load() == 0 {
			out = append(out, fmt.Sprintf("%s: handler entered (stamp %d), not left", t.uuid, t.entered.Load()))
		} else if st == "" {
			out = append(out, fmt.Sprintf("%s: handler left (stamp %d) but the message is not settled yet", t.uuid, t.exited.Load()))
		}
	}
	return out
}

func (w *world) closer(r *message.Router, wg *sync.WaitGroup) {
	defer wg.Done()
	rec := closeRec{start: vlib.Now()}
	err := r.Close()
	rec.end = vlib.Now()
	if err != nil {
		rec.err = err.Error()
	} else {
		rec.inProgress = w.sampleInProgress()
	}
	w.mu.Lock()
	w.closes = append(w.closes, rec)
	w.mu.Unlock()
}

// slowLogger is a LoggerAdapter whose Error takes a little while (as a real log sink may): it widens the window between a
// handler panic and the router's Nack.
type slowLogger struct{}

func (slowLogger) Error(msg string, err error, fields watermill.LogFields) {
	vlib.TimerWait(2 * time.Millisecond)
}
func (slowLogger) Info(msg string, fields watermill.LogFields)               {}
func (slowLogger) Debug(msg string, fields watermill.LogFields)              {}
func (slowLogger) Trace(msg string, fields watermill.LogFields)              {}
func (l slowLogger) With(fields watermill.LogFields) watermill.LoggerAdapter { return l }

func (w *world) handler(gate <-chan struct{}, work func()) message.HandlerFunc {
	return w.handlerP(gate, work, false)
}

// handlerP: with panics=true the handler function panics (after the gate) instead of returning.
func (w *world) handlerP(gate <-chan struct{}, work func(), panics bool) message.HandlerFunc {
	return func(msg *message.Message) ([]*message.Message, error) {
		t := w.get(msg.UUID)
		if t == nil {
			return nil, nil
		}
		t.seen.Store(msg)
		t.entries.Add(1)
		t.entered.CompareAndSwap(0, vlib.Now())
		if gate != nil {
			<-gate
		}
		if work != nil {
			work()
		}
		t.exited.Store(vlib.Now())
		if panics {
			panic("c06: scripted handler panic")
		}
		return []*message.Message{message.NewMessage(msg.UUID+"/out", nil)}, nil
	}
}

func forced(e *vlib.Env) vlib.Result {
	i := e.Idx
	point := points[i%len(points)]
	i /= len(points)
	nclosers := closerCounts[i%len(closerCounts)]
	i /= len(closerCounts)
	subKind := subKinds[i%len(subKinds)]
	i /= len(subKinds)
	shortTimeout := i%2 == 1
	i /= 2
	parkHandleClose := i%2 == 1
	spec := fmt.Sprintf("park=%s closers=%d sub=%s closeTimeout=%s handleCloseParked=%v", point, nclosers, subKind, map[bool]string{false: "1h", true: "30ms(handler held longer)"}[shortTimeout], parkHandleClose)
	res := vlib.Result{Class: "forced/" + point + "/" + subKind, Spec: spec}
	timeout := time.Hour
	if shortTimeout {
		timeout = 30 * time.Millisecond
	}
	wo := vlib.WaitOpts{Watchdog: vlib.WD.Watchdog}
	if !shortTimeout {
		wo.NoTimerCheck = []string{wgtFrame}
	}

	w := &world{msgs: map[string]*tracked{}}
	// in a third of the cells the handler function panics when it is let go, and the router logs to a slow sink
	panics := (e.Idx/7)%3 == 1 && point != "router.handle.before_publish" && point != "router.handle.before_settle"
	var logger watermill.LoggerAdapter = watermill.NopLogger{}
	if panics {
		logger = slowLogger{}
		spec += " handlerPanics=true(slow log sink)"
		res.Spec = spec
	}
	r, err := message.NewRouter(message.RouterConfig{CloseTimeout: timeout}, logger)
	if err != nil {
		res.Verdict = vlib.HarnessError
		res.Reason = err.Error()
		return res
	}
	ctl := vlib.NewCtl(e.R.Uint64(), 0, 0)
	defer ctl.Uninstall()
	id := e.ID()
	hname := id + "/h"
	topic := id + "/in"
	gate := make(chan struct{})
	var gateOnce sync.Once
	openGate := func() { gateOnce.Do(func() { close(gate) }) }
	defer openGate()

	var ssub *vlib.Sub
	var ps *gochannel.GoChannel
	var sub message.Subscriber
	switch {
	case strings.HasPrefix(subKind, "scripted"):
		ssub = &vlib.Sub{Name: id, IgnoreCtx: subKind == "scripted-ignore-ctx" || subKind == "scripted-drains-on-close"}
		sub = ssub
	default:
		ps = gochannel.NewGoChannel(gochannel.Config{OutputChannelBuffer: map[string]int64{"gochannel-buf0": 0, "gochannel-buf4": 4}[subKind]}, watermill.NopLogger{})
		sub = ps
	}
	pub := &vlib.Pub{Name: id}
	r.AddHandler(hname, topic, sub, id+"/out", pub, w.handlerP(gate, nil, panics))
	// a second, idle handler with its own ends: its subscriber and publisher must be closed too
	idleSub, idlePub := &vlib.Sub{Name: id + "-idle"}, &vlib.Pub{Name: id + "-idle"}
	r.AddHandler(id+"/idle", id+"/idle-in", idleSub, id+"/idle-out", idlePub, w.handler(nil, nil))

	var hcPark *vlib.Park
	if parkHandleClose {
		hcPark = ctl.ParkAt("router.handleclose.enter", func(a, b string) bool { return a == hname }, 0)
	}
	runDone := make(chan struct{})
	go func() {
		defer close(runDone)
		err := r.Run(context.Background())
		w.runEnd.Store(vlib.Now())
		if err != nil {
			w.runErr = err.Error()
		}
		ip := w.sampleInProgress()
		w.mu.Lock()
		w.runInProgress = ip
		w.mu.Unlock()
	}()
	if oc, d := vlib.WaitClosed(r.Running(), wo); oc != vlib.Done {
		res.Inconclusive("router did not start: %v", oc)
		res.Witness = d
		return res
	}

	m1 := id + "/m1"
	var park *vlib.Park
	if point != "in-handler" {
		park = ctl.ParkAt(point, func(a, b string) bool { return b == m1 }, 0)
	}
	var emitWg sync.WaitGroup
	emit := func(uuid string) {
		orig := message.NewMessage(uuid, []byte("p"))
		if ssub != nil {
			sp := ssub.SubFor(topic)
			c := orig.Copy()
			c.SetContext(sp.Ctx)
			w.track(uuid, c)
			emitWg.Add(1)
			t := w.get(uuid)
			go func() {
				defer emitWg.Done()
				if sp.Send(c) {
					t.delivered.Store(true)
				}
			}()
		} else {
			w.track(uuid, nil)
			emitWg.Add(1)
			go func() { defer emitWg.Done(); ps.Publish(topic, orig) }()
		}
	}
	if subKind == "scripted-drains-on-close" {
		// like a broker client: Close() first waits until every message it delivered has been acked or nacked
		ssub.OnClose = func(s *vlib.Sub) {
			w.mu.Lock()
			ts := append([]*tracked(nil), w.order...)
			w.mu.Unlock()
			for _, t := range ts {
				if t.emitted == nil {
					continue
				}
				// a Send still in flight either completes (delivered) or is dropped when the subscription ends below
				if t.delivered.Load() {
					select {
					case <-t.emitted.Acked():
					case <-t.emitted.Nacked():
					}
				}
			}
		}
	}
	if subKind == "scripted-emit-on-close" {
		var once sync.Once
		ssub.OnClose = func(s *vlib.Sub) { once.Do(func() { emit(id + "/m2-from-close") }) }
	}
	if point == "router.handle.before_publish" || point == "router.handle.before_settle" {
		openGate() // these points lie behind the handler function: let it through, the park holds the invocation
	}
	emit(m1)
	t1 := w.get(m1)
	arrived := func() bool {
		if park != nil {
			return park.HasArrived()
		}
		return t1.entered.Load() != 0
	}
	oc, _ := vlib.WaitUntil(arrived, wo)
	reached := arrived()
	if !reached && oc == vlib.Inconclusive {
		res.Inconclusive("message neither reached the park point nor quiescent")
	}

	// Close arrives while the message is parked
	var cwg sync.WaitGroup
	for k := 0; k < nclosers; k++ {
		cwg.Add(1)
		go w.closer(r, &cwg)
	}
	closersDone := make(chan struct{})
	go func() { cwg.Wait(); close(closersDone) }()
	vlib.WaitClosed(closersDone, wo) // returned, or blocked behind the parked message / the handler
	if hcPark != nil {
		hcPark.Release()
		vlib.WaitClosed(closersDone, wo)
	}
	if park != nil {
		park.Release()
	}
	// the message (if it is still delivered) now runs into the gate; wait until nothing moves any more
	oc2, _ := vlib.WaitUntil(func() bool { return vlib.IsClosed(closersDone) && vlib.IsClosed(runDone) }, wo)
	heldAtGate := t1.entered.Load() != 0 && t1.exited.Load() == 0
	if shortTimeout && heldAtGate {
		// handler outlives CloseTimeout: every Close call must return on its own (timer-bounded; watchdog => inconclusive)
		if o, d := vlib.WaitClosed(closersDone, vlib.WaitOpts{Watchdog: vlib.WD.Watchdog}); o != vlib.Done {
			if o == vlib.Stuck {
				res.Fail("close-hangs-beyond-timeout", "a handler runs longer than CloseTimeout (30ms) and a Close call never returned (process quiescent): %s", spec)
				res.Witness = d
			} else {
				res.Inconclusive("Close calls did not return before the watchdog with a 30ms CloseTimeout")
			}
		}
	}
	_ = oc2
	openGate()
	for name, ch := range map[string]chan struct{}{"Close": closersDone, "Run": runDone} {
		if o, d := vlib.WaitClosed(ch, wo); o == vlib.Stuck {
			res.Fail(strings.ToLower(name)+"-never-returned", "%s never returned (process quiescent) in cell: %s", name, spec)
			res.Witness = d
		} else if o == vlib.Inconclusive {
			res.Inconclusive("%s neither returned nor quiescent", name)
		}
	}
	if o, _ := vlib.Settle(wo); o == vlib.Inconclusive {
		res.Inconclusive("not quiescent at the end")
	}
	judge(w, &res, spec, !shortTimeout)
	if !res.Failed() && res.Verdict == "" {
		if ssub != nil && ssub.CloseCalls.Load() == 0 {
			res.Fail("subscriber-not-closed", "Router.Close returned but Close() was never called on the handler's subscriber: %s", spec)
		}
		if idleSub.CloseCalls.Load() == 0 {
			res.Fail("subscriber-not-closed", "Router.Close returned but Close() was never called on the idle handler's subscriber: %s", spec)
		}
		if ps != nil {
			if err := ps.Publish(topic, message.NewMessage("late", nil)); err == nil {
				res.Fail("subscriber-not-closed", "Router.Close returned but the GoChannel used as the handler's subscriber still accepts Publish (was not closed): %s", spec)
			}
		}
		if pub.CloseCalls.Load() == 0 || idlePub.CloseCalls.Load() == 0 {
			res.Fail("publisher-not-closed", "Router.Close returned but Close() was never called on a handler's publisher (h=%d idle=%d): %s", pub.CloseCalls.Load(), idlePub.CloseCalls.Load(), spec)
		}
	}
	// teardown, whatever happened
	if ssub != nil {
		ssub.Close()
	} else {
		ps.Close()
	}
	idleSub.Close()
	ed := make(chan struct{})
	go func() { emitWg.Wait(); close(ed) }()
	vlib.WaitClosed(ed, wo)

	res.Hooks = ctl.Counts()
	res.NonTrivial = reached
	handled := t1.entered.Load() != 0
	res.Sig = vlib.Sig(spec, handled, heldAtGate, ctl.Fingerprint())
	res.Count("forced_reached", b2i(reached))
	res.Count("message_handled_after_release", b2i(handled))
	res.Count("message_dropped_in_pipeline", b2i(!handled))
	res.Count("handler_held_while_close_pending", b2i(heldAtGate))
	if !reached && res.Verdict == "" {
		res.Verdict = vlib.Unreached
		res.Reason = "park point not reached: " + spec
	}
	res.Sample = map[string]any{"cell": spec, "reached": reached, "handled": handled, "held_at_gate_during_close": heldAtGate, "closes": closeSummary(w)}
	return res
}

func closeSummary(w *world) []string {
	w.mu.Lock()
	defer w.mu.Unlock()
	var out []string
	for _, c := range w.closes {
		out = append(out, fmt.Sprintf("Close[%d,%d] err=%q inProgressAtReturn=%v", c.start, c.end, c.err, c.inProgress))
	}
	out = append(out, fmt.Sprintf("Run returned at %d err=%q inProgressAtReturn=%v", w.runEnd.Load(), w.runErr, w.runInProgress))
	return out
}

func b2i(b bool) int {
	if b {
		return 1
	}
	return 0
}

// judge applies the oracle to what was recorded. longTimeout = CloseTimeout cannot have fired.
func judge(w *world, res *vlib.Result, spec string, longTimeout bool) {
	w.mu.Lock()
	closes := append([]closeRec(nil), w.closes...)
	ts := append([]*tracked(nil), w.order...)
	runIP := append([]string(nil), w.runInProgress...)
	w.mu.Unlock()
	res.Events += 2*len(closes) + 1
	anyTimeout := false
	var firstNil uint64
	for _, c := range closes {
		if c.err != "" {
			anyTimeout = true
			if longTimeout {
				res.Fail("close-error", "Close returned %q although CloseTimeout is 1h: %s", c.err, spec)
			}
			continue
		}
		if firstNil == 0 || c.end < firstNil {
			firstNil = c.end
		}
		if len(c.inProgress) > 0 {
			res.Fail("close-nil-while-handler-running", "Close returned nil (call [%d,%d]) while a handler invocation was in progress: %v; cell: %s", c.start, c.end, c.inProgress, spec)
		}
	}
	if w.runErr != "" && !w.lenientRun {
		res.Fail("run-error", "Run returned %q: %s", w.runErr, spec)
	}
	if len(runIP) > 0 && !anyTimeout && !w.lenientRun {
		res.Fail("run-returned-while-handler-running", "Run returned (stamp %d) while a handler invocation was in progress although no Close timed out: %v; cell: %s", w.runEnd.Load(), runIP, spec)
	}
	for _, t := range ts {
		res.Events += 2
		en := t.entered.Load()
		if en != 0 && firstNil != 0 && en > firstNil {
			res.Fail("handler-started-after-close", "handler for %s started (stamp %d) after a Close call had returned nil (stamp %d): %s", t.uuid, en, firstNil, spec)
		}
		if t.entries.Load() > 1 {
			res.Fail("handled-twice", "%s was passed to the handler %d times", t.uuid, t.entries.Load())
		}
		if en == 0 && t.emitted != nil && vlib.Settled(t.emitted) == "ack" {
			res.Fail("acked-without-handling", "%s was never handled but its message was acked: %s", t.uuid, spec)
		}
		if en != 0 && len(closes) > 0 && !anyTimeout {
			if m := t.seen.Load(); m != nil && vlib.Settled(m) == "" {
				res.Fail("handled-not-settled", "%s was handled but is still unsettled at quiescence after Close: %s", t.uuid, spec)
			}
		}
	}
}

// ---------------------------------------------------------------------------------------------

func random(e *vlib.Env) vlib.Result {
	r := e.R
	id := e.ID()
	nh := r.Range(1, 3)
	useGC := r.Chance(0.4)
	viaCtx := r.Chance(0.3)
	nclosers := r.Range(1, 3)
	nmsgs := r.Range(1, 10)
	yieldP := []float64{0, 0.3, 0.6}[r.Intn(3)]
	spec := fmt.Sprintf("handlers=%d gochannel=%v closeViaRunCtx=%v closers=%d msgs=%d yield=%.1f", nh, useGC, viaCtx, nclosers, nmsgs, yieldP)
	res := vlib.Result{Class: fmt.Sprintf("random/gochannel=%v/viaCtx=%v", useGC, viaCtx), Spec: spec}
	wo := vlib.WaitOpts{Watchdog: vlib.WD.Watchdog, NoTimerCheck: []string{wgtFrame}}
	w := &world{msgs: map[string]*tracked{}}
	rt, _ := message.NewRouter(message.RouterConfig{CloseTimeout: time.Hour}, watermill.NopLogger{})
	ctl := vlib.NewCtl(r.Uint64(), yieldP, 100)
	defer ctl.Uninstall()
	var ps *gochannel.GoChannel
	if useGC {
		ps = gochannel.NewGoChannel(gochannel.Config{OutputChannelBuffer: int64(r.Intn(3))}, watermill.NopLogger{})
	}
	var subs []*vlib.Sub
	var pubs []*vlib.Pub
	for h := 0; h < nh; h++ {
		dur := r.Intn(30)
		rr := r.Fork()
		work := func() {
			for k := 0; k < dur; k++ {
				runtime.Gosched()
			}
			_ = rr
		}
		pub := &vlib.Pub{Name: fmt.Sprintf("%s-%d", id, h)}
		pubs = append(pubs, pub)
		var sub message.Subscriber
		if useGC {
			sub = ps
		} else {
			s := &vlib.Sub{Name: fmt.Sprintf("%s-%d", id, h), IgnoreCtx: !viaCtx && r.Chance(0.3)} // ignoring the context breaks the Subscriber contract, which the Run-context path relies on
			subs = append(subs, s)
			sub = s
		}
		rt.AddHandler(fmt.Sprintf("%s/h%d", id, h), fmt.Sprintf("%s/in%d", id, h), sub, fmt.Sprintf("%s/out%d", id, h), pub, w.handler(nil, work))
	}
	ctx, cancelRun := context.WithCancel(context.Background())
	defer cancelRun()
	runDone := make(chan struct{})
	go func() {
		defer close(runDone)
		err := rt.Run(ctx)
		w.runEnd.Store(vlib.Now())
		if err != nil {
			w.runErr = err.Error()
		}
		ip := w.sampleInProgress()
		w.mu.Lock()
		w.runInProgress = ip
		w.mu.Unlock()
	}()
	if oc, d := vlib.WaitClosed(rt.Running(), wo); oc != vlib.Done {
		res.Inconclusive("router did not start")
		res.Witness = d
		return res
	}
	var emitWg sync.WaitGroup
	for n := 0; n < nmsgs; n++ {
		h := r.Intn(nh)
		uuid := fmt.Sprintf("%s/m%d", id, n)
		topic := fmt.Sprintf("%s/in%d", id, h)
		orig := message.NewMessage(uuid, []byte("p"))
		emitWg.Add(1)
		if useGC {
			w.track(uuid, nil)
			go func() { defer emitWg.Done(); ps.Publish(topic, orig) }()
		} else {
			sp := subs[h].SubFor(topic)
			c := orig.Copy()
			c.SetContext(sp.Ctx)
			w.track(uuid, c)
			go func() { defer emitWg.Done(); sp.Send(c) }()
		}
	}
	for k := r.Intn(60); k > 0; k-- {
		runtime.Gosched()
	}
	var cwg sync.WaitGroup
	closeStart := vlib.Now()
	if viaCtx {
		cancelRun()
	} else {
		for k := 0; k < nclosers; k++ {
			cwg.Add(1)
			go w.closer(rt, &cwg)
		}
	}
	closersDone := make(chan struct{})
	go func() { cwg.Wait(); close(closersDone) }()
	for name, ch := range map[string]chan struct{}{"Close": closersDone, "Run": runDone} {
		if o, d := vlib.WaitClosed(ch, wo); o == vlib.Stuck {
			res.Fail(strings.ToLower(name)+"-never-returned", "%s never returned (process quiescent): %s", name, spec)
			res.Witness = d
		} else if o == vlib.Inconclusive {
			res.Inconclusive("%s neither returned nor quiescent", name)
		}
	}
	if viaCtx && !res.Failed() {
		// the router closed itself; an explicit Close afterwards must return nil and find nothing running
		cwg.Add(1)
		done := make(chan struct{})
		go func() { w.closer(rt, &cwg); close(done) }()
		if o, d := vlib.WaitClosed(done, wo); o == vlib.Stuck {
			res.Fail("close-never-returned", "Close after a Run-context cancel never returned: %s", spec)
			res.Witness = d
		}
	}
	vlib.Settle(wo)
	judge(w, &res, spec, true)
	if !res.Failed() && res.Verdict == "" {
		// closing through the Run context ends the subscriptions by their context before Close runs (the handlers are
		// gone by then); Close() on the subscribers is demanded only for an explicit Close of a running router
		for i, s := range subs {
			if s.CloseCalls.Load() == 0 && !viaCtx {
				res.Fail("subscriber-not-closed", "router closed but Close() was never called on the subscriber of handler %d: %s", i, spec)
			}
		}
		for i, p := range pubs {
			if p.CloseCalls.Load() == 0 {
				res.Fail("publisher-not-closed", "router closed but Close() was never called on the publisher of handler %d: %s", i, spec)
			}
		}
	}
	for _, s := range subs {
		s.Close()
	}
	if ps != nil {
		ps.Close()
	}
	ed := make(chan struct{})
	go func() { emitWg.Wait(); close(ed) }()
	vlib.WaitClosed(ed, wo)
	overl := 0
	w.mu.Lock()
	for _, t := range w.order {
		if en := t.entered.Load(); en == 0 || t.exited.Load() > closeStart {
			overl++
		}
	}
	w.mu.Unlock()
	res.Hooks = ctl.Counts()
	res.Count("messages_in_pipeline_at_close", overl)
	res.NonTrivial = overl > 0
	res.Sig = vlib.Sig(spec, overl, ctl.Fingerprint())
	res.Sample = map[string]any{"spec": spec, "messages_in_pipeline_at_close": overl, "closes": closeSummary(w)}
	return res
}
