package c06

// Two more parts, appended behind the random part (the earlier case indices keep their meaning):
//
// elapsed-timeout part: the configuration dimension "handler duration relative to CloseTimeout" taken to its end: a
// CloseTimeout that has elapsed before Close is even called (negative: RouterConfig.Validate accepts it and setDefaults
// replaces only 0) or elapses at once (1ns, 1ms), with an invocation in progress. The handler outlives CloseTimeout, so
// every Close call has to return on its own and none may return nil while the invocation is in progress.
//
// dynamic-handlers part: the router's set of handlers changes at run time (AddHandler + RunHandlers, handlers ending by
// Handler.Stop / their subscription being closed / the context of their RunHandlers call) while other goroutines use the
// per-handler API (Handler.AddMiddleware) on running and on ending handlers; then Close. The statement has to hold for
// such a router as for a static one: every Close call and Run return, nil only when nothing runs or starts later.

import (
	"context"
	"fmt"
	"strings"
	"sync"
	"sync/atomic"
	"time"

	"github.com/ThreeDotsLabs/watermill"
	"github.com/ThreeDotsLabs/watermill/message"
	"github.com/ThreeDotsLabs/watermill/pubsub/gochannel"

	"verifharness/vlib"
)

var elapsedTimeouts = []time.Duration{-time.Hour, -time.Second, -1, 1, time.Millisecond}
var elapsedPoints = []string{"in-handler", "router.handle.before_settle"}

func elapsedCells() int { return len(elapsedTimeouts) * len(closerCounts) * 2 * len(elapsedPoints) }

var dynStops = []string{"Handler.Stop", "subscription-closed", "RunHandlers-ctx-cancelled"}

func dynRound() int { return len(dynStops) * len(closerCounts) * 2 * 2 }

func dynCells(tier string) int { return dynRound() * vlib.TierN(tier, 2, 8) }

// baseWO: CloseTimeout is not a pending timer for the detector (1 h, or decided with NotBefore + later-armed harness timers);
// helper goroutines which WaitGroupTimeout left behind in earlier cases of the shard only sit in WaitGroup.Wait.
func baseWO() vlib.WaitOpts {
	return vlib.WaitOpts{Watchdog: vlib.WD.Watchdog, NoTimerCheck: []string{wgtFrame}}
}

func elapsedTimeout(e *vlib.Env, ci int) vlib.Result {
	i := ci
	to := elapsedTimeouts[i%len(elapsedTimeouts)]
	i /= len(elapsedTimeouts)
	nclosers := closerCounts[i%len(closerCounts)]
	i /= len(closerCounts)
	useGC := i%2 == 1
	i /= 2
	point := elapsedPoints[i%len(elapsedPoints)]
	r := e.R
	id := e.ID()
	nh := r.Range(1, 3)
	spec := fmt.Sprintf("elapsed-timeout closeTimeout=%v closers=%d sub=%s handlers=%d invocationHeldAt=%s", to, nclosers, subKindName(useGC), nh, point)
	res := vlib.Result{Class: "elapsed-timeout/" + point + "/" + subKindName(useGC), Spec: spec}
	wo := baseWO()
	w := &world{msgs: map[string]*tracked{}}
	l, err := newLC(id, w, to, useGC)
	if err != nil {
		res.Verdict, res.Reason = vlib.HarnessError, err.Error()
		return res
	}
	ctl := vlib.NewCtl(r.Uint64(), 0, 0)
	defer ctl.Uninstall()
	defer l.openGate()
	for n := 0; n < nh; n++ {
		l.add(n, nil, nil)
	}
	runDone := l.goRun(context.Background())
	if oc, d := vlib.WaitClosed(l.r.Running(), wo); oc != vlib.Done {
		res.Inconclusive("router did not start: %v", oc)
		res.Witness = vlib.Trunc(d, 60000)
		l.teardown(wo)
		return res
	}
	m1 := id + "/m1"
	var park *vlib.Park
	if point != "in-handler" {
		park = ctl.ParkAt(point, func(a, b string) bool { return b == m1 }, 0)
		l.openGate()
	}
	st := l.started()
	t1 := l.emit(st[r.Intn(len(st))], m1)
	arrived := func() bool {
		if park != nil {
			return park.HasArrived()
		}
		return t1.entered.Load() != 0
	}
	vlib.WaitUntil(arrived, wo)
	reached := arrived()

	// Close arrives; the invocation outlives CloseTimeout, which has elapsed already (or does at once)
	closersDone := l.closers(nclosers)
	hung := false
	if reached {
		// The timer behind CloseTimeout is invisible in a goroutine dump. "Never returns" is decided only when the process is
		// quiescent (apart from the Close calls nothing can move), and stays so while five harness timers that were armed
		// later and are due later than CloseTimeout have fired: a bracketing by other timers of the same runtime, not a bound
		// on a measured duration. Anything else is inconclusive.
		wo2 := baseWO()
		wo2.NotBefore = time.Now().Add(2 * time.Second)
		o, d := vlib.WaitClosed(closersDone, wo2)
		if o == vlib.Stuck {
			for k := 0; k < 5 && !vlib.IsClosed(closersDone); k++ {
				vlib.TimerWait(20 * time.Millisecond)
			}
			wo3 := baseWO()
			wo3.NotBefore = time.Now().Add(time.Second)
			o, d = vlib.WaitClosed(closersDone, wo3)
		}
		switch o {
		case vlib.Stuck:
			hung = true
			res.Fail("close-hangs-beyond-timeout", "a handler invocation outlives CloseTimeout (%v) and a Close call never returned (process quiescent, later-armed timers fired): %s", to, spec)
			res.Witness = vlib.Trunc(d, 60000)
		case vlib.Inconclusive:
			res.Inconclusive("Close calls neither returned nor quiescent with CloseTimeout %v", to)
		}
	}
	overlapped := reached && t1.exited.Load() == 0 || (park != nil && reached)
	if park != nil {
		park.Release()
	}
	l.openGate()
	waitReturn(&res, "Close", closersDone, wo, spec)
	waitReturn(&res, "Run", runDone, wo, spec)
	if o, d := vlib.Settle(wo); o == vlib.Inconclusive {
		res.Inconclusive("not quiescent at the end")
		res.Witness = vlib.Trunc(d, 60000)
	}
	if !res.Failed() && res.Verdict == "" {
		waitReturn(&res, "Close", l.closers(1), wo, spec) // repeated Close
	}
	if !res.Failed() && res.Verdict == "" {
		l.lateProbes(&res, wo)
	}
	judge(w, &res, spec, false)
	l.teardown(wo)
	res.Hooks = ctl.Counts()
	res.NonTrivial = reached && overlapped
	res.Sig = vlib.Sig(spec, reached, hung, closeShape(w))
	res.Count("elapsed_timeout_reached", b2i(reached))
	res.Count("invocation_in_progress_when_close_called", b2i(overlapped))
	w.mu.Lock()
	for _, c := range w.closes {
		if c.err != "" {
			res.Count("close_calls_reporting_timeout", 1)
		} else {
			res.Count("close_calls_returning_nil", 1)
		}
	}
	w.mu.Unlock()
	if !reached && res.Verdict == "" {
		res.Verdict = vlib.Unreached
		res.Reason = "the message did not reach its hold point: " + spec
	}
	res.Sample = map[string]any{"cell": spec, "reached": reached, "closes": closeSummary(w)}
	return res
}

// ---------------------------------------------------------------------------------------------

// dynH is a handler that is added to the running router and ends before Close.
type dynH struct {
	lh *lcHandler
	hd *message.Handler
	gc *gochannel.GoChannel // the burst's own GoChannel (nil with scripted subscribers)
}

func dynamicHandlers(e *vlib.Env, di int) vlib.Result {
	i := di
	stop := dynStops[i%len(dynStops)]
	i /= len(dynStops)
	nclosers := closerCounts[i%len(closerCounts)]
	i /= len(closerCounts)
	useGC := i%2 == 1
	i /= 2
	overlapClose := i%2 == 1
	r := e.R
	id := e.ID()
	nBursts := r.Range(3, 8)
	nAdders := r.Range(1, 3)
	nPre := []int{0, 50, 400, 1500}[r.Intn(4)]
	busy := r.Bool()
	yield := []float64{0, 0.3}[r.Intn(2)]
	spec := fmt.Sprintf("dynamic-handlers endBy=%s closers=%d sub=%s bursts=%d addMiddlewareGoroutines=%d middlewaresBefore=%d addMiddlewareOverlapsClose=%v longLivedHandlerBusyAtClose=%v yield=%.1f closeTimeout=1h",
		stop, nclosers, subKindName(useGC), nBursts, nAdders, nPre, overlapClose, busy, yield)
	res := vlib.Result{Class: "dynamic-handlers/" + stop + "/" + subKindName(useGC), Spec: spec}
	wo := baseWO()
	w := &world{msgs: map[string]*tracked{}}
	l, err := newLC(id, w, time.Hour, useGC)
	if err != nil {
		res.Verdict, res.Reason = vlib.HarnessError, err.Error()
		return res
	}
	ctl := vlib.NewCtl(r.Uint64(), yield, 50)
	ctl.Filter(func(point, a, b string) bool {
		return strings.HasPrefix(a, id+"/") || strings.HasPrefix(b, id+"/") || (a == "" && b == "")
	})
	defer ctl.Uninstall()
	defer l.openGate()

	// the long-lived handler (gated); it keeps the router open while the others come and go
	long := l.mk(100, nil, nil)
	longHd := l.r.AddHandler(long.name, long.topic, long.sub, long.out, long.pub, w.handler(l.gate, nil))
	var mwCalls atomic.Int64
	mw := func(h message.HandlerFunc) message.HandlerFunc {
		return func(m *message.Message) ([]*message.Message, error) { mwCalls.Add(1); return h(m) }
	}
	for k := 0; k < nPre; k++ {
		longHd.AddMiddleware(mw)
	}
	runDone := l.goRun(context.Background())
	if oc, d := vlib.WaitClosed(l.r.Running(), wo); oc != vlib.Done {
		res.Inconclusive("router did not start: %v", oc)
		res.Witness = vlib.Trunc(d, 60000)
		l.teardown(wo)
		return res
	}

	// goroutines using the per-handler API while handlers come and go; bounded, so that the process can become quiescent
	var tmu sync.Mutex
	targets := []*message.Handler{longHd}
	var stopAdders atomic.Bool
	var addCalls atomic.Int64
	var awg sync.WaitGroup
	const addCap = 4000
	for a := 0; a < nAdders; a++ {
		rr := r.Fork()
		awg.Add(1)
		go func() {
			defer awg.Done()
			for n := 0; n < addCap && !stopAdders.Load(); n++ {
				tmu.Lock()
				t := targets[rr.Intn(len(targets))]
				tmu.Unlock()
				if rr.Chance(0.5) {
					t = longHd
				}
				t.AddMiddleware(mw)
				addCalls.Add(1)
			}
		}()
	}
	addersDone := make(chan struct{})
	go func() { awg.Wait(); close(addersDone) }()

	var all []*dynH
	ended, stuckEarly := 0, false
	seq := 0
	for b := 0; b < nBursts && !stuckEarly; b++ {
		k := r.Range(2, 6)
		var gc *gochannel.GoChannel
		if useGC {
			gc = gochannel.NewGoChannel(gochannel.Config{}, watermill.NopLogger{})
		}
		var burst []*dynH
		for n := 0; n < k; n++ {
			seq++
			lh := &lcHandler{name: fmt.Sprintf("%s/d%d", id, seq), topic: fmt.Sprintf("%s/din%d", id, seq), out: fmt.Sprintf("%s/dout%d", id, seq), pub: &vlib.Pub{Name: fmt.Sprintf("%s-d%d", id, seq)}}
			var inner message.Subscriber
			if useGC {
				inner = gc
			} else {
				lh.ssub = &vlib.Sub{Name: fmt.Sprintf("%s-d%d", id, seq)}
				inner = lh.ssub
			}
			lh.sub = &hookSub{inner: inner}
			hd := l.r.AddHandler(lh.name, lh.topic, lh.sub, lh.out, lh.pub, w.handler(nil, nil))
			burst = append(burst, &dynH{lh: lh, hd: hd, gc: gc})
		}
		all = append(all, burst...)
		bctx, bcancel := context.WithCancel(context.Background())
		started := make(chan struct{})
		go func() { defer close(started); l.r.RunHandlers(bctx) }()
		if o, _ := vlib.WaitClosed(started, wo); o != vlib.Done {
			bcancel()
			stuckEarly = true
			break
		}
		tmu.Lock()
		for _, d := range burst {
			targets = append(targets, d.hd)
		}
		tmu.Unlock()
		// some of them get a message, which runs concurrently with the end of the handlers
		for n, d := range burst {
			if !r.Chance(0.5) {
				continue
			}
			uuid := fmt.Sprintf("%s/b%d-%d", id, b, n)
			if d.gc == nil {
				l.emit(d.lh, uuid)
			} else {
				t := w.track(uuid, nil)
				g, topic := d.gc, d.lh.topic
				l.emitWg.Add(1)
				go func() {
					defer l.emitWg.Done()
					if err := g.Publish(topic, message.NewMessage(uuid, []byte("p"))); err != nil {
						t.refused.Store(true)
					}
				}()
			}
		}
		// all handlers of the burst end together
		switch stop {
		case "Handler.Stop":
			for _, d := range burst {
				d.hd.Stop()
			}
		case "subscription-closed":
			if gc != nil {
				gc.Close()
			} else {
				for _, d := range burst {
					d.lh.ssub.Close()
				}
			}
		default:
			bcancel()
		}
		o, _ := vlib.WaitUntil(func() bool {
			for _, d := range burst {
				if !vlib.IsClosed(d.hd.Stopped()) {
					return false
				}
			}
			return true
		}, wo)
		bcancel()
		for _, d := range burst {
			if vlib.IsClosed(d.hd.Stopped()) {
				ended++
			}
		}
		if o != vlib.Done {
			stuckEarly = true // the Close calls below still have to return
		}
	}
	if !overlapClose {
		stopAdders.Store(true)
		vlib.WaitClosed(addersDone, wo)
	}
	var t1 *tracked
	if busy {
		t1 = l.emit(long, id+"/m1")
		vlib.WaitUntil(func() bool { return t1.entered.Load() != 0 }, wo)
	}
	closersDone := l.closers(nclosers)
	vlib.WaitClosed(closersDone, wo) // returned, or waiting for the handler held at the gate
	heldAtGate := t1 != nil && t1.entered.Load() != 0 && t1.exited.Load() == 0
	stopAdders.Store(true)
	l.openGate()
	waitReturn(&res, "Close", closersDone, wo, spec)
	waitReturn(&res, "Run", runDone, wo, spec)
	if o, d := vlib.WaitClosed(addersDone, wo); o == vlib.Inconclusive {
		res.Inconclusive("AddMiddleware goroutines neither returned nor quiescent")
		res.Witness = vlib.Trunc(d, 60000)
	}
	if o, d := vlib.Settle(wo); o == vlib.Inconclusive {
		res.Inconclusive("not quiescent at the end")
		res.Witness = vlib.Trunc(d, 60000)
	}
	if !res.Failed() && res.Verdict == "" {
		waitReturn(&res, "Close", l.closers(1), wo, spec) // repeated Close on the closed router
	}
	if !res.Failed() && res.Verdict == "" {
		l.lateProbes(&res, wo)
	}
	judge(w, &res, spec, true)
	if !res.Failed() && res.Verdict == "" {
		l.closedEnds(&res, spec) // the long-lived handler's ends
	}
	for _, d := range all {
		if d.lh.ssub != nil {
			d.lh.ssub.Close()
		}
		if d.gc != nil {
			d.gc.Close()
		}
	}
	l.teardown(wo)
	handled := 0
	w.mu.Lock()
	for _, t := range w.order {
		if t.entered.Load() != 0 {
			handled++
		}
	}
	w.mu.Unlock()
	res.Hooks = ctl.Counts()
	res.NonTrivial = ended > 0 && addCalls.Load() > 0
	res.Sig = vlib.Sig(spec, len(all), ended, stuckEarly, heldAtGate, closeShape(w), ctl.Fingerprint())
	res.Count("dynamic_handlers_added", len(all))
	res.Count("dynamic_handlers_ended_before_close", ended)
	res.Count("add_middleware_calls_concurrent", int(addCalls.Load()))
	res.Count("messages_handled", handled)
	res.Count("middleware_invocations", int(mwCalls.Load()))
	res.Count("handler_held_while_close_pending", b2i(heldAtGate))
	res.Count("churn_stuck_before_close", b2i(stuckEarly))
	res.Sample = map[string]any{"cell": spec, "handlers_added": len(all), "handlers_ended": ended, "add_middleware_calls": addCalls.Load(), "churn_stuck_before_close": stuckEarly, "closes": closeSummary(w)}
	return res
}
