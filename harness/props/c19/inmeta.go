package c19

import (
	"fmt"

	"github.com/ThreeDotsLabs/watermill/message"
	"github.com/ThreeDotsLabs/watermill/message/router/middleware"

	"verifharness/vlib"
)

// in-meta classes: the RECEIVED message changes during the call. Code inside the middlewares - the handler itself,
// or a user-written middleware further in - sets, changes or removes the correlation id (and other metadata) of the
// consumed message while the chain runs.
//
// What is promised (message/router/middleware/correlation.go):
//
//	// SetCorrelationID sets a correlation ID for the message.
//	// SetCorrelationID should be called when the message enters the system.
//	...
//	// CorrelationID adds correlation ID to all messages produced by the handler.
//	// ID is based on ID from message received by handler.
//	// To make CorrelationID working correctly, SetCorrelationID must be called to first message entering the system.
//
// and the statement: "the correlation id copied to outputs that lack one and never overwritten". The place where a
// message enters the system is a handler (or a middleware in front of it) that receives a message without an id and
// calls SetCorrelationID on it - inside the CorrelationID middleware, which wraps every handler of the router. The
// outputs exist only once the inner call has returned, and "the id from the message received by the handler" at that
// moment is whatever the received message carries then: that id is copied to the outputs that lack one. The unchanged
// source does exactly this (h(message) first, MessageCorrelationID(message) afterwards), in every composition: an id
// assigned on the first, failing attempt under an inner Retry is on the message when Retry returns; an id removed
// again by an inner middleware after the handler returned is not.
//
// Metadata actions (val is unique per action):
//
//	assign        middleware.SetCorrelationID(val, msg)            the documented call: sets the id unless there is one
//	set           msg.Metadata.Set(correlation_id, val)            rewrites the id
//	clear         msg.Metadata.Set(correlation_id, "")             key present, empty: the message lacks an id
//	remove        delete(msg.Metadata, correlation_id)
//	replace-map   msg.Metadata = <new map, all entries copied, correlation_id = val>
//	other-add     msg.Metadata.Set("x-"+val, val)                  other metadata: nobody's business but the user's
//	other-change  msg.Metadata.Set("k-a", val)
//	other-remove  delete(msg.Metadata, "k-b")
//	restore       (UserMW post action only) put back the id (value and presence) seen on entry
//
// The handler does its action before or after it "produces" its outputs; producing means (35%) that the handler
// itself copies the id the consumed message carries at that moment onto its outputs with SetCorrelationID - such an
// output has an id of its own from then on (when that id is non-empty) and must never be overwritten. A UserMW layer
// does one action before the inner call and/or one after it returned (plain, or deferred: also when the inner call
// panicked).
var (
	handlerMetaActs = []string{"assign", "assign", "assign", "set", "set", "clear", "remove", "replace-map", "other-add", "other-change", "other-remove"}
	userPreActs     = []string{"", "assign", "assign", "set", "clear", "remove", "replace-map", "other-add"}
	userPostActs    = []string{"", "", "restore", "set", "clear", "remove", "assign", "other-change"}
)

const corrKey = middleware.CorrelationIDMetadataKey

func genStepMeta(r *vlib.Rand, st *step) {
	st.MWhen = "before"
	if r.Bool() {
		st.MWhen = "after"
	}
	if !r.Chance(0.12) {
		st.MAct = handlerMetaActs[r.Intn(len(handlerMetaActs))]
	}
	st.stamp = st.Kind != "panic" && r.Chance(0.35)
}

func genUserMeta(r *vlib.Rand, l *layer) {
	for l.UMPre == "" && l.UMPost == "" {
		l.UMPre = userPreActs[r.Intn(len(userPreActs))]
		l.UMPost = userPostActs[r.Intn(len(userPostActs))]
	}
	l.UMDefer = l.UMPost != "" && r.Chance(0.4)
}

func handlerMetaVal(sc *scenario, call int) string { return fmt.Sprintf("h%d-%s", call, sc.id) }

func userMetaVal(sc *scenario, layer, inv int, which string) string {
	return fmt.Sprintf("u%d.%d%s-%s", layer, inv, which, sc.id)
}

// applyMeta performs a metadata action on a metadata map (the model's copy, or the consumed message's own).
func applyMeta(md *map[string]string, act, val string) {
	m := *md
	switch act {
	case "":
	case "assign":
		// SetCorrelationID: "if MessageCorrelationID(msg) != "" { return }", then Set
		if m[corrKey] == "" {
			m[corrKey] = val
		}
	case "set":
		m[corrKey] = val
	case "clear":
		m[corrKey] = ""
	case "remove":
		delete(m, corrKey)
	case "replace-map":
		n := make(map[string]string, len(m)+1)
		for k, v := range m {
			n[k] = v
		}
		n[corrKey] = val
		*md = n
	case "other-add":
		m["x-"+val] = val
	case "other-change":
		m["k-a"] = val
	case "other-remove":
		delete(m, "k-b")
	default:
		panic("c19: unknown metadata action " + act)
	}
}

func restoreCorr(m map[string]string, v string, has bool) {
	if has {
		m[corrKey] = v
	} else {
		delete(m, corrKey)
	}
}

// applyMetaReal does the same on the consumed message, through the public API where there is one.
func applyMetaReal(msg *message.Message, act, val string) {
	switch act {
	case "assign":
		middleware.SetCorrelationID(val, msg)
	case "set":
		msg.Metadata.Set(corrKey, val)
	case "clear":
		msg.Metadata.Set(corrKey, "")
	default:
		md := map[string]string(msg.Metadata)
		applyMeta(&md, act, val)
		msg.Metadata = md
	}
}

// handlerMeta: the model's side of a handler call in the in-meta classes.
func (m *model) handlerMeta(st *step, idx int) {
	val := handlerMetaVal(m.sc, idx)
	act := func() {
		if st.MAct != "" {
			m.metaEff["inmeta_handler_"+st.MAct+"_"+st.MWhen]++
			applyMeta(&m.meta, st.MAct, val)
		}
	}
	if st.MWhen == "before" {
		act()
	}
	if st.stamp {
		id := m.meta[corrKey]
		for _, o := range st.outs {
			if m.corr[o] == "" {
				m.corr[o] = id
				if id != "" {
					m.metaEff["inmeta_handler_stamped_output"]++
				}
			}
		}
	}
	if st.MWhen != "before" {
		act()
	}
}

// handlerMetaReal: what the scripted handler does to the consumed message (and its own outputs) for real.
func handlerMetaReal(sc *scenario, st *step, idx int, msg *message.Message) {
	val := handlerMetaVal(sc, idx)
	if st.MWhen == "before" {
		applyMetaReal(msg, st.MAct, val)
	}
	if st.stamp {
		for _, o := range st.outs {
			middleware.SetCorrelationID(middleware.MessageCorrelationID(msg), o)
		}
	}
	if st.MWhen != "before" {
		applyMetaReal(msg, st.MAct, val)
	}
}

// userMetaMW is the harness-written middleware layer of the in-meta classes.
func userMetaMW(l layer, idx int, sc *scenario, rr *realRun, next message.HandlerFunc) message.HandlerFunc {
	return func(msg *message.Message) (outs []*message.Message, err error) {
		rr.mu.Lock()
		if rr.userInv == nil {
			rr.userInv = map[int]int{}
		}
		inv := rr.userInv[idx]
		rr.userInv[idx]++
		rr.mu.Unlock()
		entry, has := msg.Metadata[corrKey]
		post := func() {
			if l.UMPost == "restore" {
				restoreCorr(msg.Metadata, entry, has)
			} else {
				applyMetaReal(msg, l.UMPost, userMetaVal(sc, idx, inv, "b"))
			}
		}
		applyMetaReal(msg, l.UMPre, userMetaVal(sc, idx, inv, "a"))
		if l.UMPost != "" && l.UMDefer {
			defer post()
			return next(msg)
		}
		outs, err = next(msg)
		if l.UMPost != "" {
			post()
		}
		return outs, err
	}
}

// ---------------------------------------------------------------------------------------------
// case runners

// metaCorrShapes: CorrelationID alone, with Retry / a metadata-changing user middleware / Recoverer on either side,
// two CorrelationID layers.
var metaCorrShapes = []chainShape{
	{kCorr}, {kRetry, kCorr}, {kCorr, kRetry},
	{kUser, kCorr}, {kCorr, kUser},
	{kCorr, kRetry, kUser}, {kCorr, kUser, kRetry}, {kRetry, kCorr, kUser}, {kRetry, kUser, kCorr}, {kUser, kRetry, kCorr}, {kUser, kCorr, kRetry},
	{kCorr, kRecov}, {kRecov, kCorr}, {kCorr, kRecov, kUser}, {kCorr, kUser, kRecov},
	{kCorr, kCorr}, {kCorr, kUser, kCorr}, {kCorr, kRetry, kCorr},
}

func runMetaCorr(e *vlib.Env, scriptsPer int) vlib.Result {
	return runChainsOpts(e, "in-meta/CorrelationID", metaCorrShapes, scriptsPer, genOpts{metaMode: true})
}

// runMetaSingle: each simple middleware with the shapes of ctx-replace/<kind> (alone, with Retry, with a UserMW
// outside / inside): nothing but the documented effect happens to the metadata the handler / user code left.
func runMetaSingle(e *vlib.Env, k kind, scriptsPer int) vlib.Result {
	return runChainsOpts(e, "in-meta/"+kindName[k], ctxSingleShapes(k), scriptsPer, genOpts{metaMode: true})
}

// metaEnumChains: the enumerated chains that contain a CorrelationID layer (689 of the 1928).
var metaEnumChains = func() []chainShape {
	var out []chainShape
	for _, c := range enumChains {
		if c.has(kCorr) {
			out = append(out, c)
		}
	}
	return out
}()

func metaEnumBlocks() int { return (len(metaEnumChains) + chainsPerCase - 1) / chainsPerCase }

func runMetaEnum(e *vlib.Env, block, scriptsPer int) vlib.Result {
	lo, hi := block*chainsPerCase, (block+1)*chainsPerCase
	if hi > len(metaEnumChains) {
		hi = len(metaEnumChains)
	}
	// the UserMW positions are drawn per script, so one chain is run with several placements
	var shapes []chainShape
	for _, s := range metaEnumChains[lo:hi] {
		for i := 0; i < scriptsPer; i++ {
			shapes = append(shapes, withUser(e.R, s))
		}
	}
	return runChainsOpts(e, "in-meta/chain", shapes, 1, genOpts{metaMode: true})
}

func runMetaRandom(e *vlib.Env) vlib.Result {
	var shapes []chainShape
	for i := 0; i < 12; i++ {
		var s chainShape
		for n := e.R.Range(1, 3); n > 0; n-- {
			if e.R.Chance(0.4) {
				s = append(s, kCorr) // also two and three CorrelationID layers
			} else {
				s = append(s, kind(e.R.Intn(int(kThrottle)+1)))
			}
		}
		for n := e.R.Intn(3); n > 0; n-- {
			pos := e.R.Intn(len(s) + 1)
			s = append(s[:pos], append(chainShape{kRetry}, s[pos:]...)...)
		}
		shapes = append(shapes, withUser(e.R, s))
	}
	return runChainsOpts(e, "in-meta/random", shapes, 2, genOpts{metaMode: true})
}
