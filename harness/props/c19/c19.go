// Package c19 checks property C19: the simple middlewares (Timeout, CorrelationID, Recoverer,
// IgnoreErrors, InstantAck, Throttle, DelayOnError, closed CircuitBreaker) change only what they
// document and only during the call, and therefore compose with Retry without changing its
// attempt count.
//
// Technique: the REAL middleware chain is wrapped around a scripted handler and every execution is
// judged against a small compositional reference model of the documented effects (chain.go); two
// dedicated workloads cover DelayOnError's closed form (delay.go) and Throttle's rate (throttle.go).
package c19

import (
	"fmt"

	"verifharness/vlib"
)

// Case layout (fixed per tier):
//
//	[0, nSingle)          single/<kind>   one middleware alone, many handler scripts
//	[.., +nEnum)          chain/k[+retry] every ordered selection of 1..3 distinct simple middlewares,
//	                                       without Retry and with Retry at every position (1928 chains, 8 per case)
//	[.., +nRandom)        random          chains with repetition allowed and up to two Retry layers
//	[.., +nDelay)         delay-seq       DelayOnError alone over failure/success sequences, closed form
//	[.., +nThrottle)      throttle        Throttle alone: start times vs. the configured rate, backlog from creation on
//	[.., +nArrivals)      throttle-arrivals  Throttle alone: backlogs arriving after idle / under-used phases
//	[.., +nCtxSingle)     ctx-replace/<kind>  one middleware alone / with Retry / with a user middleware; the handler and the
//	                                       user middleware replace the message context during the call (ctxrepl.go)
//	[.., +nCtxEnum)       ctx-replace/chain/k[+retry]  the 1928 enumerated chains again, with context replacement and 0..2 user middlewares
//	[.., +nCtxRandom)     ctx-replace/random  chains with repetition (nested Timeouts), up to two Retry layers, 0..2 user middlewares
//	[.., +nValSingle)     values/<kind>   one middleware alone, handler results with unusual Go values (values.go)
//	[.., +nValEnum)       values/chain/k[+retry]  the 1928 enumerated chains again with such results
//	[.., +nConcSingle)    concurrent/<kind>  one wrapped handler, 2..6 calls in flight with different messages (concurrent.go)
//	[.., +nConcChain)     concurrent/chain[+retry]  the same for chains of 2..3 distinct middlewares, 35% with a Retry layer
//	[.., +nErrSingle)     errshapes/IgnoreErrors  IgnoreErrors alone, handler errors in every wrapper shape (errshape.go)
//	[.., +nErrCompose)    errshapes/compose  IgnoreErrors with Retry / Recoverer in every order, two IgnoreErrors layers
//	[.., +nErrEnum)       errshapes/chain  the 689 enumerated chains that contain IgnoreErrors, with such errors
//	[.., +nErrNilCause)   errshapes/nil-cause  (0 cases unless genNilCause) errors of a Cause()-capable type without a cause
//	[.., +nMetaCorr)      in-meta/CorrelationID  CorrelationID alone / with Retry, Recoverer, a second CorrelationID; the handler and a user
//	                                       middleware set / change / remove the consumed message's correlation id during the call (inmeta.go)
//	[.., +nMetaSingle)    in-meta/<kind>  each simple middleware alone / with Retry / with such a user middleware
//	[.., +nMetaEnum)      in-meta/chain  the 689 enumerated chains that contain CorrelationID, 0..2 user middlewares
//	[.., +nMetaRandom)    in-meta/random  chains with repetition (several CorrelationID layers), up to two Retry layers, 0..2 user middlewares
//	[.., +nDelayLow)      delay-lowmax    DelayOnError alone / under Retry with MaxInterval below InitialInterval (first of all the zero value), delaylow.go
const (
	chainsPerCase  = 8
	singleKinds    = 8
	scriptsPerCase = 60 // single class
)

type layout struct {
	nSingle, nEnum, nRandom, nDelay, nThrottle, nArrivals int
	singlePerKind                                         int
	scriptsPerChain                                       int

	nCtxSingle, nCtxEnum, nCtxRandom int
	ctxPerKind                       int // cases per kind in ctx-replace/<kind>
	ctxScriptsSingle                 int // scripts per shape in ctx-replace/<kind>
	ctxScriptsChain                  int // scripts (each with its own user-middleware placement) per enumerated chain

	nValSingle, nValEnum, nConcSingle, nConcChain int
	valPerKind, valScriptsChain                   int
	concPerKind, concRounds                       int

	nErrSingle, nErrCompose, nErrEnum, nErrNilCause int
	errScriptsCompose, errScriptsChain              int

	nMetaCorr, nMetaSingle, nMetaEnum, nMetaRandom       int
	metaPerKind                                          int
	metaScriptsCorr, metaScriptsSingle, metaScriptsChain int

	nDelayLow int
}

func layoutFor(tier string) layout {
	l := layout{
		singlePerKind:   vlib.TierN(tier, 3, 30),
		nEnum:           len(enumChains) / chainsPerCase,
		nRandom:         vlib.TierN(tier, 96, 16000),
		nDelay:          vlib.TierN(tier, 96, 16000),
		nThrottle:       vlib.TierN(tier, 48, 320),
		nArrivals:       vlib.TierN(tier, 96, 960),
		scriptsPerChain: vlib.TierN(tier, 8, 240),

		nCtxEnum:         len(enumChains) / chainsPerCase,
		nCtxRandom:       vlib.TierN(tier, 96, 8000),
		ctxPerKind:       vlib.TierN(tier, 3, 30),
		ctxScriptsSingle: vlib.TierN(tier, 10, 30),
		ctxScriptsChain:  vlib.TierN(tier, 6, 120),

		nValEnum:        len(enumChains) / chainsPerCase,
		valPerKind:      vlib.TierN(tier, 3, 30),
		valScriptsChain: vlib.TierN(tier, 5, 80),
		concPerKind:     vlib.TierN(tier, 4, 60),
		concRounds:      vlib.TierN(tier, 6, 10),
		nConcChain:      vlib.TierN(tier, 96, 6000),

		nErrSingle:        vlib.TierN(tier, 6, 120),
		nErrCompose:       vlib.TierN(tier, 8, 240),
		nErrEnum:          errEnumBlocks(),
		nErrNilCause:      nilCauseCases(tier),
		errScriptsCompose: vlib.TierN(tier, 4, 20),
		errScriptsChain:   vlib.TierN(tier, 4, 60),

		nMetaCorr:         vlib.TierN(tier, 8, 240),
		nMetaEnum:         metaEnumBlocks(),
		nMetaRandom:       vlib.TierN(tier, 96, 8000),
		metaPerKind:       vlib.TierN(tier, 2, 20),
		metaScriptsCorr:   vlib.TierN(tier, 6, 20),
		metaScriptsSingle: vlib.TierN(tier, 6, 20),
		metaScriptsChain:  vlib.TierN(tier, 4, 60),

		nDelayLow: vlib.TierN(tier, 64, 8000),
	}
	l.nMetaSingle = singleKinds * l.metaPerKind
	l.nSingle = singleKinds * l.singlePerKind
	l.nCtxSingle = singleKinds * l.ctxPerKind
	l.nValSingle = singleKinds * l.valPerKind
	l.nConcSingle = singleKinds * l.concPerKind
	return l
}

func (l layout) total() int {
	return l.nSingle + l.nEnum + l.nRandom + l.nDelay + l.nThrottle + l.nArrivals + l.nCtxSingle + l.nCtxEnum + l.nCtxRandom +
		l.nValSingle + l.nValEnum + l.nConcSingle + l.nConcChain +
		l.nErrSingle + l.nErrCompose + l.nErrEnum + l.nErrNilCause +
		l.nMetaCorr + l.nMetaSingle + l.nMetaEnum + l.nMetaRandom +
		l.nDelayLow
}

func init() {
	if len(enumChains)%chainsPerCase != 0 {
		panic(fmt.Sprintf("c19: %d enumerated chains not divisible by %d", len(enumChains), chainsPerCase))
	}
	vlib.Register(&vlib.Prop{
		ID:    "C19",
		Level: "exploration",
		Cases: func(tier string) int { return layoutFor(tier).total() },
		Rule: "chain classes: the real middleware chain around a scripted handler (per call: outputs with/without correlation id, " +
			"plain / pkg-errors-wrapped / %w-wrapped / sentinel / custom errors, panics with nil, string, int, error, struct, slice, pointer, typed-nil and runtime-error values, " +
			"or a wait for the Timeout deadline) is judged against a compositional reference model of the documented effects. " +
			"single/<kind>: each of the 8 simple middlewares alone, 60 scripts per case; chain/k[+retry]: EVERY ordered selection of 1..3 distinct simple middlewares " +
			"without Retry and with Retry at every position (1928 chains, each with 8 (quick) / 240 (thorough) random scripts and parameter draws); " +
			"random: chains of 1..3 simple middlewares with repetition plus 0..2 Retry layers. " +
			"delay-seq: DelayOnError alone, real-valued Multiplier in [1,3], failure/success sequences over redelivered messages, closed form min(Initial*Mult^(k-1),Max) within 1 ppm. " +
			"throttle: periods 10..20 ms, 8..16 starts from 1..3 goroutines sharing one Throttle, backlog from creation on (30%: one pause of 3 periods); " +
			"throttle-arrivals: periods 2..8 ms, count 1..100, 1..3 arrival groups one after another, each a backlog of 6..14 messages arriving at once on 1, 2..4 or one-per-message goroutines sharing the Throttle, " +
			"preceded by nothing (backlog from creation), an idle phase of 3..14 periods, or a trickle of 3..6 single messages 2..3 periods apart (traffic below the rate). " +
			"Both throttle classes record per call the bracket [invoked, handler started] and judge: start i (1-based) must not precede creation+i*period (throttle-rate); " +
			"M >= 5 starts that provably all happened inside one window need more than (M-4) periods (throttle-burst: a time.Ticker saves at most one tick, (M-3) periods is attained by correct code with a late tick, one period of tolerance). " +
			"ctx-replace classes: the same chain oracle, but code inside the middlewares replaces the message context during the call with msg.SetContext: each handler call (88%) and each UserMW layer " +
			"(a harness-written middleware, as the CQRS processors do; 35% put the context they saw back afterwards in a defer) installs a context derived from the current one with a value, with its own cancel func, with its own far deadline (3 h), " +
			"an unrelated context (Background-rooted, with/without a 3 h deadline), the same context again, or (handler) a derived one that it sets back before returning; also right before a panic. " +
			"ctx-replace/<kind>: each simple middleware k as [k], [Retry>k], [k>Retry], [UserMW>k], [k>UserMW], [Retry>k>UserMW], [Retry>UserMW>k], [UserMW>Retry>k], 10 (quick) / 30 (thorough) scripts each; " +
			"ctx-replace/chain/k[+retry]: the 1928 enumerated chains again, 6 (quick) / 120 (thorough) scripts each, every script with its own placement of 0..2 UserMW layers; " +
			"ctx-replace/random: chains with repetition (40% Timeout per slot, so nested Timeouts), 0..2 Retry layers, 0..2 UserMW layers. " +
			"The model tracks the lineage of the message context symbolically (caller's context, Timeout layers, installed contexts) and judges: after the chain msg.Context().Err()==nil and Retry's attempt count as without the middlewares (timeout-ctx-after / ctx-after / retry-attempts), " +
			"no Timeout deadline left on the message, values of the caller's and of the installed contexts still visible during later calls and afterwards (ctx-transparency), a Timeout deadline visible in a handler call iff a Timeout layer lies between the last unrelated replacement and the handler. " +
			"When inner code leaves an UNRELATED context of its own on the message under a Timeout, the statement does not say whether Timeout may put the caller's context back; from then on only 'not cancelled', 'no Timeout deadline left' and the attempt count are judged (counter ctx_unrelated_left_under_timeout). " +
			"A ctx-replace case is non-trivial when a documented effect was exercised and at least one replacement was made. " +
			"values classes (values/<kind>: each simple middleware alone, 60 scripts per case; values/chain/k[+retry]: the 1928 enumerated chains again, 5 (quick) / 80 (thorough) scripts each): the same chain oracle with handler results made of unusual but legal Go values: " +
			"errors whose dynamic type is not comparable, returned by value (a slice type, a map type, a struct with a slice field, a struct whose interface field holds a slice; one value of each per scenario, reused across the attempts of a Retry), " +
			"pointers to and pkg/errors / %w wrappers around them, errors.Join of two errors, of one error and of a non-comparable one, a nil-valued typed error with a nil-safe Error method; " +
			"IgnoreErrors lists that contain the slice / map / struct / typed-nil errors (60%); outputs that are nil, empty but non-nil, or contain the consumed message itself at any position (30%); " +
			"panics with a map, a struct with a slice field, a slice of errors, an array of slices, a non-comparable error value, an errors.Join / pkg-errors / typed-nil error value, nil. " +
			"A non-comparable error is 'unchanged' when the returned value has the same type and is deeply equal (contents are unique per value); a panicking middleware constructor is reported as middleware-construct. " +
			"When CorrelationID sees the consumed message, lacking an id, among the outputs, an empty correlation_id key on it is accepted (copying its own empty id onto it). A values case is non-trivial when an effect was exercised and an unusual value was generated. " +
			"concurrent classes (concurrent/<kind>: each simple middleware alone; concurrent/chain[+retry]: 2..3 distinct simple middlewares, 35% with one Retry layer at a random position): the chain is built ONCE per case and the one wrapped handler is called " +
			"in 6 (quick) / 10 (thorough) rounds by 2..6 goroutines at the same time, each with its own fresh message and its own handler script (40% of the cases with the values generator); every message is judged by the chain oracle against its own model " +
			"(its own outputs / error / panic value, correlation id from its own message, delay metadata and ack on its own message, its own context values and deadline during the call and its own live context afterwards). " +
			"Schedule of a round: all goroutines are released by a start barrier; in chains without Retry every call parks inside the handler with its result ready until all calls of the round are inside their handlers, then all are released and yield 0..3 times before returning; " +
			"every CircuitBreaker layer's Settings.IsSuccessful callback (same verdict as the default; gobreaker calls it after the handler returned and before the result is handed back) parks until all calls that reach it have reached it, i.e. all handlers have returned and no middleware call has. " +
			"All barrier waits are conditional (filled, or process quiescent, or watchdog: released and counted in concurrent_barrier_released_unfilled); verdicts never depend on whether a barrier filled. " +
			"Data races with a watermill frame are violations (clause data-race): the middlewares are called through function variables so that their closures keep their own names in race reports. " +
			"A concurrent case is non-trivial when an effect was exercised and (chains without Retry) at least one round had all its handlers in flight at once. " +
			"errshapes classes (which errors are 'listed' for IgnoreErrors): the unchanged source stores the texts of the list entries and compares them with the text of the error's github.com/pkg/errors Cause, i.e. it follows Cause() methods - and only those - to the innermost error; " +
			"the model re-states exactly that rule (causeOf) and the generator builds handler errors as a base error under 0..3 wrappers: base = the very list entry / one of four errors that the list draw put on the list or not / a never-listed error / a new error value with exactly a listed text / " +
			"a text of which a listed text is a proper prefix or suffix / a listed text minus its last byte / a custom type / context.DeadlineExceeded; wrappers = pkg/errors Wrap, WithStack, WithMessage (Cause and Unwrap), Cause()-only types (pointer and by-value), Unwrap()-only types, fmt.Errorf %w, " +
			"errors.Join of one / two errors (either order), fmt.Errorf with two %w, Cause()-only and Unwrap()-only wrappers with a text of their own (a listed text / the wrapped error's text / unrelated), a type whose Cause() and Unwrap() lead to different errors, a type with only an Is method; " +
			"lists hold 1..3 base errors, and (60%) 1..3 plain entries whose text is the full text of a wrapper around a base error (matched iff that wrapper has no Cause method). " +
			"errshapes/IgnoreErrors: IgnoreErrors alone, 60 scripts per case; errshapes/compose: [I], Retry/Recoverer/IgnoreErrors in all orders (2 and 3 layers), [I>I], [Retry>I>I], [Retry>I>Retry], 4 (quick) / 20 (thorough) scripts each per case; " +
			"errshapes/chain: the 689 enumerated chains that contain IgnoreErrors, 4 (quick) / 60 (thorough) scripts each. Judged by the chain oracle: listed -> success with the outputs, everything else -> the identical error value (ignore-errors / error-identity), Retry's attempt count (retry-attempts). " +
			"Counters errshape_differs_from_{unwrap_walk,errors_is,outer_text,substring} count (IgnoreErrors layer, error) pairs on which a neighbouring rule would decide differently. An errshapes case is non-trivial when an effect was exercised and a wrapped / near-listed error was generated. " +
			"in-meta classes (the received message changes during the call): the same chain oracle, but code inside the middlewares changes the consumed message's metadata while the chain runs. " +
			"Each handler call (88%) does one action before or after it produces its outputs: assign (middleware.SetCorrelationID(new id, msg), the documented call for the place where a message enters the system: sets the id unless there is one), " +
			"set (rewrites the id), clear (key present, empty), remove (key deleted), replace-map (msg.Metadata = a new map with all entries copied and a new id), other-add / other-change / other-remove (metadata that is not the correlation id); " +
			"35% of the non-panicking calls 'produce' by copying the id the consumed message carries at that moment onto their outputs themselves (such an output has an id of its own from then on and must not be overwritten); actions are also done right before a panic and on every attempt under Retry, each with an id of its own. " +
			"UserMW layers (a harness-written middleware) do one action before the inner call (assign, set, clear, remove, replace-map, other-add) and/or one after it returned (restore the id seen on entry, set, clear, remove, assign, other-change; 40% deferred, i.e. also when the inner call panicked). " +
			"Messages arrive without an id (40%), with the key present but empty (10%) or with an id (50%); outputs carry an id of their own, the input's, an empty one or none, as in all chain classes. " +
			"in-meta/CorrelationID: [C], [Retry>C], [C>Retry], [UserMW>C], [C>UserMW], all six orders of C, Retry, UserMW, [C>Recoverer], [Recoverer>C], [C>Recoverer>UserMW], [C>UserMW>Recoverer], [C>C], [C>UserMW>C], [C>Retry>C], 6 (quick) / 20 (thorough) scripts each per case; " +
			"in-meta/<kind>: each simple middleware k in the eight shapes of ctx-replace/<kind>, 6 (quick) / 20 (thorough) scripts each; in-meta/chain: the 689 enumerated chains that contain CorrelationID, 4 (quick) / 60 (thorough) scripts each, every script with its own placement of 0..2 UserMW layers; " +
			"in-meta/random: chains with repetition (40% CorrelationID per slot), 0..2 Retry layers, 0..2 UserMW layers. " +
			"The model carries the consumed message's metadata through the chain and judges: every output that lacks an id when a CorrelationID layer gets it has, after the chain, the id the consumed message carried when that layer's inner call returned (none when it carried none then), outputs with an id keep it (correlation-id); " +
			"after the chain the consumed message's metadata is exactly what the handler / UserMW layers left plus the delay keys of DelayOnError (input-mutated, delay-value, delay-untouched); outputs, error, attempt count, ack, context as in all chain classes. " +
			"Counters inmeta_corr_layer_id_changed_during_call (CorrelationID layers whose message's id differed between entry and return of the inner call), inmeta_corr_copied_id_set_during_call (outputs that got an id that was put on the message during the call), " +
			"inmeta_corr_id_removed_during_call_not_copied, inmeta_handler_<action>_<before|after>, inmeta_handler_stamped_output, inmeta_user_<pre|post>_<action>. An in-meta case is non-trivial when an effect was exercised and at least one metadata action was made. " +
			"delay-lowmax (4 configurations per case): DelayOnError with 0 <= MaxInterval < InitialInterval, which delay-seq and the chain classes never generate: MaxInterval == 0, the field left unset (50%), uniform in (0, Initial) (30%), Initial-1ns (10%), both intervals 0 (10%); real-valued Multiplier in [1,3]. " +
			"Consecutive failures of one message come from redelivery (60%: 6..16 calls of DelayOnError>handler, 80% failing, same object / Copy() / new message carrying the metadata) or from Retry>DelayOnError>handler (40%: MaxRetries 1..5, 2..5 calls, the handler fails its first f attempts and records the delay metadata it sees on entry of every attempt; a call that fails altogether is redelivered and continues the count). " +
			"Judged: after the k-th consecutive failure, k >= 2, the delay is min(Initial*Mult^(k-1),Max) = MaxInterval (delay-value; 0s when the field is unset); successes leave the metadata untouched (delay-untouched); outputs, error, attempt count unchanged (outputs-identity, error-identity, retry-attempts). " +
			"For k = 1 the statement (min(Initial,Max) = Max) and the godoc ('InitialInterval is the first interval between retries') differ when Max < Initial; both values are accepted and counted (lowmax_first_is_max / lowmax_first_is_initial), anything else is a delay-value violation. " +
			"Counters lowmax_cfg_<shape>, lowmax_zero_cap_checked (failures k >= 2 judged against a cap of 0). A delay-lowmax case is non-trivial when some message failed at least twice in a row. " +
			"A case is non-trivial when at least one documented effect was exercised (id copied, panic recovered, error ignored, ack-at-start seen, deadline seen, delay applied, retry made, rate wait seen); " +
			"distinct = distinct (chains, parameters, script shapes, observed results) hashes.",
		Assumptions: []string{
			"IgnoreErrors: 'listed' = the text of the error's pkg/errors Cause (Cause() methods only) equals the text of a list entry, as the unchanged source decides it; in all but the errshapes classes %w wrappers around listed errors are not generated",
			"errshapes classes: list entries are plain errors without a Cause method (a listed error that is itself a pkg/errors wrapper is never matched by the source's rule; not generated); errors of a Cause()-capable type whose Cause() returns nil are not generated " +
				"(the pinned IgnoreErrors dereferenced the nil Cause: fixed in ff39474; class errshapes/nil-cause, clause ignore-nil-cause); Cause chains are finite; Error methods do not panic",
			"DelayOnError configurations have InitialInterval <= MaxInterval and InitialInterval >= 100ms (so ns truncation stays far below 1 ppm) in all classes but delay-lowmax; after a success the next message is a fresh one",
			"delay-lowmax: 0 <= MaxInterval < InitialInterval (or both 0); negative intervals are not generated; the delay after the FIRST failure is accepted as InitialInterval (godoc) or min(Initial, Max) (statement), see Rule",
			"Timeouts that may expire (2..6 ms, handler waits for the deadline) are only generated when no Timeout is outside a Retry; all other Timeouts are >= 1 min",
			"the circuit breaker stays closed (default settings up to 5 handler calls, otherwise ReadyToTrip=never); a state change makes the case inconclusive",
			"Throttle: only lower bounds on start times are judged (no upper bounds on durations); the reference for 'configured rate' is the time.Ticker the middleware documents itself with (one start per duration/count, at most one tick saved while idle); a clock-read-to-channel-send gap inside one runtime timer firing of more than one period, twice within one window, is assumed not to happen",
			"ctx-replace: every context the handler / UserMW installs stays live while the chain runs (own cancel funcs are invoked only after the verdict; own deadlines are 3 h away), so a done message context after the call is the middleware's doing; " +
				"handlers that cancel their own context and leave it on the message are not generated; handlers in these classes never wait for the Timeout deadline (all Timeouts >= 1 min)",
			"outputs are compared by pointer identity and order, errors by identity (==; values of non-comparable dynamic types by type and deep equality); nil vs. empty output slices are not distinguished",
			"values classes: matching against an IgnoreErrors list is by the text of the pkg/errors Cause for the unusual error types too (their texts are fixed per type); %w / errors.Join wrappers are only generated around errors that are never listed, except a Join of exactly one listed error (it has the listed text and is the listed error for errors.Is, so both readings agree); errors whose Error method panics are not generated",
			"in-meta classes: 'the correlation id' that CorrelationID copies is the id the consumed message carries when the inner call has returned. Reading of the godoc: 'CorrelationID adds correlation ID to all messages produced by the handler. ID is based on ID from message received by handler. " +
				"To make CorrelationID working correctly, SetCorrelationID must be called to first message entering the system' and 'SetCorrelationID should be called when the message enters the system': the code that calls SetCorrelationID on a message entering the system is a handler (or a middleware in front of it) that has received a message without an id, " +
				"i.e. it runs inside the CorrelationID middleware, which the router wraps around every handler; the outputs exist only when that code has returned, and the id of 'the message received by the handler' at that moment is the one it carries then. The unchanged source reads the id after h(message) in every composition generated (checked: all in-meta classes are silent on it). " +
				"The same reading decides the rewritten and the removed id: the outputs get the id the message carries at return (the new one; none when it was removed or cleared), as the unchanged source does; metadata actions never touch the delay keys, never set msg.Metadata to nil, and are made by the goroutine that runs the chain (no concurrent writers)",
			"concurrent classes: the calls in flight never share a message; the circuit breaker never trips (ReadyToTrip=never); all Timeouts >= 1 min and no handler waits for a deadline; no UserMW layers / context replacement",
		},
		// concurrent classes: two calls in flight of one wrapped handler share nothing but the middleware itself; a race
		// report with a middleware frame means the outputs / error of one call can end up in the other
		RaceIsViolation: true,
		Run:             run,
	})
}

func run(e *vlib.Env) vlib.Result {
	l := layoutFor(e.Tier)
	i := e.Idx
	if i < l.nSingle {
		return runSingle(e, kind(i/l.singlePerKind), i%l.singlePerKind)
	}
	i -= l.nSingle
	if i < l.nEnum {
		return runEnum(e, i, l.scriptsPerChain)
	}
	i -= l.nEnum
	if i < l.nRandom {
		return runRandom(e)
	}
	i -= l.nRandom
	if i < l.nDelay {
		return runDelaySeq(e)
	}
	i -= l.nDelay
	if i < l.nThrottle {
		return runThrottle(e)
	}
	i -= l.nThrottle
	if i < l.nArrivals {
		return runThrottleArrivals(e)
	}
	i -= l.nArrivals
	if i < l.nCtxSingle {
		return runCtxSingle(e, kind(i/l.ctxPerKind), l.ctxScriptsSingle)
	}
	i -= l.nCtxSingle
	if i < l.nCtxEnum {
		return runCtxEnum(e, i, l.ctxScriptsChain)
	}
	i -= l.nCtxEnum
	if i < l.nCtxRandom {
		return runCtxRandom(e)
	}
	i -= l.nCtxRandom
	if i < l.nValSingle {
		return runValSingle(e, kind(i/l.valPerKind))
	}
	i -= l.nValSingle
	if i < l.nValEnum {
		return runValEnum(e, i, l.valScriptsChain)
	}
	i -= l.nValEnum
	if i < l.nConcSingle {
		return runConcSingle(e, kind(i/l.concPerKind), l.concRounds)
	}
	i -= l.nConcSingle
	if i < l.nConcChain {
		return runConcChain(e, l.concRounds)
	}
	i -= l.nConcChain
	if i < l.nErrSingle {
		return runErrSingle(e)
	}
	i -= l.nErrSingle
	if i < l.nErrCompose {
		return runErrCompose(e, l.errScriptsCompose)
	}
	i -= l.nErrCompose
	if i < l.nErrEnum {
		return runErrEnum(e, i, l.errScriptsChain)
	}
	i -= l.nErrEnum
	if i < l.nErrNilCause {
		return runErrNilCause(e)
	}
	i -= l.nErrNilCause
	if i < l.nMetaCorr {
		return runMetaCorr(e, l.metaScriptsCorr)
	}
	i -= l.nMetaCorr
	if i < l.nMetaSingle {
		return runMetaSingle(e, kind(i/l.metaPerKind), l.metaScriptsSingle)
	}
	i -= l.nMetaSingle
	if i < l.nMetaEnum {
		return runMetaEnum(e, i, l.metaScriptsChain)
	}
	i -= l.nMetaEnum
	if i < l.nMetaRandom {
		return runMetaRandom(e)
	}
	return runDelayLowMax(e)
}
