// Package c19 checks property C19: the simple middlewares (Timeout, CorrelationID, Recoverer,
// IgnoreErrors, InstantAck, Throttle, DelayOnError, closed CircuitBreaker) change only what they
// document and only during the call, and therefore compose with Retry without changing its
// attempt count.
//
// Technique: the REAL middleware chain is wrapped around a scripted handler and every execution is
// judged against a small compositional reference model of the documented effects (chain.go); two
// dedicated workloads cover DelayOnError's closed form (delay.go) and Throttle's rate (throttle.go).
package c19

import (
	"fmt"

	"verifharness/vlib"
)

// Case layout (fixed per tier):
//
//	[0, nSingle)          single/<kind>   one middleware alone, many handler scripts
//	[.., +nEnum)          chain/k[+retry] every ordered selection of 1..3 distinct simple middlewares,
//	                                       without Retry and with Retry at every position (1928 chains, 8 per case)
//	[.., +nRandom)        random          chains with repetition allowed and up to two Retry layers
//	[.., +nDelay)         delay-seq       DelayOnError alone over failure/success sequences, closed form
//	[.., +nThrottle)      throttle        Throttle alone: start times vs. the configured rate, backlog from creation on
//	[.., +nArrivals)      throttle-arrivals  Throttle alone: backlogs arriving after idle / under-used phases
//	[.., +nCtxSingle)     ctx-replace/<kind>  one middleware alone / with Retry / with a user middleware; the handler and the
//	                                       user middleware replace the message context during the call (ctxrepl.go)
//	[.., +nCtxEnum)       ctx-replace/chain/k[+retry]  the 1928 enumerated chains again, with context replacement and 0..2 user middlewares
//	[.., +nCtxRandom)     ctx-replace/random  chains with repetition (nested Timeouts), up to two Retry layers, 0..2 user middlewares
const (
	chainsPerCase  = 8
	singleKinds    = 8
	scriptsPerCase = 60 // single class
)

type layout struct {
	nSingle, nEnum, nRandom, nDelay, nThrottle, nArrivals int
	singlePerKind                                         int
	scriptsPerChain                                       int

	nCtxSingle, nCtxEnum, nCtxRandom int
	ctxPerKind                       int // cases per kind in ctx-replace/<kind>
	ctxScriptsSingle                 int // scripts per shape in ctx-replace/<kind>
	ctxScriptsChain                  int // scripts (each with its own user-middleware placement) per enumerated chain
}

func layoutFor(tier string) layout {
	l := layout{
		singlePerKind:   vlib.TierN(tier, 3, 30),
		nEnum:           len(enumChains) / chainsPerCase,
		nRandom:         vlib.TierN(tier, 96, 16000),
		nDelay:          vlib.TierN(tier, 96, 16000),
		nThrottle:       vlib.TierN(tier, 48, 320),
		nArrivals:       vlib.TierN(tier, 96, 960),
		scriptsPerChain: vlib.TierN(tier, 8, 240),

		nCtxEnum:         len(enumChains) / chainsPerCase,
		nCtxRandom:       vlib.TierN(tier, 96, 8000),
		ctxPerKind:       vlib.TierN(tier, 3, 30),
		ctxScriptsSingle: vlib.TierN(tier, 10, 30),
		ctxScriptsChain:  vlib.TierN(tier, 6, 120),
	}
	l.nSingle = singleKinds * l.singlePerKind
	l.nCtxSingle = singleKinds * l.ctxPerKind
	return l
}

func (l layout) total() int {
	return l.nSingle + l.nEnum + l.nRandom + l.nDelay + l.nThrottle + l.nArrivals + l.nCtxSingle + l.nCtxEnum + l.nCtxRandom
}

func init() {
	if len(enumChains)%chainsPerCase != 0 {
		panic(fmt.Sprintf("c19: %d enumerated chains not divisible by %d", len(enumChains), chainsPerCase))
	}
	vlib.Register(&vlib.Prop{
		ID:    "C19",
		Level: "exploration",
		Cases: func(tier string) int { return layoutFor(tier).total() },
		Rule: "chain classes: the real middleware chain around a scripted handler (per call: outputs with/without correlation id, " +
			"plain / pkg-errors-wrapped / %w-wrapped / sentinel / custom errors, panics with nil, string, int, error, struct, slice, pointer, typed-nil and runtime-error values, " +
			"or a wait for the Timeout deadline) is judged against a compositional reference model of the documented effects. " +
			"single/<kind>: each of the 8 simple middlewares alone, 60 scripts per case; chain/k[+retry]: EVERY ordered selection of 1..3 distinct simple middlewares " +
			"without Retry and with Retry at every position (1928 chains, each with 8 (quick) / 240 (thorough) random scripts and parameter draws); " +
			"random: chains of 1..3 simple middlewares with repetition plus 0..2 Retry layers. " +
			"delay-seq: DelayOnError alone, real-valued Multiplier in [1,3], failure/success sequences over redelivered messages, closed form min(Initial*Mult^(k-1),Max) within 1 ppm. " +
			"throttle: periods 10..20 ms, 8..16 starts from 1..3 goroutines sharing one Throttle, backlog from creation on (30%: one pause of 3 periods); " +
			"throttle-arrivals: periods 2..8 ms, count 1..100, 1..3 arrival groups one after another, each a backlog of 6..14 messages arriving at once on 1, 2..4 or one-per-message goroutines sharing the Throttle, " +
			"preceded by nothing (backlog from creation), an idle phase of 3..14 periods, or a trickle of 3..6 single messages 2..3 periods apart (traffic below the rate). " +
			"Both throttle classes record per call the bracket [invoked, handler started] and judge: start i (1-based) must not precede creation+i*period (throttle-rate); " +
			"M >= 5 starts that provably all happened inside one window need more than (M-4) periods (throttle-burst: a time.Ticker saves at most one tick, (M-3) periods is attained by correct code with a late tick, one period of tolerance). " +
			"ctx-replace classes: the same chain oracle, but code inside the middlewares replaces the message context during the call with msg.SetContext: each handler call (88%) and each UserMW layer " +
			"(a harness-written middleware, as the CQRS processors do; 35% put the context they saw back afterwards in a defer) installs a context derived from the current one with a value, with its own cancel func, with its own far deadline (3 h), " +
			"an unrelated context (Background-rooted, with/without a 3 h deadline), the same context again, or (handler) a derived one that it sets back before returning; also right before a panic. " +
			"ctx-replace/<kind>: each simple middleware k as [k], [Retry>k], [k>Retry], [UserMW>k], [k>UserMW], [Retry>k>UserMW], [Retry>UserMW>k], [UserMW>Retry>k], 10 (quick) / 30 (thorough) scripts each; " +
			"ctx-replace/chain/k[+retry]: the 1928 enumerated chains again, 6 (quick) / 120 (thorough) scripts each, every script with its own placement of 0..2 UserMW layers; " +
			"ctx-replace/random: chains with repetition (40% Timeout per slot, so nested Timeouts), 0..2 Retry layers, 0..2 UserMW layers. " +
			"The model tracks the lineage of the message context symbolically (caller's context, Timeout layers, installed contexts) and judges: after the chain msg.Context().Err()==nil and Retry's attempt count as without the middlewares (timeout-ctx-after / ctx-after / retry-attempts), " +
			"no Timeout deadline left on the message, values of the caller's and of the installed contexts still visible during later calls and afterwards (ctx-transparency), a Timeout deadline visible in a handler call iff a Timeout layer lies between the last unrelated replacement and the handler. " +
			"When inner code leaves an UNRELATED context of its own on the message under a Timeout, the statement does not say whether Timeout may put the caller's context back; from then on only 'not cancelled', 'no Timeout deadline left' and the attempt count are judged (counter ctx_unrelated_left_under_timeout). " +
			"A ctx-replace case is non-trivial when a documented effect was exercised and at least one replacement was made. " +
			"A case is non-trivial when at least one documented effect was exercised (id copied, panic recovered, error ignored, ack-at-start seen, deadline seen, delay applied, retry made, rate wait seen); " +
			"distinct = distinct (chains, parameters, script shapes, observed results) hashes.",
		Assumptions: []string{
			"IgnoreErrors follows the documented pkg/errors Cause rule; %w wrappers around listed errors are not generated",
			"DelayOnError configurations have InitialInterval <= MaxInterval and InitialInterval >= 100ms (so ns truncation stays far below 1 ppm); after a success the next message is a fresh one",
			"Timeouts that may expire (2..6 ms, handler waits for the deadline) are only generated when no Timeout is outside a Retry; all other Timeouts are >= 1 min",
			"the circuit breaker stays closed (default settings up to 5 handler calls, otherwise ReadyToTrip=never); a state change makes the case inconclusive",
			"Throttle: only lower bounds on start times are judged (no upper bounds on durations); the reference for 'configured rate' is the time.Ticker the middleware documents itself with (one start per duration/count, at most one tick saved while idle); a clock-read-to-channel-send gap inside one runtime timer firing of more than one period, twice within one window, is assumed not to happen",
			"ctx-replace: every context the handler / UserMW installs stays live while the chain runs (own cancel funcs are invoked only after the verdict; own deadlines are 3 h away), so a done message context after the call is the middleware's doing; " +
				"handlers that cancel their own context and leave it on the message are not generated; handlers in these classes never wait for the Timeout deadline (all Timeouts >= 1 min)",
			"outputs are compared by pointer identity and order, errors by identity (==); nil vs. empty output slices are not distinguished",
		},
		Run: run,
	})
}

func run(e *vlib.Env) vlib.Result {
	l := layoutFor(e.Tier)
	i := e.Idx
	if i < l.nSingle {
		return runSingle(e, kind(i/l.singlePerKind), i%l.singlePerKind)
	}
	i -= l.nSingle
	if i < l.nEnum {
		return runEnum(e, i, l.scriptsPerChain)
	}
	i -= l.nEnum
	if i < l.nRandom {
		return runRandom(e)
	}
	i -= l.nRandom
	if i < l.nDelay {
		return runDelaySeq(e)
	}
	i -= l.nDelay
	if i < l.nThrottle {
		return runThrottle(e)
	}
	i -= l.nThrottle
	if i < l.nArrivals {
		return runThrottleArrivals(e)
	}
	i -= l.nArrivals
	if i < l.nCtxSingle {
		return runCtxSingle(e, kind(i/l.ctxPerKind), l.ctxScriptsSingle)
	}
	i -= l.nCtxSingle
	if i < l.nCtxEnum {
		return runCtxEnum(e, i, l.ctxScriptsChain)
	}
	return runCtxRandom(e)
}
