package c19

import (
	"errors"
	"fmt"
	"math"
	"time"

	"github.com/ThreeDotsLabs/watermill/components/delay"
	"github.com/ThreeDotsLabs/watermill/message"
	"github.com/ThreeDotsLabs/watermill/message/router/middleware"

	"verifharness/vlib"
)

// runDelaySeq: DelayOnError alone over failure/success sequences.
//
// A "lineage" is one logical message being redelivered after each failure (same object, Copy(), or a
// new message carrying the metadata, as a delay-aware Pub/Sub would hand it back). After the k-th
// consecutive failure of a lineage the metadata must say min(Initial x Mult^(k-1), Max) (closed
// form, 1 ppm); a success must leave the metadata untouched and ends the lineage.
func runDelaySeq(e *vlib.Env) vlib.Result {
	res := vlib.Result{Class: "delay-seq"}
	r := e.R
	var sigParts []any
	var samples []map[string]any
	maxK := 0
	for c := 0; c < 4; c++ {
		ini, max, mult := genDelayCfg(r)
		d := &middleware.DelayOnError{InitialInterval: ini, MaxInterval: max, Multiplier: mult}
		cfg := fmt.Sprintf("DelayOnError{Initial:%v Max:%v Multiplier:%v}", ini, max, mult)
		var wantOuts []*message.Message
		var wantErr error
		h := d.Middleware(func(*message.Message) ([]*message.Message, error) { return wantOuts, wantErr })
		n := r.Range(8, 24)
		lineage := 0
		newMsg := func() *message.Message {
			lineage++
			m := message.NewMessage(fmt.Sprintf("%s-d%d.%d", e.ID(), c, lineage), r.Payload(8))
			m.Metadata.Set("other", r.UTF8(5))
			return m
		}
		msg := newMsg()
		k := 0
		var trace []string
		for i := 0; i < n; i++ {
			failing := r.Chance(0.72)
			wantOuts = nil
			for j := r.Intn(3); j > 0; j-- {
				wantOuts = append(wantOuts, message.NewMessage(fmt.Sprintf("%s-do%d.%d.%d", e.ID(), c, i, j), nil))
			}
			wantErr = nil
			if failing {
				wantErr = errors.New("fail")
				if r.Bool() {
					wantErr = fmt.Errorf("wrapped: %w", wantErr)
				}
			}
			before := vlib.Snap(msg)
			outs, err := h(msg)
			res.Events++
			ctxt := func() string {
				return fmt.Sprintf("%s, lineage %d, sequence so far [%s]", cfg, lineage, joinTrace(trace))
			}
			if err != wantErr {
				res.Fail("error-identity", "DelayOnError returned error %v, handler returned %v | %s", err, wantErr, ctxt())
				return res
			}
			same := len(outs) == len(wantOuts)
			for j := 0; same && j < len(outs); j++ {
				same = outs[j] == wantOuts[j]
			}
			if !same {
				res.Fail("outputs-identity", "DelayOnError changed the handler outputs | %s", ctxt())
				return res
			}
			if msg.UUID != before.UUID || string(msg.Payload) != string(before.Payload) || msg.Metadata["other"] != before.Metadata["other"] || vlib.Settled(msg) != "" {
				res.Fail("input-mutated", "DelayOnError changed the message beyond the delay metadata | %s", ctxt())
				return res
			}
			if !failing {
				trace = append(trace, "S")
				if !before.SameValue(msg) {
					res.Fail("delay-untouched", "a successful call changed the metadata: before %v after %v | %s", before.Metadata, msg.Metadata, ctxt())
					return res
				}
				res.Count("successes", 1)
				msg = newMsg()
				k = 0
				continue
			}
			k++
			if k > maxK {
				maxK = k
			}
			want := math.Min(float64(ini)*math.Pow(mult, float64(k-1)), float64(max))
			gotStr, ok := msg.Metadata[delay.DelayedForKey]
			got, perr := time.ParseDuration(gotStr)
			trace = append(trace, fmt.Sprintf("F%d=%s", k, gotStr))
			if !ok || perr != nil {
				res.Fail("delay-value", "after failure #%d the metadata %s is %q (present=%v) | %s", k, delay.DelayedForKey, gotStr, ok, ctxt())
				return res
			}
			if _, ok := msg.Metadata[delay.DelayedUntilKey]; !ok {
				res.Fail("delay-value", "after failure #%d the metadata %s is missing | %s", k, delay.DelayedUntilKey, ctxt())
				return res
			}
			tol := want*1e-6 + 2
			if diff := float64(got) - want; diff > tol || diff < -tol {
				res.Fail("delay-value", "after consecutive failure #%d: %s = %v, documented min(Initial x Multiplier^(k-1), MaxInterval) = %v | %s",
					k, delay.DelayedForKey, got, time.Duration(want), ctxt())
				res.Witness = map[string]any{"config": cfg, "k": k, "got": got.String(), "want": time.Duration(want).String(), "sequence": trace}
				return res
			}
			res.Count("failures_checked", 1)
			if want >= float64(max) {
				res.Count("capped", 1)
			}
			// redelivery
			switch r.Intn(3) {
			case 0: // same object
			case 1:
				msg = msg.Copy()
			default:
				nm := message.NewMessage(msg.UUID, msg.Payload)
				for key, v := range msg.Metadata {
					nm.Metadata.Set(key, v)
				}
				msg = nm
			}
		}
		sigParts = append(sigParts, cfg, joinTrace(trace))
		if len(samples) < 2 {
			samples = append(samples, map[string]any{"config": cfg, "sequence": trace})
		}
	}
	res.NonTrivial = maxK >= 2
	res.Count("max_consecutive_failures", maxK)
	res.Sig = vlib.Sig(sigParts...)
	res.Sample = samples
	return res
}

func joinTrace(t []string) string {
	s := ""
	for i, x := range t {
		if i > 0 {
			s += " "
		}
		s += x
	}
	return s
}
