package c19

import (
	"fmt"
	"sync"

	"github.com/ThreeDotsLabs/watermill/message"

	"verifharness/vlib"
)

// concurrent classes: ONE wrapped handler (the chain is built once per case, as router.AddMiddleware /
// handler.AddMiddleware do), called by several goroutines at the same time with different messages - the router
// runs one goroutine per message in flight. Every call must get exactly its own outputs / error / panic value and
// its own message's effects (correlation id, delay metadata, ack, context and deadline): each message is judged
// by the same oracle as in the sequential classes, against its own model.
//
// Schedule of one round (N = 2..6 messages, fresh ones every round):
//
//	start barrier      all N goroutines are released together
//	handler barrier    chains without Retry: every call parks inside the handler, result ready, until all N
//	                   handlers are in flight; then all are released and yield 0..3 times before returning
//	breaker barrier    chains without Retry: every CircuitBreaker layer's Settings.IsSuccessful (called by gobreaker
//	                   after the handler returned, before the result is booked and handed back) parks until all
//	                   calls that get there have got there: "all handlers returned, no middleware returned yet"
//
// With Retry in the chain the number of handler calls differs per message; then there are no barriers inside the
// calls, only the common start and the yields. Every barrier wait is conditional (arrived, or the process is
// quiescent, or watchdog): a barrier that cannot fill up is released and counted, never waited for.
type sharedEnv struct {
	note string

	mu       sync.Mutex
	byMsg    map[*message.Message]*prep
	inH      *barrier         // nil: no handler barrier this round
	afterH   map[int]*barrier // per CircuitBreaker layer index
	rr       *realRun         // receives the shared chain's OnStateChange / OnRetryHook notifications
	fallback int
}

type barrier struct {
	mu      sync.Mutex
	arrived int
	gate    chan struct{}
}

func newBarrier() *barrier { return &barrier{gate: make(chan struct{})} }

func (b *barrier) arrive() {
	b.mu.Lock()
	b.arrived++
	b.mu.Unlock()
	<-b.gate
}

func (b *barrier) count() int {
	b.mu.Lock()
	defer b.mu.Unlock()
	return b.arrived
}

func (sh *sharedEnv) breakerChanges() int {
	sh.rr.mu.Lock()
	defer sh.rr.mu.Unlock()
	return sh.rr.breakerCh
}

// dispatch is the handler at the bottom of the shared chain: the script of the message it is called with.
func (sh *sharedEnv) dispatch(msg *message.Message) ([]*message.Message, error) {
	sh.mu.Lock()
	p := sh.byMsg[msg]
	sh.mu.Unlock()
	if p == nil {
		// a message the harness never sent
		panic(fmt.Sprintf("c19: handler called with an unknown message %p", msg))
	}
	return p.handle(msg)
}

func (sh *sharedEnv) inHandler(first, willPanic bool) {
	sh.mu.Lock()
	b := sh.inH
	sh.mu.Unlock()
	if b != nil && first {
		b.arrive()
	}
}

func (sh *sharedEnv) afterHandler(layer int) {
	sh.mu.Lock()
	b := sh.afterH[layer]
	sh.mu.Unlock()
	if b != nil {
		b.arrive()
	}
}

// runConcurrent: one chain, `rounds` rounds of N concurrent calls.
func runConcurrent(e *vlib.Env, class string, shape chainShape, rounds int) vlib.Result {
	res := vlib.Result{Class: class}
	r := e.R
	valMode := r.Chance(0.4)
	sh := &sharedEnv{rr: &realRun{}}
	sc0 := genScenarioOpts(r, e.ID()+".cfg", shape, genOpts{noWait: true, valMode: valMode})
	sc0.shared = sh
	hasRetry := shape.has(kRetry)
	sh.note = "CONCURRENT: one wrapped handler, several calls in flight with different messages"
	chainFn, cleanup, pv := sc0.buildSafe(sh.dispatch, sh.rr)
	defer cleanup()
	if chainFn == nil {
		res.Fail("middleware-construct", "building the chain panicked with %#v | %s", pv, sc0.describe())
		res.NonTrivial = true
		return res
	}
	var sigParts []any
	var samples []map[string]any
	effTotal := map[string]int{}
	calls, overlaps, fullRounds := 0, 0, 0
	sigParts = append(sigParts, sc0.chainStr())
	opts := waitOpts()
	for round := 0; round < rounds; round++ {
		n := r.Range(2, 6)
		preps := make([]*prep, n)
		byMsg := map[*message.Message]*prep{}
		panics := 0
		for k := range preps {
			sc := genScenarioOpts(r, fmt.Sprintf("%s.r%d.m%d", e.ID(), round, k), shape, genOpts{noWait: true, valMode: valMode, layers: sc0.chain})
			sc.shared = sh
			sc.yields = r.Intn(4)
			p := newPrep(sc)
			defer p.release()
			preps[k] = p
			byMsg[p.in] = p
			if sc.script[0].Kind == "panic" {
				panics++
			}
		}
		// barriers of this round
		var order []int // CircuitBreaker layers, innermost first
		sh.mu.Lock()
		sh.byMsg = byMsg
		sh.inH, sh.afterH = nil, map[int]*barrier{}
		if !hasRetry {
			sh.inH = newBarrier()
			for i := len(sc0.chain) - 1; i >= 0; i-- {
				if sc0.chain[i].K == kBreaker {
					sh.afterH[i] = newBarrier()
					order = append(order, i)
				}
			}
		}
		inH, afterH := sh.inH, sh.afterH
		sh.mu.Unlock()

		start := make(chan struct{})
		for _, p := range preps {
			p := p
			go func() {
				<-start
				p.exec(chainFn)
			}()
		}
		close(start)
		allDone := func() bool {
			for _, p := range preps {
				if !vlib.IsClosed(p.done) {
					return false
				}
			}
			return true
		}
		// The barriers only steer the schedule; the verdicts do not depend on whether they filled up.
		waitFor := func(b *barrier, want int) {
			oc, _ := vlib.WaitUntil(func() bool { return b.count() >= want || allDone() }, opts)
			if oc != vlib.Done || b.count() < want {
				sh.fallback++
			}
			close(b.gate)
		}
		if inH != nil {
			waitFor(inH, n)
			if inH.count() == n {
				overlaps += n
				fullRounds++
			}
			for _, li := range order {
				// calls whose handler panics get to IsSuccessful only when a Recoverer below turned the panic into an error
				want := n
				recovBelow := false
				for _, l := range sc0.chain[li+1:] {
					if l.K == kRecov {
						recovBelow = true
					}
				}
				if !recovBelow {
					want = n - panics
				}
				waitFor(afterH[li], want)
			}
		}
		oc, dump := vlib.WaitUntil(allDone, opts)
		for k, p := range preps {
			poc := oc
			if vlib.IsClosed(p.done) {
				poc = vlib.Done // this call did return
			}
			st := p.judge(&res, poc, dump)
			calls++
			res.Events += st.events
			for name, v := range st.eff {
				effTotal[name] += v
			}
			sigParts = append(sigParts, p.sc.scriptStr(), st.calls, st.result)
			if (round == 0 && k < 3) || res.Failed() {
				samples = append(samples, map[string]any{"chain": p.sc.chainStr(), "script": p.sc.scriptStr(), "handler_calls": st.calls, "result": st.result, "round": round, "in_flight": n})
			}
			if res.Failed() || res.Verdict == vlib.Inconcl {
				break
			}
		}
		if res.Failed() || res.Verdict == vlib.Inconcl {
			res.Sample = samples
			res.NonTrivial = true
			res.Sig = vlib.Sig(sigParts...)
			return res
		}
	}
	eff := 0
	for k, v := range effTotal {
		res.Count("effect_"+k, v)
		eff += v
	}
	res.Count("concurrent_rounds", rounds)
	res.Count("concurrent_calls", calls)
	res.Count("concurrent_calls_all_handlers_in_flight", overlaps)
	res.Count("concurrent_rounds_all_in_flight", fullRounds)
	res.Count("concurrent_barrier_released_unfilled", sh.fallback)
	res.NonTrivial = eff > 0 && (hasRetry || fullRounds > 0)
	res.Sig = vlib.Sig(sigParts...)
	res.Sample = samples
	return res
}

func runConcSingle(e *vlib.Env, k kind, rounds int) vlib.Result {
	return runConcurrent(e, "concurrent/"+kindName[k], chainShape{k}, rounds)
}

// runConcChain: 2..3 distinct simple middlewares, 35% with one Retry layer somewhere.
func runConcChain(e *vlib.Env, rounds int) vlib.Result {
	perm := e.R.Perm(int(kThrottle) + 1)
	var s chainShape
	for _, k := range perm[:e.R.Range(2, 3)] {
		s = append(s, kind(k))
	}
	class := "concurrent/chain"
	if e.R.Chance(0.35) {
		pos := e.R.Intn(len(s) + 1)
		s = append(s[:pos], append(chainShape{kRetry}, s[pos:]...)...)
		class = "concurrent/chain+retry"
	}
	return runConcurrent(e, class, s, rounds)
}
