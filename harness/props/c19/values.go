package c19

import (
	"errors"
	"fmt"

	"github.com/ThreeDotsLabs/watermill/message"
	pkgerrors "github.com/pkg/errors"

	"verifharness/vlib"
)

// values classes: handler results with unusual but legal Go values.
//
// Errors whose DYNAMIC type is not comparable (== between two of them and using one as a map key panic at run
// time): a slice type (go-playground/validator's ValidationErrors is one), a map type (ozzo-validation's Errors),
// a struct with a slice field returned by value, a struct whose interface field holds a slice (statically
// comparable, panics only at run time). Plus: pointers to and pkg/errors / %w wrappers around them, errors.Join
// values, a nil-valued typed error with a nil-safe Error method (a non-nil error as far as Go is concerned).
// Errors whose Error method panics are out of scope.
//
// The texts are fixed per type so that such errors can be put on an IgnoreErrors list (matching is by the text
// of the Cause, as for every other error); the contents are unique per value so that "the same value came back"
// can be decided by deep equality.

type ncSliceErr []string

func (ncSliceErr) Error() string { return "c19-nc-slice" }

type ncMapErr map[string]error

func (ncMapErr) Error() string { return "c19-nc-map" }

type ncStructErr struct {
	Code   int
	Fields []string
}

func (ncStructErr) Error() string { return "c19-nc-struct" }

// ncIfaceErr is comparable as far as the type system and reflect.Type.Comparable are concerned; comparing or
// hashing a value whose Detail holds a slice panics at run time. Never on an IgnoreErrors list.
type ncIfaceErr struct {
	Detail any
}

func (ncIfaceErr) Error() string { return "c19-nc-iface" }

type nilSafeErr struct{ n int }

func (e *nilSafeErr) Error() string {
	if e == nil {
		return "c19-typed-nil"
	}
	return fmt.Sprintf("c19-nilsafe-%d", e.n)
}

// pvNC: a panic value (not an error) of a non-comparable type.
type pvNC struct {
	Tag  string
	List []int
}

type valPool struct {
	slice  ncSliceErr
	mp     ncMapErr
	strct  ncStructErr
	iface  ncIfaceErr
	serial int
	id     string
}

// newValPool: one value of each kind per scenario; steps reuse them (so a middleware that compares the error
// with the previous attempt's error meets two values of the same non-comparable type).
func newValPool(r *vlib.Rand, id string) *valPool {
	return &valPool{
		id:    id,
		slice: ncSliceErr{id + "/s", fmt.Sprint(r.Intn(1000))},
		mp:    ncMapErr{id + "/m": errors.New("field"), fmt.Sprint(r.Intn(1000)): nil},
		strct: ncStructErr{Code: r.Intn(1000), Fields: []string{id + "/f"}},
		iface: ncIfaceErr{Detail: []string{id + "/i", fmt.Sprint(r.Intn(1000))}},
	}
}

// listable: one or two errors of unusual types for an IgnoreErrors list.
func (p *valPool) listable(r *vlib.Rand) []error {
	all := []error{p.slice, p.mp, p.strct, (*nilSafeErr)(nil)}
	perm := r.Perm(len(all))
	var out []error
	for _, j := range perm[:r.Range(1, 2)] {
		out = append(out, all[j])
	}
	return out
}

func (p *valPool) nc(r *vlib.Rand) (error, string) {
	switch r.Intn(4) {
	case 0:
		return p.slice, "ncSlice"
	case 1:
		return p.mp, "ncMap"
	case 2:
		return p.strct, "ncStruct"
	}
	return p.iface, "ncIface"
}

// genErrVal: an error of the values classes. %w / Join wrappers are only put around errors that are never on an
// IgnoreErrors list (bases 4..5, ncIface) here; every wrapper shape around listed errors is the subject of the
// errshapes classes (errshape.go).
func genErrVal(r *vlib.Rand, bases []error, p *valPool) (error, string) {
	u := 4 + r.Intn(2)
	switch r.Intn(12) {
	case 0, 1, 2, 3:
		e, d := p.nc(r)
		return e, d + "(by value)"
	case 4:
		e, d := p.nc(r)
		return pkgerrors.Wrap(e, "wrap"), "pkgWrap(" + d + ")"
	case 5:
		return fmt.Errorf("fmtw: %w", error(p.iface)), "fmt%w(ncIface)"
	case 6:
		return errors.Join(bases[u], bases[9-u]), "errors.Join(u,u')"
	case 7:
		j := r.Intn(4)
		// a Join of one error has that error's text: matched like the error itself under the Cause rule
		return errors.Join(bases[j]), fmt.Sprintf("errors.Join(%s)", bases[j])
	case 8:
		return errors.Join(p.iface, bases[u]), "errors.Join(ncIface,u)"
	case 9:
		return (*nilSafeErr)(nil), "typed-nil(*nilSafeErr)"
	case 10:
		p.serial++
		return &nilSafeErr{n: p.serial}, "ptr(nilSafeErr)"
	default:
		s := p.strct
		return &s, "ptr(ncStruct)"
	}
}

func genPanicVal(r *vlib.Rand, bases []error, p *valPool) (any, string) {
	switch r.Intn(9) {
	case 0:
		return map[string]int{p.id: r.Intn(100)}, "map"
	case 1:
		return pvNC{Tag: p.id, List: []int{r.Intn(100)}}, "struct-with-slice"
	case 2:
		e, d := p.nc(r)
		return e, "error:" + d
	case 3:
		return errors.Join(bases[r.Intn(len(bases))], bases[4]), "error:errors.Join"
	case 4:
		return (*nilSafeErr)(nil), "error:typed-nil"
	case 5:
		return pkgerrors.Wrap(bases[r.Intn(len(bases))], "panic-wrap"), "error:pkgWrap"
	case 6:
		return []error{bases[0], p.slice}, "slice-of-errors"
	case 7:
		return [1][]string{{p.id}}, "array-of-slices"
	default:
		return nil, "nil"
	}
}

// valOuts: outputs slices that are nil / empty but non-nil / contain the consumed message.
func valOuts(r *vlib.Rand, st *step) {
	if len(st.outs) == 0 && r.Bool() {
		st.outs = []*message.Message{}
	}
	if r.Chance(0.3) {
		st.echo, st.echoPos = true, r.Intn(len(st.outs)+1)
	}
}

// valStats: what unusual values the handler script of a scenario holds (counters of the values classes).
func valStats(sc *scenario) map[string]int {
	n := map[string]int{}
	for _, st := range sc.script {
		switch st.Kind {
		case "err":
			switch {
			case len(st.errDesc) >= 2 && st.errDesc[:2] == "nc":
				n["val_err_noncomparable_by_value"]++
			case st.errDesc == "typed-nil(*nilSafeErr)":
				n["val_err_typed_nil"]++
			case len(st.errDesc) >= 11 && st.errDesc[:11] == "errors.Join":
				n["val_err_joined"]++
			case st.errDesc == "fmt%w(ncIface)" || (len(st.errDesc) >= 10 && st.errDesc[:10] == "pkgWrap(nc"):
				n["val_err_wrapped_noncomparable"]++
			}
		case "panic":
			switch st.pvDesc {
			case "map", "struct-with-slice", "slice-of-errors", "array-of-slices", "slice":
				n["val_panic_noncomparable"]++
			case "nil":
				n["val_panic_nil"]++
			}
			if len(st.pvDesc) >= 6 && st.pvDesc[:6] == "error:" {
				n["val_panic_error_value"]++
			}
		}
		if st.Kind != "panic" {
			if st.outs != nil && len(st.outs) == 0 {
				n["val_outs_empty_nonnil"]++
			}
			if st.echo {
				n["val_outs_contain_input"]++
			}
		}
	}
	for _, l := range sc.chain {
		if l.K == kIgnore {
			for _, e := range l.List {
				switch e.(type) {
				case ncSliceErr, ncMapErr, ncStructErr, *nilSafeErr:
					n["val_listed_unusual_error"]++
				}
			}
		}
	}
	return n
}
