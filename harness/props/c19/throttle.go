package c19

import (
	"context"
	"errors"
	"fmt"
	"sort"
	"sync"
	"sync/atomic"
	"time"

	"github.com/ThreeDotsLabs/watermill/message"
	"github.com/ThreeDotsLabs/watermill/message/router/middleware"

	"verifharness/vlib"
)

// "handler starts no faster than the configured rate" - two workload classes share one recorder and one oracle.
//
// What is recorded per call through the Throttle (at the boundary, wall clock, monotonic):
//
//	b = time.Now() just before the wrapped handler function is invoked,
//	t = time.Now() as the first statement of the inner handler.
//
// The moment c at which the call obtained its permission to start lies in [b, t]; nothing else is assumed
// about it (the goroutine can be descheduled for arbitrarily long anywhere between b, c and t).
//
// Oracle clauses (lower bounds / bracketing only, see throttleJudge):
//
//	throttle-rate   the i-th start (1-based, time order) cannot precede creation + i*period.
//	throttle-burst  M starts that provably all happened inside one window [A,B] (b >= A and t <= B for each
//	                of them) need B-A > (M-4)*period.
//
// Why (M-4) and not more. NewThrottle(count, duration) documents "count messages per duration"; the rate is
// one start per period = duration/count. The reference semantics is the one of the time.Ticker the
// middleware is built on (time.NewTicker godoc: "The ticker will adjust the time interval or drop ticks to make
// up for slow receivers", channel capacity 1): ticks are due at creation + i*period, every start consumes one
// distinct tick, a tick cannot be consumed before it is due, at most ONE fired tick waits for a consumer, and
// the runtime never fires the same due time twice (next = when + period*(1+(now-when)/period) > now).
// Let c_1 <= ... <= c_M be the consumption times of M consecutive starts and w_j the due time of the tick
// consumed by c_j. Tick j+1 can only be stored/handed over when tick j has been taken out (capacity 1), so its
// firing f_{j+1} > c_j; w_{j+2} > f_{j+1}; hence c_M >= w_M >= w_3 + (M-3)*period > c_1 + (M-3)*period.
// The bound (M-3)*period is attained by correct code: an old tick is consumed just before a LATE tick fires
// (lateness close to one period, common on a loaded machine), which is just before the next due time - three
// starts at one instant; a stand-alone stress experiment on time.Ticker under 2x CPU oversubscription showed
// windows down to (M-3)*period + 0.06 period, so the often quoted "(M-2) periods" is NOT sound under load.
// One further period is given away for the only remaining imprecision, the gap between the runtime reading
// the clock and performing the channel send of one firing (non-preemptible for the Go scheduler, but the OS
// may preempt the thread there). Machine lateness otherwise only moves starts later and widens [b,t], which
// makes windows longer and M smaller, never a violation.
// A Throttle that hands out saved-up permissions (token bucket with burst size > 1, ticks forwarded to a larger
// buffer, a limiter that credits idle time, several permissions per tick) shows M >= 5 starts in a window far
// shorter than (M-4) periods as soon as a backlog arrives after an idle or under-used phase.
type throttleCall struct {
	b, t time.Time
	grp  int // arrival group (burst / trickle number), for the sample only
}

type throttleRec struct {
	id   string
	th   *middleware.Throttle
	mu   sync.Mutex
	done []throttleCall
	bad  []string
	hits atomic.Int32 // handler invocations
}

type throttleRet struct {
	outs []*message.Message
	err  error
}

// plan draws the handler result of one call (deterministic per case: called from the case goroutine only).
func (tr *throttleRec) plan(r *vlib.Rand, i int) throttleRet {
	var want throttleRet
	if r.Bool() {
		want.err = errors.New(fmt.Sprintf("e%d", i))
	}
	for j := r.Intn(3); j > 0; j-- {
		want.outs = append(want.outs, message.NewMessage(fmt.Sprintf("%s-t%d.%d", tr.id, i, j), nil))
	}
	return want
}

// call sends one message through the Throttle and records the bracket of its start; transparency of the
// call (outputs, error, message untouched) is judged as well.
func (tr *throttleRec) call(i, grp int, want throttleRet) {
	var t time.Time
	h := tr.th.Middleware(func(m *message.Message) ([]*message.Message, error) {
		t = time.Now()
		tr.hits.Add(1)
		return want.outs, want.err
	})
	msg := message.NewMessage(fmt.Sprintf("%s-tm%d", tr.id, i), nil)
	// the rate limit does not depend on the message: some messages arrive with a context that has already
	// ended (cancelled, or an expired deadline as an outer Timeout shorter than the period would leave)
	switch i % 4 {
	case 1:
		cctx, cancel := context.WithCancel(context.Background())
		cancel()
		msg.SetContext(cctx)
	case 3:
		dctx, cancel := context.WithDeadline(context.Background(), time.Now().Add(-time.Second))
		defer cancel()
		msg.SetContext(dctx)
	}
	b := time.Now()
	outs, err := h(msg)
	same := err == want.err && len(outs) == len(want.outs)
	for j := 0; same && j < len(outs); j++ {
		same = outs[j] == want.outs[j]
	}
	tr.mu.Lock()
	defer tr.mu.Unlock()
	if !t.IsZero() {
		tr.done = append(tr.done, throttleCall{b: b, t: t, grp: grp})
	}
	if !same || vlib.Settled(msg) != "" || len(msg.Metadata) != 0 {
		tr.bad = append(tr.bad, fmt.Sprintf("call %d: outs/err/message changed (err %v want %v, %d outs want %d, settled %q)", i, err, want.err, len(outs), len(want.outs), vlib.Settled(msg)))
	}
}

// throttleJudge applies both rate clauses to the n recorded calls. t0 was taken just before NewThrottle.
func throttleJudge(res *vlib.Result, tr *throttleRec, n int, t0 time.Time, period time.Duration, cfg string) bool {
	tr.mu.Lock()
	defer tr.mu.Unlock()
	calls := tr.done
	res.Events = len(calls)
	if len(tr.bad) > 0 {
		res.Fail("outputs-identity", "%s | %s", tr.bad[0], cfg)
		return false
	}
	if hits := int(tr.hits.Load()); len(calls) != n || hits != n {
		res.Fail("handler-calls", "%d calls made, handler started %d times (in %d of the calls) | %s", n, hits, len(calls), cfg)
		return false
	}
	sort.Slice(calls, func(a, b int) bool { return calls[a].t.Before(calls[b].t) })
	us := func(t time.Time) string { return t.Sub(t0).Round(10 * time.Microsecond).String() }
	offs := make([]string, n)
	for i, c := range calls {
		offs[i] = fmt.Sprintf("g%d %s..%s", c.grp, us(c.b), us(c.t))
	}
	sample := map[string]any{"config": cfg, "calls": offs}

	// throttle-rate: every start consumes one distinct tick and tick i is not due before creation + i*period
	for i, c := range calls {
		if min := time.Duration(i+1) * period; c.t.Sub(t0) < min {
			res.Fail("throttle-rate", "handler start #%d happened %v after the Throttle was created; at one start per %v it cannot precede %v (calls: %v) | %s",
				i+1, c.t.Sub(t0), period, min, offs, cfg)
			res.Witness = sample
			return false
		}
	}

	// throttle-burst: windows [A,B] with A = some b, B = some t; M = calls certainly inside
	windows, tight := 0, 0
	for _, a := range calls {
		for _, z := range calls {
			A, B := a.b, z.t
			if B.Before(A) {
				continue
			}
			m := 0
			for _, c := range calls {
				if !c.b.Before(A) && !c.t.After(B) {
					m++
				}
			}
			if m < 3 {
				continue
			}
			windows++
			L := B.Sub(A)
			if L < time.Duration(m-2)*period {
				tight++ // a saved tick (and/or a late one) was visible: fewer than M-2 whole periods for M starts
			}
			if m >= 5 && L < time.Duration(m-4)*period {
				res.Fail("throttle-burst", "%d handler starts happened within %v (all of them invoked after +%s and started by +%s); at one start per %v with at most one saved tick %d starts need more than %v (calls: %v) | %s",
					m, L, us(A), us(B), period, m, time.Duration(m-3)*period, offs, cfg)
				res.Witness = sample
				return false
			}
		}
	}
	span := calls[n-1].t.Sub(calls[0].t)
	res.Count("starts", n)
	res.Count("span_ms", int(span/time.Millisecond))
	res.Count("nominal_span_ms", int(time.Duration(n-1)*period/time.Millisecond))
	res.Count("burst_windows_judged", windows)
	res.Count("burst_windows_below_M_minus_2_periods", tight)
	res.Sample = sample
	return true
}

// runThrottle (class "throttle"): continuous backlog from creation on, 1..3 goroutines sharing the Throttle,
// sometimes one pause of 3 periods in one of them.
func runThrottle(e *vlib.Env) vlib.Result {
	res := vlib.Result{Class: "throttle"}
	r := e.R
	period := time.Duration(r.Range(10000, 20000)) * time.Microsecond
	count := int64([]int{1, 2, 5, 10, 50, r.Range(1, 100)}[r.Intn(6)])
	n := r.Range(8, 16)
	g := r.Range(1, 3)
	idleAt := 0
	if r.Chance(0.3) {
		idleAt = r.Range(2, n-2)
	}
	cfg := fmt.Sprintf("NewThrottle(%d, %v) period=%v starts=%d goroutines=%d idleBefore=%d", count, period*time.Duration(count), period, n, g, idleAt)

	tr := &throttleRec{id: e.ID()}
	rets := make([]throttleRet, n+1)
	for i := range rets {
		rets[i] = tr.plan(r, i)
	}
	t0 := time.Now()
	tr.th = middleware.NewThrottle(count, period*time.Duration(count))
	defer stopThrottle(tr.th)
	var next atomic.Int32
	var wg sync.WaitGroup
	for w := 0; w < g; w++ {
		wg.Add(1)
		go func() {
			defer wg.Done()
			for {
				i := int(next.Add(1))
				if i > n {
					return
				}
				if i == idleAt {
					vlib.TimerWait(3 * period)
				}
				tr.call(i, 0, rets[i])
			}
		}()
	}
	done := make(chan struct{})
	go func() { wg.Wait(); close(done) }()
	oc, dump := vlib.WaitClosed(done, waitOpts())
	res.Sig = vlib.Sig("throttle", cfg)
	switch oc {
	case vlib.Stuck:
		res.Fail("blocks", "throttled calls never finished (process quiescent) | %s", cfg)
		res.Witness = dump
		return res
	case vlib.Inconclusive:
		res.Inconclusive("throttled calls did not finish before the watchdog | %s", cfg)
		return res
	}
	if !throttleJudge(&res, tr, n, t0, period, cfg) {
		return res
	}
	res.NonTrivial = true
	return res
}

// runThrottleArrivals (class "throttle-arrivals"): the Throttle sees 1..3 arrival groups one after another, each a
// backlog ("burst") of 6..14 messages that arrive at the same moment, spread over 1, 2..4 or as many goroutines
// as messages (every message its own handler goroutine, as a Router with several handlers sharing the
// middleware would do), each burst preceded by
//
//	none     (first group only) the backlog is there from creation on,
//	idle     no traffic at all for 3..14 periods,
//	trickle  3..6 messages arriving one at a time 2..3 periods apart (traffic below the configured rate).
//
// The next group begins when the previous backlog has been worked off.
func runThrottleArrivals(e *vlib.Env) vlib.Result {
	res := vlib.Result{Class: "throttle-arrivals"}
	r := e.R
	period := time.Duration(r.Range(2000, 8000)) * time.Microsecond
	count := int64([]int{1, 2, 3, 5, 8, 10, 50, r.Range(4, 100)}[r.Intn(8)])
	type group struct {
		Before  string // none | idle | trickle
		Periods int    // idle: length in periods; trickle: gap between arrivals in half periods
		Trickle int    // number of trickled messages
		Burst   int
		G       int
	}
	ng := r.Range(1, 3)
	groups := make([]group, ng)
	n := 0
	for k := range groups {
		gr := group{Burst: r.Range(6, 14)}
		switch x := r.Intn(10); {
		case k == 0 && x < 2:
			gr.Before = "none"
		case x < 7:
			gr.Before, gr.Periods = "idle", r.Range(3, 14)
		default:
			gr.Before, gr.Periods, gr.Trickle = "trickle", r.Range(4, 6), r.Range(3, 6)
		}
		switch r.Intn(3) {
		case 0:
			gr.G = 1
		case 1:
			gr.G = r.Range(2, 4)
		default:
			gr.G = gr.Burst
		}
		groups[k] = gr
		n += gr.Trickle + gr.Burst
	}
	cfg := fmt.Sprintf("NewThrottle(%d, %v) period=%v groups=%+v", count, period*time.Duration(count), period, groups)

	tr := &throttleRec{id: e.ID()}
	rets := make([]throttleRet, n+1)
	for i := range rets {
		rets[i] = tr.plan(r, i)
	}
	t0 := time.Now()
	tr.th = middleware.NewThrottle(count, period*time.Duration(count))
	defer stopThrottle(tr.th)
	done := make(chan struct{})
	go func() {
		defer close(done)
		i := 0
		for k, gr := range groups {
			switch gr.Before {
			case "idle":
				vlib.TimerWait(time.Duration(gr.Periods) * period)
			case "trickle":
				for j := 0; j < gr.Trickle; j++ {
					vlib.TimerWait(time.Duration(gr.Periods) * period / 2)
					i++
					tr.call(i, 2*k, rets[i])
				}
				vlib.TimerWait(time.Duration(gr.Periods) * period / 2)
			}
			// the backlog: all messages of the burst exist before the first worker is released
			work := make(chan int, gr.Burst)
			for j := 0; j < gr.Burst; j++ {
				i++
				work <- i
			}
			close(work)
			release := make(chan struct{})
			var wg sync.WaitGroup
			for w := 0; w < gr.G; w++ {
				wg.Add(1)
				go func() {
					defer wg.Done()
					<-release
					for i := range work {
						tr.call(i, 2*k+1, rets[i])
					}
				}()
			}
			close(release)
			wg.Wait()
		}
	}()
	oc, dump := vlib.WaitClosed(done, waitOpts())
	res.Sig = vlib.Sig("throttle-arrivals", cfg)
	switch oc {
	case vlib.Stuck:
		res.Fail("blocks", "throttled calls never finished (process quiescent) | %s", cfg)
		res.Witness = dump
		return res
	case vlib.Inconclusive:
		res.Inconclusive("throttled calls did not finish before the watchdog | %s", cfg)
		return res
	}
	if !throttleJudge(&res, tr, n, t0, period, cfg) {
		return res
	}
	// what the arrival pattern produced: starts that followed the release of their burst within half a period
	// (on a correct Throttle: the one saved tick, plus whatever tick happened to be due)
	tr.mu.Lock()
	first := map[int]time.Time{}
	for _, c := range tr.done {
		if f, ok := first[c.grp]; !ok || c.b.Before(f) {
			first[c.grp] = c.b
		}
	}
	prompt := 0
	for _, c := range tr.done {
		if c.grp%2 == 1 && c.t.Sub(first[c.grp]) < period/2 {
			prompt++
		}
	}
	tr.mu.Unlock()
	for _, gr := range groups {
		res.Count("bursts", 1)
		res.Count("bursts_after_"+gr.Before, 1)
		res.Count("trickled_calls", gr.Trickle)
		if gr.G == gr.Burst {
			res.Count("bursts_one_goroutine_per_message", 1)
		}
	}
	res.Count("starts_within_half_period_of_burst_arrival", prompt)
	res.NonTrivial = true
	return res
}
