package c19

import (
	"context"
	"errors"
	"fmt"
	"sort"
	"sync"
	"sync/atomic"
	"time"

	"github.com/ThreeDotsLabs/watermill/message"
	"github.com/ThreeDotsLabs/watermill/message/router/middleware"

	"verifharness/vlib"
)

// runThrottle: "handler starts no faster than the configured rate".
//
// Oracle (lower bounds only): t0 is taken just before NewThrottle. The ticker cannot deliver its
// i-th tick before creation + i*period, every handler start consumes one distinct tick, hence the
// i-th handler start (1-based, in time order, over all goroutines sharing the Throttle) must not
// precede t0 + i*period. This bound is independent of machine lateness (lateness only makes starts
// later), so no inconclusive branch is needed; the span of the n starts is reported as a counter.
// Transparency (outputs / error of every call unchanged) is judged as well.
func runThrottle(e *vlib.Env) vlib.Result {
	res := vlib.Result{Class: "throttle"}
	r := e.R
	period := time.Duration(r.Range(10000, 20000)) * time.Microsecond
	count := int64([]int{1, 2, 5, 10, 50, r.Range(1, 100)}[r.Intn(6)])
	n := r.Range(8, 16)
	g := r.Range(1, 3)
	idleAt := 0
	if r.Chance(0.3) {
		idleAt = r.Range(2, n-2)
	}
	cfg := fmt.Sprintf("NewThrottle(%d, %v) period=%v starts=%d goroutines=%d idleBefore=%d", count, period*time.Duration(count), period, n, g, idleAt)

	var mu sync.Mutex
	var starts []time.Time
	var bad []string
	type ret struct {
		outs []*message.Message
		err  error
	}
	rets := make([]ret, n+1)
	for i := range rets {
		if r.Bool() {
			rets[i].err = errors.New(fmt.Sprintf("e%d", i))
		}
		for j := r.Intn(3); j > 0; j-- {
			rets[i].outs = append(rets[i].outs, message.NewMessage(fmt.Sprintf("%s-t%d.%d", e.ID(), i, j), nil))
		}
	}
	t0 := time.Now()
	th := middleware.NewThrottle(count, period*time.Duration(count))
	defer stopThrottle(th)
	var next atomic.Int32
	var wg sync.WaitGroup
	for w := 0; w < g; w++ {
		wg.Add(1)
		go func() {
			defer wg.Done()
			for {
				i := int(next.Add(1))
				if i > n {
					return
				}
				if i == idleAt {
					vlib.TimerWait(3 * period)
				}
				want := rets[i]
				h := th.Middleware(func(m *message.Message) ([]*message.Message, error) {
					t := time.Now()
					mu.Lock()
					starts = append(starts, t)
					mu.Unlock()
					return want.outs, want.err
				})
				msg := message.NewMessage(fmt.Sprintf("%s-tm%d", e.ID(), i), nil)
				// the rate limit does not depend on the message: some messages arrive with a context that has already
				// ended (cancelled, or an expired deadline as an outer Timeout shorter than the period would leave)
				switch i % 4 {
				case 1:
					cctx, cancel := context.WithCancel(context.Background())
					cancel()
					msg.SetContext(cctx)
				case 3:
					dctx, cancel := context.WithDeadline(context.Background(), time.Now().Add(-time.Second))
					defer cancel()
					msg.SetContext(dctx)
				}
				outs, err := h(msg)
				same := err == want.err && len(outs) == len(want.outs)
				for j := 0; same && j < len(outs); j++ {
					same = outs[j] == want.outs[j]
				}
				if !same || vlib.Settled(msg) != "" || len(msg.Metadata) != 0 {
					mu.Lock()
					bad = append(bad, fmt.Sprintf("call %d: outs/err/message changed (err %v want %v, %d outs want %d, settled %q)", i, err, want.err, len(outs), len(want.outs), vlib.Settled(msg)))
					mu.Unlock()
				}
			}
		}()
	}
	done := make(chan struct{})
	go func() { wg.Wait(); close(done) }()
	oc, dump := vlib.WaitClosed(done, waitOpts())
	mu.Lock()
	defer mu.Unlock()
	res.Events = len(starts)
	res.Sig = vlib.Sig("throttle", cfg)
	switch oc {
	case vlib.Stuck:
		res.Fail("blocks", "throttled calls never finished (process quiescent) | %s", cfg)
		res.Witness = dump
		return res
	case vlib.Inconclusive:
		res.Inconclusive("throttled calls did not finish before the watchdog | %s", cfg)
		return res
	}
	if len(bad) > 0 {
		res.Fail("outputs-identity", "%s | %s", bad[0], cfg)
		return res
	}
	if len(starts) != n {
		res.Fail("handler-calls", "%d calls made, handler started %d times | %s", n, len(starts), cfg)
		return res
	}
	sort.Slice(starts, func(a, b int) bool { return starts[a].Before(starts[b]) })
	offs := make([]string, n)
	for i, s := range starts {
		offs[i] = s.Sub(t0).Round(10 * time.Microsecond).String()
	}
	for i, s := range starts {
		if min := time.Duration(i+1) * period; s.Sub(t0) < min {
			res.Fail("throttle-rate", "handler start #%d happened %v after the Throttle was created; at one start per %v it cannot precede %v (all start offsets: %v) | %s",
				i+1, s.Sub(t0), period, min, offs, cfg)
			res.Witness = map[string]any{"config": cfg, "start_offsets": offs}
			return res
		}
	}
	span := starts[n-1].Sub(starts[0])
	res.Count("starts", n)
	res.Count("span_ms", int(span/time.Millisecond))
	res.Count("nominal_span_ms", int(time.Duration(n-1)*period/time.Millisecond))
	if span < time.Duration(n-3)*period {
		res.Count("span_below_n_minus_3_periods", 1) // only possible when the first start was >= 2 periods late (machine lateness)
	}
	res.NonTrivial = true
	res.Sample = map[string]any{"config": cfg, "start_offsets": offs}
	return res
}
