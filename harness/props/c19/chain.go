package c19

import (
	"context"
	"errors"
	"fmt"
	"io"
	"reflect"
	"runtime"
	"strings"
	"sync"
	"time"
	"unsafe"

	"github.com/ThreeDotsLabs/watermill/components/delay"
	"github.com/ThreeDotsLabs/watermill/message"
	"github.com/ThreeDotsLabs/watermill/message/router/middleware"
	pkgerrors "github.com/pkg/errors"
	"github.com/sony/gobreaker"

	"verifharness/vlib"
)

// ---------------------------------------------------------------------------------------------
// chain shapes

type kind int

const (
	kTimeout kind = iota
	kCorr
	kRecov
	kIgnore
	kAck
	kDelay
	kBreaker
	kThrottle
	kRetry
	kUser // a harness-written middleware that replaces the message context for the inner call (ctx-replace classes only)
)

var kindName = [...]string{"Timeout", "CorrelationID", "Recoverer", "IgnoreErrors", "InstantAck", "DelayOnError", "CircuitBreaker", "Throttle", "Retry", "UserMW"}

type chainShape []kind // outermost first

func (s chainShape) String() string {
	p := make([]string, len(s))
	for i, k := range s {
		p[i] = kindName[k]
	}
	return strings.Join(p, ">")
}

func (s chainShape) has(k kind) bool {
	for _, x := range s {
		if x == k {
			return true
		}
	}
	return false
}

// enumChains: every ordered selection of 1..3 distinct simple middlewares, first without Retry and
// then with Retry at every position; grouped by (length, retry) so that a block of 8 is homogeneous.
var enumChains = buildEnum()

func buildEnum() []chainShape {
	var out []chainShape
	for k := 1; k <= 3; k++ {
		var perms []chainShape
		var rec func(cur chainShape)
		rec = func(cur chainShape) {
			if len(cur) == k {
				perms = append(perms, append(chainShape(nil), cur...))
				return
			}
			for c := kTimeout; c <= kThrottle; c++ {
				if !cur.has(c) {
					rec(append(cur, c))
				}
			}
		}
		rec(nil)
		out = append(out, perms...)
		for _, p := range perms {
			for pos := 0; pos <= k; pos++ {
				c := append(chainShape(nil), p[:pos]...)
				c = append(c, kRetry)
				c = append(c, p[pos:]...)
				out = append(out, c)
			}
		}
	}
	return out
}

// ---------------------------------------------------------------------------------------------
// scenario = parametrised chain + handler script + input message

type layer struct {
	K          kind
	Timeout    time.Duration
	DInit      time.Duration
	DMax       time.Duration
	DMult      float64
	List       []error
	listed     map[string]bool
	MaxRetries int
	RInterval  time.Duration
	RElapsed   time.Duration
	RRand      float64
	UAct       string // kUser: context action before the inner call (ctxActs, never "setback")
	URestore   bool   // kUser: deferred msg.SetContext(<context seen on entry>) after the inner call
	UMPre      string // kUser, in-meta classes: metadata action on the consumed message before the inner call (inmeta.go)
	UMPost     string // kUser, in-meta classes: metadata action after the inner call returned ("restore": the id seen on entry)
	UMDefer    bool   // kUser, in-meta classes: the post action is deferred (also runs when the inner call panics)
}

func (l layer) String() string {
	switch l.K {
	case kTimeout:
		return fmt.Sprintf("Timeout(%v)", l.Timeout)
	case kDelay:
		return fmt.Sprintf("DelayOnError(init=%v,max=%v,mult=%v)", l.DInit, l.DMax, l.DMult)
	case kIgnore:
		s := make([]string, len(l.List))
		for i, e := range l.List {
			s[i] = e.Error()
		}
		return fmt.Sprintf("IgnoreErrors(%s)", strings.Join(s, "|"))
	case kRetry:
		return fmt.Sprintf("Retry(max=%d,interval=%v,maxElapsed=%v,rand=%v)", l.MaxRetries, l.RInterval, l.RElapsed, l.RRand)
	case kUser:
		if l.UMPre != "" || l.UMPost != "" {
			d := ""
			if l.UMDefer {
				d = ",deferred"
			}
			return fmt.Sprintf("UserMW(meta pre=%s,post=%s%s)", l.UMPre, l.UMPost, d)
		}
		if l.URestore {
			return fmt.Sprintf("UserMW(ctx=%s,restore)", l.UAct)
		}
		return fmt.Sprintf("UserMW(ctx=%s)", l.UAct)
	}
	return kindName[l.K]
}

type step struct {
	Kind         string // ok | err | panic | wait
	outs         []*message.Message
	err          error
	errDesc      string
	errTags      []string // errshapes classes: wrapper shapes / near-listed texts this error is made of
	pv           any
	pvDesc       string
	runtimePanic bool
	CtxAct       string // what the handler does to the message context before it returns / panics ("" = nothing)
	echo         bool   // values classes: the consumed message itself is one of the outputs (inserted at echoPos when the input exists)
	echoPos      int
	echoDone     bool
	MAct         string // in-meta classes: what the handler does to the consumed message's metadata during this call (inmeta.go)
	MWhen        string // in-meta classes: "before" | "after" the outputs are produced (stamped)
	stamp        bool   // in-meta classes: the handler itself copies the id the consumed message has at that moment onto its outputs
}

func (s step) String() string {
	d := s.Kind
	switch s.Kind {
	case "err", "wait":
		d += ":" + s.errDesc
	case "panic":
		d += ":" + s.pvDesc
	}
	if len(s.outs) > 0 {
		d += fmt.Sprintf("+%dout", len(s.outs))
	} else if s.outs != nil {
		d += "+emptyouts"
	}
	if s.echo {
		d += fmt.Sprintf("+echo-input@%d", s.echoPos)
	}
	if s.CtxAct != "" {
		d += "@ctx=" + s.CtxAct
	}
	if s.MAct != "" || s.stamp {
		d += "@meta=" + s.MWhen + ":" + s.MAct
		if s.stamp {
			d += "+stamp"
		}
	}
	return d
}

type scenario struct {
	id       string
	chain    []layer
	script   []step
	useWait  bool
	inCorr   string
	preDelay time.Duration
	ctxKind  int // 0 background, 1 with value, 2 with value and a far (2h) deadline
	maxCalls int
	ctxMode  bool       // ctx-replace classes: handler steps and UserMW layers replace the message context
	valMode  bool       // values classes: handler results with unusual Go values (values.go)
	shared   *sharedEnv // concurrent classes: the chain is built once and called from several goroutines (concurrent.go)
	yields   int        // concurrent classes: runtime.Gosched() calls of the handler between producing and returning
	errMode  bool       // errshapes classes: handler errors in every wrapper shape around listed / unlisted errors (errshape.go)
	nilCause bool       // errshapes/nil-cause: errors of a Cause()-capable type without a cause
	metaMode bool       // in-meta classes: handler steps and UserMW layers change the consumed message's metadata during the call (inmeta.go)
	inCorrEK bool       // in-meta classes: the message arrives with the correlation_id key present but empty
}

func (sc *scenario) shape() chainShape {
	s := make(chainShape, len(sc.chain))
	for i, l := range sc.chain {
		s[i] = l.K
	}
	return s
}

func (sc *scenario) chainStr() string {
	p := make([]string, len(sc.chain))
	for i, l := range sc.chain {
		p[i] = l.String()
	}
	return strings.Join(p, " > ")
}

func (sc *scenario) scriptStr() string {
	p := make([]string, len(sc.script))
	for i, s := range sc.script {
		p[i] = s.String()
	}
	return strings.Join(p, ", ")
}

func (sc *scenario) describe() string {
	d := fmt.Sprintf("chain=[%s] handler-script=[%s] input(corr=%q preDelay=%v ctx=%d)", sc.chainStr(), sc.scriptStr(), sc.inCorr, sc.preDelay, sc.ctxKind)
	if sc.inCorrEK {
		d += " (correlation_id key present, empty)"
	}
	if sc.shared != nil {
		d += " | " + sc.shared.note
	}
	return d
}

type customErr struct{ code int }

func (c *customErr) Error() string { return fmt.Sprintf("custom-%d", c.code) }

type pvStruct struct {
	A int
	B string
}

// base errors: 0..3 may be listed by IgnoreErrors layers, 4..5 never are (so %w wrappers and the
// "trap" wrappers around them are unambiguous under the documented Cause rule).
func baseErrors() []error {
	return []error{
		errors.New("c19-e0"), errors.New("c19-e1"), errors.New("c19 e2: with colon"), io.EOF,
		errors.New("c19-u4"), errors.New("c19-u5"),
	}
}

func genDelayCfg(r *vlib.Rand) (ini, max time.Duration, mult float64) {
	ini = 100*time.Millisecond + time.Duration(r.Uint64()%uint64(5*time.Second))
	if r.Intn(4) == 0 {
		mult = []float64{1, 1.5, 2, 2.5, 3, 1.25, 1.1}[r.Intn(7)]
	} else {
		mult = 1 + 2*r.Float()
	}
	switch r.Intn(6) {
	case 0:
		max = ini
	case 1:
		max = 24 * time.Hour
	default:
		max = time.Duration(float64(ini) * (1 + 30*r.Float()))
	}
	return
}

func genErr(r *vlib.Rand, bases []error) (error, string) {
	j := r.Intn(len(bases))
	u := 4 + r.Intn(2)
	switch r.Intn(10) {
	case 0, 1:
		return bases[j], fmt.Sprintf("plain(%s)", bases[j])
	case 2:
		return pkgerrors.Wrap(bases[j], "wrap"), fmt.Sprintf("pkgWrap(%s)", bases[j])
	case 3:
		return pkgerrors.WithStack(bases[j]), fmt.Sprintf("pkgWithStack(%s)", bases[j])
	case 4:
		return pkgerrors.WithMessage(pkgerrors.Wrap(bases[j], "inner"), "outer"), fmt.Sprintf("pkgWithMessage(pkgWrap(%s))", bases[j])
	case 5:
		return fmt.Errorf("fmtw: %w", bases[u]), fmt.Sprintf("fmt%%w(%s)", bases[u])
	case 6:
		// the wrapper's full text ("trap: c19-u4") is on the IgnoreErrors list, its Cause is not
		return pkgerrors.Wrap(bases[u], "trap"), fmt.Sprintf("pkgWrap-trap(%s)", bases[u])
	case 7:
		c := &customErr{code: r.Intn(100)}
		return c, c.Error()
	case 8:
		return context.DeadlineExceeded, "context.DeadlineExceeded"
	default:
		return pkgerrors.Wrapf(pkgerrors.WithStack(bases[j]), "ctx %d", r.Intn(9)), fmt.Sprintf("pkgWrapf(pkgWithStack(%s))", bases[j])
	}
}

func genPanic(r *vlib.Rand, bases []error) (v any, desc string, rt bool) {
	switch r.Intn(11) {
	case 0, 1:
		return nil, "nil", false
	case 2:
		return "boom-" + r.UTF8(4), "string", false
	case 3:
		return r.Intn(1000), "int", false
	case 4:
		return bases[r.Intn(len(bases))], "error", false
	case 5:
		return pvStruct{A: r.Intn(10), B: "x"}, "struct", false
	case 6:
		return []int{1, r.Intn(5)}, "slice", false
	case 7:
		x := r.Intn(100)
		return &x, "pointer", false
	case 8:
		return (*int)(nil), "typed-nil", false
	case 9:
		return nil, "runtime-error", true
	default:
		return middleware.RecoveredPanicError{V: "nested", Stacktrace: "s"}, "RecoveredPanicError", false
	}
}

// genOpts: the zero value plus ctxMode draws exactly what the chain / ctx-replace classes always drew.
type genOpts struct {
	ctxMode  bool
	valMode  bool    // unusual Go values as handler results (values.go)
	noWait   bool    // never let the handler wait for a Timeout deadline
	layers   []layer // use this already parametrised chain (concurrent classes: one wrapped handler, many messages)
	errMode  bool    // handler errors in every wrapper shape around listed / unlisted errors (errshape.go)
	nilCause bool    // with errMode: also errors of a Cause()-capable type whose Cause() returns nil
	metaMode bool    // the consumed message's metadata changes during the call (inmeta.go); implies noWait
}

func genScenario(r *vlib.Rand, id string, shape chainShape, ctxMode bool) *scenario {
	return genScenarioOpts(r, id, shape, genOpts{ctxMode: ctxMode})
}

func genScenarioOpts(r *vlib.Rand, id string, shape chainShape, o genOpts) *scenario {
	ctxMode := o.ctxMode
	sc := &scenario{id: id, ctxMode: ctxMode, valMode: o.valMode, errMode: o.errMode, nilCause: o.nilCause, metaMode: o.metaMode}
	bases := baseErrors()
	var pool *valPool
	if o.valMode {
		pool = newValPool(r, id)
	}
	// may the handler wait for the Timeout deadline? only when no Timeout sits outside a Retry
	hasT, tOutsideRetry := false, false
	for i, k := range shape {
		if k == kTimeout {
			hasT = true
			for _, k2 := range shape[i+1:] {
				if k2 == kRetry {
					tOutsideRetry = true
				}
			}
		}
	}
	sc.useWait = !ctxMode && !o.noWait && !o.metaMode && hasT && !tOutsideRetry && r.Chance(0.35)
	nRetry := 0
	for _, k := range shape {
		if k == kRetry {
			nRetry++
		}
	}
	sc.maxCalls = 1
	for _, l := range o.layers {
		if l.K == kRetry {
			sc.maxCalls *= l.MaxRetries + 1
		}
	}
	sc.chain = append(sc.chain, o.layers...)
	for _, k := range shape {
		if o.layers != nil {
			break
		}
		l := layer{K: k}
		switch k {
		case kTimeout:
			if sc.useWait {
				l.Timeout = time.Duration(r.Range(2000, 6000)) * time.Microsecond
			} else {
				l.Timeout = time.Minute + time.Duration(r.Uint64()%uint64(59*time.Minute))
			}
		case kDelay:
			l.DInit, l.DMax, l.DMult = genDelayCfg(r)
		case kIgnore:
			l.listed = map[string]bool{}
			for _, j := range r.Perm(4)[:r.Range(1, 3)] {
				l.List = append(l.List, bases[j])
			}
			if r.Bool() {
				l.List = append(l.List, errors.New("trap: "+bases[4].Error()), errors.New("trap: "+bases[5].Error()))
			}
			if pool != nil && r.Chance(0.6) {
				// listed errors of non-comparable dynamic types / a nil-valued typed error (matched by text, as all are)
				l.List = append(l.List, pool.listable(r)...)
			}
			if o.errMode && r.Chance(0.6) {
				// entries whose text is the full text of a wrapper around a listed / unlisted base error
				l.List = append(l.List, errShapeTraps(r, bases)...)
			}
			for _, e := range l.List {
				l.listed[e.Error()] = true
			}
		case kRetry:
			l.MaxRetries = r.Range(1, 3)
			if nRetry > 1 {
				l.MaxRetries = r.Range(1, 2)
			}
			l.RInterval = time.Duration(r.Range(100, 300)) * time.Microsecond
			if r.Chance(0.3) {
				l.RElapsed = time.Hour
			}
			if r.Chance(0.3) {
				l.RRand = 0.5
			}
			sc.maxCalls *= l.MaxRetries + 1
		case kUser:
			if o.metaMode {
				genUserMeta(r, &l)
			} else {
				l.UAct = userActs[r.Intn(len(userActs))]
				l.URestore = r.Chance(0.35)
			}
		}
		sc.chain = append(sc.chain, l)
	}
	// handler script
	outNo := 0
	mkOuts := func(n int) []*message.Message {
		var outs []*message.Message
		for j := 0; j < n; j++ {
			o := message.NewMessage(fmt.Sprintf("%s-o%d", id, outNo), r.Payload(12))
			outNo++
			for m := r.Intn(3); m > 0; m-- {
				o.Metadata.Set(fmt.Sprintf("ok%d", m), r.UTF8(6))
			}
			switch r.Intn(8) {
			case 0, 1:
				o.Metadata.Set(middleware.CorrelationIDMetadataKey, fmt.Sprintf("own-%d", outNo))
			case 2:
				o.Metadata.Set(middleware.CorrelationIDMetadataKey, "corr-"+id) // same as the input's (when it has one)
			case 3:
				o.Metadata.Set(middleware.CorrelationIDMetadataKey, "") // present but empty: lacks an id
			}
			outs = append(outs, o)
		}
		return outs
	}
	errCut, okCut := 55, 82
	var listedErrs []error
	if o.errMode {
		errCut, okCut = 72, 90
		listedErrs = listedOf(sc.chain)
	}
	for i := 0; i < sc.maxCalls; i++ {
		var st step
		x := r.Intn(100)
		switch {
		case sc.useWait && (x < 15 || (i == 0 && x < 50)):
			st.Kind = "wait"
			st.err, st.errDesc = context.DeadlineExceeded, "ctx.Err() after <-ctx.Done()"
			if r.Bool() {
				st.outs = mkOuts(r.Intn(3))
			}
		case x < errCut:
			st.Kind = "err"
			if o.errMode && r.Chance(0.9) {
				st.err, st.errDesc, st.errTags = genErrShape(r, bases, listedErrs, o.nilCause)
			} else if pool != nil && r.Chance(0.75) {
				st.err, st.errDesc = genErrVal(r, bases, pool)
			} else {
				st.err, st.errDesc = genErr(r, bases)
			}
			if r.Chance(0.6) {
				st.outs = mkOuts(r.Intn(4))
			}
		case x < okCut:
			st.Kind = "ok"
			st.outs = mkOuts(r.Intn(4))
		default:
			st.Kind = "panic"
			if pool != nil && r.Chance(0.75) {
				st.pv, st.pvDesc = genPanicVal(r, bases, pool)
			} else {
				st.pv, st.pvDesc, st.runtimePanic = genPanic(r, bases)
			}
		}
		if pool != nil && st.Kind != "panic" {
			valOuts(r, &st)
		}
		if ctxMode && !r.Chance(0.12) {
			st.CtxAct = handlerActs[r.Intn(len(handlerActs))]
		}
		if o.metaMode {
			genStepMeta(r, &st)
		}
		sc.script = append(sc.script, st)
	}
	if r.Chance(0.75) {
		sc.inCorr = "corr-" + id
	}
	if o.metaMode {
		// the message that "enters the system" here: half of them arrive without an id (10%: key present, empty)
		switch x := r.Intn(100); {
		case x < 40:
			sc.inCorr = ""
		case x < 50:
			sc.inCorr, sc.inCorrEK = "", true
		default:
			sc.inCorr = "corr-" + id
		}
	}
	if r.Chance(0.2) {
		sc.preDelay = 50*time.Millisecond + time.Duration(r.Uint64()%uint64(3*time.Second))
	}
	sc.ctxKind = r.Intn(3)
	return sc
}

// ---------------------------------------------------------------------------------------------
// reference model of the documented effects

type mOut struct {
	outs      []*message.Message
	err       error // identity of the handler's error (nil when none or when recovered)
	recovered bool  // the error is a RecoveredPanicError carrying pst's value
	panicked  bool
	pst       *step
}

func (o mOut) failed() bool { return o.err != nil || o.recovered }

func (o mOut) String() string {
	switch {
	case o.panicked:
		return "panic(" + o.pst.pvDesc + ")"
	case o.recovered:
		return "RecoveredPanicError(" + o.pst.pvDesc + ")"
	case o.err != nil:
		return fmt.Sprintf("err(%v)+%dout", o.err, len(o.outs))
	}
	return fmt.Sprintf("ok+%dout", len(o.outs))
}

type model struct {
	sc        *scenario
	calls     int
	acked     bool
	hasDelay  bool
	delay     float64 // ns
	delayApps int
	corr      map[*message.Message]string
	ackAtCall []bool
	eff       map[string]int

	// symbolic message context (ctxrepl.go)
	callerCtx *sctx
	ctx       *sctx
	nextSeq   int
	ambiguous bool    // from here on the statement only demands "not cancelled" (see kTimeout in eval)
	ctxAtCall []*sctx // expected lineage of msg.Context() at the start of each handler call; nil = no demand
	ctxEff    map[string]int

	in       *message.Message // the consumed message (it may be among the outputs: values classes)
	echoCorr bool             // CorrelationID saw the consumed message, lacking an id, among the outputs

	// the consumed message's metadata as the code inside the chain leaves it (inmeta.go); the delay keys are
	// carried along but judged through hasDelay / delay
	meta    map[string]string
	metaEff map[string]int
	userInv map[int]int // invocations so far per UserMW layer
}

func newModel(sc *scenario) *model {
	m := &model{sc: sc, corr: map[*message.Message]string{}, eff: map[string]int{}, ctxEff: map[string]int{}, metaEff: map[string]int{}, userInv: map[int]int{}}
	m.callerCtx = &sctx{kind: "caller", seq: -1}
	m.ctx = m.callerCtx
	for _, st := range sc.script {
		for _, o := range st.outs {
			m.corr[o] = o.Metadata.Get(middleware.CorrelationIDMetadataKey)
		}
	}
	if sc.preDelay > 0 {
		m.hasDelay, m.delay = true, float64(sc.preDelay)
	}
	return m
}

func (m *model) handler() mOut {
	idx := m.calls
	m.calls++
	if idx >= len(m.sc.script) {
		idx = len(m.sc.script) - 1
	}
	st := &m.sc.script[idx]
	m.ackAtCall = append(m.ackAtCall, m.acked)
	if m.ambiguous {
		m.ctxAtCall = append(m.ctxAtCall, nil)
	} else {
		m.ctxAtCall = append(m.ctxAtCall, m.ctx)
	}
	m.ctx = m.applyAct(st.CtxAct, m.ctx)
	if m.sc.metaMode {
		m.handlerMeta(st, idx)
	}
	switch st.Kind {
	case "panic":
		return mOut{panicked: true, pst: st}
	case "ok":
		return mOut{outs: st.outs}
	}
	return mOut{outs: st.outs, err: st.err}
}

func (m *model) eval(i int) mOut {
	if i == len(m.sc.chain) {
		return m.handler()
	}
	l := &m.sc.chain[i]
	switch l.K {
	case kTimeout:
		// documented effect: a deadline visible during the call (judged per handler call); nothing else
		m.eff["deadline_seen"]++
		saved := m.ctx
		node := &sctx{parent: saved, kind: "timeout", seq: -1, tmo: l.Timeout}
		m.ctx = node
		o := m.eval(i + 1)
		if !m.ctx.descendsFrom(node) {
			// The inner code left a context of its own on the message that does not stem from the timeout
			// context. The statement demands that the message context "is not left cancelled"; whether
			// Timeout puts the caller's context back (what it does) or leaves the handler's own, live one
			// in place is not specified. From here on only "not cancelled / no Timeout deadline left" and
			// Retry's attempt count are judged.
			m.ambiguous = true
			m.ctxEff["ctx_unrelated_left_under_timeout"]++
		} else if m.ctx != node {
			m.ctxEff["ctx_derived_left_under_timeout"]++
		}
		m.ctx = saved
		return o
	case kUser:
		seen := m.ctx
		if l.UAct != "" {
			m.ctxEff["ctx_user_mw"]++
		}
		m.ctx = m.applyAct(l.UAct, seen)
		inv := m.userInv[i]
		m.userInv[i]++
		entryCorr, entryHas := m.meta[middleware.CorrelationIDMetadataKey]
		if l.UMPre != "" {
			m.metaEff["inmeta_user_pre_"+l.UMPre]++
			applyMeta(&m.meta, l.UMPre, userMetaVal(m.sc, i, inv, "a"))
		}
		o := m.eval(i + 1)
		if l.URestore {
			m.ctx = seen
		}
		if l.UMPost != "" && (!o.panicked || l.UMDefer) {
			m.metaEff["inmeta_user_post_"+l.UMPost]++
			if l.UMPost == "restore" {
				restoreCorr(m.meta, entryCorr, entryHas)
			} else {
				applyMeta(&m.meta, l.UMPost, userMetaVal(m.sc, i, inv, "b"))
			}
		}
		return o
	case kBreaker:
		m.eff["breaker_pass"]++
		return m.eval(i + 1)
	case kThrottle:
		m.eff["rate_wait"]++
		return m.eval(i + 1)
	case kCorr:
		entryID := m.meta[middleware.CorrelationIDMetadataKey]
		o := m.eval(i + 1)
		// "ID is based on ID from message received by handler": the id the consumed message carries when the
		// outputs exist, i.e. when the inner call has returned - see the Assumptions text (in-meta classes)
		id := m.meta[middleware.CorrelationIDMetadataKey]
		if id != entryID {
			m.metaEff["inmeta_corr_layer_id_changed_during_call"]++
		}
		if !o.panicked {
			for _, out := range o.outs {
				if out == m.in {
					m.eff["echo_under_corr"]++
					if m.corr[out] == "" {
						// the consumed message is an output that lacks an id: "copying" its own empty id onto it
						// may leave an empty correlation_id key on it (SetCorrelationID does) - part of the documented effect
						m.echoCorr = true
					}
				}
				if m.corr[out] == "" {
					m.corr[out] = id
					if id != "" {
						m.eff["corr_copied"]++
						if id != entryID {
							m.metaEff["inmeta_corr_copied_id_set_during_call"]++
						}
					} else if entryID != "" {
						m.metaEff["inmeta_corr_id_removed_during_call_not_copied"]++
					}
				} else {
					m.eff["corr_kept"]++
				}
			}
		}
		return o
	case kRecov:
		o := m.eval(i + 1)
		if o.panicked {
			m.eff["recovered"]++
			return mOut{recovered: true, pst: o.pst}
		}
		return o
	case kIgnore:
		o := m.eval(i + 1)
		// listed = the text of the error's pkg/errors Cause (Cause() methods only) is the text of a list entry:
		// what the unchanged source does (errshape.go)
		if !o.panicked && o.err != nil && listedByCause(l.listed, o.err) {
			o.err = nil
			m.eff["ignored"]++
		}
		return o
	case kAck:
		m.acked = true
		m.eff["ack_at_start"]++
		return m.eval(i + 1)
	case kDelay:
		o := m.eval(i + 1)
		if !o.panicked && o.failed() {
			if m.hasDelay {
				m.delay *= l.DMult
				if m.delay > float64(l.DMax) {
					m.delay = float64(l.DMax)
				}
			} else {
				m.hasDelay, m.delay = true, float64(l.DInit)
			}
			m.delayApps++
			m.eff["delay_applied"]++
		}
		return o
	case kRetry:
		o := m.eval(i + 1)
		if o.panicked || !o.failed() {
			return o
		}
		retryNum := 1
		for {
			m.eff["retries"]++
			o = m.eval(i + 1)
			if o.panicked || !o.failed() {
				return o
			}
			retryNum++
			if retryNum > l.MaxRetries {
				break
			}
		}
		o.outs = nil
		return o
	}
	panic("c19: unknown layer kind")
}

// ---------------------------------------------------------------------------------------------
// real execution

type callObs struct {
	acked       bool
	hasDL       bool
	dl          time.Time
	tIn         time.Time
	valOK       bool
	waited      bool
	waitSkipped bool
	doneAt      time.Time
	errAfter    error
	end         time.Time
	ctx         context.Context // msg.Context() at the start of the call
}

type ctxKeyT struct{}

type realRun struct {
	mu        sync.Mutex
	calls     int
	obs       []callObs
	retryHook int
	breakerCh int

	outs     []*message.Message
	err      error
	panicked bool
	pv       any
	tStart   time.Time

	made    []madeCtx // contexts installed by the handler / UserMW layers, in creation order
	cancels []func()

	userInv map[int]int // in-meta classes: invocations so far per UserMW layer
}

func stopThrottle(t *middleware.Throttle) {
	defer func() { recover() }()
	f := reflect.ValueOf(t).Elem().FieldByName("ticker")
	if f.IsValid() && f.Type() == reflect.TypeOf((*time.Ticker)(nil)) && !f.IsNil() {
		(*time.Ticker)(unsafe.Pointer(f.Pointer())).Stop()
	}
}

// The middlewares are reached through package-level function variables: a call through such a variable is not
// inlined, so the closures a middleware returns keep their own names
// (github.com/ThreeDotsLabs/watermill/message/router/middleware.Recoverer.func1 instead of
// c19.(*scenario).build.Recoverer.func9) and a race report about middleware code carries a watermill frame
// (the driver tells product races from harness races by the function names on the access stacks).
var (
	mwTimeout        = middleware.Timeout
	mwCorrelationID  = middleware.CorrelationID
	mwRecoverer      = middleware.Recoverer
	mwInstantAck     = middleware.InstantAck
	mwIgnoreErrors   = middleware.IgnoreErrors.Middleware
	mwDelayOnError   = (*middleware.DelayOnError).Middleware
	mwCircuitBreaker = middleware.CircuitBreaker.Middleware
	mwThrottle       = middleware.Throttle.Middleware
	mwRetry          = middleware.Retry.Middleware
)

func (sc *scenario) build(h message.HandlerFunc, rr *realRun) (message.HandlerFunc, func()) {
	var throttles []*middleware.Throttle
	for i := len(sc.chain) - 1; i >= 0; i-- {
		l := sc.chain[i]
		switch l.K {
		case kTimeout:
			h = mwTimeout(l.Timeout)(h)
		case kCorr:
			h = mwCorrelationID(h)
		case kRecov:
			h = mwRecoverer(h)
		case kIgnore:
			h = mwIgnoreErrors(middleware.NewIgnoreErrors(l.List), h)
		case kAck:
			h = mwInstantAck(h)
		case kDelay:
			d := &middleware.DelayOnError{InitialInterval: l.DInit, MaxInterval: l.DMax, Multiplier: l.DMult}
			h = mwDelayOnError(d, h)
		case kBreaker:
			st := gobreaker.Settings{Name: sc.id, OnStateChange: func(string, gobreaker.State, gobreaker.State) {
				rr.mu.Lock()
				rr.breakerCh++
				rr.mu.Unlock()
			}}
			if sc.maxCalls > 5 || sc.shared != nil {
				st.ReadyToTrip = func(gobreaker.Counts) bool { return false }
			}
			if sh, li := sc.shared, i; sh != nil {
				// gobreaker calls Settings.IsSuccessful after the handler returned and before it books the result:
				// the one place where user code runs between "handler returned" and "middleware returned".
				// Same verdict as the default (err == nil); the concurrent classes park the calls in flight here.
				st.IsSuccessful = func(err error) bool {
					sh.afterHandler(li)
					return err == nil
				}
			}
			h = mwCircuitBreaker(middleware.NewCircuitBreaker(st), h)
		case kThrottle:
			t := middleware.NewThrottle(10, time.Millisecond) // one start per 100 µs
			throttles = append(throttles, t)
			h = mwThrottle(*t, h)
		case kRetry:
			rt := middleware.Retry{MaxRetries: l.MaxRetries, InitialInterval: l.RInterval, MaxInterval: 2 * l.RInterval, Multiplier: 1.2,
				MaxElapsedTime: l.RElapsed, RandomizationFactor: l.RRand,
				OnRetryHook: func(int, time.Duration) {
					rr.mu.Lock()
					rr.retryHook++
					rr.mu.Unlock()
				}}
			h = mwRetry(rt, h)
		case kUser:
			h = userMW(l, i, sc, rr, h)
		}
	}
	return h, func() {
		for _, t := range throttles {
			stopThrottle(t)
		}
	}
}

//go:noinline
func nilMapPanic() {
	var m map[string]int
	m["x"] = 1
}

func pvMatch(st *step, got any) (ok bool) {
	defer func() {
		if recover() != nil {
			ok = false
		}
	}()
	if st.runtimePanic {
		re, is := got.(runtime.Error)
		return is && strings.Contains(re.Error(), "nil map")
	}
	if st.pv == nil {
		if got == nil {
			return true
		}
		_, is := got.(*runtime.PanicNilError)
		return is
	}
	if reflect.TypeOf(st.pv) != reflect.TypeOf(got) {
		return false
	}
	if reflect.TypeOf(st.pv).Kind() == reflect.Ptr {
		return reflect.ValueOf(st.pv).Pointer() == reflect.ValueOf(got).Pointer()
	}
	return reflect.DeepEqual(st.pv, got)
}

// sameErr: the identical error value. Comparable dynamic types: ==. Values of non-comparable dynamic types (slice,
// map, struct with such a field; == panics for them) are the same when they have the same type and are deeply
// equal - every such value the generator makes has unique contents.
func sameErr(a, b error) (ok bool) {
	defer func() {
		if recover() != nil {
			ok = a != nil && b != nil && reflect.TypeOf(a) == reflect.TypeOf(b) && reflect.DeepEqual(a, b)
		}
	}()
	return a == b
}

// waitOpts: the middleware closures get inlined into harness functions (frame names like
// "c19.(*scenario).build.Retry.Middleware.func14"), so the detector's default, package-qualified
// timer frames do not match them; a goroutine inside Retry's back-off or Throttle's tick wait is
// timer-driven, never stuck.
func waitOpts() vlib.WaitOpts {
	o := vlib.WD
	o.TimerFrames = []string{"Retry.Middleware", "Throttle.Middleware"}
	return o
}

type runStats struct {
	events  int
	effects int
	calls   int
	result  string
	eff     map[string]int
	ctxEff  map[string]int
	metaEff map[string]int

	ambiguous bool
}

// prep is one message going through a chain: the input, the model's verdict, and what really happened.
type prep struct {
	sc          *scenario
	in          *message.Message
	inSnap      vlib.MsgSnap
	outSnaps    map[*message.Message]vlib.MsgSnap
	ctxVal      string
	parentDL    time.Time
	parentHasDL bool
	cancelCtx   func()
	m           *model
	mo          mOut
	rr          *realRun
	done        chan struct{}
}

func newPrep(sc *scenario) *prep {
	p := &prep{sc: sc, rr: &realRun{}, done: make(chan struct{}), outSnaps: map[*message.Message]vlib.MsgSnap{}}
	// --- input message
	in := message.NewMessage(sc.id+"-in", []byte("payload-"+sc.id))
	in.Metadata.Set("k-a", "v1")
	in.Metadata.Set("k-b", "")
	if sc.inCorr != "" || sc.inCorrEK {
		in.Metadata.Set(middleware.CorrelationIDMetadataKey, sc.inCorr)
	}
	if sc.preDelay > 0 {
		delay.Message(in, delay.For(sc.preDelay))
	}
	var parent context.Context = context.Background()
	p.ctxVal = "val-" + sc.id
	switch sc.ctxKind {
	case 1:
		parent = context.WithValue(parent, ctxKeyT{}, p.ctxVal)
	case 2:
		parent, p.cancelCtx = context.WithDeadline(context.WithValue(parent, ctxKeyT{}, p.ctxVal), time.Now().Add(2*time.Hour))
		p.parentDL, p.parentHasDL = parent.Deadline()
	}
	in.SetContext(parent)
	p.in = in
	p.inSnap = vlib.Snap(in)
	// values classes: the consumed message itself among the outputs
	for i := range sc.script {
		st := &sc.script[i]
		if st.echo && !st.echoDone {
			outs := make([]*message.Message, 0, len(st.outs)+1)
			outs = append(outs, st.outs[:st.echoPos]...)
			outs = append(outs, in)
			outs = append(outs, st.outs[st.echoPos:]...)
			st.outs, st.echoDone = outs, true
		}
	}
	for _, st := range sc.script {
		for _, o := range st.outs {
			if o != in {
				p.outSnaps[o] = vlib.Snap(o)
			}
		}
	}
	// --- model
	p.m = newModel(sc)
	p.m.in = in
	p.m.meta = map[string]string{}
	for k, v := range p.inSnap.Metadata {
		p.m.meta[k] = v
	}
	p.mo = p.m.eval(0)
	return p
}

func (p *prep) release() {
	if p.cancelCtx != nil {
		p.cancelCtx()
	}
}

// handle is the scripted handler at the bottom of the chain.
func (p *prep) handle(msg *message.Message) ([]*message.Message, error) {
	sc, rr := p.sc, p.rr
	rr.mu.Lock()
	idx := rr.calls
	rr.calls++
	rr.mu.Unlock()
	first := idx == 0
	if idx >= len(sc.script) {
		idx = len(sc.script) - 1
	}
	st := &sc.script[idx]
	var o callObs
	ctx := msg.Context()
	o.ctx = ctx
	o.tIn = time.Now()
	o.dl, o.hasDL = ctx.Deadline()
	o.acked = vlib.IsClosed(msg.Acked())
	o.valOK = sc.ctxKind == 0 || ctx.Value(ctxKeyT{}) == p.ctxVal
	if st.Kind == "wait" {
		if o.hasDL && time.Until(o.dl) < 2*time.Second {
			<-ctx.Done()
			o.waited = true
			o.doneAt = time.Now()
			o.errAfter = ctx.Err()
		} else {
			o.waitSkipped = true
		}
	}
	o.end = time.Now()
	rr.mu.Lock()
	rr.obs = append(rr.obs, o)
	rr.mu.Unlock()
	rr.applyAct(st.CtxAct, msg)
	if sc.metaMode {
		handlerMetaReal(sc, st, idx, msg)
	}
	if sc.shared != nil {
		// concurrent classes: the result is produced; meet the other calls in flight, then yield before returning
		sc.shared.inHandler(first, st.Kind == "panic")
		for i := 0; i < sc.yields; i++ {
			runtime.Gosched()
		}
	}
	if st.Kind == "panic" {
		if st.runtimePanic {
			nilMapPanic()
		}
		panic(st.pv)
	}
	return st.outs, st.err
}

// exec calls the wrapped handler with the input and records how the call ended.
func (p *prep) exec(chainFn message.HandlerFunc) {
	rr := p.rr
	defer close(p.done)
	returned := false
	defer func() {
		r := recover()
		rr.mu.Lock()
		if !returned {
			rr.panicked, rr.pv = true, r
		}
		rr.mu.Unlock()
	}()
	rr.mu.Lock()
	rr.tStart = time.Now()
	rr.mu.Unlock()
	outs, err := chainFn(p.in)
	rr.mu.Lock()
	rr.outs, rr.err = outs, err
	rr.mu.Unlock()
	returned = true
}

// buildSafe: a middleware constructor that panics on a legal configuration is a finding, not a harness crash.
func (sc *scenario) buildSafe(h message.HandlerFunc, rr *realRun) (fn message.HandlerFunc, cleanup func(), pv any) {
	defer func() {
		if r := recover(); r != nil {
			fn, cleanup, pv = nil, func() {}, r
		}
	}()
	fn, cleanup = sc.build(h, rr)
	return fn, cleanup, nil
}

// runScenario executes the real chain once and judges it against the model.
func runScenario(res *vlib.Result, sc *scenario) runStats {
	p := newPrep(sc)
	defer p.release()
	chainFn, cleanup, pv := sc.buildSafe(p.handle, p.rr)
	defer cleanup()
	if chainFn == nil {
		if !res.Failed() {
			res.Fail("middleware-construct", "building the chain panicked with %#v | %s", pv, sc.describe())
		}
		return runStats{eff: p.m.eff, ctxEff: p.m.ctxEff, metaEff: p.m.metaEff}
	}
	go p.exec(chainFn)
	opts := waitOpts()
	if sc.useWait {
		opts.NotBefore = time.Now().Add(3 * time.Second) // context deadlines are invisible in goroutine dumps
	}
	oc, dump := vlib.WaitClosed(p.done, opts)
	return p.judge(res, oc, dump)
}

// judge compares what really happened to this message with the model.
func (p *prep) judge(res *vlib.Result, oc vlib.Outcome, dump string) runStats {
	sc, rr, m, mo, in := p.sc, p.rr, p.m, p.mo, p.in
	inSnap, outSnaps, ctxVal, parentDL, parentHasDL := p.inSnap, p.outSnaps, p.ctxVal, p.parentDL, p.parentHasDL
	rr.mu.Lock()
	defer rr.mu.Unlock()
	defer func() {
		// the contexts the handler / UserMW layers installed stay live until the run has been judged
		for _, c := range rr.cancels {
			c()
		}
	}()

	stats := runStats{eff: m.eff, ctxEff: m.ctxEff, metaEff: m.metaEff, calls: rr.calls}
	for _, n := range m.eff {
		stats.effects += n
	}
	stats.events = 1 + rr.calls + len(outSnaps)
	fail := func(clause, format string, args ...any) {
		if !res.Failed() {
			if sc.nilCause {
				clause = "ignore-nil-cause"
			}
			res.Fail(clause, "%s | %s", fmt.Sprintf(format, args...), sc.describe())
			res.Witness = map[string]any{"chain": sc.chainStr(), "script": sc.scriptStr(), "model_result": mo.String(), "model_calls": m.calls, "real_calls": rr.calls,
				"real_err": fmt.Sprint(rr.err), "real_panicked": rr.panicked, "real_outs": len(rr.outs), "ctx_err_after": fmt.Sprint(in.Context().Err())}
		}
	}
	switch oc {
	case vlib.Stuck:
		fail("blocks", "the chain never returned (process quiescent)")
		res.Witness = dump
		return stats
	case vlib.Inconclusive:
		res.Inconclusive("chain did not return before the watchdog: %s", sc.describe())
		return stats
	}
	if rr.breakerCh > 0 || (sc.shared != nil && sc.shared.breakerChanges() > 0) {
		res.Inconclusive("circuit breaker changed state (workload assumption broken): %s", sc.describe())
		return stats
	}
	shape := sc.shape()
	hasT, hasRetry := shape.has(kTimeout), shape.has(kRetry)
	stats.ambiguous = m.ambiguous

	// 1. handler call count (Retry's attempt count)
	if rr.calls != m.calls {
		clause := "handler-calls"
		if hasRetry {
			clause = "retry-attempts"
		}
		fail(clause, "handler was called %d times, the documented effects give %d (model result %s; after the run msg.Context().Err()=%v)", rr.calls, m.calls, mo, in.Context().Err())
		return stats
	}
	// 2. panics
	switch {
	case rr.panicked && !mo.panicked:
		fail("panic-escape", "a panic (%#v) escaped the chain; expected result %s", rr.pv, mo)
		return stats
	case !rr.panicked && mo.panicked:
		fail("panic-swallowed", "handler panic %s did not propagate although no Recoverer is outside it; got outs=%d err=%v", mo.pst.pvDesc, len(rr.outs), rr.err)
		return stats
	case rr.panicked:
		if !pvMatch(mo.pst, rr.pv) {
			fail("panic-value", "panic value changed on the way out: handler panicked with %s (%#v), chain panicked with %#v", mo.pst.pvDesc, mo.pst.pv, rr.pv)
			return stats
		}
	}
	// 3. error
	if !rr.panicked {
		switch {
		case mo.recovered:
			var rp middleware.RecoveredPanicError
			var rpp *middleware.RecoveredPanicError
			switch {
			case errors.As(rr.err, &rp):
			case errors.As(rr.err, &rpp) && rpp != nil:
				rp = *rpp
			default:
				fail("recoverer-error", "handler panicked with %s under a Recoverer; returned error %v (%T) is not / does not wrap RecoveredPanicError", mo.pst.pvDesc, rr.err, rr.err)
				return stats
			}
			if !pvMatch(mo.pst, rp.V) {
				fail("recoverer-error", "RecoveredPanicError.V = %#v, handler panicked with %s (%#v)", rp.V, mo.pst.pvDesc, mo.pst.pv)
				return stats
			}
		case mo.err == nil:
			if rr.err != nil {
				clause := "error-identity"
				if shape.has(kIgnore) {
					clause = "ignore-errors"
				}
				fail(clause, "chain returned error %v (%T), expected nil (model result %s)", rr.err, rr.err, mo)
				return stats
			}
		default:
			if !sameErr(rr.err, mo.err) {
				clause := "error-identity"
				if shape.has(kIgnore) && rr.err == nil {
					clause = "ignore-errors"
				}
				fail(clause, "chain returned error %v (%T), expected the handler's own error value %v (%T) unchanged", rr.err, rr.err, mo.err, mo.err)
				return stats
			}
		}
		// 4. outputs: same pointers, same order
		same := len(rr.outs) == len(mo.outs)
		for i := 0; same && i < len(mo.outs); i++ {
			same = rr.outs[i] == mo.outs[i]
		}
		if !same {
			fail("outputs-identity", "chain returned %d outputs, expected the %d handler outputs pointer-identical and in order (model result %s)", len(rr.outs), len(mo.outs), mo)
			return stats
		}
	}
	// 5. message context after the call: not cancelled, no deadline left behind
	after := in.Context()
	afterClause := "ctx-after"
	if hasT {
		afterClause = "timeout-ctx-after"
	}
	if err := after.Err(); err != nil {
		fail(afterClause, "after the chain returned, msg.Context().Err() = %v (the context given to the chain was live)", err)
		return stats
	}
	if dl, ok := after.Deadline(); m.ambiguous {
		// the handler / a user middleware left an unrelated context of its own under a Timeout: nothing is
		// demanded beyond "not cancelled" and "the Timeout's deadline is not left behind" (every other
		// deadline in the game is the caller's or one the harness requested itself)
		known := !ok || (parentHasDL && dl.Equal(parentDL))
		for _, mc := range rr.made {
			known = known || (!mc.ownDL.IsZero() && dl.Equal(mc.ownDL))
		}
		if !known {
			fail(afterClause, "after the chain returned, msg.Context() has deadline %v, which is neither the caller's (%v,%v) nor one the handler / user middleware installed", dl, parentDL, parentHasDL)
			return stats
		}
	} else {
		// m.ctx: the context the code inside the chain left on the message (the caller's own unless the
		// handler / a user middleware outside every Timeout replaced it)
		wdl, wok := expectedDeadline(m.ctx, rr, parentDL, parentHasDL)
		if ok != wok || (ok && !dl.Equal(wdl)) {
			fail(afterClause, "after the chain returned, msg.Context() has deadline (%v,%v); the context left on the message (%s) has (%v,%v)", dl, ok, m.ctx, wdl, wok)
			return stats
		}
		if m.ctx.root().kind == "caller" && sc.ctxKind != 0 && after.Value(ctxKeyT{}) != ctxVal {
			fail(afterClause, "after the chain returned, msg.Context() lost the caller's context value (expected context %s)", m.ctx)
			return stats
		}
		for _, seq := range m.ctx.madeSeqs() {
			if after.Value(markKey{seq}) != seq {
				fail(afterClause, "after the chain returned, msg.Context() lost the value of context #%d that the handler / user middleware had installed (expected context %s)", seq, m.ctx)
				return stats
			}
		}
	}
	// 6. per handler call: ack-at-start, deadline inside the call
	allTInsideRetry := true
	for i, l := range sc.chain {
		if l.K == kTimeout {
			for _, l2 := range sc.chain[i+1:] {
				if l2.K == kRetry {
					allTInsideRetry = false
				}
			}
		}
	}
	for i, o := range rr.obs {
		wantAck := i < len(m.ackAtCall) && m.ackAtCall[i]
		if wantAck && !o.acked {
			fail("instant-ack", "handler call %d started with the message not yet acked although InstantAck is in the chain", i)
			return stats
		}
		if !wantAck && o.acked {
			fail("ack-transparency", "handler call %d started with the message already acked although no InstantAck is in the chain", i)
			return stats
		}
		// exp: the lineage msg.Context() has at the start of this call (caller's context, the Timeout
		// layers above, whatever the handler / user middlewares installed before); nil = no demand
		var exp *sctx
		if i < len(m.ctxAtCall) {
			exp = m.ctxAtCall[i]
		}
		if exp == nil {
			continue
		}
		if exp.root().kind == "caller" && !o.valOK {
			fail("ctx-transparency", "handler call %d: the caller's context value is not visible through msg.Context() (expected context %s)", i, exp)
			return stats
		}
		for _, seq := range exp.madeSeqs() {
			if o.ctx.Value(markKey{seq}) != seq {
				fail("ctx-transparency", "handler call %d: the value of context #%d installed earlier by the handler / user middleware is not visible through msg.Context() (expected context %s)", i, seq, exp)
				return stats
			}
		}
		st := &sc.script[i]
		if dmin, underT := exp.minTimeout(); underT {
			tb := rr.tStart
			if allTInsideRetry && i > 0 {
				tb = rr.obs[i-1].end
			}
			if !o.hasDL {
				fail("timeout-deadline", "handler call %d: no deadline visible through msg.Context() although Timeout(%v) is in the chain", i, dmin)
				return stats
			}
			if o.dl.Before(tb.Add(dmin)) || o.dl.After(o.tIn.Add(dmin)) {
				fail("timeout-deadline", "handler call %d: deadline %v outside [t_before+timeout, t_inside+timeout] = [%v, %v] (timeout %v)", i, o.dl, tb.Add(dmin), o.tIn.Add(dmin), dmin)
				return stats
			}
			if st.Kind == "wait" {
				if o.waitSkipped || !o.waited {
					fail("timeout-deadline", "handler call %d: expected a deadline within %v, saw %v", i, dmin, time.Until(o.dl))
					return stats
				}
				if o.doneAt.Sub(tb) < dmin {
					fail("timeout-deadline", "handler call %d: context was done %v after the call began, before the timeout %v", i, o.doneAt.Sub(tb), dmin)
					return stats
				}
				if o.errAfter != context.DeadlineExceeded {
					fail("timeout-deadline", "handler call %d: ctx.Err() after Done = %v, want deadline exceeded", i, o.errAfter)
					return stats
				}
			}
		} else if wdl, wok := expectedDeadline(exp, rr, parentDL, parentHasDL); o.hasDL != wok || (o.hasDL && !o.dl.Equal(wdl)) {
			fail("ctx-transparency", "handler call %d: deadline (%v,%v) differs from (%v,%v) of the context %s although no Timeout is between that context and the handler", i, o.dl, o.hasDL, wdl, wok, exp)
			return stats
		}
	}
	// 7. the input message: settled state, value, delay metadata
	switch s := vlib.Settled(in); {
	case s == "nack":
		fail("ack-transparency", "the chain nacked the message")
		return stats
	case s == "ack" && !m.acked:
		fail("ack-transparency", "the chain acked the message although no InstantAck is in it")
		return stats
	case s == "" && m.acked:
		fail("instant-ack", "message not acked after a chain containing InstantAck")
		return stats
	}
	if in.UUID != inSnap.UUID || string(in.Payload) != string(inSnap.Payload) {
		fail("input-mutated", "input UUID/payload changed")
		return stats
	}
	// wantMeta: the metadata the consumed message had on entry with the changes the handler / UserMW layers made
	// during the call (in-meta classes; in all other classes nobody but the middlewares touches it)
	wantMeta := m.meta
	keys := map[string]bool{}
	for k := range wantMeta {
		keys[k] = true
	}
	for k := range in.Metadata {
		keys[k] = true
	}
	for k := range keys {
		if k == delay.DelayedForKey || k == delay.DelayedUntilKey {
			continue
		}
		a, aok := wantMeta[k]
		b, bok := in.Metadata[k]
		if k == middleware.CorrelationIDMetadataKey && m.echoCorr && a == "" && b == "" {
			continue
		}
		if a != b || aok != bok {
			fail("input-mutated", "input metadata key %q changed: as the handler / user code left it (on entry when they did not touch it) (%q,%v), after the chain (%q,%v)", k, a, aok, b, bok)
			return stats
		}
	}
	gotFor, hasFor := in.Metadata[delay.DelayedForKey]
	if m.delayApps == 0 {
		a, aok := inSnap.Metadata[delay.DelayedForKey]
		u0, u0ok := inSnap.Metadata[delay.DelayedUntilKey]
		u1, u1ok := in.Metadata[delay.DelayedUntilKey]
		if a != gotFor || aok != hasFor || u0 != u1 || u0ok != u1ok {
			fail("delay-untouched", "delay metadata changed (%q,%v)->(%q,%v) although no DelayOnError layer saw an error", a, aok, gotFor, hasFor)
			return stats
		}
	} else {
		d, err := time.ParseDuration(gotFor)
		if !hasFor || err != nil {
			fail("delay-value", "after %d failing call(s) seen by DelayOnError the metadata %s is %q (present=%v)", m.delayApps, delay.DelayedForKey, gotFor, hasFor)
			return stats
		}
		tol := m.delay*1e-6 + float64(2*m.delayApps+1)
		if diff := float64(d) - m.delay; diff > tol || diff < -tol {
			fail("delay-value", "after %d failing call(s) seen by DelayOnError, %s = %v; documented min(prev x Multiplier, MaxInterval) gives %v", m.delayApps, delay.DelayedForKey, d, time.Duration(m.delay))
			return stats
		}
	}
	// 8. every output message the handler ever produced: correlation id per the model, nothing else touched
	for o, snap := range outSnaps {
		got := o.Metadata.Get(middleware.CorrelationIDMetadataKey)
		if got != m.corr[o] {
			fail("correlation-id", "output %s: correlation id %q, expected %q (its own before the call: %q, consumed message's on entry: %q, after the chain returned: %q)", o.UUID, got, m.corr[o], snap.Metadata[middleware.CorrelationIDMetadataKey], sc.inCorr, in.Metadata.Get(middleware.CorrelationIDMetadataKey))
			return stats
		}
		if o.UUID != snap.UUID || string(o.Payload) != string(snap.Payload) {
			fail("output-mutated", "output %s: UUID/payload changed", snap.UUID)
			return stats
		}
		for k, v := range snap.Metadata {
			if k != middleware.CorrelationIDMetadataKey && o.Metadata[k] != v {
				fail("output-mutated", "output %s: metadata key %q changed %q -> %q", o.UUID, k, v, o.Metadata[k])
				return stats
			}
		}
		for k := range o.Metadata {
			if _, ok := snap.Metadata[k]; !ok && k != middleware.CorrelationIDMetadataKey {
				fail("output-mutated", "output %s: metadata key %q added", o.UUID, k)
				return stats
			}
		}
		if vlib.Settled(o) != "" {
			fail("output-mutated", "output %s was settled by the chain", o.UUID)
			return stats
		}
	}
	if rr.panicked {
		stats.result = "panic"
	} else {
		stats.result = mo.String()
	}
	return stats
}

// ---------------------------------------------------------------------------------------------
// case runners for the chain classes

func runChains(e *vlib.Env, class string, shapes []chainShape, scriptsPer int) vlib.Result {
	return runChainsMode(e, class, shapes, scriptsPer, false)
}

func runChainsMode(e *vlib.Env, class string, shapes []chainShape, scriptsPer int, ctxMode bool) vlib.Result {
	return runChainsOpts(e, class, shapes, scriptsPer, genOpts{ctxMode: ctxMode})
}

func runChainsOpts(e *vlib.Env, class string, shapes []chainShape, scriptsPer int, o genOpts) vlib.Result {
	ctxMode := o.ctxMode
	res := vlib.Result{Class: class}
	ctxTotal := map[string]int{}
	metaTotal := map[string]int{}
	var sigParts []any
	var samples []map[string]any
	effTotal := map[string]int{}
	effTotalVal := map[string]int{}
	n := 0
	for ci, shape := range shapes {
		for s := 0; s < scriptsPer; s++ {
			sc := genScenarioOpts(e.R, fmt.Sprintf("%s.%d.%d", e.ID(), ci, s), shape, o)
			st := runScenario(&res, sc)
			if sc.valMode {
				for k, v := range valStats(sc) {
					effTotalVal[k] += v
				}
			}
			if sc.errMode {
				for k, v := range errShapeStats(sc) {
					effTotalVal[k] += v
				}
			}
			n++
			res.Events += st.events
			for k, v := range st.eff {
				effTotal[k] += v
			}
			for k, v := range st.ctxEff {
				ctxTotal[k] += v
			}
			for k, v := range st.metaEff {
				metaTotal[k] += v
			}
			if len(samples) < 3 || res.Failed() {
				samples = append(samples, map[string]any{"chain": sc.chainStr(), "script": sc.scriptStr(), "handler_calls": st.calls, "result": st.result})
			}
			sigParts = append(sigParts, sc.chainStr(), sc.scriptStr(), st.calls, st.result)
			if res.Failed() || res.Verdict == vlib.Inconcl {
				res.Sample = samples
				res.NonTrivial = true
				res.Sig = vlib.Sig(sigParts...)
				return res
			}
		}
	}
	eff := 0
	for k, v := range effTotal {
		res.Count("effect_"+k, v)
		eff += v
	}
	ctxN := 0
	for k, v := range ctxTotal {
		res.Count(k, v)
		ctxN += v
	}
	metaN := 0
	for k, v := range metaTotal {
		res.Count(k, v)
		metaN += v
	}
	valN := 0
	for k, v := range effTotalVal {
		res.Count(k, v)
		valN += v
	}
	res.Count("chain_runs", n)
	res.NonTrivial = eff > 0
	if o.valMode {
		// values classes: at least one unusual value went through a middleware
		res.NonTrivial = eff > 0 && valN > 0
	}
	if o.errMode {
		// errshapes classes: at least one wrapped / near-listed error was judged by an IgnoreErrors layer
		res.NonTrivial = eff > 0 && effTotalVal["errshape_wrapped_or_near_listed"] > 0
	}
	if o.metaMode {
		// in-meta classes: the consumed message's metadata was changed during the call inside at least one middleware
		res.NonTrivial = eff > 0 && metaN > 0
	}
	if ctxMode {
		// ctx-replace classes: at least one context replacement was made inside at least one middleware
		res.NonTrivial = eff > 0 && ctxN > 0
	}
	res.Sig = vlib.Sig(sigParts...)
	res.Sample = samples
	return res
}

func runSingle(e *vlib.Env, k kind, _ int) vlib.Result {
	return runChains(e, "single/"+kindName[k], []chainShape{{k}}, scriptsPerCase)
}

func runEnum(e *vlib.Env, block, scriptsPer int) vlib.Result {
	shapes := enumChains[block*chainsPerCase : (block+1)*chainsPerCase]
	first := shapes[0]
	class := fmt.Sprintf("chain/%d", len(first))
	if first.has(kRetry) {
		class = fmt.Sprintf("chain/%d+retry", len(first)-1)
	}
	return runChains(e, class, shapes, scriptsPer)
}

func runValSingle(e *vlib.Env, k kind) vlib.Result {
	return runChainsOpts(e, "values/"+kindName[k], []chainShape{{k}}, scriptsPerCase, genOpts{valMode: true})
}

func runValEnum(e *vlib.Env, block, scriptsPer int) vlib.Result {
	shapes := enumChains[block*chainsPerCase : (block+1)*chainsPerCase]
	first := shapes[0]
	class := fmt.Sprintf("values/chain/%d", len(first))
	if first.has(kRetry) {
		class = fmt.Sprintf("values/chain/%d+retry", len(first)-1)
	}
	return runChainsOpts(e, class, shapes, scriptsPer, genOpts{valMode: true})
}

func runRandom(e *vlib.Env) vlib.Result {
	var shapes []chainShape
	for i := 0; i < 12; i++ {
		var s chainShape
		for n := e.R.Range(1, 3); n > 0; n-- {
			s = append(s, kind(e.R.Intn(int(kThrottle)+1)))
		}
		for n := e.R.Intn(3); n > 0; n-- {
			pos := e.R.Intn(len(s) + 1)
			s = append(s[:pos], append(chainShape{kRetry}, s[pos:]...)...)
		}
		shapes = append(shapes, s)
	}
	return runChains(e, "random", shapes, 2)
}
