package c19

import (
	"context"
	"errors"
	"fmt"
	"strings"

	pkgerrors "github.com/pkg/errors"

	"verifharness/vlib"
)

// errshapes classes: which errors are "listed" for IgnoreErrors.
//
// The unchanged source (message/router/middleware/ignore_errors.go) decides it like this:
//
//	NewIgnoreErrors(errs):  the texts errs[i].Error() are stored
//	Middleware:             if _, ok := i.ignoredErrors[errors.Cause(err).Error()]; ok { return events, nil }
//
// with github.com/pkg/errors' Cause: follow the chain of `Cause() error` methods - and nothing else - until an
// error without that method is reached. So an error is listed iff the TEXT of its pkg/errors Cause equals the text
// of a list entry. Unwrap methods (single or multi), Is / As methods, the text of an outer wrapper, and a listed
// text that is only part of the text do not take part. causeOf is that rule, written down independently of the
// library; the generator builds handler errors in every wrapper shape around listed and unlisted errors so that the
// rule is told apart from its neighbours (a walk over errors.Unwrap, errors.Is against the entries, the outermost
// text, a substring / prefix match).

// causeOf: github.com/pkg/errors' Cause, re-stated (follow Cause() methods only).
func causeOf(err error) error {
	for err != nil {
		c, ok := err.(interface{ Cause() error })
		if !ok {
			break
		}
		err = c.Cause()
	}
	return err
}

// listedByCause: the reference for "err is a listed error" given the stored texts of an IgnoreErrors layer.
func listedByCause(listed map[string]bool, err error) bool {
	c := causeOf(err)
	return c != nil && listed[c.Error()]
}

// ---- wrapper types that pkg/errors and the standard library do not offer

// causeOnlyErr: the pre-Go-1.13 convention (pkg/errors < 0.9, juju/errors, application error types): the wrapped
// error is reachable through Cause() only.
type causeOnlyErr struct {
	msg   string
	cause error
}

func (e *causeOnlyErr) Error() string {
	if e.cause == nil {
		return e.msg
	}
	return e.msg + ": " + e.cause.Error()
}
func (e *causeOnlyErr) Cause() error { return e.cause }

// causeOnlyVal: the same as a comparable struct returned by value.
type causeOnlyVal struct {
	msg   string
	cause error
}

func (e causeOnlyVal) Error() string { return e.msg + ": " + e.cause.Error() }
func (e causeOnlyVal) Cause() error  { return e.cause }

// unwrapOnlyErr: what a hand-written Go >= 1.13 error type looks like: Unwrap() only.
type unwrapOnlyErr struct {
	msg   string
	inner error
}

func (e *unwrapOnlyErr) Error() string { return e.msg + ": " + e.inner.Error() }
func (e *unwrapOnlyErr) Unwrap() error { return e.inner }

// maskCauseErr / maskUnwrapErr: wrappers with a text of their own that does not mention the wrapped error (it may
// be equal to a listed text, or to the wrapped error's text: a "transparent" wrapper like pkg/errors' WithStack).
type maskCauseErr struct {
	text  string
	cause error
}

func (e *maskCauseErr) Error() string { return e.text }
func (e *maskCauseErr) Cause() error  { return e.cause }

type maskUnwrapErr struct {
	text  string
	inner error
}

func (e *maskUnwrapErr) Error() string { return e.text }
func (e *maskUnwrapErr) Unwrap() error { return e.inner }

// splitErr: Cause() and Unwrap() lead to different errors (a type that keeps "the root cause" and "the previous
// error of the stack" apart, as juju/errors does).
type splitErr struct {
	cause error
	prev  error
}

func (e *splitErr) Error() string { return "sp: " + e.cause.Error() + " / " + e.prev.Error() }
func (e *splitErr) Cause() error  { return e.cause }
func (e *splitErr) Unwrap() error { return e.prev }

// isErr: no Cause, no Unwrap; claims to be its target through an Is method (errors.Is reading only).
type isErr struct {
	msg    string
	target error
}

func (e *isErr) Error() string        { return e.msg + ": " + e.target.Error() }
func (e *isErr) Is(target error) bool { return target == e.target }

// fixed wrapper prefixes, so that the full text of a wrapper can be put on an IgnoreErrors list ("trap" entries)
const (
	pfxPkgWrap    = "pw"
	pfxPkgMessage = "pm"
	pfxCauseOnly  = "co"
	pfxCauseVal   = "cv"
	pfxUnwrapOnly = "uo"
	pfxFmtW       = "fw"
	pfxIs         = "is"
)

// errShapeTraps: list entries (plain errors.New values, no Cause method) whose text is the full text of a wrapper
// around bases[j]. Under the Cause rule such an entry matches the wrapper iff the wrapper has no Cause method.
func errShapeTraps(r *vlib.Rand, bases []error) []error {
	var out []error
	pfx := []string{pfxPkgWrap, pfxPkgMessage, pfxCauseOnly, pfxCauseVal, pfxUnwrapOnly, pfxFmtW, pfxIs}
	for n := r.Range(1, 3); n > 0; n-- {
		out = append(out, errors.New(pfx[r.Intn(len(pfx))]+": "+bases[r.Intn(len(bases))].Error()))
	}
	return out
}

// listedOf: every entry of the IgnoreErrors layers of the chain, in chain order (deterministic).
func listedOf(chain []layer) []error {
	var out []error
	for _, l := range chain {
		if l.K == kIgnore {
			out = append(out, l.List...)
		}
	}
	return out
}

// genErrShape: a base error (listed / unlisted / near-listed) under 0..3 wrappers of any shape.
// listed: the entries of the IgnoreErrors lists of the chain (never empty in the errshapes classes).
func genErrShape(r *vlib.Rand, bases []error, listed []error, nilCause bool) (error, string, []string) {
	le := bases[0]
	if len(listed) > 0 {
		le = listed[r.Intn(len(listed))]
	}
	lt := le.Error()
	var tags []string
	var cur error
	var desc string
	switch x := r.Intn(20); {
	case x < 5:
		cur = le // the very value that is on a list of the chain
		desc = fmt.Sprintf("plain(%s)", cur)
	case x < 9:
		cur = bases[r.Intn(4)] // on the list of this scenario or not, as the list draw had it
		desc = fmt.Sprintf("plain(%s)", cur)
	case x < 13:
		cur = bases[4+r.Intn(2)]
		desc = fmt.Sprintf("plain(%s)", cur)
	case x < 14:
		cur = errors.New(lt + ": tail") // a listed text is a proper prefix of the text
		desc, tags = fmt.Sprintf("new(%q)", cur), append(tags, "listed_text_is_prefix")
	case x < 15:
		cur = errors.New("head: " + lt) // ... a proper suffix: looks like a wrapper's text, wraps nothing
		desc, tags = fmt.Sprintf("new(%q)", cur), append(tags, "listed_text_is_suffix")
	case x < 16:
		cur = errors.New(lt[:len(lt)-1]) // the listed text minus its last byte (never empty: texts have >= 3 bytes)
		desc, tags = fmt.Sprintf("new(%q)", cur), append(tags, "prefix_of_listed_text")
	case x < 17:
		cur = errors.New(lt) // another error value with exactly a listed text: listed (entries are stored as texts)
		desc, tags = fmt.Sprintf("new-same-text(%q)", cur), append(tags, "same_text_other_value")
	case x < 18:
		cur = &customErr{code: r.Intn(100)}
		desc = cur.Error()
	case x < 19:
		cur, desc = context.DeadlineExceeded, "context.DeadlineExceeded"
	default:
		cur = bases[r.Intn(len(bases))]
		desc = fmt.Sprintf("plain(%s)", cur)
	}
	if nilCause && r.Chance(0.5) {
		// a Cause()-capable type that has no cause (juju/errors' errors.New returns one); then nothing further around
		// it half of the time
		cur = &causeOnlyErr{msg: "nocause-" + fmt.Sprint(r.Intn(100))}
		desc, tags = fmt.Sprintf("causeOnly-nil-cause(%q)", cur), append(tags, "nil_cause")
		if r.Bool() {
			return cur, desc, tags
		}
	}
	other := func() (error, string) {
		j := r.Intn(len(bases))
		return bases[j], bases[j].Error()
	}
	depth := []int{0, 1, 1, 1, 1, 2, 2, 3}[r.Intn(8)]
	for d := 0; d < depth; d++ {
		switch r.Intn(17) {
		case 0:
			cur, desc = pkgerrors.Wrap(cur, pfxPkgWrap), "pkgWrap("+desc+")"
			tags = append(tags, "pkg_wrap")
		case 1:
			cur, desc = pkgerrors.WithStack(cur), "pkgWithStack("+desc+")"
			tags = append(tags, "pkg_withstack")
		case 2:
			cur, desc = pkgerrors.WithMessage(cur, pfxPkgMessage), "pkgWithMessage("+desc+")"
			tags = append(tags, "pkg_withmessage")
		case 3, 4:
			cur, desc = &causeOnlyErr{msg: pfxCauseOnly, cause: cur}, "causeOnly("+desc+")"
			tags = append(tags, "cause_only")
		case 5:
			cur, desc = causeOnlyVal{msg: pfxCauseVal, cause: cur}, "causeOnlyByValue("+desc+")"
			tags = append(tags, "cause_only")
		case 6, 7:
			cur, desc = &unwrapOnlyErr{msg: pfxUnwrapOnly, inner: cur}, "unwrapOnly("+desc+")"
			tags = append(tags, "unwrap_only")
		case 8, 9:
			cur, desc = fmt.Errorf(pfxFmtW+": %w", cur), "fmt%w("+desc+")"
			tags = append(tags, "fmt_w")
		case 10:
			cur, desc = errors.Join(cur), "errors.Join("+desc+")"
			tags = append(tags, "join")
		case 11:
			o, od := other()
			if r.Bool() {
				cur, desc = errors.Join(cur, o), "errors.Join("+desc+","+od+")"
			} else {
				cur, desc = errors.Join(o, cur), "errors.Join("+od+","+desc+")"
			}
			tags = append(tags, "join")
		case 12:
			o, od := other()
			cur, desc = fmt.Errorf("fw2: %w | %w", cur, o), "fmt%w%w("+desc+","+od+")"
			tags = append(tags, "fmt_w_multi")
		case 13:
			// own text: a listed text / the wrapped error's text (transparent) / something else
			t, td := maskText(r, lt, cur)
			cur, desc = &maskCauseErr{text: t, cause: cur}, "maskCause["+td+"]("+desc+")"
			tags = append(tags, "cause_only", "own_text_"+td)
		case 14:
			t, td := maskText(r, lt, cur)
			cur, desc = &maskUnwrapErr{text: t, inner: cur}, "maskUnwrap["+td+"]("+desc+")"
			tags = append(tags, "unwrap_only", "own_text_"+td)
		case 15:
			o, od := other()
			if r.Bool() {
				cur, desc = &splitErr{cause: cur, prev: o}, "split(cause="+desc+",unwrap="+od+")"
			} else {
				cur, desc = &splitErr{cause: o, prev: cur}, "split(cause="+od+",unwrap="+desc+")"
			}
			tags = append(tags, "cause_and_unwrap_differ")
		default:
			cur, desc = &isErr{msg: pfxIs, target: cur}, "isMethod("+desc+")"
			tags = append(tags, "is_method")
		}
	}
	if depth >= 2 {
		tags = append(tags, "double_wrapped")
	}
	return cur, desc, tags
}

func maskText(r *vlib.Rand, listedText string, wrapped error) (string, string) {
	switch r.Intn(3) {
	case 0:
		return listedText, "listed"
	case 1:
		return wrapped.Error(), "same_as_wrapped"
	}
	return "masked-" + fmt.Sprint(r.Intn(100)), "unrelated"
}

// ---- what the generated errors tell apart (counters of the errshapes classes)

func unwrapRoot(err error) error {
	for {
		in := errors.Unwrap(err)
		if in == nil {
			return err
		}
		err = in
	}
}

func isAny(err error, list []error) bool {
	for _, l := range list {
		if errors.Is(err, l) {
			return true
		}
	}
	return false
}

func containsAny(text string, listed map[string]bool) bool {
	for t := range listed {
		if strings.Contains(text, t) {
			return true
		}
	}
	return false
}

// errShapeStats: per (IgnoreErrors layer, error step of the script): the verdict of the Cause rule, and whether a
// neighbouring rule would have decided differently. Static: independent of how often the step is reached.
func errShapeStats(sc *scenario) map[string]int {
	n := map[string]int{}
	for _, st := range sc.script {
		if st.Kind != "err" {
			continue
		}
		for _, t := range st.errTags {
			n["errshape_"+t]++
		}
		if len(st.errTags) > 0 {
			n["errshape_wrapped_or_near_listed"]++
		}
		for _, l := range sc.chain {
			if l.K != kIgnore {
				continue
			}
			byCause := listedByCause(l.listed, st.err)
			if byCause {
				n["errshape_listed_by_cause"]++
			} else {
				n["errshape_unlisted_by_cause"]++
			}
			if byCause != l.listed[unwrapRoot(st.err).Error()] {
				n["errshape_differs_from_unwrap_walk"]++
			}
			if byCause != isAny(st.err, l.List) {
				n["errshape_differs_from_errors_is"]++
			}
			if byCause != l.listed[st.err.Error()] {
				n["errshape_differs_from_outer_text"]++
			}
			if byCause != containsAny(st.err.Error(), l.listed) {
				n["errshape_differs_from_substring"]++
			}
		}
	}
	return n
}

// ---- shapes of the errshapes classes

// errComposeShapes: IgnoreErrors alone and composed with Retry / Recoverer in every order, two IgnoreErrors layers
// (different lists), Retry on both sides.
var errComposeShapes = []chainShape{
	{kIgnore},
	{kRetry, kIgnore}, {kIgnore, kRetry},
	{kRecov, kIgnore}, {kIgnore, kRecov},
	{kRetry, kRecov, kIgnore}, {kRetry, kIgnore, kRecov}, {kRecov, kRetry, kIgnore},
	{kRecov, kIgnore, kRetry}, {kIgnore, kRetry, kRecov}, {kIgnore, kRecov, kRetry},
	{kIgnore, kIgnore}, {kRetry, kIgnore, kIgnore}, {kRetry, kIgnore, kRetry},
}

// errEnumChains: the enumerated chains that contain an IgnoreErrors layer (689 of the 1928).
var errEnumChains = func() []chainShape {
	var out []chainShape
	for _, c := range enumChains {
		if c.has(kIgnore) {
			out = append(out, c)
		}
	}
	return out
}()

func errEnumBlocks() int { return (len(errEnumChains) + chainsPerCase - 1) / chainsPerCase }

func runErrSingle(e *vlib.Env) vlib.Result {
	return runChainsOpts(e, "errshapes/IgnoreErrors", []chainShape{{kIgnore}}, scriptsPerCase, genOpts{errMode: true})
}

func runErrCompose(e *vlib.Env, scriptsPer int) vlib.Result {
	return runChainsOpts(e, "errshapes/compose", errComposeShapes, scriptsPer, genOpts{errMode: true})
}

func runErrEnum(e *vlib.Env, block, scriptsPer int) vlib.Result {
	lo, hi := block*chainsPerCase, (block+1)*chainsPerCase
	if hi > len(errEnumChains) {
		hi = len(errEnumChains)
	}
	return runChainsOpts(e, "errshapes/chain", errEnumChains[lo:hi], scriptsPer, genOpts{errMode: true})
}

// genNilCause: errors of a type with a Cause method whose Cause() returns nil (an error without a cause of a
// Cause()-capable type: juju/errors' errors.New makes such values). pkg/errors' Cause returns nil for them and the
// unchanged IgnoreErrors calls .Error() on that nil: a nil-pointer panic instead of "not listed: passed through
// unchanged". Reported as a suspected defect; the class errshapes/nil-cause (clause ignore-nil-cause) has cases only
// when this is switched on, so the run is not blocked by it.
const genNilCause = true

var nilCauseShapes = []chainShape{{kIgnore}, {kRecov, kIgnore}, {kRetry, kIgnore}, {kRetry, kRecov, kIgnore}}

func nilCauseCases(tier string) int {
	if !genNilCause {
		return 0
	}
	return vlib.TierN(tier, 4, 40)
}

func runErrNilCause(e *vlib.Env) vlib.Result {
	return runChainsOpts(e, "errshapes/nil-cause", nilCauseShapes, 10, genOpts{errMode: true, nilCause: true})
}
