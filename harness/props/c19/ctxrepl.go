package c19

import (
	"context"
	"fmt"
	"time"

	"github.com/ThreeDotsLabs/watermill/message"

	"verifharness/vlib"
)

// ctx-replace classes: code INSIDE the middleware (the handler itself, or a user-written middleware such as
// the CQRS processors' msg.SetContext(CtxWithOriginalMessage(msg.Context(), msg))) replaces the message
// context during the call. The statement's last sentence must keep holding: "The effect ends with the
// call: the message context is not left cancelled, so they compose with Retry without changing its
// attempt count."
//
// Context actions (what is installed with msg.SetContext, "seen" = msg.Context() at that moment):
//
//	value         context.WithValue(seen, ...)                     derived, carries everything seen carries
//	cancel        context.WithCancel(seen)                         derived, own cancel func (not invoked while the chain runs)
//	owndl         context.WithDeadline(seen, now+3h)               derived, own far deadline (ditto)
//	unrelated     context.WithValue(context.Background(), ...)     not derived from seen
//	unrelated-dl  the same with a deadline now+3h
//	same          msg.SetContext(seen)                             set to what it already is
//	setback       install a "value" context, then set the seen one back before returning (handler only)
//
// Every context the harness installs is live as far as the harness is concerned: its cancel funcs run only
// after the chain returned and was judged. So if the message context is done after the call, a middleware
// did it.
var (
	handlerActs = []string{"value", "value", "cancel", "owndl", "unrelated", "unrelated-dl", "same", "setback"}
	userActs    = []string{"value", "value", "cancel", "owndl", "unrelated", "unrelated-dl", "same"}
)

const ownDeadline = 3 * time.Hour // later than the caller's 2 h deadline and than every Timeout (<= 1 h)

type markKey struct{ seq int }

// sctx is the model's symbolic message context: a node per context the caller, a Timeout layer or the
// harness creates; parent == nil for roots (the caller's context, an unrelated one).
type sctx struct {
	parent *sctx
	kind   string // caller | timeout | value | cancel | owndl | unrelated
	seq    int    // creation number of a harness-made context (index into realRun.made), -1 otherwise
	tmo    time.Duration
	ownDL  bool
}

func (c *sctx) root() *sctx {
	for c.parent != nil {
		c = c.parent
	}
	return c
}

func (c *sctx) descendsFrom(a *sctx) bool {
	for x := c; x != nil; x = x.parent {
		if x == a {
			return true
		}
	}
	return false
}

// minTimeout: the shortest Timeout among the Timeout layers whose context this one stems from.
func (c *sctx) minTimeout() (d time.Duration, ok bool) {
	for x := c; x != nil; x = x.parent {
		if x.kind == "timeout" && (!ok || x.tmo < d) {
			d, ok = x.tmo, true
		}
	}
	return
}

// made: creation numbers of the harness-made contexts in the lineage.
func (c *sctx) madeSeqs() []int {
	var s []int
	for x := c; x != nil; x = x.parent {
		if x.seq >= 0 {
			s = append(s, x.seq)
		}
	}
	return s
}

func (c *sctx) String() string {
	if c == nil {
		return "<any>"
	}
	s := ""
	for x := c; x != nil; x = x.parent {
		if s != "" {
			s += "<-"
		}
		s += x.kind
		if x.seq >= 0 {
			s += fmt.Sprintf("#%d", x.seq)
		}
	}
	return s
}

// applyAct mirrors realRun.applyAct on the symbolic context; returns what is on the message afterwards.
func (m *model) applyAct(act string, seen *sctx) *sctx {
	mk := func(kind string, parent *sctx, dl bool) *sctx {
		n := &sctx{parent: parent, kind: kind, seq: m.nextSeq, ownDL: dl}
		m.nextSeq++
		return n
	}
	switch act {
	case "", "same":
		if act == "same" {
			m.ctxEff["ctx_set_same"]++
		}
		return seen
	case "value":
		m.ctxEff["ctx_derived_value"]++
		return mk("value", seen, false)
	case "cancel":
		m.ctxEff["ctx_derived_cancel"]++
		return mk("cancel", seen, false)
	case "owndl":
		m.ctxEff["ctx_derived_deadline"]++
		return mk("owndl", seen, true)
	case "unrelated":
		m.ctxEff["ctx_unrelated"]++
		return mk("unrelated", nil, false)
	case "unrelated-dl":
		m.ctxEff["ctx_unrelated"]++
		return mk("unrelated", nil, true)
	case "setback":
		m.ctxEff["ctx_set_back"]++
		mk("value", seen, false)
		return seen
	}
	panic("c19: unknown context action " + act)
}

type madeCtx struct {
	ctx   context.Context
	ownDL time.Time // requested own deadline (zero when none)
}

// applyAct performs a context action on the message for real.
func (rr *realRun) applyAct(act string, msg *message.Message) {
	seen := msg.Context()
	mk := func(base context.Context, cancelable, dl bool) context.Context {
		rr.mu.Lock()
		defer rr.mu.Unlock()
		seq := len(rr.made)
		c := context.WithValue(base, markKey{seq}, seq)
		mc := madeCtx{}
		if dl {
			var cancel func()
			mc.ownDL = time.Now().Add(ownDeadline)
			c, cancel = context.WithDeadline(c, mc.ownDL)
			rr.cancels = append(rr.cancels, cancel)
		} else if cancelable {
			var cancel func()
			c, cancel = context.WithCancel(c)
			rr.cancels = append(rr.cancels, cancel)
		}
		mc.ctx = c
		rr.made = append(rr.made, mc)
		return c
	}
	switch act {
	case "":
	case "same":
		msg.SetContext(seen)
	case "value":
		msg.SetContext(mk(seen, false, false))
	case "cancel":
		msg.SetContext(mk(seen, true, false))
	case "owndl":
		msg.SetContext(mk(seen, false, true))
	case "unrelated":
		msg.SetContext(mk(context.Background(), false, false))
	case "unrelated-dl":
		msg.SetContext(mk(context.Background(), false, true))
	case "setback":
		msg.SetContext(mk(seen, false, false))
		msg.SetContext(seen)
	default:
		panic("c19: unknown context action " + act)
	}
}

// userMW is the harness-written middleware layer of the ctx-replace classes.
func userMW(l layer, idx int, sc *scenario, rr *realRun, next message.HandlerFunc) message.HandlerFunc {
	if l.UMPre != "" || l.UMPost != "" {
		return userMetaMW(l, idx, sc, rr, next)
	}
	return func(msg *message.Message) ([]*message.Message, error) {
		seen := msg.Context()
		if l.URestore {
			defer msg.SetContext(seen)
		}
		rr.applyAct(l.UAct, msg)
		return next(msg)
	}
}

// expectedDeadline: the deadline a context with this lineage has when no Timeout is part of it: the
// earliest of the caller's deadline (caller-rooted lineages) and the harness-made own deadlines.
func expectedDeadline(c *sctx, rr *realRun, parentDL time.Time, parentHasDL bool) (dl time.Time, ok bool) {
	if c.root().kind == "caller" && parentHasDL {
		dl, ok = parentDL, true
	}
	for x := c; x != nil; x = x.parent {
		if x.ownDL && x.seq < len(rr.made) {
			if d := rr.made[x.seq].ownDL; !ok || d.Before(dl) {
				dl, ok = d, true
			}
		}
	}
	return
}

// ---------------------------------------------------------------------------------------------
// case runners

// ctxSingleShapes: the middleware alone, under/over Retry, and with a context-replacing user middleware
// outside / inside it.
func ctxSingleShapes(k kind) []chainShape {
	return []chainShape{
		{k}, {kRetry, k}, {k, kRetry},
		{kUser, k}, {k, kUser},
		{kRetry, k, kUser}, {kRetry, kUser, k}, {kUser, kRetry, k},
	}
}

func runCtxSingle(e *vlib.Env, k kind, scriptsPer int) vlib.Result {
	return runChainsMode(e, "ctx-replace/"+kindName[k], ctxSingleShapes(k), scriptsPer, true)
}

// withUser inserts 0..2 UserMW layers at random positions.
func withUser(r *vlib.Rand, s chainShape) chainShape {
	n := 0
	switch x := r.Intn(100); {
	case x < 40:
	case x < 85:
		n = 1
	default:
		n = 2
	}
	out := append(chainShape(nil), s...)
	for ; n > 0; n-- {
		pos := r.Intn(len(out) + 1)
		out = append(out[:pos], append(chainShape{kUser}, out[pos:]...)...)
	}
	return out
}

func runCtxEnum(e *vlib.Env, block, scriptsPer int) vlib.Result {
	base := enumChains[block*chainsPerCase : (block+1)*chainsPerCase]
	first := base[0]
	class := fmt.Sprintf("ctx-replace/chain/%d", len(first))
	if first.has(kRetry) {
		class = fmt.Sprintf("ctx-replace/chain/%d+retry", len(first)-1)
	}
	// the UserMW positions are drawn per script, so one chain is run with several placements
	var shapes []chainShape
	for _, s := range base {
		for i := 0; i < scriptsPer; i++ {
			shapes = append(shapes, withUser(e.R, s))
		}
	}
	return runChainsMode(e, class, shapes, 1, true)
}

func runCtxRandom(e *vlib.Env) vlib.Result {
	var shapes []chainShape
	for i := 0; i < 12; i++ {
		var s chainShape
		for n := e.R.Range(1, 3); n > 0; n-- {
			if e.R.Chance(0.4) {
				s = append(s, kTimeout) // nested Timeouts: the inner one restores the outer one's context
			} else {
				s = append(s, kind(e.R.Intn(int(kThrottle)+1)))
			}
		}
		for n := e.R.Intn(3); n > 0; n-- {
			pos := e.R.Intn(len(s) + 1)
			s = append(s[:pos], append(chainShape{kRetry}, s[pos:]...)...)
		}
		shapes = append(shapes, withUser(e.R, s))
	}
	return runChainsMode(e, "ctx-replace/random", shapes, 2, true)
}
