package c19

import (
	"errors"
	"fmt"
	"math"
	"time"

	"github.com/ThreeDotsLabs/watermill/components/delay"
	"github.com/ThreeDotsLabs/watermill/message"
	"github.com/ThreeDotsLabs/watermill/message/router/middleware"

	"verifharness/vlib"
)

// runDelayLowMax: DelayOnError configurations whose MaxInterval lies BELOW InitialInterval, first of all the
// zero value MaxInterval == 0 (the field simply not set), which delay-seq never generates.
//
// For these configurations Initial x Multiplier^(k-1) >= Initial > Max for every k, so the documented
// min(Initial x Multiplier^(k-1), MaxInterval) is MaxInterval itself from the first failure on. For k >= 2 that is
// also what the godoc says ("MaxInterval sets the limit for the exponential backoff of retries. The interval will
// not be increased beyond MaxInterval"), so k >= 2 is judged by the closed form (delay-value).
// For k == 1 the statement (min(Initial, Max) = Max) and the godoc ("InitialInterval is the first interval between
// retries") disagree and the unchanged source follows the godoc; both values are accepted there and counted
// (lowmax_first_is_initial / lowmax_first_is_max), any other value is a delay-value violation.
//
// Two ways of producing consecutive failures of one message:
//
//	redeliver: the harness calls DelayOnError>handler again with the same object / a Copy() / a new message carrying the metadata;
//	retry:     Retry>DelayOnError>handler, the handler fails f times in one call of the chain (the handler records the
//	           delay metadata it sees on entry of every attempt); a call that fails altogether is redelivered and continues the count.
func runDelayLowMax(e *vlib.Env) vlib.Result {
	res := vlib.Result{Class: "delay-lowmax"}
	r := e.R
	var sigParts []any
	var samples []map[string]any
	maxK := 0
	for c := 0; c < 4; c++ {
		ini, max, mult, shape := genLowMaxCfg(r)
		d := &middleware.DelayOnError{InitialInterval: ini, MaxInterval: max, Multiplier: mult}
		cfg := fmt.Sprintf("DelayOnError{Initial:%v Max:%v Multiplier:%v}", ini, max, mult)
		res.Count("lowmax_cfg_"+shape, 1)
		viaRetry := r.Chance(0.4)

		// handler script of the current chain call: fail the first failN attempts, then succeed
		var failN, calls int
		var wantErr error
		var wantOuts []*message.Message
		var entries []string // delay metadata seen on entry of each attempt ("<none>" when absent)
		inner := func(m *message.Message) ([]*message.Message, error) {
			if v, ok := m.Metadata[delay.DelayedForKey]; ok {
				entries = append(entries, v)
			} else {
				entries = append(entries, "<none>")
			}
			calls++
			if calls <= failN {
				return nil, wantErr
			}
			return wantOuts, nil
		}
		h := d.Middleware(inner)
		maxRetries := 0
		if viaRetry {
			maxRetries = r.Range(1, 5)
			rt := middleware.Retry{MaxRetries: maxRetries, InitialInterval: time.Microsecond, MaxInterval: 2 * time.Microsecond, Multiplier: 1.2}
			h = rt.Middleware(h)
			cfg = fmt.Sprintf("Retry{MaxRetries:%d} > %s", maxRetries, cfg)
		}

		lineage := 0
		newMsg := func() *message.Message {
			lineage++
			m := message.NewMessage(fmt.Sprintf("%s-l%d.%d", e.ID(), c, lineage), r.Payload(8))
			m.Metadata.Set("other", r.UTF8(5))
			return m
		}
		msg := newMsg()
		k := 0
		var trace []string
		ctxt := func() string {
			return fmt.Sprintf("%s, lineage %d, sequence so far [%s]", cfg, lineage, joinTrace(trace))
		}
		// judge one observed delay value after the kk-th consecutive failure
		judge := func(kk int, gotStr string, present bool, where string) bool {
			got, perr := time.ParseDuration(gotStr)
			if !present || perr != nil {
				res.Fail("delay-value", "after failure #%d (%s) the metadata %s is %q (present=%v) | %s", kk, where, delay.DelayedForKey, gotStr, present, ctxt())
				return false
			}
			want := math.Min(float64(ini)*math.Pow(mult, float64(kk-1)), float64(max))
			if kk == 1 {
				switch {
				case float64(got) == want:
					res.Count("lowmax_first_is_max", 1)
				case got == ini:
					res.Count("lowmax_first_is_initial", 1)
				default:
					res.Fail("delay-value", "after failure #1 (%s): %s = %v, neither min(Initial, MaxInterval) = %v nor InitialInterval = %v | %s",
						where, delay.DelayedForKey, got, time.Duration(want), ini, ctxt())
					return false
				}
				return true
			}
			tol := want*1e-6 + 2
			if diff := float64(got) - want; diff > tol || diff < -tol {
				res.Fail("delay-value", "after consecutive failure #%d (%s): %s = %v, documented min(Initial x Multiplier^(k-1), MaxInterval) = %v (MaxInterval < InitialInterval) | %s",
					kk, where, delay.DelayedForKey, got, time.Duration(want), ctxt())
				res.Witness = map[string]any{"config": cfg, "k": kk, "got": got.String(), "want": time.Duration(want).String(), "sequence": trace}
				return false
			}
			res.Count("failures_checked", 1)
			res.Count("capped", 1)
			if max == 0 {
				res.Count("lowmax_zero_cap_checked", 1)
			}
			return true
		}

		n := r.Range(6, 16)
		if viaRetry {
			n = r.Range(2, 5)
		}
		for i := 0; i < n; i++ {
			wantErr = errors.New("fail")
			if r.Bool() {
				wantErr = fmt.Errorf("wrapped: %w", wantErr)
			}
			wantOuts = nil
			for j := r.Intn(3); j > 0; j-- {
				wantOuts = append(wantOuts, message.NewMessage(fmt.Sprintf("%s-lo%d.%d.%d", e.ID(), c, i, j), nil))
			}
			attempts := 1 + maxRetries
			if viaRetry {
				failN = r.Range(1, attempts+1) // >= attempts: the call fails altogether
			} else {
				failN = 0
				if r.Chance(0.8) {
					failN = 1
				}
			}
			calls, entries = 0, nil
			before := vlib.Snap(msg)
			outs, err := h(msg)
			res.Events++
			allFailed := failN >= attempts
			wantCalls := failN + 1
			if allFailed {
				wantCalls = attempts
			}
			if calls != wantCalls {
				res.Fail("retry-attempts", "handler failing its first %d attempt(s) was called %d time(s), %d expected | %s", failN, calls, wantCalls, ctxt())
				return res
			}
			if allFailed {
				if err != wantErr {
					res.Fail("error-identity", "chain returned error %v, handler returned %v | %s", err, wantErr, ctxt())
					return res
				}
			} else {
				if err != nil {
					res.Fail("error-identity", "chain returned error %v, the last attempt succeeded | %s", err, ctxt())
					return res
				}
				same := len(outs) == len(wantOuts)
				for j := 0; same && j < len(outs); j++ {
					same = outs[j] == wantOuts[j]
				}
				if !same {
					res.Fail("outputs-identity", "the handler outputs were changed | %s", ctxt())
					return res
				}
			}
			if msg.UUID != before.UUID || string(msg.Payload) != string(before.Payload) || msg.Metadata["other"] != before.Metadata["other"] || vlib.Settled(msg) != "" {
				res.Fail("input-mutated", "DelayOnError changed the message beyond the delay metadata | %s", ctxt())
				return res
			}
			// the attempts of this call: entry a (0-based) comes after min(a, failN) failures of this call
			k0 := k
			for a := 1; a < len(entries); a++ {
				// entry of attempt a+1 follows the a-th failure of this call
				kk := k0 + a
				trace = append(trace, fmt.Sprintf("F%d=%s", kk, entries[a]))
				if !judge(kk, entries[a], entries[a] != "<none>", "seen by the handler on entry of the next attempt") {
					return res
				}
			}
			fails := calls
			if !allFailed {
				fails = calls - 1
			}
			k = k0 + fails
			if k > maxK {
				maxK = k
			}
			gotStr, present := msg.Metadata[delay.DelayedForKey]
			if allFailed {
				// the last failure of the call is visible only afterwards
				trace = append(trace, fmt.Sprintf("F%d=%s", k, gotStr))
				if !judge(k, gotStr, present, "after the call") {
					return res
				}
				if _, ok := msg.Metadata[delay.DelayedUntilKey]; !ok {
					res.Fail("delay-value", "after failure #%d the metadata %s is missing | %s", k, delay.DelayedUntilKey, ctxt())
					return res
				}
				switch r.Intn(3) { // redelivery
				case 0:
				case 1:
					msg = msg.Copy()
				default:
					nm := message.NewMessage(msg.UUID, msg.Payload)
					for key, v := range msg.Metadata {
						nm.Metadata.Set(key, v)
					}
					msg = nm
				}
				continue
			}
			// success: the metadata is what the successful attempt saw on entry
			trace = append(trace, "S")
			last := entries[len(entries)-1]
			if (last == "<none>") == present || (present && last != gotStr) {
				res.Fail("delay-untouched", "a successful call changed the delay metadata: on entry %q, afterwards %q (present=%v) | %s", last, gotStr, present, ctxt())
				return res
			}
			if fails == 0 && !before.SameValue(msg) {
				res.Fail("delay-untouched", "a successful call changed the metadata: before %v after %v | %s", before.Metadata, msg.Metadata, ctxt())
				return res
			}
			res.Count("successes", 1)
			msg = newMsg()
			k = 0
		}
		sigParts = append(sigParts, cfg, joinTrace(trace))
		if len(samples) < 2 {
			samples = append(samples, map[string]any{"config": cfg, "sequence": trace})
		}
	}
	res.NonTrivial = maxK >= 2
	res.Count("max_consecutive_failures", maxK)
	res.Sig = vlib.Sig(sigParts...)
	res.Sample = samples
	return res
}

// genLowMaxCfg draws a configuration with 0 <= MaxInterval < InitialInterval (or both zero).
func genLowMaxCfg(r *vlib.Rand) (ini, max time.Duration, mult float64, shape string) {
	ini = 100*time.Millisecond + time.Duration(r.Uint64()%uint64(5*time.Second))
	if r.Intn(4) == 0 {
		mult = []float64{1, 1.5, 2, 2.5, 3, 1.25, 1.1}[r.Intn(7)]
	} else {
		mult = 1 + 2*r.Float()
	}
	switch r.Intn(10) {
	case 0, 1, 2, 3, 4:
		max, shape = 0, "max_zero" // the field left unset
	case 5, 6, 7:
		max, shape = 1+time.Duration(r.Uint64()%uint64(ini-1)), "max_below_initial"
	case 8:
		max, shape = ini-1, "max_just_below_initial"
	default:
		ini, max, shape = 0, 0, "all_zero" // both intervals unset: every delay is 0
	}
	return
}
