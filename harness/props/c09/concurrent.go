package c09

import (
	"context"
	"fmt"
	"strings"
	"sync"
	"time"

	"github.com/ThreeDotsLabs/watermill"
	"github.com/ThreeDotsLabs/watermill/message"

	"verifharness/vlib"
)

// runConcurrentRegistration: handler-level middlewares are registered from several goroutines at once (each goroutine registers
// the middlewares of its own handler, in order; Handler.AddMiddleware is guarded by a lock, so this is supported). Afterwards
// every handler must run the router-level middlewares plus exactly its own, its own in its own registration order.
func runConcurrentRegistration(e *vlib.Env) vlib.Result {
	res := vlib.Result{Class: "concurrent-registration"}
	r := e.R
	const rounds = 6
	lost := 0
	for round := 0; round < rounds && !res.Failed(); round++ {
		id := fmt.Sprintf("%s.c%d", e.ID(), round)
		nh := r.Range(2, 8)
		perH := r.Range(1, 4)
		nRouter := r.Intn(3)
		router, _ := message.NewRouter(message.RouterConfig{CloseTimeout: time.Hour}, watermill.NopLogger{})
		var mu sync.Mutex
		traces := map[string][]string{}
		mk := func(tag string) message.HandlerMiddleware {
			return func(h message.HandlerFunc) message.HandlerFunc {
				return func(m *message.Message) ([]*message.Message, error) {
					mu.Lock()
					traces[m.UUID] = append(traces[m.UUID], tag)
					mu.Unlock()
					return h(m)
				}
			}
		}
		for k := 0; k < nRouter; k++ {
			router.AddMiddleware(mk(fmt.Sprintf("R%d", k)))
		}
		subs := make([]*vlib.Sub, nh)
		hs := make([]*message.Handler, nh)
		for i := 0; i < nh; i++ {
			subs[i] = &vlib.Sub{Name: fmt.Sprintf("%s-%d", id, i)}
			hs[i] = router.AddNoPublisherHandler(fmt.Sprintf("%s/h%d", id, i), fmt.Sprintf("%s/t%d", id, i), subs[i], func(m *message.Message) error { return nil })
		}
		barrier := make(chan struct{})
		var wg sync.WaitGroup
		for i := 0; i < nh; i++ {
			wg.Add(1)
			go func(i int) {
				defer wg.Done()
				<-barrier
				for k := 0; k < perH; k++ {
					hs[i].AddMiddleware(mk(fmt.Sprintf("h%d.%d", i, k)))
				}
			}(i)
		}
		close(barrier)
		wg.Wait()
		runDone := make(chan struct{})
		go func() { defer close(runDone); router.Run(context.Background()) }()
		if oc, _ := vlib.WaitClosed(router.Running(), vlib.WD); oc != vlib.Done {
			res.Inconclusive("router did not start")
			break
		}
		for i := 0; i < nh; i++ {
			sp := subs[i].SubFor(fmt.Sprintf("%s/t%d", id, i))
			uuid := fmt.Sprintf("%s/m%d", id, i)
			_, acked := sp.Deliver(message.NewMessage(uuid, nil), 0)
			res.Events++
			var want []string
			for k := 0; k < nRouter; k++ {
				want = append(want, fmt.Sprintf("R%d", k))
			}
			for k := 0; k < perH; k++ {
				want = append(want, fmt.Sprintf("h%d.%d", i, k))
			}
			mu.Lock()
			got := append([]string(nil), traces[uuid]...)
			mu.Unlock()
			if !acked {
				res.Fail("no-run", "concurrent registration: message of handler %d was not acked", i)
			} else if strings.Join(got, ",") != strings.Join(want, ",") {
				lost++
				res.Fail("mw-missing", "handler-level middlewares registered concurrently from %d goroutines (%d each, %d router-level before): handler %d ran %v, want %v", nh, perH, nRouter, i, got, want)
			}
		}
		cd := make(chan struct{})
		go func() { router.Close(); close(cd) }()
		vlib.WaitClosed(cd, vlib.WD)
		vlib.WaitClosed(runDone, vlib.WD)
	}
	res.Count("concurrent_registration_rounds", rounds)
	res.NonTrivial = true
	res.Sig = vlib.Sig("concurrent-registration", e.Idx)
	res.Sample = map[string]any{"rounds": rounds, "registrations_lost": lost}
	return res
}
