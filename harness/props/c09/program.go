package c09

import (
	"fmt"
	"strings"
	"sync"

	"verifharness/vlib"
)

// A program is a sequence of Router API calls: AddHandler, router-level / handler-level AddMiddleware
// (possibly variadic), AddPublisherDecorators / AddSubscriberDecorators (possibly variadic), Run and
// RunHandlers. Middleware ids and decorator ids are assigned in call order (and, inside one variadic
// call, in argument order), so "registration order" == ascending id.

const (
	opAddH = "addh"
	opMW   = "mw"
	opPDec = "pdec"
	opSDec = "sdec"
	opRun  = "run"
	opRunH = "runh"
	// calls that fail as documented and must leave every registration made so far untouched (class rejected)
	opDupAdd    = "dupaddh" // AddHandler / AddNoPublisherHandler with the name of handler H, which is taken: panics with DuplicateHandlerNameError (recovered)
	opEarlyRunH = "runh!"   // RunHandlers before Run: returns an error
	opEarlyStop = "stop!"   // Handler.Stop on the not yet started handler H: panics (recovered)
	// opReuse (class reuse): the running handler H is stopped and its NAME is registered again as handler N
	// (AddHandler / AddNoPublisherHandler), followed at once by N.AddMiddleware(IDs...); the step ends when H.Stopped() is closed.
	opReuse = "reuse"
	// opHandover (class handover): the running handlers Stops are stopped (Handler.Stop or end of their subscription) and, WITHOUT
	// waiting for Stopped(), RunHandlers is called for the handlers added since the last start call; the step ends when every
	// stopped handler's Stopped() is closed. It starts every added, not yet started handler (like runh).
	opHandover = "handover"
)

// how the stops of a handover step are issued relative to the RunHandlers call (step.Issue)
const (
	issueBefore     = "before"     // Stop()/subscription end, then RunHandlers at once
	issueConcurrent = "concurrent" // a second goroutine issues the stops while the caller is in RunHandlers
	issueParked     = "parked"     // RunHandlers first; the stops are issued when the starting handlers sit in a middleware constructor
)

// what the middleware constructors (the func(HandlerFunc) HandlerFunc itself, called while a starting handler builds its chain) do
// during a handover step (step.Ctor)
const (
	ctorPlain = "plain"
	ctorYield = "yield" // yield the processor a few times
	ctorSlow  = "slow"  // take a while (timer)
	ctorPark  = "park"  // the constructors of the middlewares step.Park block until every stopped handler's Stopped() is closed
)

// how the re-registration of a reused name is timed relative to the end of the old handler (step.Mode)
const (
	modeWait     = "wait"      // after <-old.Stopped()
	modeStep     = "step"      // the logger parks every call of the stopping handler's goroutine; at each parked call the caller looks at Router.Handlers() and re-registers as soon as the name is no longer listed
	modePoll     = "poll"      // a goroutine started before the stop retries AddHandler until DuplicateHandlerNameError is gone; the logger only yields
	modePollSlow = "poll-slow" // same, with a slow logger: every call of the stopping handler's goroutine is held until the retrying goroutine made a few more attempts or is done
)

type step struct {
	Op  string
	H   int   // addh: handler index; mw: target handler index, -1 = router level
	IDs []int // mw / pdec / sdec: ids registered by this (variadic) call
	// Alias: the arguments are passed as buf[:n]... where buf is ONE caller-owned slice with spare capacity that every
	// aliased call of the same kind re-uses (so the next aliased call overwrites the elements of this one, and
	// append(buf[:k], x)... of a later call writes into the same backing array). IDs of an aliased mw call may start with
	// ids of the previous aliased mw call (the "common prefix" of append(base, x)...): the same middleware VALUE registered again.
	Alias bool
	// Poison: right after the call returned the caller overwrites every element of the argument slice with a
	// middleware / decorator that was never registered.
	Poison bool
	// Variant: dupaddh through AddNoPublisherHandler (else AddHandler).
	Variant bool
	// opReuse: N = index of the handler that takes over H's name, Mode = timing of the re-registration, StopBy = "stop"
	// (Handler.Stop) or "subclose" (the handler's subscription ends: its Subscriber is closed).
	N      int
	Mode   string
	StopBy string
	// opHandover: Stops = running handlers that are stopped, StopKinds[i] = "stop" | "subclose" for Stops[i], Issue / Ctor see above,
	// Park = middleware ids whose constructor parks (one per starting handler, Ctor == park), Jit = yields before the stops /
	// before RunHandlers (Issue == concurrent).
	Stops     []int
	StopKinds []string
	Issue     string
	Ctor      string
	Park      []int
	Jit       [2]int
}

// mwTarget: the handler index (-1 = router level) a step registers middlewares for; ok=false when it registers none.
func (s step) mwTarget() (int, bool) {
	switch s.Op {
	case opMW:
		return s.H, true
	case opReuse:
		return s.N, true
	}
	return 0, false
}

// fault makes a decorator constructor, or the Subscribe call of a handler's subscriber, fail transiently.
type fault struct {
	Kind  string // "pdec" | "sdec": decorator ID returns an error; "subscribe": Subscribe of handler ID's subscriber returns an error
	ID    int
	Nth   int // first failing invocation (1-based, counted per decorator / per handler subscriber over the whole program)
	Times int // number of consecutive failing invocations
}

func (f fault) String() string { return fmt.Sprintf("%s%d@%dx%d", f.Kind, f.ID, f.Nth, f.Times) }

type hspec struct {
	Name  string
	NoPub bool // AddNoPublisherHandler
	Out   int  // produced messages per incoming message
}

type program struct {
	Handlers  []hspec
	Steps     []step
	SharedSub bool   // all handlers use one scripted Subscriber (distinct topics)
	SharedPub bool   // all handlers use one scripted Publisher
	PLib      []bool // publisher decorator id -> built with message.MessageTransformPublisherDecorator (else own wrapper)
	SLib      []bool // same for subscriber decorators
	Rounds    int    // messages per handler (2 = a second one after a repeated RunHandlers)
	DelivRev  bool   // deliver to newly started handlers in descending index order
	// Faults (retry classes): injected transient errors. A Run / RunHandlers call that returns an injected error is
	// retried with RunHandlers until it returns nil. HasFaults is set even when the list is empty.
	Faults    []fault
	HasFaults bool
	// DeliverBetween: handlers that a failed RunHandlers call did start get their message before the retry (else after it).
	DeliverBetween bool
	// RetryRun: after a Run call that returned an injected error the caller first calls Run again (the router refuses
	// that: "router is already running"), then RunHandlers.
	RetryRun bool
	// HasRejected / HasReuse: the program contains rejected calls / reused names (classes rejected, reuse).
	HasRejected bool
	HasReuse    bool
	HasHandover bool
}

func (p *program) String() string {
	var b strings.Builder
	for i, s := range p.Steps {
		if i > 0 {
			b.WriteByte(' ')
		}
		switch s.Op {
		case opAddH:
			fmt.Fprintf(&b, "addh(h%d)", s.H)
		case opMW:
			t := "R"
			if s.H >= 0 {
				t = fmt.Sprintf("h%d", s.H)
			}
			fmt.Fprintf(&b, "mw(%s:%s)%s", t, ints(s.IDs), s.argMark())
		case opPDec, opSDec:
			fmt.Fprintf(&b, "%s(%s)%s", s.Op, ints(s.IDs), s.argMark())
		case opDupAdd:
			if s.Variant {
				fmt.Fprintf(&b, "dupaddnp(h%d)", s.H)
			} else {
				fmt.Fprintf(&b, "dupaddh(h%d)", s.H)
			}
		case opEarlyStop:
			fmt.Fprintf(&b, "stop!(h%d)", s.H)
		case opReuse:
			fmt.Fprintf(&b, "reuse(h%d->h%d:%s;%s,%s)", s.H, s.N, ints(s.IDs), s.Mode, s.StopBy)
		case opHandover:
			b.WriteString("handover(")
			for i, h := range s.Stops {
				if i > 0 {
					b.WriteByte(',')
				}
				fmt.Fprintf(&b, "h%d/%s", h, s.StopKinds[i])
			}
			fmt.Fprintf(&b, ";%s;%s", s.Issue, s.Ctor)
			if s.Ctor == ctorPark {
				fmt.Fprintf(&b, ":%s", ints(s.Park))
			}
			if s.Issue == issueConcurrent {
				fmt.Fprintf(&b, ";jit%d/%d", s.Jit[0], s.Jit[1])
			}
			b.WriteString(")")
		default:
			b.WriteString(s.Op)
		}
	}
	if p.HasFaults {
		b.WriteString(" faults[")
		for i, f := range p.Faults {
			if i > 0 {
				b.WriteByte(' ')
			}
			b.WriteString(f.String())
		}
		fmt.Fprintf(&b, "] deliver-between=%v retry-run=%v", p.DeliverBetween, p.RetryRun)
	}
	return b.String()
}

// argMark: "~" = arguments passed in the caller's re-used slice, "~!" = and overwritten by the caller after the call.
func (s step) argMark() string {
	switch {
	case s.Alias && s.Poison:
		return "~!"
	case s.Alias:
		return "~"
	}
	return ""
}

func ints(v []int) string {
	s := make([]string, len(v))
	for i, x := range v {
		s[i] = fmt.Sprint(x)
	}
	return strings.Join(s, ",")
}

// ---------------------------------------------------------------------------------------------
// Reference model: what every handler must run, computed from the program text alone.

type expect struct {
	Started bool
	MW      []int // applicable middleware ids, earliest first (= outermost first)
	PDec    []int // publisher decorators in the order added
	SDec    []int // subscriber decorators in the order added
	// Stable: no router-level registration follows the start of this handler, so later messages
	// must show the same trace (registrations after the start are unspecified and never judged).
	Stable  bool
	Foreign bool // some other handler's middleware is registered before this handler starts
	// reuse class: Stopped = the handler is stopped by a later reuse step (no second-round message); Reused = the handler took
	// over the name of a stopped one; PredOwn = that one had handler-level middlewares of its own (inheritance observable)
	Stopped bool
	Reused  bool
	PredOwn bool
	Own     int // handler-level middlewares of its own
	// handover class: Handover = started by a handover step (while other handlers stop); ShiftObs = one of the handlers stopped by
	// that step has a handler-level middleware registered BEFORE one of the middlewares this handler runs (so a starting handler that
	// looked at the list while the stopped handler's entries were removed from it could see moved entries)
	Handover bool
	ShiftObs bool
}

func model(p *program) []expect {
	type reg struct{ id, target int }
	var regs []reg
	var pd, sd []int
	added := map[int]bool{}
	ex := make([]expect, len(p.Handlers))
	stopped := map[int]bool{}
	pred := map[int]int{}
	for _, s := range p.Steps {
		switch s.Op {
		case opAddH:
			added[s.H] = true
		case opReuse:
			stopped[s.H] = true
			added[s.N] = true
			pred[s.N] = s.H
			for _, id := range s.IDs {
				regs = append(regs, reg{id, s.N})
			}
		case opMW:
			for _, id := range s.IDs {
				regs = append(regs, reg{id, s.H})
			}
			if s.H < 0 {
				for h := range ex {
					if ex[h].Started {
						ex[h].Stable = false
					}
				}
			}
		case opPDec:
			pd = append(pd, s.IDs...)
		case opSDec:
			sd = append(sd, s.IDs...)
		case opRun, opRunH, opHandover:
			stopNow := map[int]bool{}
			if s.Op == opHandover {
				for _, h := range s.Stops {
					stopped[h], stopNow[h] = true, true
				}
			}
			for h := range ex {
				if !added[h] || ex[h].Started {
					continue
				}
				e := expect{Started: true, Stable: true, Handover: s.Op == opHandover}
				removedBefore := false
				for _, r := range regs {
					if r.target < 0 || r.target == h {
						e.MW = append(e.MW, r.id)
						if r.target == h {
							e.Own++
						}
						if removedBefore {
							e.ShiftObs = true
						}
					} else {
						e.Foreign = true
						if stopNow[r.target] {
							removedBefore = true
						}
					}
				}
				e.PDec = append([]int(nil), pd...)
				e.SDec = append([]int(nil), sd...)
				ex[h] = e
			}
		}
	}
	for h := range ex {
		ex[h].Stopped = stopped[h]
		if o, ok := pred[h]; ok {
			ex[h].Reused, ex[h].PredOwn = true, ex[o].Own > 0
		}
	}
	return ex
}

func mwTrace(mw []int, h int) []string {
	var t []string
	for _, id := range mw {
		t = append(t, fmt.Sprintf("e%d", id))
	}
	t = append(t, fmt.Sprintf("H%d", h))
	for i := len(mw) - 1; i >= 0; i-- {
		t = append(t, fmt.Sprintf("l%d", mw[i]))
	}
	return t
}

func decTrace(ids []int) string {
	var b strings.Builder
	for _, id := range ids {
		fmt.Fprintf(&b, "%d,", id)
	}
	return b.String()
}

// ---------------------------------------------------------------------------------------------
// Exhaustive enumeration: every registration sequence over {R, A, B} up to length L, with the two
// AddHandler calls in every position the API allows, and (where it makes a difference) consecutive
// same-target registrations once as separate calls and once as one variadic call.

type exhDesc struct {
	seq     []int8 // 0 = router level, 1 = handler A (h0), 2 = handler B (h1)
	pA, pB  int    // AddHandler(X) happens just before registration number pX (len(seq) = after all)
	bFirst  bool   // when pA == pB: AddHandler(B) before AddHandler(A)
	grouped bool
}

var (
	exhMu    sync.Mutex
	exhCache = map[int][]exhDesc{}
)

func exhEnumerate(L int) []exhDesc {
	exhMu.Lock()
	defer exhMu.Unlock()
	if d, ok := exhCache[L]; ok {
		return d
	}
	var out []exhDesc
	seq := make([]int8, 0, L)
	emit := func() {
		n := len(seq)
		fa, fb := n, n
		for i := n - 1; i >= 0; i-- {
			if seq[i] == 1 {
				fa = i
			}
			if seq[i] == 2 {
				fb = i
			}
		}
		for pa := 0; pa <= fa; pa++ {
			for pb := 0; pb <= fb; pb++ {
				for _, bf := range []bool{false, true} {
					if bf && pa != pb {
						continue
					}
					d := exhDesc{seq: append([]int8(nil), seq...), pA: pa, pB: pb, bFirst: bf}
					out = append(out, d)
					// the variadic variant, when some adjacent pair can be merged
					single := exhSteps(d)
					d.grouped = true
					if len(exhSteps(d)) != len(single) {
						out = append(out, d)
					}
				}
			}
		}
	}
	var rec func()
	rec = func() {
		emit()
		if len(seq) == L {
			return
		}
		for s := int8(0); s < 3; s++ {
			seq = append(seq, s)
			rec()
			seq = seq[:len(seq)-1]
		}
	}
	rec()
	exhCache[L] = out
	return out
}

func exhSteps(d exhDesc) []step {
	var st []step
	n := len(d.seq)
	for p := 0; p <= n; p++ {
		a, b := d.pA == p, d.pB == p
		switch {
		case a && b && d.bFirst:
			st = append(st, step{Op: opAddH, H: 1}, step{Op: opAddH, H: 0})
		case a && b:
			st = append(st, step{Op: opAddH, H: 0}, step{Op: opAddH, H: 1})
		case a:
			st = append(st, step{Op: opAddH, H: 0})
		case b:
			st = append(st, step{Op: opAddH, H: 1})
		}
		if p < n {
			st = append(st, step{Op: opMW, H: int(d.seq[p]) - 1, IDs: []int{p}})
		}
	}
	if d.grouped {
		st = mergeAdjacent(st, func(int) bool { return true })
	}
	return st
}

// mergeAdjacent merges neighbouring mw steps with the same target into one variadic call where merge(i) says so.
func mergeAdjacent(st []step, merge func(i int) bool) []step {
	var out []step
	for i, s := range st {
		if n := len(out); n > 0 && s.Op == opMW && out[n-1].Op == opMW && out[n-1].H == s.H && merge(i) {
			out[n-1].IDs = append(append([]int(nil), out[n-1].IDs...), s.IDs...)
			continue
		}
		out = append(out, s)
	}
	return out
}

// compositions of 0..5 into ordered positive parts: 1+1+2+4+8+16 = 32 shapes of "n decorators added by these calls".
var compositions = func() [][]int {
	out := [][]int{{}}
	for n := 1; n <= 5; n++ {
		for mask := 0; mask < 1<<(n-1); mask++ {
			var parts []int
			cur := 1
			for i := 0; i < n-1; i++ {
				if mask&(1<<i) != 0 {
					parts = append(parts, cur)
					cur = 1
				} else {
					cur++
				}
			}
			out = append(out, append(parts, cur))
		}
	}
	return out
}()

func decSteps(op string, comp []int) []step {
	var st []step
	id := 0
	for _, n := range comp {
		s := step{Op: op}
		for i := 0; i < n; i++ {
			s.IDs = append(s.IDs, id)
			id++
		}
		st = append(st, s)
	}
	return st
}

func insertSteps(st []step, at int, ins []step) []step {
	out := append([]step(nil), st[:at]...)
	out = append(out, ins...)
	return append(out, st[at:]...)
}

// exhProgram builds program number k of the enumeration. The decorator shape cycles with k through all
// 32 x 32 (publisher composition, subscriber composition) pairs; the decorator calls are spliced into
// the program at a position that also cycles with k.
func exhProgram(d exhDesc, k int, id string) *program {
	p := &program{
		Handlers: []hspec{{Name: id + "/h", Out: 1}, {Name: id + "/h2", Out: 1}}, // A's name is a prefix of B's
		Rounds:   1,
		DelivRev: k%2 == 1,
	}
	st := exhSteps(d)
	pc, sc := compositions[k%32], compositions[(k/32)%32]
	ps, ss := decSteps(opPDec, pc), decSteps(opSDec, sc)
	// interleave the publisher and subscriber decorator calls
	var ds []step
	for i := 0; i < len(ps) || i < len(ss); i++ {
		if i < len(ps) {
			ds = append(ds, ps[i])
		}
		if i < len(ss) {
			ds = append(ds, ss[i])
		}
	}
	st = insertSteps(st, (k/1024+k)%(len(st)+1), ds)
	p.Steps = append(st, step{Op: opRun})
	for i := 0; i < 5; i++ {
		p.PLib = append(p.PLib, (k>>uint(i))&1 == 0)
		p.SLib = append(p.SLib, (k>>uint(i+2))&1 == 1)
	}
	return p
}

// ---------------------------------------------------------------------------------------------
// Random programs: 4 handlers, up to 20 registrations, handlers started by Run or by a later RunHandlers.

func randProgram(r *vlib.Rand, id string) *program {
	const nH = 4
	p := &program{SharedSub: r.Chance(0.3), SharedPub: r.Chance(0.3), Rounds: 1, DelivRev: r.Bool()}
	names := []string{id + "/h", id + "/H", id + "/h2", id + "/g"}
	if r.Chance(0.25) {
		names[3] = "" // the empty handler name is what router-level middlewares carry internally
	}
	perm := r.Perm(nH)
	phase := make([]int, nH)
	maxPhase := 0
	for h := 0; h < nH; h++ {
		hs := hspec{Name: names[perm[h]], Out: r.Range(0, 2)}
		if r.Chance(0.15) {
			hs.NoPub, hs.Out = true, 0
		}
		p.Handlers = append(p.Handlers, hs)
		switch x := r.Intn(10); {
		case x < 5:
			phase[h] = 0
		case x < 8:
			phase[h] = 1
		default:
			phase[h] = 2
		}
		if phase[h] > maxPhase {
			maxPhase = phase[h]
		}
	}
	n := r.Range(0, 20)
	if r.Chance(0.7) {
		n = r.Range(8, 20)
	}
	// targets per phase
	byPhase := make([][]int, maxPhase+1) // target of each registration made in that phase
	for i := 0; i < n; i++ {
		if r.Chance(0.35) {
			ph := r.Intn(maxPhase + 1)
			byPhase[ph] = append(byPhase[ph], -1)
		} else {
			h := r.Intn(nH)
			byPhase[phase[h]] = append(byPhase[phase[h]], h)
		}
	}
	var steps []step
	for ph := 0; ph <= maxPhase; ph++ {
		var st []step
		tg := byPhase[ph]
		for _, j := range r.Perm(len(tg)) {
			st = append(st, step{Op: opMW, H: tg[j]})
		}
		for _, h := range r.Perm(nH) {
			if phase[h] != ph {
				continue
			}
			first := len(st)
			for i, s := range st {
				if s.Op == opMW && s.H == h {
					first = i
					break
				}
			}
			st = insertSteps(st, r.Intn(first+1), []step{{Op: opAddH, H: h}})
		}
		if ph == 0 {
			for _, d := range decSteps(opPDec, compositions[r.Intn(len(compositions))]) {
				st = insertSteps(st, r.Intn(len(st)+1), []step{d})
			}
			for _, d := range decSteps(opSDec, compositions[r.Intn(len(compositions))]) {
				st = insertSteps(st, r.Intn(len(st)+1), []step{d})
			}
			// random insertion may have permuted the decorator calls: renumber in call order below
			st = append(st, step{Op: opRun})
		} else {
			st = append(st, step{Op: opRunH})
		}
		steps = append(steps, st...)
	}
	// ids in call order
	mw, pd, sd := 0, 0, 0
	for i := range steps {
		switch steps[i].Op {
		case opMW:
			steps[i].IDs = []int{mw}
			mw++
		case opPDec:
			k := len(steps[i].IDs)
			steps[i].IDs = nil
			for j := 0; j < k; j++ {
				steps[i].IDs = append(steps[i].IDs, pd)
				pd++
			}
		case opSDec:
			k := len(steps[i].IDs)
			steps[i].IDs = nil
			for j := 0; j < k; j++ {
				steps[i].IDs = append(steps[i].IDs, sd)
				sd++
			}
		}
	}
	steps = mergeAdjacent(steps, func(int) bool { return r.Bool() })
	p.Steps = steps
	if r.Bool() {
		p.Rounds = 2
	}
	for i := 0; i < 5; i++ {
		p.PLib = append(p.PLib, r.Bool())
		p.SLib = append(p.SLib, r.Bool())
	}
	return p
}

// ---------------------------------------------------------------------------------------------
// Class alias: a random program in which most registration calls pass their arguments in a caller-owned slice that
// is re-used by the following calls, extended from a common prefix, or overwritten right after the call returned.
// What was registered is the value of the arguments at call time.

func aliasProgram(r *vlib.Rand, id string) *program {
	p := randProgram(r, id)
	total := 0
	for _, s := range p.Steps {
		if s.Op == opMW {
			total += len(s.IDs)
		}
	}
	prev := -1 // index of the previous aliased mw step
	for i := range p.Steps {
		s := &p.Steps[i]
		if s.Op != opMW && s.Op != opPDec && s.Op != opSDec {
			continue
		}
		if !r.Chance(0.75) {
			continue
		}
		s.Alias = true
		s.Poison = r.Chance(0.4)
		if s.Op != opMW {
			continue
		}
		if prev >= 0 && r.Chance(0.4) {
			// append(base, x)... where base is a prefix of the previous call's argument slice
			k := r.Range(1, len(p.Steps[prev].IDs))
			if total+k <= 20 {
				total += k
				s.IDs = append(append([]int(nil), p.Steps[prev].IDs[:k]...), s.IDs...)
			}
		}
		prev = i
	}
	return p
}

func countAliased(p *program) (calls, poisoned int) {
	for _, s := range p.Steps {
		if s.Alias {
			calls++
			if s.Poison {
				poisoned++
			}
		}
	}
	return
}

// ---------------------------------------------------------------------------------------------
// Classes retry/*: a random program plus transient faults in decorator constructors and/or Subscribe.

const (
	famPDec = iota
	famSDec
	famSubscribe
	famMixed
	nFamilies
)

var familyName = [nFamilies]string{"pdec-fault", "sdec-fault", "subscribe-fault", "mixed"}

func decCounts(p *program) (np, ns int) {
	for _, s := range p.Steps {
		switch s.Op {
		case opPDec:
			np += len(s.IDs)
		case opSDec:
			ns += len(s.IDs)
		}
	}
	return
}

func retryProgram(r *vlib.Rand, id string, family int) *program {
	var p *program
	var np, ns int
	for try := 0; try < 50; try++ {
		p = randProgram(r, id)
		np, ns = decCounts(p)
		ok := false
		switch family {
		case famPDec:
			ok = np >= 2
		case famSDec:
			ok = ns >= 2
		case famSubscribe:
			ok = np+ns >= 1
		default:
			ok = np >= 1 && ns >= 1
		}
		if ok {
			break
		}
	}
	p.HasFaults = true
	p.DeliverBetween = r.Bool()
	p.RetryRun = r.Bool()
	nF := 1
	switch x := r.Intn(10); {
	case x >= 8:
		nF = 3
	case x >= 5:
		nF = 2
	}
	nH := len(p.Handlers)
	for i := 0; i < nF; i++ {
		kind := family
		if family == famMixed {
			kind = r.Intn(3)
		}
		f := fault{Times: 1}
		if r.Chance(0.25) {
			f.Times = 2
		}
		switch {
		case kind == famPDec && np > 0:
			f.Kind, f.ID, f.Nth = "pdec", r.Intn(np), r.Range(1, nH)
		case kind == famSDec && ns > 0:
			f.Kind, f.ID, f.Nth = "sdec", r.Intn(ns), r.Range(1, nH)
		default:
			f.Kind, f.ID, f.Nth = "subscribe", r.Intn(nH), 1
		}
		p.Faults = append(p.Faults, f)
	}
	return p
}

// ---------------------------------------------------------------------------------------------
// Class rejected: a random program interleaved with calls that fail as documented. A failing call registers nothing and
// must leave the registrations made so far as they are.

func addIdx(p *program, h int) int {
	for i, s := range p.Steps {
		if (s.Op == opAddH && s.H == h) || (s.Op == opReuse && s.N == h) {
			return i
		}
	}
	return -1
}

// startIdx: index of the Run/RunHandlers step that starts handler h.
func startIdx(p *program, h int) int {
	a := addIdx(p, h)
	if a < 0 {
		return -1
	}
	for i := a + 1; i < len(p.Steps); i++ {
		if p.Steps[i].Op == opRun || p.Steps[i].Op == opRunH || p.Steps[i].Op == opHandover {
			return i
		}
	}
	return -1
}

// ownBefore: index of the first handler-level registration for h (-1 if none).
func firstOwnIdx(p *program, h int) int {
	for i, s := range p.Steps {
		if t, ok := s.mwTarget(); ok && t == h && len(s.IDs) > 0 {
			return i
		}
	}
	return -1
}

func rejectedProgram(r *vlib.Rand, id string) *program {
	p := randProgram(r, id)
	p.HasRejected = true
	insertRejected(r, p, r.Range(1, 4), 0)
	return p
}

// insertRejected inserts n failing calls at positions >= from. Most of them hit a handler that has handler-level
// middlewares and is not yet started (what such a call could damage is observable only then).
func insertRejected(r *vlib.Rand, p *program, n, from int) {
	for i := 0; i < n; i++ {
		var cand, withOwn []int
		for h := range p.Handlers {
			if a, s := addIdx(p, h), startIdx(p, h); a >= 0 && s >= 0 && s >= from {
				cand = append(cand, h)
				if f := firstOwnIdx(p, h); f >= 0 && f < s {
					withOwn = append(withOwn, h)
				}
			}
		}
		if len(cand) == 0 {
			return
		}
		h := cand[r.Intn(len(cand))]
		if len(withOwn) > 0 && r.Chance(0.8) {
			h = withOwn[r.Intn(len(withOwn))]
		}
		a, s, f := addIdx(p, h), startIdx(p, h), firstOwnIdx(p, h)
		lo := a + 1
		if lo < from {
			lo = from
		}
		if lo > s {
			lo = s
		}
		runAt := -1
		for k, st := range p.Steps {
			if st.Op == opRun {
				runAt = k
			}
		}
		switch x := r.Intn(20); {
		case x < 2 && runAt >= from:
			p.Steps = insertSteps(p.Steps, r.Range(from, runAt), []step{{Op: opEarlyRunH}})
		case x < 5:
			p.Steps = insertSteps(p.Steps, r.Range(lo, s), []step{{Op: opEarlyStop, H: h}})
		default:
			at := r.Range(lo, s) // between AddHandler(h) and the call that starts h
			switch y := r.Intn(10); {
			case y < 6 && f >= 0 && f < s && f+1 >= lo:
				at = r.Range(f+1, s) // after at least one of h's own registrations
			case y >= 8:
				at = r.Range(lo, len(p.Steps)) // anywhere later, also when h is already running
			}
			p.Steps = insertSteps(p.Steps, at, []step{{Op: opDupAdd, H: h, Variant: r.Bool()}})
		}
	}
}

// ---------------------------------------------------------------------------------------------
// Class reuse: a random program (all of whose handlers are running and have handled a message at its end) followed by
// 1..3 rounds in which a running handler is stopped and its name is registered again.

func reuseProgram(r *vlib.Rand, id string) *program {
	p := randProgram(r, id)
	p.HasReuse = true
	nextID := 0
	for _, s := range p.Steps {
		if s.Op == opMW {
			for _, x := range s.IDs {
				if x >= nextID {
					nextID = x + 1
				}
			}
		}
	}
	ids := func(n int) []int {
		var v []int
		for i := 0; i < n; i++ {
			v = append(v, nextID)
			nextID++
		}
		return v
	}
	own := map[int]int{} // handler -> number of handler-level middlewares
	for _, s := range p.Steps {
		if s.Op == opMW && s.H >= 0 {
			own[s.H] += len(s.IDs)
		}
	}
	live := []int{0, 1, 2, 3}
	rounds := r.Range(1, 3)
	for k := 0; k < rounds; k++ {
		var st []step
		slot := r.Intn(len(live))
		if r.Chance(0.7) { // prefer a handler that has middlewares of its own (what its successor must not inherit)
			var c []int
			for i, h := range live {
				if own[h] > 0 {
					c = append(c, i)
				}
			}
			if len(c) > 0 {
				slot = c[r.Intn(len(c))]
			}
		}
		old := live[slot]
		// a bystander: a new handler whose name extends the reused one, registered (with middlewares of its own) BEFORE
		// the stop and started together with the re-registered handler
		if r.Chance(0.35) {
			b := len(p.Handlers)
			p.Handlers = append(p.Handlers, hspec{Name: fmt.Sprintf("%sb%d", p.Handlers[old].Name, k), Out: r.Range(0, 1)})
			st = append(st, step{Op: opAddH, H: b})
			if n := r.Range(0, 2); n > 0 {
				st = append(st, step{Op: opMW, H: b, IDs: ids(n)})
				own[b] = n
			}
		}
		nw := len(p.Handlers)
		hs := hspec{Name: p.Handlers[old].Name, Out: r.Range(0, 2)}
		if r.Chance(0.3) {
			hs.NoPub, hs.Out = true, 0
		}
		p.Handlers = append(p.Handlers, hs)
		ru := step{Op: opReuse, H: old, N: nw, StopBy: "stop"}
		switch x := r.Intn(20); {
		case x < 4:
			ru.Mode = modeWait
		case x < 10:
			ru.Mode = modeStep
		case x < 17:
			ru.Mode = modePollSlow
		default:
			ru.Mode = modePoll
		}
		if !p.SharedSub && r.Chance(0.3) {
			ru.StopBy = "subclose"
		}
		n1 := r.Range(0, 3)
		if r.Chance(0.6) {
			n1 = r.Range(1, 3)
		}
		ru.IDs = ids(n1)
		own[nw] = n1
		st = append(st, ru)
		// after old.Stopped(): further registrations in random order, then RunHandlers
		var tail []step // IDs: only the count matters here, the ids are given in call order below
		if r.Chance(0.5) {
			tail = append(tail, step{Op: opMW, H: -1, IDs: make([]int, r.Range(1, 2))})
		}
		if r.Chance(0.5) {
			n := r.Range(1, 2)
			tail = append(tail, step{Op: opMW, H: nw, IDs: make([]int, n)})
			own[nw] += n
		}
		if r.Chance(0.25) {
			tail = append(tail, step{Op: opMW, H: -1, IDs: make([]int, 1)})
		}
		for _, j := range r.Perm(len(tail)) {
			t := tail[j]
			t.IDs = ids(len(t.IDs))
			st = append(st, t)
		}
		st = append(st, step{Op: opRunH})
		from := len(p.Steps)
		p.Steps = append(p.Steps, st...)
		if r.Chance(0.4) {
			insertRejected(r, p, r.Range(1, 2), from)
		}
		live[slot] = nw
	}
	return p
}

func countReuse(p *program) (n int) {
	for _, s := range p.Steps {
		if s.Op == opReuse {
			n++
		}
	}
	return
}

// ---------------------------------------------------------------------------------------------
// Class handover: a random program (all of whose handlers are running and have handled a message at its end) followed by
// 1..3 rounds in which new handlers are added (with middlewares of their own) and started by RunHandlers WHILE running
// handlers (with middlewares of their own) stop: nobody waits for Stopped() before RunHandlers.

func handoverProgram(r *vlib.Rand, id string) *program {
	p := randProgram(r, id)
	p.HasHandover = true
	nextID := 0
	own := map[int]int{} // handler -> number of handler-level middlewares
	for _, s := range p.Steps {
		if s.Op == opMW {
			for _, x := range s.IDs {
				if x >= nextID {
					nextID = x + 1
				}
			}
			if s.H >= 0 {
				own[s.H] += len(s.IDs)
			}
		}
	}
	live := []int{0, 1, 2, 3}
	rounds := r.Range(1, 3)
	for k := 0; k < rounds; k++ {
		// the handlers that stop: one, or two at once; mostly ones with middlewares of their own (their entries are what the
		// router removes from its list while the new handlers start)
		nStop := 1
		if len(live) >= 3 && r.Chance(0.3) {
			nStop = 2
		}
		var stops []int
		rest := append([]int(nil), live...)
		for i := 0; i < nStop; i++ {
			slot := r.Intn(len(rest))
			if r.Chance(0.8) {
				var c []int
				for j, h := range rest {
					if own[h] > 0 {
						c = append(c, j)
					}
				}
				if len(c) > 0 {
					slot = c[r.Intn(len(c))]
				}
			}
			stops = append(stops, rest[slot])
			rest = append(rest[:slot], rest[slot+1:]...)
		}
		// the handlers that start: 1..3 new ones, registered (with their middlewares) while everything is quiet
		nNew := 1
		switch x := r.Intn(10); {
		case x >= 8:
			nNew = 3
		case x >= 4:
			nNew = 2
		}
		var st []step
		var fresh []int
		for i := 0; i < nNew; i++ {
			nw := len(p.Handlers)
			name := fmt.Sprintf("%s/n%d", id, nw)
			if r.Chance(0.3) { // a name that extends the name of a handler that stops
				name = fmt.Sprintf("%s~%d", p.Handlers[stops[r.Intn(len(stops))]].Name, nw)
			}
			hs := hspec{Name: name, Out: r.Range(0, 2)}
			if r.Chance(0.2) {
				hs.NoPub, hs.Out = true, 0
			}
			p.Handlers = append(p.Handlers, hs)
			fresh = append(fresh, nw)
			n := r.Range(0, 3)
			if r.Chance(0.7) {
				n = r.Range(1, 3)
			}
			own[nw] = n
			for ; n > 0; n-- { // one call per middleware here, merged at random below
				st = append(st, step{Op: opMW, H: nw})
			}
		}
		for n := r.Intn(3); n > 0; n-- {
			st = append(st, step{Op: opMW, H: -1})
		}
		shuffled := make([]step, len(st))
		for i, j := range r.Perm(len(st)) {
			shuffled[i] = st[j]
		}
		st = shuffled
		for _, h := range fresh {
			first := len(st)
			for i, s := range st {
				if s.Op == opMW && s.H == h {
					first = i
					break
				}
			}
			st = insertSteps(st, r.Intn(first+1), []step{{Op: opAddH, H: h}})
		}
		for i := range st {
			if st[i].Op == opMW {
				st[i].IDs = []int{nextID}
				nextID++
			}
		}
		st = mergeAdjacent(st, func(int) bool { return r.Bool() })
		ho := step{Op: opHandover, Stops: stops}
		for range stops {
			kind := "stop"
			if !p.SharedSub && r.Chance(0.3) {
				kind = "subclose"
			}
			ho.StopKinds = append(ho.StopKinds, kind)
		}
		switch x := r.Intn(20); {
		case x < 5:
			ho.Issue, ho.Ctor = issueParked, ctorPark
		case x < 10:
			ho.Issue, ho.Ctor = issueBefore, ctorPark
		case x < 13:
			ho.Issue, ho.Ctor = issueConcurrent, ctorPark
		case x < 15:
			ho.Issue, ho.Ctor = issueBefore, ctorPlain
		case x < 16:
			ho.Issue, ho.Ctor = issueBefore, ctorYield
		case x < 17:
			ho.Issue, ho.Ctor = issueConcurrent, ctorYield
		case x < 19:
			ho.Issue, ho.Ctor = issueConcurrent, ctorPlain
		default:
			ho.Issue, ho.Ctor = issueBefore, ctorSlow
			if r.Bool() {
				ho.Issue = issueConcurrent
			}
		}
		if ho.Issue == issueConcurrent {
			ho.Jit = [2]int{r.Intn(4), r.Intn(4)}
		}
		p.Steps = append(append(p.Steps, st...), ho)
		if ho.Ctor == ctorPark {
			// one parking constructor per starting handler: any of the middlewares it must run (router-level or its own)
			ex := model(p)
			seen := map[int]bool{}
			for _, h := range fresh {
				if mw := ex[h].MW; len(mw) > 0 {
					id := mw[r.Intn(len(mw))]
					if r.Chance(0.4) {
						id = mw[len(mw)-1] // the innermost one: its constructor is the first one called
					}
					if !seen[id] {
						seen[id] = true
						p.Steps[len(p.Steps)-1].Park = append(p.Steps[len(p.Steps)-1].Park, id)
					}
				}
			}
		}
		live = append(rest, fresh...)
	}
	return p
}

func countHandover(p *program) (n int) {
	for _, s := range p.Steps {
		if s.Op == opHandover {
			n++
		}
	}
	return
}
