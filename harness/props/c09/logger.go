package c09

import (
	"fmt"
	"runtime"
	"strings"
	"sync"

	"github.com/ThreeDotsLabs/watermill"
)

// harnessLogger is the watermill.LoggerAdapter handed to the Router in the reuse class. A LoggerAdapter is a public
// extension point: the Router calls it synchronously from its own goroutines, so a slow logger slows those goroutines
// down exactly where they log. While an epoch is armed the logger holds back (or only yields in) the calls that do NOT
// come from a harness goroutine - i.e. the calls of the Router's handler goroutines - without looking at the message text.
//
// vals holds the values of the fields the Router attached with With(): the logger the Router derives for one handler
// carries that handler's subscribe topic, which is how the step mode knows that a call is about the stopping handler
// (only that handler's goroutine - and RunHandlers, called by the harness - log through it).
type harnessLogger struct {
	c    *logCtl
	vals []string
}

func (l harnessLogger) Error(msg string, err error, fields watermill.LogFields) { l.c.call(l.vals) }
func (l harnessLogger) Info(msg string, fields watermill.LogFields)             { l.c.call(l.vals) }
func (l harnessLogger) Debug(msg string, fields watermill.LogFields)            { l.c.call(l.vals) }
func (l harnessLogger) Trace(msg string, fields watermill.LogFields)            { l.c.call(l.vals) }
func (l harnessLogger) With(fields watermill.LogFields) watermill.LoggerAdapter {
	n := harnessLogger{c: l.c, vals: append([]string(nil), l.vals...)}
	for _, v := range fields {
		n.vals = append(n.vals, fmt.Sprint(v))
	}
	return n
}

const (
	epStep  = iota // every call made through the logger the Router derived for the stopping handler (field value == key) parks until the harness releases it
	epSlow         // every call parks until the retrying goroutine made a few more attempts (gate) or is done
	epYield        // every call yields the processor a few times
)

type parkedCall struct{ release chan struct{} }

type logEpoch struct {
	mode   int
	key    string
	arrive chan *parkedCall // epStep: the parked call announces itself
	off    chan struct{}    // closed when the epoch ends: nothing parks any more
	once   sync.Once

	mu       sync.Mutex
	gate     chan struct{} // epSlow: closed and replaced after every `every` failed attempts
	every    int
	attempts int
	parks    int
}

type logCtl struct {
	mu    sync.Mutex
	ep    *logEpoch
	calls int
}

func (c *logCtl) arm(mode, every int, key string) *logEpoch {
	ep := &logEpoch{mode: mode, key: key, arrive: make(chan *parkedCall), off: make(chan struct{}), gate: make(chan struct{}), every: every}
	c.mu.Lock()
	c.ep = ep
	c.mu.Unlock()
	return ep
}

func (c *logCtl) disarm(ep *logEpoch) {
	c.mu.Lock()
	if c.ep == ep {
		c.ep = nil
	}
	c.mu.Unlock()
	ep.once.Do(func() { close(ep.off) })
}

// attempt: the retrying goroutine failed once more.
func (ep *logEpoch) attempt() {
	ep.mu.Lock()
	ep.attempts++
	if ep.every > 0 && ep.attempts%ep.every == 0 {
		close(ep.gate)
		ep.gate = make(chan struct{})
	}
	ep.mu.Unlock()
}

func (ep *logEpoch) stats() (parks, attempts int) {
	ep.mu.Lock()
	defer ep.mu.Unlock()
	return ep.parks, ep.attempts
}

func (c *logCtl) call(vals []string) {
	c.mu.Lock()
	c.calls++
	n := c.calls
	ep := c.ep
	c.mu.Unlock()
	if ep == nil || fromHarness() {
		return
	}
	switch ep.mode {
	case epStep:
		about := false
		for _, v := range vals {
			about = about || v == ep.key
		}
		if !about {
			return
		}
		p := &parkedCall{release: make(chan struct{})}
		select {
		case ep.arrive <- p:
			ep.mu.Lock()
			ep.parks++
			ep.mu.Unlock()
			select {
			case <-p.release:
			case <-ep.off:
			}
		case <-ep.off:
		}
	case epSlow:
		ep.mu.Lock()
		g := ep.gate
		ep.parks++
		ep.mu.Unlock()
		select {
		case <-g:
		case <-ep.off:
		}
	case epYield:
		for i := 0; i < n%4; i++ {
			runtime.Gosched()
		}
	}
}

// fromHarness: the logger was called (through the Router) from a goroutine that runs harness code, e.g. the caller of
// AddHandler, Run or RunHandlers. The Router's own goroutines have no harness frame below the logger.
func fromHarness() bool {
	var pcs [64]uintptr
	n := runtime.Callers(2, pcs[:])
	fr := runtime.CallersFrames(pcs[:n])
	for {
		f, more := fr.Next()
		if strings.Contains(f.Function, "props/c09.") && !strings.Contains(f.Function, "harnessLogger") && !strings.Contains(f.Function, "logCtl") && !strings.Contains(f.Function, "fromHarness") {
			return true
		}
		if !more {
			return false
		}
	}
}
